(* Generic driver: one S-expression per input line -> Model.dispatch -> one
   S-expression per output line.  No model logic lives here: this file only
   converts text <-> Model.sexp (integers through Coq's own Decimal type). *)
open Model

let uint_of_digits (s : string) (i : int) (j : int) : uint =
  (* digits s.[i..j-1], most significant first *)
  let rec go k acc =
    if k < i then acc
    else
      let acc' =
        match s.[k] with
        | '0' -> D0 acc | '1' -> D1 acc | '2' -> D2 acc | '3' -> D3 acc
        | '4' -> D4 acc | '5' -> D5 acc | '6' -> D6 acc | '7' -> D7 acc
        | '8' -> D8 acc | '9' -> D9 acc
        | c -> failwith (Printf.sprintf "bad digit %c" c)
      in
      go (k - 1) acc'
  in
  go (j - 1) Nil

let rec buf_uint (b : Buffer.t) (u : uint) : unit =
  match u with
  | Nil -> ()
  | D0 r -> Buffer.add_char b '0'; buf_uint b r
  | D1 r -> Buffer.add_char b '1'; buf_uint b r
  | D2 r -> Buffer.add_char b '2'; buf_uint b r
  | D3 r -> Buffer.add_char b '3'; buf_uint b r
  | D4 r -> Buffer.add_char b '4'; buf_uint b r
  | D5 r -> Buffer.add_char b '5'; buf_uint b r
  | D6 r -> Buffer.add_char b '6'; buf_uint b r
  | D7 r -> Buffer.add_char b '7'; buf_uint b r
  | D8 r -> Buffer.add_char b '8'; buf_uint b r
  | D9 r -> Buffer.add_char b '9'; buf_uint b r

let parse (s : string) : sexp =
  let n = String.length s in
  let pos = ref 0 in
  let skip () = while !pos < n && (s.[!pos] = ' ' || s.[!pos] = '\t') do incr pos done in
  let rec item () : sexp =
    skip ();
    if !pos >= n then failwith "unexpected end";
    if s.[!pos] = '(' then begin
      incr pos;
      let acc = ref [] in
      skip ();
      while !pos < n && s.[!pos] <> ')' do
        acc := item () :: !acc;
        skip ()
      done;
      if !pos >= n then failwith "missing )";
      incr pos;
      Li (List.rev !acc)
    end else begin
      let neg = s.[!pos] = '-' in
      if neg then incr pos;
      let i = !pos in
      while !pos < n && s.[!pos] >= '0' && s.[!pos] <= '9' do incr pos done;
      if !pos = i then failwith (Printf.sprintf "bad token at %d" i);
      (* Decimal.uint is written most-significant-first *)
      let u = uint_of_digits s i !pos in
      At (z_of_int (if neg then Neg u else Pos u))
    end
  in
  let r = item () in
  skip ();
  if !pos <> n then failwith "trailing input";
  r

let rec print (b : Buffer.t) (x : sexp) : unit =
  match x with
  | At z ->
    (match z_to_int z with
     | Pos u -> (match u with Nil -> Buffer.add_char b '0' | _ -> buf_uint b u)
     | Neg u -> Buffer.add_char b '-'; buf_uint b u)
  | Li l ->
    Buffer.add_char b '(';
    List.iteri (fun i y -> if i > 0 then Buffer.add_char b ' '; print b y) l;
    Buffer.add_char b ')'

let () =
  let b = Buffer.create 65536 in
  (try
     while true do
       let line = input_line stdin in
       Buffer.clear b;
       (try print b (dispatch (parse line))
        with Failure m -> Buffer.clear b; Buffer.add_string b ("!ERR " ^ m));
       Buffer.add_char b '\n';
       print_string (Buffer.contents b)
     done
   with End_of_file -> ());
  flush stdout

# C06 finding: a pre-serialised (string) message containing line breaks is forwarded verbatim -> several NDJSON lines.
# Run: PYTHONPATH=/repo/src:/verif/harness /venv/bin/python fixes/C06-repro.py
import json, anyio
from fakeproc import FakeProcess, patched_open_process
from chuk_mcp.transports.stdio.stdio_client import StdioClient
from chuk_mcp.transports.stdio.parameters import StdioParameters

async def main():
    proc = FakeProcess()
    with patched_open_process(proc):
        async with StdioClient(StdioParameters(command="child", args=[])) as c:
            _r, w = c.get_streams()
            await w.send(json.dumps({"jsonrpc": "2.0", "id": 1, "method": "ping"}, indent=2))   # valid JSON text, pretty-printed
            await w.send(json.dumps({"jsonrpc": "2.0", "id": 2, "method": "ping"}) + "\n")      # trailing newline
            for _ in range(50): await anyio.sleep(0)
            data = proc.stdin.data(); proc.stdout.close()
    print(data); print("messages sent: 2, LF bytes on the child's stdin:", data.count(b"\n"))
    assert data.count(b"\n") == 2, "one message is not one line"
anyio.run(main)

"""C03 at the compatibility entry point chuk_mcp.mcp_client.stdio_client_with_initialize: the caller's supported list is ignored."""
import sys, json, contextlib, anyio
sys.path.insert(0, "/verif/harness")
from fakeproc import FakeProcess, FakeStdin, patched_open_process
import chuk_mcp.mcp_client as shim
from chuk_mcp.transports.stdio.parameters import StdioParameters

async def main():
    proc = FakeProcess(); seen = []
    class Stdin(FakeStdin):
        def __init__(self): super().__init__(); self.buf = b""
        async def send(self, data):
            await super().send(data); self.buf += bytes(data)
            while b"\n" in self.buf:
                line, self.buf = self.buf.split(b"\n", 1)
                if line.strip():
                    m = json.loads(line); seen.append(m)
                    if m.get("method") == "initialize":
                        pv = m["params"]["protocolVersion"]
                        proc.stdout.feed((json.dumps({"jsonrpc": "2.0", "id": m["id"], "result": {"protocolVersion": pv, "capabilities": {}, "serverInfo": {"name": "s", "version": "1"}}}) + "\n").encode())
    proc.stdin = Stdin()
    with patched_open_process(proc):
        cm = contextlib.asynccontextmanager(shim.stdio_client_with_initialize)
        async with cm(StdioParameters(command="x", args=[]), supported_versions=["2024-11-05"], preferred_version=None, timeout=2.0) as (r, w, res):
            print("caller supports only ['2024-11-05']; proposed:", seen[0]["params"]["protocolVersion"], "; settled on:", res.protocolVersion)
            return res.protocolVersion == "2024-11-05"
ok = anyio.run(main)
print("PASS" if ok else "FAIL: the handshake settled on a version the caller did not offer")
sys.exit(0 if ok else 1)

# C16 findings on /repo HEAD 4efc7a1 (both repaired by fixes/C16-1-*.patch + fixes/C16-2-*.patch):
#  (1) leaving the stdio client context under a cancelled anyio scope skips _terminate_process: the child keeps running;
#  (2) a flooding child's stdout pipe stays open in the host after exit until the garbage collector runs.
# Run: PYTHONPATH=/repo/src /venv/bin/python fixes/C16-repro.py      (child script: harness/c16_child.py)
import asyncio, gc, os, signal, sys, tempfile, anyio, logging
logging.disable(logging.CRITICAL)
from chuk_mcp.transports.stdio.stdio_client import stdio_client
from chuk_mcp.transports.stdio.parameters import StdioParameters
CHILD = os.path.join(os.path.dirname(os.path.abspath(__file__)), "..", "harness", "c16_child.py")
nfd = lambda: len(os.listdir("/proc/self/fd"))
alive = lambda pid: os.path.exists(f"/proc/{pid}")

async def session(mode, timeout):
    fd, log = tempfile.mkstemp(); os.close(fd)
    params = StdioParameters(command=sys.executable, args=["-S", "-E", CHILD, mode, log, "0"])
    pid = None
    with anyio.move_on_after(timeout):                          # a timeout around the context
        async with stdio_client(params) as (read, write):
            pid = (await read.receive()).params["pid"]          # the child's readiness notification
            await anyio.sleep(1.0)
    await asyncio.sleep(0.3); os.unlink(log)
    return pid

async def main():
    gc.collect(); f0 = nfd()
    pid = await session("well", timeout=0.5)
    print(f"(1) well-behaved child after a timed-out (cancelled) exit: alive={alive(pid)}  fds {f0}->{nfd()}")
    bad1 = alive(pid)
    if bad1: os.killpg(pid, signal.SIGKILL)
    await asyncio.sleep(0.2); gc.collect(); await asyncio.sleep(0.1); f0 = nfd()
    pid = await session("floods", timeout=30)
    f1 = nfd(); gc.collect(); await asyncio.sleep(0.05)
    print(f"(2) flooding child after a normal exit: alive={alive(pid)}  fds {f0}->{f1} (after gc.collect(): {nfd()})")
    assert not bad1, "child left running after a timed-out (cancelled) exit"
    assert f1 <= f0, "descriptor left open after exit"
asyncio.run(main())

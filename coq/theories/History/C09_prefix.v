(** C09 -- the fallback AT THE PINNED COMMIT ([fb head]: unions tried in
    declaration order with coercion, [Literal] never checked,
    [Optional[Union[a, b]]] validated against [a] only) does not satisfy the
    property.  Informational: the claimed theorems (Props/C09.v) are about the
    fallback with fixes/C09-*.patch applied ([fb patched]). *)
From Verif.Base Require Import Prelude Json ValidSchema ValidWitness.
From Verif.Gen Require Import SchemaGen.
From Verif.Model Require Import Validate.
Open Scope Z_scope.

Definition C09_agree_on_valid_head_statement : Prop :=
  forall SS fuel t j, wf_schemas SS = true -> wf_ty t = true -> conforms SS fuel t j = true ->
    fallback_validate_head SS fuel t j = Some (ref_validate SS fuel t j).

(** (i) a digit-string id becomes an integer: Union[int, str] is tried in order with coercion *)
Lemma C09_head_refuted_by_id_123 : ~ C09_agree_on_valid_head_statement.
Proof.
  intro H. specialize (H all 6%nat (TModel n_request) j_req_id123 eq_refl eq_refl eq_refl).
  vm_compute in H. discriminate H.
Qed.

(** the same through Optional[Union[int, str]] (JSONRPCMessage.id): only the first member is kept *)
Lemma C09_head_refuted_by_message_id_123 : ~ C09_agree_on_valid_head_statement.
Proof.
  intro H. specialize (H all 6%nat (TModel n_message) j_msg_id123 eq_refl eq_refl eq_refl).
  vm_compute in H. discriminate H.
Qed.

(** (ii) audio content is typed ImageContent: first constructible member, Literal unchecked *)
Lemma C09_head_refuted_by_audio_variant : ~ C09_agree_on_valid_head_statement.
Proof.
  intro H. specialize (H all 8%nat (TModel n_toolresult) j_audio eq_refl eq_refl eq_refl).
  vm_compute in H. discriminate H.
Qed.

(** what the two models say about the id, spelled out *)
Example head_id_becomes_int :
  option_map (dump_by_alias all) (fallback_validate_head all 6%nat (TModel n_request) j_req_id123)
  = Some (JObj [([106; 115; 111; 110; 114; 112; 99], JStr [50; 46; 48]); ([105; 100], JInt 123);
                ([109; 101; 116; 104; 111; 100], JStr [109])]).
Proof. vm_compute. reflexivity. Qed.

Example patched_id_stays_string :
  option_map (dump_by_alias all) (fallback_validate all 6%nat (TModel n_request) j_req_id123)
  = Some (JObj [([106; 115; 111; 110; 114; 112; 99], JStr [50; 46; 48]); ([105; 100], JStr [49; 50; 51]);
                ([109; 101; 116; 104; 111; 100], JStr [109])]).
Proof. vm_compute. reflexivity. Qed.

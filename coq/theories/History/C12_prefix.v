(** History (informational, compiled, not claimed): establishment as it was
    BEFORE /repo commit 6d7ef23 "fix: SSE transport raises instead of yielding
    a connection without a message endpoint".  __aenter__ returned as soon as
    [_connected] was set — and _handle_sse_connection's [finally] sets it on
    every failure as well — without looking at [_message_url]. *)
From Coq Require Import Lia.
From Verif.Base Require Import Prelude SseVocab.
From Verif.Model Require Import SseLegacy.
Open Scope Z_scope.

(** [Live [] t]: entered with no message URL (a dead connection). *)
Definition enter_prefix (c : cfg) (base : str) (timeout : Z) (e : est) : enter_res :=
  match enter c base timeout e with
  | Live u t => Live u t
  | Raise t => if t <? timeout then Live [] t else Raise t     (* only the outer wait_for timeout raised *)
  end.

Definition live_or_raise_statement : Prop :=
  forall c base timeout e, 0 < timeout ->
  match enter_prefix c base timeout e with Live u _ => u <> [] | Raise t => t <= timeout end.

(** 404 at t = 10 ms, connect error, silently closed stream: all entered. *)
Lemma C12_prefix_live_or_raise_refuted : ~ live_or_raise_statement.
Proof.
  intros H. specialize (H cfg_orig [104;116;116;112;58;47;47;104] 5000 (EstResp 10 404 [] None)). 
  assert (0 < 5000) by lia. specialize (H H0). vm_compute in H. apply H. reflexivity.
Qed.

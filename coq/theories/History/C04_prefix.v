(** History (informational, not claimed): the initialize handler as it was
    BEFORE the commit "fix: server answers initialize with a supported protocol
    version only" (fb1b8cd).  The handler echoed whatever the request carried:

        protocol_version = params.get("protocolVersion", "2025-03-26")
        new_session_id = self.session_manager.create_session(client_info, protocol_version)
        result = {"protocolVersion": protocol_version, ...}

    (harness/translate_c04.py translates that text to [server_decide x := x].)
    The full C04 statement is refuted for this model by two witnesses, both
    replayed against the pre-fix code by the lead's probe (DESIGN.md section 7):
    "1999-01-01" and a non-string (123 / null). *)
From Verif.Base Require Import Prelude.
From Verif.Gen Require Import VersionsGen.
Open Scope Z_scope.

Inductive requested := RAbsent | RStr (s : str) | RNonStr.

Definition prefix_default : option str := Some [50;48;50;53;45;48;51;45;50;54].   (* "2025-03-26" *)

(** [Some s] = the JSON string s, [None] = a non-string JSON value, echoed as it came *)
Definition prefix_answer (r : requested) : option str :=
  match r with
  | RAbsent => prefix_default
  | RStr s => Some s
  | RNonStr => None
  end.
Definition prefix_session (r : requested) : option str := prefix_answer r.

Definition C04_answer_supported_statement : Prop :=
  forall r, exists v, prefix_answer r = Some v /\ mem_str v SUPPORTED_VERSIONS = true.

Definition v1999 : str := [49;57;57;57;45;48;49;45;48;49].    (* "1999-01-01" *)

Theorem C04_prefix_answer_supported_refuted : ~ C04_answer_supported_statement.
Proof.
  intro H. destruct (H (RStr v1999)) as [v [Hv Hin]].
  inversion Hv; subst v. vm_compute in Hin. discriminate Hin.
Qed.

Theorem C04_prefix_answer_is_a_string_refuted : ~ (forall r, prefix_answer r <> None).
Proof. intro H. apply (H RNonStr). reflexivity. Qed.

(** what did hold before the fix: supported requests were echoed, and the
    session recorded the (possibly unsupported) answer *)
Theorem C04_prefix_partial : forall s,
  mem_str s SUPPORTED_VERSIONS = true ->
  prefix_answer (RStr s) = Some s /\ prefix_session (RStr s) = prefix_answer (RStr s).
Proof. intros s _. split; reflexivity. Qed.

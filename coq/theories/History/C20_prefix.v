(** C20, history: the multi-server runner BEFORE /repo commit f107e18
    ("fix: multi-server runner unpacks load_config's (parameters, timeout)
    result").  It handed the loader's 2-tuple to stdio_client unchanged:

        server_params = await load_config(config_file, sname)
        cm = stdio_client(server_params)         # AttributeError: 'tuple' object has no attribute 'command'

    Informational; compiled, not claimed.  The full statement is refuted on this
    model by the smallest valid configuration. *)
From Verif.Base Require Import Prelude Json Decimal HostTypes.
From Verif.Spec Require Import C20.
From Verif.Model Require Import Config.
Open Scope Z_scope.

Definition runner_one_prefix (answers : str -> bool) (denv : envt) (src : source) (name : str)
  : list proc * Z :=
  match load_config src name with
  | Err _ => ([], 0)
  | Ok d => connect answers denv d            (* no unpacking *)
  end.

Definition runner_prefix (answers : str -> bool) (denv : envt) (src : source) (names : list str) : run_obs :=
  let rs := map (runner_one_prefix answers denv src) names in
  RunObs (flat_map fst rs) (fold_right Z.add 0 (map snd rs)).

Definition C20_runner_prefix_statement : Prop :=
  forall answers denv src names,
    Spec_run answers denv src names (runner_prefix answers denv src names).

(** {"mcpServers": {"a": {"command": "x"}}}, names ["a"], a server that answers. *)
Definition witness_cfg : json := JObj [ (k_mcpServers, JObj [ ([97], JObj [ (k_command, JStr [120]) ]) ]) ].

Lemma witness_launches_nothing :
  runner_prefix (fun _ => true) [] (SrcJson witness_cfg) [[97]] = RunObs [] 0.
Proof. vm_compute. reflexivity. Qed.

Theorem C20_runner_prefix_refuted : ~ C20_runner_prefix_statement.
Proof.
  intro H. specialize (H (fun _ => true) [] (SrcJson witness_cfg) [[97]]).
  rewrite witness_launches_nothing in H.
  assert (Hv : src_valid (SrcJson witness_cfg) = true) by (vm_compute; reflexivity).
  destruct (H Hv) as [H1 _]. vm_compute in H1. inversion H1.
Qed.

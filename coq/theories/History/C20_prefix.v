(** C20, history: the multi-server runner BEFORE /repo commit f107e18
    ("fix: multi-server runner unpacks load_config's (parameters, timeout)
    result").  It handed the loader's 2-tuple to stdio_client unchanged:

        server_params = await load_config(config_file, sname)
        cm = stdio_client(server_params)         # AttributeError: 'tuple' object has no attribute 'command'

    Informational; compiled, not claimed.  The full statement is refuted on this
    model by the smallest valid configuration. *)
From Verif.Base Require Import Prelude Json Decimal HostTypes.
From Verif.Spec Require Import C20.
From Verif.Model Require Import Config.
Open Scope Z_scope.

Definition runner_one_prefix (answers : str -> bool) (denv : envt) (src : source) (name : str)
  : list proc * Z :=
  match load_config src name with
  | Err _ => ([], 0)
  | Ok d => connect answers denv d            (* no unpacking *)
  end.

Definition runner_prefix (answers : str -> bool) (denv : envt) (src : source) (names : list str) : run_obs :=
  let rs := map (runner_one_prefix answers denv src) names in
  RunObs (flat_map fst rs) (fold_right Z.add 0 (map snd rs)).

Definition C20_runner_prefix_statement : Prop :=
  forall answers denv src names,
    Spec_run answers denv src names (runner_prefix answers denv src names).

(** {"mcpServers": {"a": {"command": "x"}}}, names ["a"], a server that answers. *)
Definition witness_cfg : json := JObj [ (k_mcpServers, JObj [ ([97], JObj [ (k_command, JStr [120]) ]) ]) ].

Lemma witness_launches_nothing :
  runner_prefix (fun _ => true) [] (SrcJson witness_cfg) [[97]] = RunObs [] 0.
Proof. vm_compute. reflexivity. Qed.

Theorem C20_runner_prefix_refuted : ~ C20_runner_prefix_statement.
Proof.
  intro H. specialize (H (fun _ => true) [] (SrcJson witness_cfg) [[97]]).
  rewrite witness_launches_nothing in H.
  assert (Hv : src_valid (SrcJson witness_cfg) = true) by (vm_compute; reflexivity).
  destruct (H Hv) as [H1 _]. vm_compute in H1. inversion H1.
Qed.

(* ------------------------------------------------------------------ *)
(** * The loader before fixes/C20-config-read-as-utf8.patch

    [open(config_path, "r")] decoded the file with the PROCESS LOCALE's
    encoding.  JSON text is UTF-8 (RFC 8259), and in the main model
    [SrcJson cfg] means "the file holds the UTF-8 JSON text of [cfg]" whatever
    the locale.  Before the patch a file with a raw non-ASCII character read
    under a non-UTF-8 locale raised UnicodeDecodeError (a ValueError) — or, under
    an 8-bit code page, was silently decoded to different strings.  The first
    behaviour is modelled here; the second cannot be exhibited with the locales
    installed on the verification host. *)
Inductive locale_enc : Type := LocUtf8 | LocAscii.
Inductive file_bytes : Type := AsciiOnly | RawNonAscii.

Definition load_config_prefix (loc : locale_enc) (fb : file_bytes) (src : source) (name : str) : result dyn :=
  match loc, fb, src with
  | LocAscii, RawNonAscii, SrcJson _ => Err EValue        (* UnicodeDecodeError <: ValueError *)
  | _, _, _ => load_config src name
  end.

Definition C20_loader_prefix_statement : Prop :=
  forall loc fb src name, Spec_load src name (load_obs_of (load_config_prefix loc fb src name)).

(** {"mcpServers": {"a": {"command": "x", "args": ["é"]}}} written as raw UTF-8, ASCII locale. *)
Definition witness_cfg_utf8 : json :=
  JObj [ (k_mcpServers, JObj [ ([97], JObj [ (k_command, JStr [120]); (k_args, JArr [JStr [233]]) ]) ]) ].

Theorem C20_loader_prefix_refuted : ~ C20_loader_prefix_statement.
Proof.
  intro H. specialize (H LocAscii RawNonAscii (SrcJson witness_cfg_utf8) [97]).
  simpl in H. assert (Hv : valid_config witness_cfg_utf8 = true) by (vm_compute; reflexivity).
  specialize (H Hv). vm_compute in H. destruct H as [p [t [E _]]]. discriminate.
Qed.

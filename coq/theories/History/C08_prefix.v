(** History (informational, not claimed): the dispatcher as it was BEFORE the
    five C08 `fix:` commits, with the concrete input on which each version
    violated the property.  [handle_old v] is Model/Dispatch.v's [handle] with
    the repaired places switched back individually. *)
From Verif.Base Require Import Prelude SrvCommon.
From Verif.Spec Require Import C08.
From Verif.Model Require Import Dispatch.
Open Scope Z_scope.

Record variant : Type := {
  v_guard_idless        : bool;   (* b0dae7f: error paths return (None, None) for id-less messages *)
  v_initialized_answers : bool;   (* 4e945d9: notifications/initialized sent WITH an id is answered *)
  v_nonstr_is_unknown   : bool;   (* e302ab4: a non-string tool name / uri is "unknown" (-32602) *)
  v_empty_method_lookup : bool;   (* b8fa8d1: [if method is None] instead of [if not method] *)
  v_safe_detail         : bool    (* e2c49d5: str(e) under its own try/except *)
}.

Definition fixed : variant := Build_variant true true true true true.

Definition error_path_old (v : variant) (i : option rid) (code : Z) : outcome :=
  if v_guard_idless v then error_path i code else of_mk (mk_error i code).

Definition find_target_old (v : variant) (n : jname) (reg : list (str * tbeh)) : res (option tbeh) :=
  match n with
  | NUnhashable => if v_nonstr_is_unknown v then Ok None else Exn 0   (* [name in dict]: TypeError *)
  | _ => Ok (find_target n reg)
  end.

Definition run_handler_old (v : variant) (srv : server) (h : handler) (i : option rid) (p : pshape) : res hres :=
  match h with
  | HInitialized => if v_initialized_answers v then run_handler srv h i p else Ok (RPair None)
  | HToolsCall =>
      bind (params_fields p) (fun '(n, _, a) =>
      bind (find_target_old v n (tools srv)) (fun t =>
      match t with
      | None => answer (mk_error i (-32602))
      | Some b => run_target i (args_mapping a) b
      end))
  | HResourcesRead =>
      bind (params_fields p) (fun '(_, u, _) =>
      bind (find_target_old v u (resources srv)) (fun t =>
      match t with
      | None => answer (mk_error i (-32602))
      | Some b => run_target i true b
      end))
  | _ => run_handler srv h i p
  end.

Definition outer_catch_old (v : variant) (i : option rid) (d : nat) : outcome :=
  match d, v_safe_detail v with
  | O, _ | _, true => error_path_old v i (-32603)
  | S _, false => Raised
  end.

Definition method_missing (v : variant) (meth : option str) : bool :=
  match meth with
  | None => true
  | Some [] => negb (v_empty_method_lookup v)
  | Some _ => false
  end.

Definition handle_old (v : variant) (srv : server) (m : msg) : outcome :=
  match m with
  | MBatch => NoResp
  | MSingle i meth p =>
      if method_missing v meth then error_path_old v i (-32600)
      else
        match assoc (match meth with Some s => s | None => [] end) (handlers srv) with
        | None => error_path_old v i (-32601)
        | Some h =>
            match run_handler_old v srv h i p with
            | Ok (RPair (Some e)) => Resp e
            | Ok (RPair None) => NoResp
            | Ok RJunk => Junk
            | Exn d => outer_catch_old v i d
            end
        end
  end.

Definition mcp : server := {| handlers := mcp_handlers; tools := [([111;107], TReturns)]; resources := [] |}.

(** with every repair switched on this IS the claimed model, on the examples *)
Example fixed_is_current :
  handle_old fixed mcp (MSingle None (Some [120]) PAbsent) = handle mcp (MSingle None (Some [120]) PAbsent)
  /\ handle_old fixed mcp (MSingle (Some (IdInt 1)) (Some s_initialized) PAbsent)
     = handle mcp (MSingle (Some (IdInt 1)) (Some s_initialized) PAbsent).
Proof. split; reflexivity. Qed.

(** b0dae7f — before: any unregistered notification (e.g. notifications/cancelled) RAISED *)
Definition s_cancelled : str :=
  [110;111;116;105;102;105;99;97;116;105;111;110;115;47;99;97;110;99;101;108;108;101;100].
Definition C08_never_raises_statement (v : variant) : Prop := forall srv m, handle_old v srv m <> Raised.

Lemma C08_prefix_b0dae7f_refuted : ~ C08_never_raises_statement (Build_variant false false false false false).
Proof. intro H. apply (H mcp (MSingle None (Some s_cancelled) PAbsent)). reflexivity. Qed.

(** e2c49d5 — before: a method handler raising an exception whose __str__ raises escaped *)
Lemma C08_prefix_e2c49d5_refuted : ~ C08_never_raises_statement (Build_variant true true true true false).
Proof.
  intro H.
  apply (H {| handlers := register_method [99] (HCustom (HRaises 1)) mcp_handlers; tools := []; resources := [] |}
           (MSingle (Some (IdInt 1)) (Some [99]) PAbsent)).
  reflexivity.
Qed.

Definition C08_request_statement (v : variant) : Prop := forall srv i meth p,
  contract_ok (Some i) (situation_of srv meth p) = true ->
  Spec_request i (situation_of srv meth p) (handle_old v srv (MSingle (Some i) (Some meth) p)).

(** 4e945d9 — before: {"id":1,"method":"notifications/initialized"} was never answered *)
Lemma C08_prefix_4e945d9_refuted : ~ C08_request_statement (Build_variant true false true true true).
Proof.
  intro H. specialize (H mcp (IdInt 1) s_initialized PAbsent eq_refl). vm_compute in H. discriminate H.
Qed.

(** e302ab4 — before: tools/call {"name":["ok"]} answered -32603 instead of -32602 *)
Lemma C08_prefix_e302ab4_refuted : ~ C08_request_statement (Build_variant true true false true true).
Proof.
  intro H. specialize (H mcp (IdInt 1) s_tools_call (PDict NUnhashable NAbsent AAbsent) eq_refl).
  vm_compute in H. discriminate H.
Qed.

(** b8fa8d1 — before: {"id":1,"method":""} answered -32600 instead of -32601 *)
Lemma C08_prefix_b8fa8d1_refuted : ~ C08_request_statement (Build_variant true true true false true).
Proof.
  intro H. specialize (H mcp (IdInt 1) [] PAbsent eq_refl). vm_compute in H. discriminate H.
Qed.

(** History (informational): the Streamable HTTP transport BEFORE fixes/C11-1..7
    (chuk-mcp at commit f107e18).  The pre-fix SSE parser and POST handling are
    modelled as the code was written; the full-strength statements are refuted
    by concrete witnesses, and the strongest true restriction of the round trip
    is proved (same generic proof as for the patched parser). *)
From Coq Require Import Lia.
From Verif.Base Require Import Prelude HttpBase.
From Verif.Model Require Import HttpSse HttpDispatch.
From Verif.Spec Require Import C11.
From Verif.Proofs Require Import HttpSse.
Open Scope Z_scope.

(* ------------------------------------------------------------------ *)
(** * The pre-fix parser                                                *)
(* ------------------------------------------------------------------ *)

Definition p_event_sp : str := [101;118;101;110;116;58;32].   (* "event: " *)
Definition p_data_sp : str := [100;97;116;97;58;32].          (* "data: " *)

(** [if line.startswith("event: "): current_event = line[7:].strip()
     elif line.startswith("data: "): event_data.append(line[6:])] *)
Definition classify_old (l : str) : line_class :=
  if starts_with p_event_sp l then LEvent (py_strip (skipn 7 l))
  else if starts_with p_data_sp l then LData (skipn 6 l)
  else LSkip.

(** [if current_event and event_data:] *)
Definition dispatchable_old (cur : option str) (data : list str) : bool :=
  match cur with
  | Some (_ :: _) => negb (is_nil data)
  | _ => false
  end.

(** [event_type in ["message", "response", None]], [full_data.strip().startswith("{")] *)
Definition event_payload_old (e : sse_event) : option str :=
  let '(cur, data) := e in
  if match cur with Some t => type_accepted t | None => true end then
    let s := py_strip (join_lf data) in
    match s with
    | c :: _ => if c =? 123 then Some s else None
    | [] => None
    end
  else None.

Definition sse_events_old (text : str) : list sse_event :=
  sse_run classify_old dispatchable_old None [] (sse_lines text).

Definition sse_messages_old (text : str) : list str :=
  flat_map (fun e => opt_list (event_payload_old e)) (sse_events_old text).

(** The full-strength statement, for the pre-fix parser. *)
Definition C11_sse_roundtrip_statement : Prop :=
  forall l, forallb event_ok l = true -> sse_messages_old (sse_encode l) = map snd l.

Definition plain (ev : ev_pos) (space crlf : bool) : enc_choice :=
  {| ec_before := []; ec_after := []; ec_event := ev; ec_space := space; ec_crlf := crlf; ec_blanks := 0 |}.

Definition m_empty_obj : str := [123;125].   (* "{}" *)

(** Witness 1: "event:message\ndata:{}\n\n" (no space after the colons) yields nothing. *)
Lemma nospace_lost : sse_messages_old (sse_encode [(plain EvBefore false false, m_empty_obj)]) = [].
Proof. vm_compute. reflexivity. Qed.

(** Witness 2: "data: {}\n\n" (no event field: default type "message") yields nothing. *)
Lemma noevent_lost : sse_messages_old (sse_encode [(plain EvAbsent true false, m_empty_obj)]) = [].
Proof. vm_compute. reflexivity. Qed.

Theorem C11_sse_roundtrip_refuted : ~ C11_sse_roundtrip_statement.
Proof.
  intros H. specialize (H [(plain EvBefore false false, m_empty_obj)] eq_refl).
  rewrite nospace_lost in H. discriminate H.
Qed.

Theorem C11_sse_roundtrip_refuted_noevent : ~ C11_sse_roundtrip_statement.
Proof.
  intros H. specialize (H [(plain EvAbsent true false, m_empty_obj)] eq_refl).
  rewrite noevent_lost in H. discriminate H.
Qed.

(** What the pre-fix parser did understand: a space after every colon and an explicit event field. *)
Definition adm_old (c : enc_choice) : bool :=
  ec_space c && match ec_event c with EvAbsent => false | _ => true end.

Lemma classify_old_extra : forall c x, adm_old c = true -> classify_old (extra_line c x) = LSkip.
Proof.
  intros c x H. unfold adm_old in H. apply andb_true_iff in H as [Hs _].
  unfold extra_line, sp. rewrite Hs. destruct x as [s|s|s]; reflexivity.
Qed.

Lemma classify_old_event : forall c, adm_old c = true -> classify_old (event_line c) = LEvent v_message.
Proof.
  intros c H. unfold adm_old in H. apply andb_true_iff in H as [Hs _].
  unfold event_line, sp. rewrite Hs. reflexivity.
Qed.

Lemma classify_old_data : forall c m, adm_old c = true -> classify_old (data_line c m) = LData m.
Proof.
  intros c m H. unfold adm_old in H. apply andb_true_iff in H as [Hs _].
  unfold data_line, sp. rewrite Hs. reflexivity.
Qed.

Lemma payload_old_of_event : forall c m,
  adm_old c = true -> msg_ok m = true -> event_payload_old (cur_of c, [m]) = Some m.
Proof.
  intros c m H Hm. unfold adm_old in H. apply andb_true_iff in H as [_ He].
  unfold event_payload_old, cur_of. destruct (ec_event c); try discriminate;
    (change (type_accepted v_message) with true; cbv iota;
     unfold join_lf; cbn [flat_map]; rewrite app_nil_r; rewrite (py_strip_msg _ Hm);
     destruct (msg_ok_shape _ Hm) as [t ->]; reflexivity).
Qed.

Theorem C11_sse_roundtrip_partial : forall l,
  forallb event_ok l = true ->
  forallb (fun cm => adm_old (fst cm)) l = true ->
  sse_messages_old (sse_encode l) = map snd l.
Proof.
  intros l H Ha. unfold sse_messages_old, sse_events_old.
  apply (generic_roundtrip classify_old dispatchable_old event_payload_old adm_old).
  - intros cur. destruct cur as [[|? ?]|]; reflexivity.
  - exact classify_old_extra.
  - intros c Hc _. apply classify_old_event. exact Hc.
  - intros c m Hc _. apply classify_old_data. exact Hc.
  - intros c m Hc. unfold adm_old in Hc. apply andb_true_iff in Hc as [_ He].
    unfold cur_of. destruct (ec_event c); try discriminate; reflexivity.
  - exact payload_old_of_event.
  - exact H.
  - exact Ha.
Qed.

(* ------------------------------------------------------------------ *)
(** * The pre-fix POST handling                                         *)
(* ------------------------------------------------------------------ *)

Section OldDispatch.
  Variable obj : Type.
  Variable obj_valid : obj -> bool.
  Variable loads : str -> jres obj.

  (** _route_response before the fixes: a list or scalar fails validation and
      is dropped; every object that validates is delivered. *)
  Definition route_value_old (v : jv obj) : list (outmsg obj) :=
    match v with
    | JObj o => if obj_valid o then [Server o] else []
    | _ => []
    end.

  Definition process_sse_old (body : str) : list (outmsg obj) :=
    flat_map (fun p => match loads p with JOk v => route_value_old v | JBad => [] end) (sse_messages_old body).

  (** Python truthiness of a message id: [if not message_id] *)
  Definition id_falsy (i : option jid) : bool :=
    match i with
    | None => true
    | Some (IdInt z) => z =? 0
    | Some (IdStr s) => is_nil s
    end.

  Definition post_old (st : tstate) (rq : request) (a : answer) : tstate * list (outmsg obj) :=
    match a with
    | Exc ExAsyncioTimeout => (st, synth obj rq (SError (-32000)))
    | Exc _ => (st, synth obj rq (SError (-32603)))
    | Resp status ctype body utf8 session =>
        if status >=? 400 then (st, synth obj rq (SError (-32603)))
        else
          (match session with Some s => Some s | None => st end,
           if contains s_app_json ctype then
             if utf8 then
               match loads body with
               | JOk v => route_value_old v
               | JBad => synth obj rq (SError (-32700))
               end
             else synth obj rq (SError (-32603))
           else if contains s_event_stream ctype then process_sse_old body
           else if is_nil body then
             (if id_falsy (rq_id rq) then [] else synth obj rq SResult)
           else if starts_with s_event_colon body || starts_with s_data_colon body then process_sse_old body
           else
             match loads body with
             | JOk v => route_value_old v
             | JBad => if status =? 202 then [] else synth obj rq (SError (-32603))
             end)
    end.
End OldDispatch.

(** Witnesses: a request (id 7, or id 0) that ends with NOTHING on the read stream. *)
Definition rq7 : request := {| rq_id := Some (IdInt 7); rq_method := true |}.
Definition rq0 : request := {| rq_id := Some (IdInt 0); rq_method := true |}.
Definition no_json (_ : str) : jres unit := JBad.
Definition scalar_json (_ : str) : jres unit := JOk JScalar.
Definition batch_json (_ : str) : jres unit := JOk (JArr [JObj tt]).

Definition C11_exactly_one_terminal_statement : Prop :=
  forall (loads : str -> jres unit) rq a, rq_id rq <> None -> rq_method rq = true ->
    snd (post_old unit (fun _ => true) loads None rq a) <> [].

(** 200 application/json with body "5" *)
Lemma scalar_body_nothing :
  snd (post_old unit (fun _ => true) scalar_json None rq7 (Resp 200 s_app_json [53] true None)) = [].
Proof. vm_compute. reflexivity. Qed.

(** 200 application/json with a batch array *)
Lemma batch_body_nothing :
  snd (post_old unit (fun _ => true) batch_json None rq7 (Resp 200 s_app_json [91;93] true None)) = [].
Proof. vm_compute. reflexivity. Qed.

(** 200 text/event-stream with an empty body *)
Lemma empty_sse_nothing :
  snd (post_old unit (fun _ => true) no_json None rq7 (Resp 200 s_event_stream [] true None)) = [].
Proof. vm_compute. reflexivity. Qed.

(** 202 with the body "ok" and no content type *)
Lemma junk_202_nothing :
  snd (post_old unit (fun _ => true) no_json None rq7 (Resp 202 [] [111;107] true None)) = [].
Proof. vm_compute. reflexivity. Qed.

(** request id 0, empty 202 *)
Lemma id_zero_nothing :
  snd (post_old unit (fun _ => true) no_json None rq0 (Resp 202 [] [] true None)) = [].
Proof. vm_compute. reflexivity. Qed.

Theorem C11_exactly_one_terminal_refuted : ~ C11_exactly_one_terminal_statement.
Proof.
  intros H. apply (H scalar_json rq7 (Resp 200 s_app_json [53] true None)); [discriminate | reflexivity |].
  exact scalar_body_nothing.
Qed.

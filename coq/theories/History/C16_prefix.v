(** C16 before fixes/C16-*.patch (informational; compiled, not claimed).

    [VHead]: /repo HEAD 4efc7a1.  [_terminate_process] is awaited inside the body
    of [__aexit__]; when the surrounding anyio cancel scope is cancelled
    [tg.__aexit__] re-raises the cancellation and the termination never runs:
    the child keeps running, with our pipe ends open.
    [VShield]: with the first patch only.  A flooding child's stdout pipe is
    paused, never sees EOF and stays open until the garbage collector finds it. *)
From Verif.Base Require Import Prelude.
From Verif.Gen Require Import ShutdownGen.
From Verif.Model Require Import Shutdown.
From Verif.Spec Require Import C16.
From Verif.Proofs Require Import Shutdown.
Open Scope Z_scope.

Definition C16_reaped_statement (v : variant) : Prop :=
  forall p c k, c_kill_exit c = Some k -> k < kill_grace_ticks -> x_reaped (aexit v p c) = true.

Definition C16_no_fd_statement (v : variant) : Prop :=
  forall p c k, c_kill_exit c = Some k -> k < kill_grace_ticks -> fds_left (aexit v p c) = 0.

(** HEAD: a perfectly well-behaved child survives a cancelled exit. *)
Theorem C16_head_reaped_refuted : ~ C16_reaped_statement VHead.
Proof.
  intro H. specialize (H PCancelScope (child_of (Some 0) (ExitsOnStdinEof 0)) 0 eq_refl eq_refl).
  vm_compute in H. discriminate.
Qed.

Theorem C16_head_no_fd_refuted : ~ C16_no_fd_statement VHead.
Proof.
  intro H. specialize (H PTimeoutScope (child_of (Some 0) IgnoresTerm) 0 eq_refl eq_refl).
  vm_compute in H. discriminate.
Qed.

(** strongest true restriction for HEAD: every path that is not a scope cancellation *)
Theorem C16_head_reaped_partial : forall p c k,
  level_cancelled p = false ->
  c_kill_exit c = Some k -> k < kill_grace_ticks -> x_reaped (aexit VHead p c) = true.
Proof. exact (aexit_reaped_uncancelled VHead). Qed.

(** first patch only: the child is always reaped (C16_reaped covers VShield), but a flooding
    child leaves a descriptor *)
Theorem C16_shield_only_no_fd_refuted : ~ C16_no_fd_statement VShield.
Proof.
  intro H. specialize (H PNormal (child_of (Some 0) (Floods false)) 0 eq_refl eq_refl).
  vm_compute in H. discriminate.
Qed.

Theorem C16_patched_no_fd : C16_no_fd_statement VShieldClose.
Proof.
  intros p c k Hk Hlt. apply aexit_no_fd_left. now apply (aexit_reaped VShieldClose p c k).
Qed.

(** C02 -- the code BEFORE fixes/C02-null-id-error-is-a-response.patch
    (informational; compiled, not claimed).

    [JSONRPCMessage.is_response] was "no method and an id": an error response
    whose id is null was none of request / notification / response.  Such a
    message is valid JSON-RPC 2.0, is what
    [BatchProcessor.create_batch_rejection_error()] builds by default and what
    the stdio client writes when it rejects a batch - and the library's own
    parser turned it into an object without a kind. *)
From Verif.Base Require Import Prelude Json Envelope.
From Verif.Spec Require Import C02.
From Verif.Model Require Import Envelope.
Open Scope Z_scope.

Definition kind_of_prefix (e : msg) : option kind :=
  match m_cls e with
  | CRequest => Some KReq
  | CNotification => Some KNotif
  | CResponse => Some KRes
  | CError => Some KErr
  | CUnified =>
      match m_method e, m_id e with
      | Some _, Some _ => Some KReq
      | Some _, None => Some KNotif
      | None, Some _ => if is_null (m_error e) then Some KRes else Some KErr
      | None, None => None
      end
  end.

Definition view_of_msg_prefix (e : msg) : option view :=
  match kind_of_prefix e with
  | Some k => Some {| v_kind := k; v_id := m_id e; v_method := m_method e;
                      v_params := m_params e; v_result := m_result e; v_error := m_error e |}
  | None => None
  end.

Definition C02_batch_rejection_roundtrip_prefix_statement : Prop :=
  forall fb i msg data,
  exists e, parse_message fb (batch_rejection_error i msg data) = Some e
            /\ Spec_roundtrip (batch_rejection_error i msg data) (view_of_msg_prefix e).

Theorem C02_batch_rejection_roundtrip_prefix_refuted : ~ C02_batch_rejection_roundtrip_prefix_statement.
Proof.
  intro H. destruct (H false None [] JNull) as [e [Hp [v [Hv Hm]]]].
  vm_compute in Hp. inversion Hp; subst. vm_compute in Hm. discriminate.
Qed.

(** the failing input, concretely: the parser accepts it, the result has no kind *)
Theorem C02_null_id_error_had_no_kind : forall fb msg data,
  exists e, parse_message fb (batch_rejection_error None msg data) = Some e
            /\ classify (batch_rejection_error None msg data) = inr KErr
            /\ view_of_msg_prefix e = None.
Proof. intros fb msg data. eexists. repeat split; reflexivity. Qed.

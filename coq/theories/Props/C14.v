(** C14 — deadlines, cancellation and progress behave the same under any traffic. *)
From Coq Require Import Lia Sorting.Sorted.
From Verif.Base Require Import Prelude.
From Verif.Gen Require Import ConstsGen ErrorsGen.
From Verif.Model Require Import Await.
From Verif.Spec Require Import C01 C14.
From Verif.Proofs Require Import Await AwaitSpec AwaitReadable.
Open Scope Z_scope.

(** The code's polling interval (regenerated from send_message.py) is positive
    and does not exceed the pinned 0.5 s. *)
Theorem C14_poll_interval_within_spec : 0 < sub_timeout_ticks <= poll_spec.
Proof. unfold sub_timeout_ticks, poll_spec. lia. Qed.
Print Assumptions C14_poll_interval_within_spec.

(** For EVERY history (incl. floods), every cancellation time, deadline, id and
    every resolution of same-instant events, each possible result passes the C14
    checker: it ends no later than the deadline; with a token triggered at c it
    ends no later than c + 50 ticks, as Cancelled (exactly one cancelled
    notification) unless the response or the deadline came first; a request
    cancelled before sending is never sent; the callback log is exactly the
    matching-token progress notifications that arrived before completion, in
    order. *)
Theorem C14_deadline_cancellation_progress :
  forall t0 D me has_cb cancel arrivals r,
  t0 <= D -> StronglySorted le_time arrivals ->
  In r (run sub_timeout_ticks is_retryable_error D me has_cb cancel t0 arrivals) ->
  c14_ok t0 D me has_cb cancel arrivals r = true.
Proof.
  intros t0 D me has_cb cancel arrivals r.
  exact (run_c14 sub_timeout_ticks is_retryable_error eq_refl t0 D me has_cb cancel arrivals r
           (proj2 C14_poll_interval_within_spec)).
Qed.
Print Assumptions C14_deadline_cancellation_progress.

(** Two readable consequences, stated without the checker. *)
Theorem C14_deadline : forall t0 D me has_cb cancel arrivals r,
  t0 <= D -> StronglySorted le_time arrivals ->
  In r (run sub_timeout_ticks is_retryable_error D me has_cb cancel t0 arrivals) ->
  r_end r <= D.
Proof.
  exact (ends_by_deadline sub_timeout_ticks is_retryable_error eq_refl (proj2 C14_poll_interval_within_spec)).
Qed.
Print Assumptions C14_deadline.

Theorem C14_cancel_latency : forall t0 D me has_cb c arrivals r,
  t0 <= D -> StronglySorted le_time arrivals ->
  In r (run sub_timeout_ticks is_retryable_error D me has_cb (Some c) t0 arrivals) ->
  r_end r <= Z.max t0 c + poll_spec /\
  (r_out r = Cancelled -> r_cancel_notifs r = 1 /\ c <= r_end r) /\
  (r_out r <> Cancelled -> r_cancel_notifs r = 0 /\ r_req_written r = true).
Proof.
  exact (cancel_latency sub_timeout_ticks is_retryable_error eq_refl (proj2 C14_poll_interval_within_spec)).
Qed.
Print Assumptions C14_cancel_latency.

(** The callback's own behaviour is not an input of the model at all: the
    request's outcome, writes and completion time are functions of the history
    alone (a failing callback cannot disturb them).  The tie checks the
    implementation with callbacks that raise at every position. *)

Example C14_nonvacuous :
  let me := IdStr [97] in
  let flood := map (fun k => (Z.of_nat k, MNotif)) (seq 1 300) in
  (* cancel at 0.305 s under a flood every tick: cancelled one tick later *)
  map (fun r => (r_out r, r_end r, r_cancel_notifs r))
      (run sub_timeout_ticks is_retryable_error 6000 me false (Some 30) 0 (firstn 100 flood))
    = [(Cancelled, 30, 1); (Cancelled, 31, 1)] /\
  (* no traffic: observed at the next poll boundary *)
  map (fun r => (r_out r, r_end r)) (run sub_timeout_ticks is_retryable_error 6000 me false (Some 30) 0 [])
    = [(Cancelled, 50)] /\
  (* flood with a 1 s timeout: still ends at the deadline *)
  forallb (fun r => match r_out r with Timeout => r_end r =? 100 | _ => false end)
          (run sub_timeout_ticks is_retryable_error 100 me false None 0 flood) = true /\
  (* progress: matching tokens only, in order *)
  map r_cb (run sub_timeout_ticks is_retryable_error 6000 me true None 0
              [(5, MProg true 1); (6, MProg false 2); (7, MProg true 3); (8, MRes me 9); (9, MProg true 4)])
    = [[1; 3]].
Proof. repeat split; vm_compute; reflexivity. Qed.

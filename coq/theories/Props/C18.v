(** C18 — concurrent requests on one connection: no cross-talk and no lost
    responses.  The first half holds; the second half is REFUTED on the
    faithful model (and on the real code, see known_findings.json): every
    waiter dequeues from the shared stream and discards what is not its own. *)
From Verif.Base Require Import Prelude AwaitTypes.
From Verif.Gen Require Import ErrorsGen.
From Verif.Model Require Import Concurrent.
From Verif.Spec Require Import C01 C18.
From Verif.Proofs Require Import Concurrent.
Open Scope Z_scope.

(** For EVERY number of callers, every delivery log (who dequeued what, in what
    order): a caller that completed holds a response that was delivered to it
    and bears its own id. *)
Theorem C18_no_crosstalk : forall ids log k i o,
  nth_error (replay is_retryable_error ids log) k = Some (i, Some o) ->
  exists m, In (Deliver k m) log /\ decide is_retryable_error i m = Some o.
Proof. exact (no_crosstalk is_retryable_error). Qed.
Print Assumptions C18_no_crosstalk.

Theorem C18_no_crosstalk_checker : forall ids log arrivals k i o dl,
  (forall j m, In (Deliver j m) log -> exists a, In (a, m) arrivals) ->
  nth_error (replay is_retryable_error ids log) k = Some (i, Some o) ->
  own_response arrivals {| c_id := i; c_deadline := dl; c_out := o |} = true.
Proof. exact (no_crosstalk_checker is_retryable_error). Qed.
Print Assumptions C18_no_crosstalk_checker.

(** The full second half ("every caller whose response was sent receives it"),
    kept visible, and its refutation by the two-caller witness
    [Deliver 0 (response of b); Deliver 1 (response of a)]. *)
Definition C18_no_lost_response_statement : Prop :=
  no_lost_response_statement is_retryable_error.

Theorem C18_no_lost_response_refuted : ~ C18_no_lost_response_statement.
Proof. exact (no_lost_response_refuted is_retryable_error). Qed.
Print Assumptions C18_no_lost_response_refuted.

(** Strongest true restriction: a waiter's outcome is the first answer bearing
    its id among the objects IT dequeued itself; nothing is lost when every
    response is dequeued by its addressee (e.g. a single outstanding request). *)
Theorem C18_no_lost_response_partial : forall log ws k i,
  nth_error ws k = Some (i, None) ->
  outcome_of (fold_left (step is_retryable_error) log ws) k = first_own is_retryable_error k i log.
Proof. exact (no_lost_response_partial is_retryable_error). Qed.
Print Assumptions C18_no_lost_response_partial.

Example C18_nonvacuous :
  let a := IdStr [97] in let b := IdStr [98] in
  (* answers in caller order: both complete *)
  map snd (replay is_retryable_error [a; b] [Deliver 0 (MRes a 1); Deliver 1 (MRes b 2)])
    = [Some (Return 1); Some (Return 2)] /\
  (* answers in the opposite order, each dequeued by the other caller: both lost *)
  map snd (replay is_retryable_error [a; b] [Deliver 0 (MRes b 2); Deliver 1 (MRes a 1)])
    = [None; None].
Proof. split; vm_compute; reflexivity. Qed.

(** C18 — concurrent requests on one connection: no cross-talk and no lost
    responses.  The first half holds; the second half is REFUTED on the
    faithful model (and on the real code, see known_findings.json): every
    waiter dequeues from the shared stream and discards what is not its own. *)
From Verif.Base Require Import Prelude AwaitTypes.
From Verif.Gen Require Import ErrorsGen.
From Verif.Model Require Import Concurrent ConcurrentFifo.
From Verif.Spec Require Import C01 C18.
From Verif.Proofs Require Import Concurrent ConcurrentFifo.
Open Scope Z_scope.

(** For EVERY number of callers, every delivery log (who dequeued what, in what
    order): a caller that completed holds a response that was delivered to it
    and bears its own id. *)
Theorem C18_no_crosstalk : forall ids log k i o,
  nth_error (replay is_retryable_error ids log) k = Some (i, Some o) ->
  exists m, In (Deliver k m) log /\ decide is_retryable_error i m = Some o.
Proof. exact (no_crosstalk is_retryable_error). Qed.
Print Assumptions C18_no_crosstalk.

Theorem C18_no_crosstalk_checker : forall ids log arrivals k i o dl,
  (forall j m, In (Deliver j m) log -> exists a, In (a, m) arrivals) ->
  nth_error (replay is_retryable_error ids log) k = Some (i, Some o) ->
  own_response arrivals {| c_id := i; c_deadline := dl; c_out := o |} = true.
Proof. exact (no_crosstalk_checker is_retryable_error). Qed.
Print Assumptions C18_no_crosstalk_checker.

(** The full second half ("every caller whose response was sent receives it"),
    kept visible, and its refutation by the two-caller witness
    [Deliver 0 (response of b); Deliver 1 (response of a)]. *)
Definition C18_no_lost_response_statement : Prop :=
  no_lost_response_statement is_retryable_error.

Theorem C18_no_lost_response_refuted : ~ C18_no_lost_response_statement.
Proof. exact (no_lost_response_refuted is_retryable_error). Qed.
Print Assumptions C18_no_lost_response_refuted.

(** Strongest true restriction: a waiter's outcome is the first answer bearing
    its id among the objects IT dequeued itself; nothing is lost when every
    response is dequeued by its addressee (e.g. a single outstanding request). *)
Theorem C18_no_lost_response_partial : forall log ws k i,
  nth_error ws k = Some (i, None) ->
  outcome_of (fold_left (step is_retryable_error) log ws) k = first_own is_retryable_error k i log.
Proof. exact (no_lost_response_partial is_retryable_error). Qed.
Print Assumptions C18_no_lost_response_partial.

Example C18_nonvacuous :
  let a := IdStr [97] in let b := IdStr [98] in
  (* answers in caller order: both complete *)
  map snd (replay is_retryable_error [a; b] [Deliver 0 (MRes a 1); Deliver 1 (MRes b 2)])
    = [Some (Return 1); Some (Return 2)] /\
  (* answers in the opposite order, each dequeued by the other caller: both lost *)
  map snd (replay is_retryable_error [a; b] [Deliver 0 (MRes b 2); Deliver 1 (MRes a 1)])
    = [None; None].
Proof. split; vm_compute; reflexivity. Qed.

(** Where the recorded finding does NOT reach.  Under the stream's FIFO wake-up
    discipline (Model/ConcurrentFifo.v; the correspondence run compares
    [fifo_log] with the log recorded on the real stream), for EVERY number of
    callers: when the answers come in the order in which the callers wait and
    nothing else is on the connection, every answered caller completes with
    ITS answer - so a lost response needs an answer out of order, a foreign
    object in between, or a poll instant that re-orders the waiters. *)
Theorem C18_in_request_order_nothing_lost : forall ids ans k m i,
  Forall (addressed is_retryable_error ids) ans ->
  map fst ans = firstn (length ans) (request_order ids) ->
  In (k, m) ans -> nth_error ids k = Some i ->
  outcome_of (replay is_retryable_error ids
                (fifo_log is_retryable_error ids (request_order ids) (map snd ans))) k
  = decide is_retryable_error i m.
Proof. exact (request_order_nothing_lost is_retryable_error). Qed.
Print Assumptions C18_in_request_order_nothing_lost.

Theorem C18_in_queue_order_nothing_lost : forall ids ans queue k m i,
  NoDup queue ->
  Forall (addressed is_retryable_error ids) ans ->
  map fst ans = firstn (length ans) queue ->
  In (k, m) ans -> nth_error ids k = Some i ->
  outcome_of (replay is_retryable_error ids
                (fifo_log is_retryable_error ids queue (map snd ans))) k
  = decide is_retryable_error i m.
Proof. exact (fifo_in_order_nothing_lost is_retryable_error). Qed.
Print Assumptions C18_in_queue_order_nothing_lost.

Example C18_fifo_nonvacuous :
  let a := IdStr [97] in let b := IdStr [98] in let c := IdStr [99] in
  let ids := [a; b; c] in
  (* the hypotheses are met by a three-caller burst of which two are answered, one with an error *)
  (Forall (addressed is_retryable_error ids) [(0%nat, MRes a 1); (1%nat, MErr b (-32603))]
   /\ map fst [(0%nat, MRes a 1); (1%nat, MErr b (-32603))] = firstn 2 (request_order ids)) /\
  map snd (replay is_retryable_error ids (fifo_log is_retryable_error ids (request_order ids) [MRes a 1; MErr b (-32603)]))
    = [Some (Return 1); Some (RaiseErr (is_retryable_error (-32603)) (-32603)); None] /\
  (* the refuting schedule of C18_no_lost_response_refuted IS the FIFO schedule of answers b, a *)
  fifo_log is_retryable_error [a; b] (request_order [a; b]) [MRes b 2; MRes a 1]
    = [Deliver 0 (MRes b 2); Deliver 1 (MRes a 1)] /\
  (* and one notification ahead of in-order answers rotates the queue: the hypothesis "nothing else" is needed *)
  map snd (replay is_retryable_error [a; b]
             (fifo_log is_retryable_error [a; b] (request_order [a; b]) [MNotif; MRes a 1; MRes b 2]))
    = [None; None].
Proof.
  cbv zeta. repeat split; try (vm_compute; reflexivity).
  repeat constructor; cbn; [exists (IdStr [97]), (Return 1) | exists (IdStr [98]), (RaiseErr (is_retryable_error (-32603)) (-32603))];
    split; vm_compute; reflexivity.
Qed.

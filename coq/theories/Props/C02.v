(** C02 -- Everything emitted is valid JSON-RPC 2.0 and survives the library's
    own parser.  Property theorems only; each is closed by [exact] of a lemma
    from Proofs/Envelope.v.  The grammar ([classify], [Spec_valid]), the view a
    wire form has ([view_of_wire]) and the round-trip / fidelity predicates are
    the specification (Spec/C02.v, written from the property text); the
    constructors, [dump_exclude_none] and [parse_message] are the model of
    json_rpc_message.py and mcp_pydantic_base.py (Model/Envelope.v), tied to the
    real code on every run by harness/c02.py.  [fb] selects the validation back
    end (false = Pydantic, true = the fallback); every theorem holds for both. *)
From Verif.Base Require Import Prelude Json Envelope.
From Verif.Spec Require Import C02.
From Verif.Model Require Import Envelope.
From Verif.Proofs Require Import Envelope.
From Verif.Proofs Require EnvelopeKind.
From Verif.Gen Require EnvelopeKindGen.
Open Scope Z_scope.

(** The extracted checkers the harness applies to the implementation's output
    decide the declarative specification. *)
Theorem C02_grammar_checker_reflects : forall j k, classify j = inr k <-> Spec_valid j k.
Proof. exact classify_spec. Qed.
Print Assumptions C02_grammar_checker_reflects.

Theorem C02_valid_checker_reflects : forall j, valid_jsonrpc j = true <-> exists k, Spec_valid j k.
Proof. exact valid_jsonrpc_spec. Qed.
Print Assumptions C02_valid_checker_reflects.

Theorem C02_roundtrip_checker_reflects : forall w p, roundtrip_ok w p = true <-> Spec_roundtrip w p.
Proof. exact roundtrip_ok_spec. Qed.
Print Assumptions C02_roundtrip_checker_reflects.

Theorem C02_carries_checker_reflects : forall i w, carries_ok i w = true <-> Spec_carries i w.
Proof. exact carries_ok_spec. Qed.
Print Assumptions C02_carries_checker_reflects.

(** Every constructor (create_request with and without a progress token,
    create_notification, create_response incl. result=None -> {},
    create_error_response incl. data omitted when None, and the four
    JSONRPCMessage classmethods), for ALL ids (IdInt / IdStr), methods, params
    objects, results, codes, messages and data: the dumped object is valid
    JSON-RPC 2.0 ... *)
Theorem C02_constructors_valid : forall fb,
  for_every_constructor fb (fun e _ => valid_jsonrpc (dump_exclude_none e) = true).
Proof. exact constructors_valid. Qed.
Print Assumptions C02_constructors_valid.

(** ... it says exactly what the caller asked for (kind, id with its JSON type,
    method, params, result, error) ... *)
Theorem C02_constructors_carry_what_was_asked : forall fb,
  for_every_constructor fb (fun e intent => Spec_carries intent (dump_exclude_none e)).
Proof. exact constructors_carry. Qed.
Print Assumptions C02_constructors_carry_what_was_asked.

(** ... and parse_message applied to it succeeds with a message of the same
    kind, id (constructor IdInt / IdStr included), method, params, result and
    error -- for every JSON payload, nested nulls included. *)
Theorem C02_roundtrip : forall fb,
  for_every_constructor fb (fun e intent =>
    exists e', parse_message fb (dump_exclude_none e) = Some e'
               /\ Spec_roundtrip (dump_exclude_none e) (view_of_msg e')
               /\ view_of_msg e' = Some intent).
Proof. exact constructors_roundtrip. Qed.
Print Assumptions C02_roundtrip.

Theorem C02_exactly_one_of_result_error : forall fb,
  for_every_constructor fb (fun e intent =>
    v_kind intent = KRes \/ v_kind intent = KErr -> exactly_one_of_result_error (dump_exclude_none e) = true).
Proof. exact constructors_exactly_one. Qed.
Print Assumptions C02_exactly_one_of_result_error.

(** ... which is a consequence of the grammar for ANY wire form judged valid. *)
Theorem C02_valid_response_has_exactly_one : forall j k,
  classify j = inr k -> (k = KRes \/ k = KErr) -> exactly_one_of_result_error j = true.
Proof. exact valid_exactly_one. Qed.
Print Assumptions C02_valid_response_has_exactly_one.

(** exclude_none drops top-level None attributes only: the recursive serialiser
    is the identity on every JSON value (induction over json). *)
Theorem C02_nested_payload_survives_dump : forall j, serialize_value j = j.
Proof. exact serialize_value_id. Qed.
Print Assumptions C02_nested_payload_survives_dump.

(** The parser on ANY valid wire form (not only the constructors' output).
    Full strength: every valid message round-trips under both back ends.  The
    model refutes it for the fallback back end: a response whose result is null
    (valid JSON-RPC 2.0, never built by a constructor) is refused there (the
    required-Any-null difference recorded under C09). *)
Definition C02_parser_roundtrips_every_valid_message_statement : Prop :=
  parser_roundtrips_every_valid_message.

Theorem C02_parser_roundtrips_every_valid_message_refuted :
  ~ C02_parser_roundtrips_every_valid_message_statement.
Proof. exact parser_roundtrips_every_valid_message_refuted. Qed.
Print Assumptions C02_parser_roundtrips_every_valid_message_refuted.

(** The strongest true restriction: every valid message round-trips - requests,
    notifications, results, errors with an integer, a string or a NULL id -
    except, under the fallback only, a null result. *)
Theorem C02_parser_roundtrips_every_valid_message_partial : forall fb m k,
  classify (JObj m) = inr k ->
  (fb = true -> k = KRes -> field k_result m <> JNull) ->
  exists e, parse_message fb (JObj m) = Some e /\ view_of_msg e = view_of_wire (JObj m).
Proof. exact parse_valid. Qed.
Print Assumptions C02_parser_roundtrips_every_valid_message_partial.

Theorem C02_parser_roundtrips_every_valid_message_pydantic : forall m k,
  classify (JObj m) = inr k ->
  exists e, parse_message false (JObj m) = Some e /\ view_of_msg e = view_of_wire (JObj m).
Proof. exact parse_valid_pydantic. Qed.
Print Assumptions C02_parser_roundtrips_every_valid_message_pydantic.

(** create_request(progress_token=t): when it does not raise, params._meta is an
    object whose progressToken is t (with its JSON type), every other member of
    params is untouched. *)
Theorem C02_progress_token_carried : forall params tok p,
  with_progress_token params tok = Some p ->
  exists p' mm, p = Some p' /\ assoc k_meta p' = Some (JObj mm)
                /\ assoc k_progressToken mm = Some (json_of_rid tok)
                /\ (forall k, str_eqb k k_meta = false ->
                     assoc k p' = assoc k (match params with Some m => m | None => [] end)).
Proof. exact progress_token_carried. Qed.
Print Assumptions C02_progress_token_carried.

(** BatchProcessor.create_batch_rejection_error: always a valid error response,
    and it round-trips for every id argument - None (a null id on the wire, what
    the stdio client sends when it rejects a batch) included. *)
Theorem C02_batch_rejection_valid : forall i msg data,
  classify (batch_rejection_error i msg data) = inr KErr.
Proof. exact batch_rejection_valid. Qed.
Print Assumptions C02_batch_rejection_valid.

Theorem C02_batch_rejection_roundtrip : forall fb i msg data,
  exists e, parse_message fb (batch_rejection_error i msg data) = Some e
            /\ Spec_roundtrip (batch_rejection_error i msg data) (view_of_msg e).
Proof. exact batch_rejection_roundtrip. Qed.
Print Assumptions C02_batch_rejection_roundtrip.

(** Non-vacuity: a request with a digit-string id, a 2^64-1 integer and nulls
    nested two levels deep in params is built, is valid, and parses back to the
    same view; a response keeps a null nested in its result; the constructors
    that can raise do succeed on ordinary input. *)
Example C02_nonvacuous :
  let params := Some [([97], JNull); ([98], JArr [JNull; JObj [([99], JNull)]]); ([100], JInt 18446744073709551615)] in
  let e := create_request [109] params (IdStr [52; 50]) in
  (exists m, e = Some m
      /\ valid_jsonrpc (dump_exclude_none m) = true
      /\ (exists m', parse_message false (dump_exclude_none m) = Some m'
            /\ view_of_msg m' = Some (intent_request (IdStr [52; 50]) [109] (params_json params))))
  /\ (exists m, create_response true (IdInt 0) (JObj [([114], JArr [JNull])]) = Some m
      /\ roundtrip_ok (dump_exclude_none m)
           (match parse_message true (dump_exclude_none m) with Some m' => view_of_msg m' | None => None end) = true)
  /\ (exists m, create_request_progress [109] (Some [([122], JNull)]) (IdInt (-1)) (IdInt 0) = Some m)
  /\ (exists m, u_create_response (IdInt 9223372036854775808) JNull = Some m)
  /\ classify (JObj [(k_jsonrpc, JStr v2); (k_id, JNull); (k_result, JObj [])]) = inl BadResponseId
  /\ classify (JObj [(k_jsonrpc, JStr v2); (k_id, JInt 1)]) = inl NeitherResultNorError.
Proof.
  cbv zeta. split; [|split; [|split; [|split; [|split]]]].
  - eexists. split; [reflexivity|]. split; [reflexivity|]. eexists. split; reflexivity.
  - eexists. split; reflexivity.
  - eexists. reflexivity.
  - eexists. reflexivity.
  - reflexivity.
  - reflexivity.
Qed.

(** The model's classification of a unified message ([kind_of], hand-written) is
    the one induced by the library's own predicates is_request /
    is_notification / is_error_response / is_response AS THEY STAND IN THE
    SOURCE: Gen/EnvelopeKindGen.v is regenerated from json_rpc_message.py on
    every run, so an edit to one of the four predicates breaks this proof. *)
Theorem C02_kind_of_is_the_sources_predicates : forall e,
  m_cls e = CUnified -> kind_of e = EnvelopeKind.kind_by_predicates e.
Proof. exact EnvelopeKind.kind_of_unified_is_generated. Qed.
Print Assumptions C02_kind_of_is_the_sources_predicates.

(** ... and, for the predicates as they stand: a message carrying an error and no
    method is an error response whatever its id (null included), an error
    response is a response, request / notification / response exclude one another. *)
Theorem C02_source_predicates_consistent : forall hm hi hr he,
  EnvelopeKindGen.is_error_response false hi hr true = true
  /\ (EnvelopeKindGen.is_request hm hi hr he = true -> EnvelopeKindGen.is_notification hm hi hr he = false
                                                      /\ EnvelopeKindGen.is_response hm hi hr he = false)
  /\ (EnvelopeKindGen.is_notification hm hi hr he = true -> EnvelopeKindGen.is_response hm hi hr he = false)
  /\ (EnvelopeKindGen.is_error_response hm hi hr he = true -> EnvelopeKindGen.is_response hm hi hr he = true).
Proof. exact EnvelopeKind.source_predicates_consistent. Qed.
Print Assumptions C02_source_predicates_consistent.

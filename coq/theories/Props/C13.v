(** C13 — Batches are accepted exactly for protocol versions older than
    2025-06-18.  Property theorems only; each is closed by [exact] of a lemma
    from Proofs/Batching.v.  [decide] is regenerated from batching.py on every
    run, the cutoff and [well_formed] are pinned in Spec/C13.v. *)
From Verif.Base Require Import Prelude.
From Verif.Gen Require Import BatchingGen.
From Verif.Model Require Import Batching.
From Verif.Spec Require Import C13.
From Verif.Proofs Require Import Batching.
Open Scope Z_scope.

(** The translated if-chain is "strictly before (2025, 6, 18)" for ALL integers. *)
Theorem C13_decide_is_before_cutoff : forall y m d : Z,
  decide y m d = true <->
  (y < 2025 \/ (y = 2025 /\ (m < 6 \/ (m = 6 /\ d < 18)))).
Proof. exact decide_is_before_cutoff. Qed.
Print Assumptions C13_decide_is_before_cutoff.

(** Whatever the property demands (None -> accept; well-formed string ->
    string order against the pinned cutoff), the model of supports_batching
    delivers — for every one of the 10^8 well-formed strings. *)
Theorem C13_decision_as_demanded : forall v b,
  demanded v = Some b -> supports_batching v = b.
Proof. exact supports_batching_demanded. Qed.
Print Assumptions C13_decision_as_demanded.

(** ... and it agrees with the library's own ordering ProtocolVersion.compare. *)
Theorem C13_agrees_with_compare : forall s,
  well_formed s = true ->
  (supports_batching (Some s) = true <-> version_compare s cutoff_str = Some Lt).
Proof. exact agrees_with_compare. Qed.
Print Assumptions C13_agrees_with_compare.

Theorem C13_monotone : forall s s',
  well_formed s = true -> well_formed s' = true ->
  str_compare s' s <> Gt ->
  supports_batching (Some s) = true -> supports_batching (Some s') = true.
Proof. exact monotone. Qed.
Print Assumptions C13_monotone.

Theorem C13_none_accepts : supports_batching None = true.
Proof. reflexivity. Qed.
Print Assumptions C13_none_accepts.

(** Every reachable BatchProcessor state has the mode of its recorded version,
    and after any history ending in a well-formed version the mode is the
    demanded one. *)
Theorem C13_mode_tracks_version : forall v0 vs s,
  well_formed s = true ->
  bp_enabled (fold_left bp_update (vs ++ [Some s]) (bp_init v0)) = str_ltb s cutoff_str.
Proof. exact mode_after_handshake. Qed.
Print Assumptions C13_mode_tracks_version.

Theorem C13_reject_single_error_no_delivery :
  forall (item msg : Type) (parse : item -> option msg) st l,
  bp_enabled st = false ->
  process_data parse st (Batch l) = ([], [RejectError (bp_version st)]).
Proof. exact reject_single_error_no_delivery. Qed.
Print Assumptions C13_reject_single_error_no_delivery.

Theorem C13_accept_members_in_order :
  forall (item msg : Type) (parse : item -> option msg) st l,
  bp_enabled st = true ->
  process_data parse st (Batch l) =
  (flat_map (fun i => match parse i with Some m => [m] | None => [] end) l, []).
Proof. exact accept_members_in_order. Qed.
Print Assumptions C13_accept_members_in_order.

Theorem C13_bad_member_dropped_alone :
  forall (item msg : Type) (parse : item -> option msg) st l1 i l2,
  parse i = None ->
  fst (process_data parse st (Batch (l1 ++ i :: l2))) =
  fst (process_data parse st (Batch (l1 ++ l2))).
Proof. exact bad_member_dropped_alone. Qed.
Print Assumptions C13_bad_member_dropped_alone.

(** Non-vacuity: the hypotheses are met by concrete, non-trivial inputs. *)
Example C13_nonvacuous :
  well_formed cutoff_str = true
  /\ demanded (Some cutoff_str) = Some false
  /\ demanded (Some [50;48;50;53;45;48;54;45;49;55]) = Some true     (* 2025-06-17 *)
  /\ demanded (Some [50;48;50;53;45;48;51;45;50;54]) = Some true     (* 2025-03-26 *)
  /\ supports_batching (Some [50;48;50;53;45;48;54;45;49;55]) = true
  /\ supports_batching (Some cutoff_str) = false
  /\ bp_enabled (fold_left bp_update [Some cutoff_str] (bp_init None)) = false.
Proof. repeat split; reflexivity. Qed.

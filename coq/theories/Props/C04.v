(** C04 — A library server never acknowledges a protocol version it does not
    support.  Property theorems only; each is closed by [exact] of a lemma from
    Proofs/ServerInit.v.  The server's default literal, its decision chain and
    "session and result carry the decided variable" are regenerated from the
    AST of ProtocolHandler._handle_initialize (Gen/ServerInitGen.v),
    SUPPORTED_VERSIONS / CURRENT_VERSION from versioning.py (Gen/VersionsGen.v)
    on every run.  [requested] covers EVERY request: no protocolVersion member,
    any string (any list of code points), any non-string JSON value. *)
From Verif.Base Require Import Prelude.
From Verif.Gen Require Import VersionsGen ServerInitGen.
From Verif.Model Require Import Batching Negotiation ServerInit.
From Verif.Spec Require Import C04.
From Verif.Proofs Require Import NegotFacts Negotiation ServerInit.
Open Scope Z_scope.

Theorem C04_answer_supported : forall r : requested,
  exists v, server_answer r = Some v /\ In v SUPPORTED_VERSIONS.
Proof. exact answer_supported. Qed.
Print Assumptions C04_answer_supported.

Theorem C04_never_acknowledges_unsupported : forall r v,
  server_answer r = Some v -> In v SUPPORTED_VERSIONS.
Proof. exact answer_never_unsupported. Qed.
Print Assumptions C04_never_acknowledges_unsupported.

Theorem C04_answer_is_a_string : forall r, server_answer r <> None.
Proof. exact answer_is_a_string. Qed.
Print Assumptions C04_answer_is_a_string.

Theorem C04_echo_when_supported : forall s,
  In s SUPPORTED_VERSIONS -> server_answer (RStr s) = Some s.
Proof. exact answer_echo_when_supported. Qed.
Print Assumptions C04_echo_when_supported.

Theorem C04_session_records_answer : forall r, session_version r = server_answer r.
Proof. exact session_records_answer. Qed.
Print Assumptions C04_session_records_answer.

(** the server model satisfies the specification written from the property text *)
Theorem C04_server_meets_spec : forall r, Spec_server (srv_obs_of r).
Proof. exact server_meets_spec. Qed.
Print Assumptions C04_server_meets_spec.

(** End to end: for every client list (None = the library's own), every
    preferred version, any noise before and anything after the server's
    response: the client model fed with the server model's response to its own
    proposal ends agreed on a version both support (which the session records,
    one initialized notification sent after the answer), or in VersionMismatch
    (no notification). *)
Theorem C04_handshake_agrees_or_mismatch : forall arg pref noise rest e p,
  propose (effective_supported arg) pref = Some p ->
  Forall (fun m => m = INoise) noise ->
  let r := client_init arg pref (noise ++ IAnswer (server_response p) :: rest) e true in
  (exists v, out r = Ok v /\ In v (effective_supported arg) /\ In v SUPPORTED_VERSIONS /\
             server_answer (RStr p) = Some v /\ session_version (RStr p) = Some v /\
             trace r = [ESend (WInit p); ERecv; ESend WInitialized])
  \/ (out r = VersionMismatch /\ count_initialized (trace r) = 0%nat /\
      exists w, server_answer (RStr p) = Some w /\ ~ In w (effective_supported arg)).
Proof. exact handshake_agrees_or_mismatch. Qed.
Print Assumptions C04_handshake_agrees_or_mismatch.

Theorem C04_handshake_meets_spec : forall arg pref noise rest e p,
  propose (effective_supported arg) pref = Some p ->
  Forall (fun m => m = INoise) noise ->
  Spec_handshake (hs_obs_of arg p
     (client_init arg pref (noise ++ IAnswer (server_response p) :: rest) e true)).
Proof. exact handshake_meets_spec. Qed.
Print Assumptions C04_handshake_meets_spec.

Theorem C04_server_checker_decides_spec : forall o, server_ok o = true <-> Spec_server o.
Proof. exact server_ok_iff. Qed.
Print Assumptions C04_server_checker_decides_spec.

Theorem C04_handshake_checker_decides_spec : forall o, handshake_ok o = true <-> Spec_handshake o.
Proof. exact handshake_ok_iff. Qed.
Print Assumptions C04_handshake_checker_decides_spec.

(** Non-vacuity, phrased over the regenerated constants so that a harmless
    change of the library's version list does not break it: the only pinned
    fact is that "1999-01-01" is NOT a supported version. *)
Definition w1999 : str := [49;57;57;57;45;48;49;45;48;49].    (* 1999-01-01 *)

Example C04_nonvacuous :
  In CURRENT_VERSION SUPPORTED_VERSIONS
  /\ ~ In w1999 SUPPORTED_VERSIONS
  /\ server_answer (RStr CURRENT_VERSION) = Some CURRENT_VERSION
  /\ (exists v, server_answer (RStr w1999) = Some v /\ v <> w1999 /\ session_version (RStr w1999) = Some v)
  /\ (exists v, server_answer RNonStr = Some v)
  /\ (exists v, server_answer RAbsent = Some v)
  /\ propose [w1999] None = Some w1999
  /\ out (client_init (Some [w1999]) None [IAnswer (server_response w1999)] EndSilence true) = VersionMismatch
  /\ (exists v, out (client_init (Some (w1999 :: SUPPORTED_VERSIONS)) None
                      [IAnswer (server_response w1999)] EndSilence true) = Ok v)
  /\ out (client_init None (Some CURRENT_VERSION) [INoise; IAnswer (server_response CURRENT_VERSION)] EndSilence true)
     = Ok CURRENT_VERSION
  /\ server_ok (srv_obs_of (RStr w1999)) = true.
Proof.
  repeat split; try (vm_compute; reflexivity).
  - apply mem_str_In. vm_compute. reflexivity.
  - apply mem_str_not_In. vm_compute. reflexivity.
  - vm_compute. eexists. repeat split. discriminate.
  - vm_compute. eexists. reflexivity.
  - vm_compute. eexists. reflexivity.
  - vm_compute. eexists. reflexivity.
Qed.

(** C05 — Stdio inbound framing is independent of how the byte stream is
    chunked.  Property theorems only; each is closed by [exact] of a lemma from
    Proofs/Lines.v or Proofs/StdioUtf8.v.

    [deliver : bytes -> list msg] is the per-line pipeline (decode, strip,
    skip blank, json.loads, batch handling, parse_message, every exception
    swallowed -> []); theorems 1-5 hold for EVERY such function.  Theorems 6-7
    use the modelled decode/strip ([deliver_line parse]) and leave only
    [parse] (json.loads + _process_message_data) abstract. *)
From Verif.Base Require Import Prelude StdioUtf8.
From Verif.Model Require Import Lines.
From Verif.Spec Require Import C05.
From Verif.Proofs Require Import StdioUtf8 Lines.
Open Scope Z_scope.

(** 1. Full statement.  Read the stream the child wrote as LF-terminated lines
    [ls] followed by an unterminated [tail] (this reading is unique).  Then for
    EVERY way of cutting the stream into chunks the reader hands over exactly
    what each line yields on its own, in order, and is left holding [tail]. *)
Theorem C05_delivers_exactly_the_lines :
  forall (msg : Type) (deliver : bytes -> list msg) chunks ls tail,
  Spec_lines (concat chunks) ls tail ->
  reader msg deliver [] chunks = (flat_map deliver ls, tail).
Proof. exact reader_delivers_lines. Qed.
Print Assumptions C05_delivers_exactly_the_lines.

Theorem C05_framing_exists_and_is_unique :
  forall stream,
  (exists ls tail, Spec_lines stream ls tail) /\
  (forall ls tail ls' tail', Spec_lines stream ls tail -> Spec_lines stream ls' tail' ->
                             ls = ls' /\ tail = tail').
Proof. exact framing_exists_and_is_unique. Qed.
Print Assumptions C05_framing_exists_and_is_unique.

Theorem C05_spec_delivery :
  forall (msg : Type) (deliver : bytes -> list msg) chunks,
  Spec_delivery deliver (concat chunks) (run msg deliver chunks).
Proof. exact run_spec_delivery. Qed.
Print Assumptions C05_spec_delivery.

(** 2. Chunk independence, including cuts inside multi-byte characters and
    inside CR LF: only the concatenation matters. *)
Theorem C05_chunk_independent :
  forall (msg : Type) (deliver : bytes -> list msg) chunks chunks',
  concat chunks = concat chunks' ->
  reader msg deliver [] chunks = reader msg deliver [] chunks'.
Proof. exact chunk_independent. Qed.
Print Assumptions C05_chunk_independent.

(** 3. A line that yields nothing (not UTF-8 / blank / not JSON / not a
    message) is dropped alone: the run equals the run on the stream without
    that line, for any chunkings of both. *)
Theorem C05_bad_line_dropped_alone :
  forall (msg : Type) (deliver : bytes -> list msg) ls1 l ls2 tail chunks chunks',
  deliver l = [] ->
  Forall no_lf (ls1 ++ l :: ls2) -> no_lf tail ->
  concat chunks = terminated (ls1 ++ l :: ls2) ++ tail ->
  concat chunks' = terminated (ls1 ++ ls2) ++ tail ->
  run msg deliver chunks = run msg deliver chunks'.
Proof. exact bad_line_dropped_alone. Qed.
Print Assumptions C05_bad_line_dropped_alone.

(** 4. Every terminated line is delivered, the unterminated tail is not. *)
Theorem C05_unterminated_tail_not_delivered :
  forall (msg : Type) (deliver : bytes -> list msg) ls tail chunks,
  Forall no_lf ls -> no_lf tail ->
  concat chunks = terminated ls ++ tail ->
  run msg deliver chunks = flat_map deliver ls.
Proof. exact good_lines_all_delivered. Qed.
Print Assumptions C05_unterminated_tail_not_delivered.

(** 5. str chunks (test doubles): while every chunk encodes, only bytes matter. *)
Theorem C05_text_chunks :
  forall (msg : Type) (deliver : bytes -> list msg) cs bs,
  map chunk_bytes cs = map Some bs ->
  run_chunks msg deliver cs = run msg deliver bs.
Proof. exact text_chunks_run. Qed.
Print Assumptions C05_text_chunks.

(** 6. CR LF terminators, wherever the stream is cut (between CR and LF
    included), deliver what LF terminators deliver. *)
Theorem C05_terminator_split :
  forall (msg : Type) (parse : str -> list msg) ls tail chunks chunks',
  Forall no_lf ls -> no_lf tail ->
  concat chunks = terminated_crlf ls ++ tail ->
  concat chunks' = terminated ls ++ tail ->
  run msg (deliver_line msg parse) chunks = run msg (deliver_line msg parse) chunks'.
Proof. exact crlf_harmless. Qed.
Print Assumptions C05_terminator_split.

(** 7. Separator-like characters inside the text.  In a UTF-8 encoding an
    ASCII byte (LF, CR, ...) occurs only as the encoding of that very code
    point; hence a child writing text lines (any scalar values except U+000A:
    U+0085, U+2028, U+2029, astral, ...) gets each line to [parse] exactly as
    written (after [str.strip]), for every chunking. *)
Theorem C05_ascii_byte_only_from_ascii_code_point :
  forall c b, 0 <= c -> 0 <= b < 128 -> In b (utf8_cp c) -> c = b.
Proof. exact utf8_cp_ascii. Qed.
Print Assumptions C05_ascii_byte_only_from_ascii_code_point.

Theorem C05_separators_inside_text :
  forall (msg : Type) (parse : str -> list msg) texts chunks,
  Forall (fun t => forallb is_scalar t = true /\ ~ In 10 t) texts ->
  concat chunks = terminated (map utf8_enc texts) ->
  run msg (deliver_line msg parse) chunks =
  flat_map (fun t => match strip t with [] => [] | t' => parse t' end) texts.
Proof. exact text_lines_delivered. Qed.
Print Assumptions C05_separators_inside_text.

(** 8. Routing: the main stream gets every message in order; the notification
    stream (capacity [cap], send_nowait) gets the id-less ones in order, none
    lost while the backlog fits, the first [cap] when nobody consumes. *)
Theorem C05_main_stream_gets_everything :
  forall (msg : Type) (no_id : msg -> bool) cap evs,
  rs_main msg (route msg no_id cap evs) = arrivals msg evs.
Proof. exact route_main. Qed.
Print Assumptions C05_main_stream_gets_everything.

Theorem C05_notifications_offered :
  forall (msg : Type) (no_id : msg -> bool) cap evs,
  (length (filter no_id (arrivals msg evs)) <= cap)%nat ->
  rs_recv msg (route msg no_id cap evs) ++ rs_queue msg (route msg no_id cap evs)
  = filter no_id (arrivals msg evs).
Proof. exact route_no_loss. Qed.
Print Assumptions C05_notifications_offered.

Theorem C05_notifications_capacity :
  forall (msg : Type) (no_id : msg -> bool) cap ms,
  rs_queue msg (route msg no_id cap (map (Arrive msg) ms)) = firstn cap (filter no_id ms).
Proof. exact route_capacity. Qed.
Print Assumptions C05_notifications_capacity.

Theorem C05_notifications_in_order :
  forall (msg : Type) (no_id : msg -> bool) cap evs,
  subseq (rs_recv msg (route msg no_id cap evs) ++ rs_queue msg (route msg no_id cap evs))
         (filter no_id (arrivals msg evs)).
Proof. exact route_in_order. Qed.
Print Assumptions C05_notifications_in_order.

(** 9. The extracted oracle that judges the implementation is the Spec. *)
Theorem C05_oracle_reflects :
  forall ls d, (main_ok ls d = true <-> Spec_main ls d) /\ (notif_ok ls d = true <-> Spec_notif ls d).
Proof. exact oracle_reflects. Qed.
Print Assumptions C05_oracle_reflects.

(** Non-vacuity: "é" (C3 A9) cut in the middle, a CR LF cut between CR and LF,
    an invalid-UTF-8 junk line, U+2028 (E2 80 A8) inside a line, and an
    unterminated tail.  [deliver] = the modelled decode/strip with an identity
    parser. *)
Example C05_nonvacuous :
  let deliver := deliver_line str (fun t => [t]) in
  let chunks := [[123; 195]; [169; 125; 13]; [10; 255; 254; 10; 34; 226; 128]; [168; 34; 10; 55]] in
  Spec_lines (concat chunks) [[123; 195; 169; 125; 13]; [255; 254]; [34; 226; 128; 168; 34]] [55]
  /\ reader str deliver [] chunks = ([[123; 233; 125]; [34; 8232; 34]], [55])
  /\ reader str deliver [] [concat chunks] = ([[123; 233; 125]; [34; 8232; 34]], [55]).
Proof.
  split; [|split; reflexivity].
  split; [reflexivity|]. split.
  - repeat constructor; intros H; simpl in H; repeat destruct H as [H | H]; try discriminate H; auto.
  - intros H; simpl in H; repeat destruct H as [H | H]; try discriminate H; auto.
Qed.

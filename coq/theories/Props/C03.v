(** C03 — Client initialization never settles on a protocol version it did not
    offer.  Property theorems only; each is closed by [exact] of a lemma from
    Proofs/Negotiation.v.  They hold for EVERY supported list over an arbitrary
    string universe ([str] = list of code points), every preferred version,
    every history of incoming messages (noise, well-formed answers, malformed
    answers, JSON-RPC errors of any integer code and any message, silence, a
    closed connection).  SUPPORTED_VERSIONS (the default list), INVALID_PARAMS,
    is_retryable_error and the batching [decide] are regenerated from the source
    on every run; the specification [Spec_C03] is written from the property text
    (Spec/C03.v). *)
From Verif.Base Require Import Prelude.
From Verif.Gen Require Import VersionsGen ErrorsGen BatchingGen.
From Verif.Model Require Import Batching Negotiation.
From Verif.Spec Require Import C13 C03.
From Verif.Proofs Require Import NegotFacts Batching Negotiation.
Open Scope Z_scope.

(** ** The proposed version *)

Theorem C03_proposed_preferred_when_offered : forall sup q,
  q <> [] -> In q sup -> propose sup (Some q) = Some q.
Proof. exact propose_preferred. Qed.
Print Assumptions C03_proposed_preferred_when_offered.

Theorem C03_proposed_head_when_not_offered : forall sup q,
  ~ In q sup -> propose sup (Some q) = hd_error sup.
Proof. exact propose_head_not_offered. Qed.
Print Assumptions C03_proposed_head_when_not_offered.

Theorem C03_proposed_head_when_absent : forall sup, propose sup None = hd_error sup.
Proof. exact propose_head_absent. Qed.
Print Assumptions C03_proposed_head_when_absent.

(** the code's [if preferred_version and ...]: an EMPTY preferred string is
    treated exactly like an absent one (the empty string is outside the
    property's universe of versions; recorded, not claimed as a defect) *)
Theorem C03_empty_preferred_is_absent : forall sup, propose sup (Some []) = propose sup None.
Proof. exact propose_empty_preferred_is_absent. Qed.
Print Assumptions C03_empty_preferred_is_absent.

Theorem C03_proposal_is_offered : forall sup pref, sup <> [] ->
  exists p, propose sup pref = Some p /\ In p sup.
Proof. exact propose_some. Qed.
Print Assumptions C03_proposal_is_offered.

(** the library's own list (supported_versions=None) is non-empty *)
Theorem C03_default_list_nonempty : effective_supported None <> [].
Proof. exact default_supported_nonempty. Qed.
Print Assumptions C03_default_list_nonempty.

(** the first thing written is the one initialize request, carrying the proposal *)
Theorem C03_first_write_is_the_proposal : forall arg pref incoming e nok,
  effective_supported arg <> [] ->
  exists p rest, propose (effective_supported arg) pref = Some p /\ In p (effective_supported arg) /\
    trace (client_init arg pref incoming e nok) = ESend (WInit p) :: rest /\
    forall v, ~ In (ESend (WInit v)) rest.
Proof. exact run_first_write. Qed.
Print Assumptions C03_first_write_is_the_proposal.

(** ** Success only on an offered version; the returned version is the server's answer *)

Theorem C03_success_only_if_offered : forall arg pref incoming e nok v,
  out (client_init arg pref incoming e nok) = Ok v ->
  In v (effective_supported arg) /\ await incoming = Some (well_formed_answer v).
Proof. exact run_success_only_if_offered. Qed.
Print Assumptions C03_success_only_if_offered.

Theorem C03_mismatch_raises : forall arg pref incoming e nok v,
  effective_supported arg <> [] ->
  await incoming = Some (well_formed_answer v) -> ~ In v (effective_supported arg) ->
  out (client_init arg pref incoming e nok) = VersionMismatch /\
  count_initialized (trace (client_init arg pref incoming e nok)) = 0%nat.
Proof. exact run_mismatch_raises. Qed.
Print Assumptions C03_mismatch_raises.

Theorem C03_offered_answer_succeeds : forall arg pref incoming e nok v,
  effective_supported arg <> [] ->
  await incoming = Some (well_formed_answer v) -> In v (effective_supported arg) -> nok = true ->
  out (client_init arg pref incoming e nok) = Ok v.
Proof. exact run_supported_answer_succeeds. Qed.
Print Assumptions C03_offered_answer_succeeds.

(** ** The initialized notification *)

Theorem C03_failure_never_sends_initialized : forall arg pref incoming e nok,
  (forall v, out (client_init arg pref incoming e nok) <> Ok v) ->
  ~ In (ESend WInitialized) (trace (client_init arg pref incoming e nok)).
Proof. exact run_failure_never_sends_initialized. Qed.
Print Assumptions C03_failure_never_sends_initialized.

Theorem C03_success_sends_exactly_one_after_accept : forall arg pref incoming e nok v,
  out (client_init arg pref incoming e nok) = Ok v ->
  exists p, propose (effective_supported arg) pref = Some p /\
    trace (client_init arg pref incoming e nok) = [ESend (WInit p); ERecv; ESend WInitialized].
Proof. exact run_success_trace. Qed.
Print Assumptions C03_success_sends_exactly_one_after_accept.

(** ** Every other kind of answer, by class *)

Theorem C03_silence_or_close_fails : forall arg pref incoming e nok,
  effective_supported arg <> [] -> await incoming = None ->
  out (client_init arg pref incoming e nok) = match e with EndSilence => Timeout | EndClosed => Closed end.
Proof. exact run_silence. Qed.
Print Assumptions C03_silence_or_close_fails.

Theorem C03_error_answer_fails : forall arg pref incoming e nok code msg,
  effective_supported arg <> [] -> await incoming = Some (AError code msg) ->
  let o := out (client_init arg pref incoming e nok) in
  (o = VersionMismatch /\ code = INVALID_PARAMS /\ says_protocol_version msg = true)
  \/ (o = Retryable code /\ is_retryable_error code = true)
  \/ (o = NonRetryable code /\ is_retryable_error code = false).
Proof. exact run_error_answer. Qed.
Print Assumptions C03_error_answer_fails.

Theorem C03_malformed_answer_fails : forall arg pref incoming e nok a,
  effective_supported arg <> [] -> await incoming = Some a ->
  (forall v, a <> well_formed_answer v) -> (forall code msg, a <> AError code msg) ->
  out (client_init arg pref incoming e nok) = Invalid.
Proof. exact run_malformed_answer. Qed.
Print Assumptions C03_malformed_answer_fails.

(** messages that are not a response to the request never influence the run *)
Theorem C03_noise_is_ignored : forall arg pref noise rest e nok,
  Forall (fun m => m = INoise) noise ->
  client_init arg pref (noise ++ rest) e nok = client_init arg pref rest e nok.
Proof. exact client_init_noise. Qed.
Print Assumptions C03_noise_is_ignored.

(** ** The tracked client *)

Theorem C03_tracked_mode : forall st v,
  bp_version (track st (Ok v)) = Some v /\
  bp_enabled (track st (Ok v)) = supports_batching (Some v).
Proof. exact track_success. Qed.
Print Assumptions C03_tracked_mode.

(** ... which is the mode C13's specification demands for that version *)
Theorem C03_tracked_mode_as_demanded : forall st v b,
  demanded (Some v) = Some b -> bp_enabled (track st (Ok v)) = b.
Proof. exact track_success_demanded. Qed.
Print Assumptions C03_tracked_mode_as_demanded.

Theorem C03_tracked_unchanged_on_failure : forall st o, (forall v, o <> Ok v) -> track st o = st.
Proof. exact track_failure. Qed.
Print Assumptions C03_tracked_unchanged_on_failure.

(** ** The whole property: every run of the model satisfies the specification
    written from the property text, and the extracted checker decides it *)

Theorem C03_model_meets_spec : forall arg pref incoming e nok st,
  effective_supported arg <> [] ->
  Spec_C03 (obs_of_run arg pref incoming st (client_init arg pref incoming e nok)).
Proof. exact model_meets_spec. Qed.
Print Assumptions C03_model_meets_spec.

Theorem C03_checker_decides_spec : forall o, c03_ok o = true <-> Spec_C03 o.
Proof. exact c03_ok_iff. Qed.
Print Assumptions C03_checker_decides_spec.

(** Non-vacuity: concrete, non-trivial inputs meet the hypotheses and exercise
    every outcome class. *)
Definition v618 : str := [50;48;50;53;45;48;54;45;49;56].     (* 2025-06-18 *)
Definition v326 : str := [50;48;50;53;45;48;51;45;50;54].     (* 2025-03-26 *)
Definition v1999 : str := [49;57;57;57;45;48;49;45;48;49].    (* 1999-01-01 *)
Definition msg_pv : str :=                                     (* "Unsupported Protocol Version" *)
  [85;110;115;117;112;112;111;114;116;101;100;32;80;114;111;116;111;99;111;108;32;86;101;114;115;105;111;110].

Example C03_nonvacuous :
  effective_supported (Some [v326; v618]) <> []
  /\ propose [v326; v618] (Some v618) = Some v618
  /\ propose [v326; v618] (Some v1999) = Some v326
  /\ client_init (Some [v326; v618]) None [INoise; IAnswer (well_formed_answer v618)] EndSilence true
     = {| out := Ok v618; trace := [ESend (WInit v326); ERecv; ESend WInitialized] |}
  /\ client_init (Some [v326; v618]) None [IAnswer (well_formed_answer v1999)] EndSilence true
     = {| out := VersionMismatch; trace := [ESend (WInit v326); ERecv] |}
  /\ out (client_init None None [IAnswer (AError (-32602) msg_pv)] EndSilence true) = VersionMismatch
  /\ out (client_init None None [IAnswer (AError (-32008) msg_pv)] EndSilence true) = NonRetryable (-32008)
  /\ out (client_init None None [IAnswer (AError (-32603) msg_pv)] EndSilence true) = Retryable (-32603)
  /\ out (client_init None None [IAnswer (AResult (Some JNonStr) true)] EndSilence true) = Invalid
  /\ out (client_init None None [INoise; INoise] EndSilence true) = Timeout
  /\ bp_version (track (bp_init None) (Ok v618)) = Some v618
  /\ track (bp_init None) VersionMismatch = bp_init None
  /\ c03_ok (obs_of_run (Some [v326; v618]) None [IAnswer (well_formed_answer v618)] (bp_init None)
              (client_init (Some [v326; v618]) None [IAnswer (well_formed_answer v618)] EndSilence true)) = true.
Proof. repeat split; try reflexivity; discriminate. Qed.

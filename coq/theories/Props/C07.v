(** C07 — an error response always surfaces as a classified exception carrying
    its code.  The code's sets come from Gen/ErrorsGen.v (regenerated from
    errors.py on every run); the documented sets are pinned in Spec/C07.v. *)
From Coq Require Import Sorting.Sorted.
From Verif.Base Require Import Prelude.
From Verif.Gen Require Import ConstsGen ErrorsGen.
From Verif.Model Require Import Await.
From Verif.Spec Require Import C01 C07.
From Verif.Proofs Require Import Await AwaitSpec Errors.
Open Scope Z_scope.

(** A matching error response that arrives before the deadline never returns
    normally: it is raised with the server's code and the documented class —
    for every history, id and integer code. *)
Theorem C07_error_never_returns : forall t0 D me has_cb arrivals r a i code,
  t0 <= D -> StronglySorted le_time arrivals ->
  In r (run sub_timeout_ticks is_retryable_error D me has_cb None t0 arrivals) ->
  first_answer me arrivals = Some (a, MErr i code) -> Z.max t0 a < D ->
  c07_ok code (r_out r) = true.
Proof.
  intros t0 D me has_cb arrivals r a i code.
  exact (error_response_classified sub_timeout_ticks t0 D me has_cb arrivals r a i code eq_refl).
Qed.
Print Assumptions C07_error_never_returns.

(** The classification is a total function of the code: non-retryable exactly on
    the documented permanent set, retryable for every other integer. *)
Theorem C07_class_iff_permanent : forall code : Z,
  is_retryable_error code = negb (mem_Z code documented_permanent).
Proof. exact is_retryable_total. Qed.
Print Assumptions C07_class_iff_permanent.

Theorem C07_generated_sets_are_documented : forall code : Z,
  mem_Z code NON_RETRYABLE_ERRORS = mem_Z code documented_permanent /\
  mem_Z code RETRYABLE_ERRORS = mem_Z code documented_retryable.
Proof. intros code. split; [apply generated_permanent_is_documented | apply generated_retryable_is_documented]. Qed.
Print Assumptions C07_generated_sets_are_documented.

Theorem C07_sets_disjoint : forall code : Z,
  mem_Z code NON_RETRYABLE_ERRORS && mem_Z code RETRYABLE_ERRORS = false.
Proof. exact sets_disjoint. Qed.
Print Assumptions C07_sets_disjoint.

(** finite: every named code constant of errors.py is in exactly one set
    (vm_compute over the generated table, lifted with forallb_forall) *)
Theorem C07_named_codes_partitioned : forall c, In c named_codes ->
  xorb (mem_Z c NON_RETRYABLE_ERRORS) (mem_Z c RETRYABLE_ERRORS) = true.
Proof. exact named_codes_partitioned_forall. Qed.
Print Assumptions C07_named_codes_partitioned.

Theorem C07_bool_wrappers_false : forall o,
  (forall tok, o <> Return tok) -> bool_wrapper o = false.
Proof. exact bool_wrapper_false_on_error. Qed.
Print Assumptions C07_bool_wrappers_false.

Example C07_nonvacuous :
  let me := IdStr [97] in
  map r_out (run sub_timeout_ticks is_retryable_error 6000 me false None 0
               [(5, MErr (IdStr [98]) (-32601)); (7, MErr me (-32601)); (9, MRes me 1)])
    = [RaiseErr false (-32601)] /\
  map r_out (run sub_timeout_ticks is_retryable_error 6000 me false None 0 [(7, MErr me 12345)])
    = [RaiseErr true 12345] /\
  length named_codes = 14%nat.
Proof. repeat split; vm_compute; reflexivity. Qed.

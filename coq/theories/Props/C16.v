(** C16 — stdio client shutdown is bounded and leaves no child process behind.
    Property theorems only; each is closed by [exact] of a lemma from
    Proofs/Shutdown.v.  The grace periods are regenerated from
    [_terminate_process] on every run (Gen/ShutdownGen.v); the one-second
    periods, the slack and the observation predicates are pinned in Spec/C16.v.
    The main model is [VShieldClose] = /repo + fixes/C16-*.patch; the model of
    the code before the patches and its refutation are in History/C16_prefix.v.
    PARTIAL by nature: signal delivery, reaping and descriptors are OS
    behaviour, represented by the [child] oracle and observed by the tie. *)
From Coq Require Import Sorting.Sorted.
From Verif.Base Require Import Prelude.
From Verif.Gen Require Import ShutdownGen.
From Verif.Model Require Import Await Shutdown.
From Verif.Spec Require Import C01 C16.
From Verif.Proofs Require Import Await Shutdown.
Open Scope Z_scope.

(** For EVERY variant of the code, every way of leaving the context and every
    child oracle (any reaction delays, including "never"): leaving takes at most
    the two grace periods the code uses ... *)
Theorem C16_bounded : forall v p c,
  0 <= x_duration (aexit v p c) <= term_grace_ticks + kill_grace_ticks.
Proof. exact aexit_bounded. Qed.
Print Assumptions C16_bounded.

(** ... which are within the two one-second periods the property names. *)
Theorem C16_bounded_pinned : forall v p c,
  0 <= x_duration (aexit v p c) <= grace1 + grace2.
Proof. exact aexit_bounded_pinned. Qed.
Print Assumptions C16_bounded_pinned.

(** Under the stated hypothesis "SIGKILL ends the child within the second grace
    period", the child is reaped on every exit path, whatever else it does. *)
Theorem C16_reaped : forall v p c k,
  shielded v = true ->
  c_kill_exit c = Some k -> k < kill_grace_ticks ->
  x_reaped (aexit v p c) = true.
Proof. exact aexit_reaped. Qed.
Print Assumptions C16_reaped.

(** Signals: none (child already dead) / SIGTERM / SIGTERM then SIGKILL;
    SIGKILL only after the whole first grace period; a lone SIGTERM means the
    child was reaped within it. *)
Theorem C16_signal_discipline : forall v p c,
  let r := aexit v p c in
  (x_signals r = [] \/ x_signals r = [SIGTERM] \/ x_signals r = [SIGTERM; SIGKILL]) /\
  (In SIGKILL (x_signals r) -> term_grace_ticks <= x_duration r) /\
  (x_signals r = [SIGTERM] -> x_reaped r = true /\ x_duration r <= term_grace_ticks) /\
  (c_dead c = true -> x_signals r = [] /\ x_duration r = 0).
Proof. exact aexit_signals. Qed.
Print Assumptions C16_signal_discipline.

Theorem C16_cooperative_child_not_killed : forall v p c d,
  c_term_exit c = Some d -> d < term_grace_ticks ->
  ~ In SIGKILL (x_signals (aexit v p c)).
Proof. exact cooperative_child_not_killed. Qed.
Print Assumptions C16_cooperative_child_not_killed.

(** The whole exit clause of the property: what the (patched) model leaves
    behind, observed with any scheduling jitter up to the slack, satisfies the
    specification - bounded, no child, no descriptor. *)
Theorem C16_exit_meets_spec : forall p c k jitter,
  c_kill_exit c = Some k -> k < kill_grace_ticks -> jitter <= slack ->
  Spec_exit (obs_of (aexit VShieldClose p c) jitter).
Proof. exact model_meets_spec. Qed.
Print Assumptions C16_exit_meets_spec.

(** A request pending while the child dies at [td] (composition with the model
    of send_message): whatever the child had planned to write ([script], any
    mix of messages), for every polling interval and every same-instant
    resolution, the request returns only a result the child really wrote for it
    before dying; otherwise it raises or times out. *)
Theorem C16_pending_request_never_fabricated :
  forall poll retryable, 0 < poll ->
  forall D me t0 td script r,
  t0 <= D -> StronglySorted le_time script ->
  In r (pending poll retryable D me t0 td script) ->
  Spec_pending (written_results me (child_output td script)) (pending_obs_of (r_out r)).
Proof. exact pending_never_fabricated. Qed.
Print Assumptions C16_pending_request_never_fabricated.

Theorem C16_pending_request_times_out_when_child_died_first :
  forall poll retryable, 0 < poll ->
  forall D me t0 td script r,
  t0 <= D -> StronglySorted le_time script ->
  (forall a m, In (a, m) script -> is_answer me m = true -> td < a) ->
  In r (pending poll retryable D me t0 td script) ->
  r_out r = Timeout /\ r_end r = D.
Proof. exact pending_dead_child_times_out. Qed.
Print Assumptions C16_pending_request_times_out_when_child_died_first.

(** A command that cannot be started makes entering raise - through the bare
    client and through the wrapper's exception filter (even when the error text
    mentions "cancel scope") - with no child and no task started. *)
Theorem C16_spawn_failure_raises : forall e s,
  s <> SpawnOk -> exists what, enter e s = EnterRaised what 0 0.
Proof. exact spawn_failure_raises. Qed.
Print Assumptions C16_spawn_failure_raises.

(** The extracted checkers decide the specification predicates. *)
Theorem C16_spec_checkers_reflect :
  (forall o, exit_ok o = true <-> Spec_exit o) /\
  (forall written o, pending_ok written o = true <-> Spec_pending written o) /\
  (forall s e, enter_ok s e = true <-> Spec_enter s e).
Proof. exact (conj exit_ok_spec (conj pending_ok_spec enter_ok_spec)). Qed.
Print Assumptions C16_spec_checkers_reflect.

(** Non-vacuity: concrete children meet the hypotheses and exercise every branch. *)
Example C16_nonvacuous :
  let k := Some 0 in
  (* a TERM-ignoring child is killed after the first grace period and reaped, on a cancelled exit too *)
  aexit VShieldClose PCancelScope (child_of k IgnoresTerm)
    = {| x_duration := 100; x_signals := [SIGTERM; SIGKILL]; x_reaped := true;
         x_stdin_open := false; x_stdout_open := false; x_outcome := CancelledOut |}
  /\ x_signals (aexit VShieldClose PNormal (child_of k (ExitsOnStdinEof 3))) = [SIGTERM]
  /\ x_duration (aexit VShieldClose PNormal (child_of k (ExitsOnTerm 30))) = 30
  /\ x_signals (aexit VShieldClose PException (child_of k AlreadyDead)) = []
  /\ x_duration (aexit VShieldClose PNormal (child_of k (EofOnly 30))) = 30
  /\ x_duration (aexit VShieldClose PTimeoutScope (child_of k (EofOnly 30))) = 100
  /\ x_reaped (aexit VShieldClose PNormal (child_of None IgnoresTerm)) = false   (* the kill hypothesis is needed *)
  /\ x_duration (aexit VShieldClose PNormal (child_of None IgnoresTerm)) = 200
  /\ fds_left (aexit VShieldClose PNormal (child_of k (Floods true))) = 0
  /\ map r_out (pending 50 (fun _ => false) 100 (IdStr [97]) 0 20
                        [(10, MNotif); (30, MRes (IdStr [97]) 7)]) = [Timeout]
  /\ map r_out (pending 50 (fun _ => false) 100 (IdStr [97]) 0 40
                        [(10, MNotif); (30, MRes (IdStr [97]) 7)]) = [Return 7].
Proof. cbn zeta. repeat split; vm_compute; reflexivity. Qed.

(** C06 — Stdio outbound framing: one message, one line, in order, content
    preserved.  Property theorems only; each is closed by [exact] of a lemma
    from Proofs/StdioOut.v.

    The serialisers are external code, universally quantified:
      dump_json  = model_dump_json(exclude_none=True)      (pydantic / fallback base)
      model_dump = model_dump(exclude_none=True)
      dumps/loads = chuk_mcp.protocol.fast_json (orjson, stdlib fallback)
    each returning [None] when it raises.  The only assumption placed on them
    for the framing theorems is that a compact dump contains no LF / CR code
    point ([has_break t = false]); Proofs/JsonEncClean.v exhibits an encoder
    with that property.  [Recompact] is the writer at /repo HEAD
    (fixes/C06-raw-string-line-breaks.patch is applied there as a fix: commit),
    [Verbatim] the writer before that fix, for which the full statement is refuted (C06_..._refuted) and
    the strongest true restriction proved (C06_..._partial). *)
From Verif.Base Require Import Prelude StdioUtf8.
From Verif.Model Require Import StdioOut.
From Verif.Spec Require Import C06.
From Verif.Proofs Require Import StdioOut.
From Verif.Proofs Require StdioOutMerge.
Open Scope Z_scope.

(** 1. Structure (both policies): the child's stdin receives, in the order
    sent, one write per serialisable message -- its body followed by exactly
    one LF -- and nothing for the others. *)
Theorem C06_one_write_per_serialisable_in_order :
  forall model value dump_json model_dump dumps loads p msgs,
  writes model value dump_json model_dump dumps loads p msgs
  = map (fun b => b ++ [10]) (bodies model value dump_json model_dump dumps loads p msgs).
Proof. exact writes_are_bodies. Qed.
Print Assumptions C06_one_write_per_serialisable_in_order.

Theorem C06_unserialisable_dropped_alone :
  forall model value dump_json model_dump dumps loads p a m b,
  write_of model value dump_json model_dump dumps loads p m = None ->
  writes model value dump_json model_dump dumps loads p (a ++ m :: b)
  = writes model value dump_json model_dump dumps loads p (a ++ b).
Proof. exact unserialisable_dropped_alone. Qed.
Print Assumptions C06_unserialisable_dropped_alone.

Theorem C06_serialisable_written_once_in_place :
  forall model value dump_json model_dump dumps loads p a m b w,
  write_of model value dump_json model_dump dumps loads p m = Some w ->
  writes model value dump_json model_dump dumps loads p (a ++ m :: b)
  = writes model value dump_json model_dump dumps loads p a
    ++ w :: writes model value dump_json model_dump dumps loads p b.
Proof. exact serialisable_written_once. Qed.
Print Assumptions C06_serialisable_written_once_in_place.

(** 2. No raw line break inside a line for typed / dict shapes (both
    policies), given single-line serialisers. *)
Theorem C06_no_raw_linebreak_inside_line :
  forall model value dump_json model_dump dumps loads,
  (forall v t, dumps v = Some t -> has_break t = false) ->
  (forall e t, dump_json e = Some t -> has_break t = false) ->
  forall p m w,
  is_raw model value m = false ->
  write_of model value dump_json model_dump dumps loads p m = Some w -> Spec_one_line w.
Proof. exact structured_write_one_line. Qed.
Print Assumptions C06_no_raw_linebreak_inside_line.

(** 3. The statement at full strength: every accepted message, pre-serialised
    strings included, is exactly one newline-terminated line. *)
Definition C06_every_write_one_line_statement : Prop := every_write_one_line Verbatim.

(** ... is FALSE for the writer before the fix: the pre-serialised string
    "{\n}" is forwarded verbatim as two lines. *)
Theorem C06_every_write_one_line_refuted : ~ C06_every_write_one_line_statement.
Proof. exact every_write_one_line_verbatim_refuted. Qed.
Print Assumptions C06_every_write_one_line_refuted.

(** ... holds before the fix for every sequence whose pre-serialised strings carry no
    line break (strongest true restriction) ... *)
Theorem C06_every_write_one_line_partial :
  forall model value dump_json model_dump dumps loads,
  (forall v t, dumps v = Some t -> has_break t = false) ->
  (forall e t, dump_json e = Some t -> has_break t = false) ->
  forall msgs,
  Forall (fun m => match m with Raw t => has_break t = false | _ => True end) msgs ->
  Spec_stream (bodies model value dump_json model_dump dumps loads Verbatim msgs)
              (concat (writes model value dump_json model_dump dumps loads Verbatim msgs)).
Proof. exact verbatim_stream_partial. Qed.
Print Assumptions C06_every_write_one_line_partial.

(** ... and holds without restriction for the patched writer. *)
Theorem C06_every_write_one_line_patched : every_write_one_line Recompact.
Proof. exact every_write_one_line_recompact. Qed.
Print Assumptions C06_every_write_one_line_patched.

Theorem C06_stream_is_ndjson_patched :
  forall model value dump_json model_dump dumps loads,
  (forall v t, dumps v = Some t -> has_break t = false) ->
  (forall e t, dump_json e = Some t -> has_break t = false) ->
  forall msgs,
  Spec_stream (bodies model value dump_json model_dump dumps loads Recompact msgs)
              (concat (writes model value dump_json model_dump dumps loads Recompact msgs)).
Proof. exact recompact_stream. Qed.
Print Assumptions C06_stream_is_ndjson_patched.

(** Two tasks write to the child's stdin: the writer task, and the reader task
    (the rejection error for a server batch, one whole line per [send]).  For
    ANY message sequence and ANY interleaving of the two tasks' writes the child
    reads a well-framed NDJSON stream whose lines are exactly the writer's
    lines and the other task's lines, each task's order kept - no line ever
    ends up inside another, because every message is ONE write
    ([writes = map (fun b => b ++ [10]) bodies]). *)
Theorem C06_interleaved_writers_keep_lines_whole :
  forall model value dump_json model_dump dumps loads,
  (forall v t, dumps v = Some t -> has_break t = false) ->
  (forall e t, dump_json e = Some t -> has_break t = false) ->
  forall msgs (others : list (list Z)) w,
  Forall no_break others ->
  StdioOutMerge.Merge (writes model value dump_json model_dump dumps loads Recompact msgs)
                      (map (fun b => b ++ [10]) others) w ->
  exists lm, StdioOutMerge.Merge (bodies model value dump_json model_dump dumps loads Recompact msgs) others lm
             /\ Spec_stream lm (concat w).
Proof. exact StdioOutMerge.two_writers_ndjson. Qed.
Print Assumptions C06_interleaved_writers_keep_lines_whole.

(** 4. Content: a line's body is the UTF-8 encoding of the serialiser's text
    (decodes back to it), and -- for codecs that round-trip -- the decoded
    value is the value the message denotes (model_dump(exclude_none=True) for
    typed messages, the dict itself, the value of the pre-serialised text). *)
Theorem C06_body_is_utf8_of_text :
  forall model value dump_json model_dump dumps loads p m b,
  body_of model value dump_json model_dump dumps loads p m = Some b ->
  exists t, text_of model value dump_json model_dump dumps loads p m = Some t /\ utf8_decode b = Some t.
Proof. exact body_decodes_to_text. Qed.
Print Assumptions C06_body_is_utf8_of_text.

Theorem C06_decoded_equals_message :
  forall model value dump_json model_dump dumps loads,
  (forall v t, dumps v = Some t -> loads t = Some v) ->
  (forall e t, dump_json e = Some t -> loads t = model_dump e) ->
  forall m b,
  body_of model value dump_json model_dump dumps loads Recompact m = Some b ->
  exists t, utf8_decode b = Some t /\ loads t = denotes model value model_dump loads m.
Proof. exact decoded_equals_message. Qed.
Print Assumptions C06_decoded_equals_message.

(** 5. Closing the write stream closes the child's stdin, after everything
    sent before has been written; stdin stays open otherwise. *)
Theorem C06_close_closes_stdin :
  forall model value dump_json model_dump dumps loads p evs,
  snd (run_out model value dump_json model_dump dumps loads p evs) = true <-> In (Close model value) evs.
Proof. exact closed_iff_close. Qed.
Print Assumptions C06_close_closes_stdin.

Theorem C06_close_loses_nothing :
  forall model value dump_json model_dump dumps loads p ms rest,
  run_out model value dump_json model_dump dumps loads p (map (Send model value) ms ++ Close model value :: rest)
  = (writes model value dump_json model_dump dumps loads p ms, true).
Proof. exact close_after_sends. Qed.
Print Assumptions C06_close_loses_nothing.

Theorem C06_open_while_sending :
  forall model value dump_json model_dump dumps loads p ms,
  run_out model value dump_json model_dump dumps loads p (map (Send model value) ms)
  = (writes model value dump_json model_dump dumps loads p ms, false).
Proof. exact open_while_sending. Qed.
Print Assumptions C06_open_while_sending.

(** 6. The extracted oracle that judges the implementation's bytes is the Spec. *)
Theorem C06_oracle_reflects :
  forall n out,
  stream_ok n out = true <-> exists ls, Spec_stream ls out /\ Z.of_nat (length ls) = n.
Proof. exact stream_ok_spec. Qed.
Print Assumptions C06_oracle_reflects.

(** Non-vacuity: a toy codec meeting the single-line hypothesis ([toy_dumps]
    deletes LF/CR, [loads] = identity), a dict, an unserialisable typed
    message, a pretty-printed pre-serialised string "{\n}" and an astral
    character: the pre-fix writer writes 4 lines for 3 messages, the writer at HEAD 3. *)
Example C06_nonvacuous :
  let W := writes unit str (fun _ => None) (fun _ => None) toy_dumps (fun t => Some t) in
  let msgs := [Dict [34; 128512; 34]; Typed tt; Raw [123; 10; 125]; Other [49]] in
  (forall v t, toy_dumps v = Some t -> has_break t = false)
  /\ W Recompact msgs = [[34; 240; 159; 152; 128; 34; 10]; [123; 125; 10]; [49; 10]]
  /\ W Verbatim msgs = [[34; 240; 159; 152; 128; 34; 10]; [123; 10; 125; 10]; [49; 10]]
  /\ stream_ok 3 (concat (W Recompact msgs)) = true
  /\ stream_ok 3 (concat (W Verbatim msgs)) = false.
Proof. split; [exact toy_dumps_single_line | repeat split; reflexivity]. Qed.

(** C20 — Every host entry point launches exactly the server the configuration
    names.  Property theorems only; each is closed by [exact] of a lemma from
    Proofs/Config.v.  The specification (Spec/C20.v) is written from the
    property text; the model (Model/Config.v) is the code at /repo HEAD
    (load_config, StdioClient's spawn, get_default_environment, the CLI's
    test_server, run_command).  [answers] (does the configured server program
    answer initialize?) and [denv] (what get_default_environment() returns on
    this host) are universally quantified: the world, not the property. *)
From Verif.Base Require Import Prelude Json Decimal HostTypes.
From Verif.Spec Require Import C20.
From Verif.Model Require Import Config.
From Verif.Proofs Require Import Config.
Open Scope Z_scope.

(** The loader: for every valid configuration file and every configured name,
    what comes back is the 2-tuple (parameters, timeout) and it names exactly
    the configured command, arguments, environment and timeout. *)
Theorem C20_loader_exact : forall cfg name sv,
  valid_config cfg = true -> server_of cfg name = Some sv ->
  exists p t, load_config (SrcJson cfg) name = Ok (DTuple (DParams p) (timeout_dyn t))
              /\ Spec_loaded sv p t.
Proof. exact loader_exact. Qed.
Print Assumptions C20_loader_exact.

(** The loader on EVERY source (missing file, invalid JSON, any JSON value) and
    every name satisfies the loader specification. *)
Theorem C20_loader_meets_spec : forall src name,
  Spec_load src name (load_obs_of (load_config src name)).
Proof. exact load_meets_spec. Qed.
Print Assumptions C20_loader_meets_spec.

(** The command-line connectivity test: exactly the configured server is
    started, exactly as configured, it receives initialize, and the test
    succeeds iff the server answers.  For every world, host environment,
    source and name. *)
Theorem C20_cli_launches_configured : forall answers denv src name,
  Spec_run answers denv src [name] (cli answers denv src name).
Proof. exact cli_spec. Qed.
Print Assumptions C20_cli_launches_configured.

Theorem C20_cli_exact : forall answers denv cfg name sv,
  valid_config cfg = true -> server_of cfg name = Some sv ->
  exists l, cli answers denv (SrcJson cfg) name
            = RunObs [Proc l true] (if answers (cfg_command sv) then 1 else 0)
            /\ l_argv l = cfg_command sv :: cfg_args sv
            /\ env_equiv (l_env l) (effective_env denv (cfg_env sv)).
Proof. exact cli_exact. Qed.
Print Assumptions C20_cli_exact.

(** The multi-server runner: for every list of names (repetitions and unknown
    names included), exactly the configured ones are started, in order, each
    exactly as configured, each receives initialize; the command function gets
    one connection per server that answered. *)
Theorem C20_runner_launches_configured : forall answers denv src names,
  Spec_run answers denv src names (runner answers denv src names).
Proof. exact runner_spec. Qed.
Print Assumptions C20_runner_launches_configured.

(** Configuration errors surface as the three documented exception classes ... *)
Theorem C20_errors_typed : forall name,
  load_config SrcMissing name = Err EFileNotFound
  /\ load_config SrcBadJson name = Err EJSONDecode
  /\ forall cfg, valid_config cfg = true -> server_of cfg name = None ->
                 load_config (SrcJson cfg) name = Err EValue.
Proof. exact errors_typed. Qed.
Print Assumptions C20_errors_typed.

(** ... and no entry point starts anything then. *)
Theorem C20_errors_launch_nothing : forall answers denv src names,
  src_valid src = true -> requested src names = [] ->
  runner answers denv src names = RunObs [] 0
  /\ forall name, In name names -> cli answers denv src name = RunObs [] 0.
Proof. exact errors_launch_nothing. Qed.
Print Assumptions C20_errors_launch_nothing.

(** The extracted checkers that judge the IMPLEMENTATION's observations decide
    exactly the declarative specification. *)
Theorem C20_launch_checker_reflects : forall denv sv l,
  launch_ok denv sv l = true <-> Spec_launch denv sv l.
Proof. exact launch_ok_iff. Qed.
Print Assumptions C20_launch_checker_reflects.

Theorem C20_load_checker_reflects : forall src name o,
  load_ok src name o = true <-> Spec_load src name o.
Proof. exact load_ok_iff. Qed.
Print Assumptions C20_load_checker_reflects.

Theorem C20_run_checker_reflects : forall answers denv src names o,
  run_ok answers denv src names o = true <-> Spec_run answers denv src names o.
Proof. exact run_ok_iff. Qed.
Print Assumptions C20_run_checker_reflects.

(** Non-vacuity: a concrete valid file with two servers —
      {"mcpServers": {"a": {"command": "/x y", "args": ["p q", ""], "env": {"K": "v"}, "timeout": "2.5", "zz": 1},
                      "b": {"command": "/w", "env": {}}}, "other": null}
    — run through the runner with names [b; nope; a; b], server /w refusing. *)
Definition ex_cfg : json :=
  JObj [ (k_mcpServers,
          JObj [ ([97], JObj [ (k_command, JStr [47;120;32;121]);
                               (k_args, JArr [JStr [112;32;113]; JStr []]);
                               (k_env, JObj [([75], JStr [118])]);
                               (k_timeout, JStr [50;46;53]);
                               ([122;122], JInt 1) ]);
                 ([98], JObj [ (k_command, JStr [47;119]); (k_env, JObj []) ]) ]);
         ([111;116;104;101;114], JNull) ].
Definition ex_host : envt := [ ([80;65;84;72], [47;98;105;110]); ([90], [49]); ([84;69;82;77], []) ].
Definition ex_answers (c : str) : bool := negb (str_eqb c [47;119]).

Example C20_nonvacuous :
  valid_config ex_cfg = true
  /\ load_obs_of (load_config (SrcJson ex_cfg) [97])
     = Loaded (Params [47;120;32;121] [[112;32;113]; []] (Some [([75], [118])])) (Some (Dec 25 (-1)))
  /\ runner ex_answers (default_env ex_host) (SrcJson ex_cfg) [[98]; [110;111;112;101]; [97]; [98]]
     = RunObs [ Proc (Launch [[47;119]] [([80;65;84;72], [47;98;105;110])]) true;
                Proc (Launch [[47;120;32;121]; [112;32;113]; []] [([75], [118])]) true;
                Proc (Launch [[47;119]] [([80;65;84;72], [47;98;105;110])]) true ] 1
  /\ cli ex_answers (default_env ex_host) (SrcJson ex_cfg) [110;111;112;101] = RunObs [] 0
  /\ load_config (SrcJson ex_cfg) [110;111;112;101] = Err EValue.
Proof. repeat split; vm_compute; reflexivity. Qed.

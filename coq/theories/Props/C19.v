(** C19 — Server session bookkeeping behaves like a map from unique ids to
    records.  Property theorems only; each is closed by [exact] of a lemma from
    Proofs/Sessions.v.  All theorems are generic in the id type, in the id supply
    [fresh] (uuid4) — assumed never to repeat, the one stated assumption — and
    in the version policy [answer] of initialize. *)
From Verif.Base Require Import Prelude.
From Verif.Spec Require Import C19.
From Verif.Model Require Import Sessions.
From Verif.Proofs Require Import Sessions SessionsSpec.
From Verif.Gen Require SessionsGen.
Open Scope Z_scope.

Section C19.
  Variable sid : Type.
  Variable sid_eqb : sid -> sid -> bool.
  Variable fresh : nat -> sid.
  Variable answer : vreq -> str.
  Hypothesis sid_eqb_spec : forall a b, sid_eqb a b = true <-> a = b.
  Hypothesis fresh_inj : forall a b, fresh a = fresh b -> a = b.         (* the uuid4 assumption *)

  Let Inv := Inv sid fresh.
  Let step := step sid sid_eqb fresh answer.
  Let run := run sid sid_eqb fresh answer.
  Let abs := abs sid sid_eqb.

  (** Every operation — create, get, update activity, delete, cleanup, list, count,
      clear, initialize through the dispatcher, any other message with a session
      id — does to the store exactly what the specification says it does to the
      simple map, returns what the specification says, and keeps the invariant. *)
  Theorem C19_step_refines : forall now o st st' r,
    Inv st ->
    step now o st = (st', r) ->
    Spec_step sid sid_eqb (fresh (next sid st)) now o (abs st) (abs st') r /\ Inv st'.
  Proof. exact (step_refines sid sid_eqb fresh answer sid_eqb_spec fresh_inj). Qed.

  (** ... hence at every point of every history. *)
  Theorem C19_history_refines : forall h now o,
    let st := fst (run h (init sid)) in
    let '(st', r) := step now o st in
    Spec_step sid sid_eqb (fresh (next sid st)) now o (abs st) (abs st') r.
  Proof. exact (run_refines_stepwise sid sid_eqb fresh answer sid_eqb_spec fresh_inj). Qed.

  (** Session ids are unique: no two entries of any reachable store share an id ... *)
  Theorem C19_ids_unique : forall h, NoDup (map fst (store sid (fst (run h (init sid))))).
  Proof. exact (reachable_ids_unique sid sid_eqb fresh answer sid_eqb_spec fresh_inj). Qed.

  (** ... and no id is ever handed out twice along a history (create_session and initialize together). *)
  Theorem C19_handed_out_ids_distinct : forall h,
    NoDup (ids_of sid (snd (run h (init sid)))).
  Proof. exact (handed_out_ids_distinct sid sid_eqb fresh answer fresh_inj). Qed.

  (** Expiry removes exactly the sessions idle for STRICTLY longer than the limit and
      changes nothing else (pointwise over all ids). *)
  Theorem C19_cleanup_exact : forall now age st,
    Inv st ->
    let st' := fst (step now (OCleanup age) st) in
    forall k,
      abs st' k = match abs st k with
                  | Some r => if now - r_last r >? age then None else Some r
                  | None => None
                  end.
  Proof. exact (cleanup_exact sid sid_eqb fresh answer sid_eqb_spec fresh_inj). Qed.

  Theorem C19_boundary_stays : forall now age r, now - r_last r = age -> expired now age r = false.
  Proof. exact boundary_stays. Qed.

  (** Listing leaves the store as it is and returns a duplicate-free listing of the map. *)
  Theorem C19_list_is_copy : forall now st,
    Inv st ->
    fst (step now OList st) = st
    /\ exists l, snd (step now OList st) = OutListing l /\ lists sid sid_eqb l (abs st).
  Proof. exact (list_is_copy sid sid_eqb fresh answer). Qed.

  (** A successful initialize creates exactly one session: under a new id, recording the
      client's info and the version that is in the response; no other id appears or vanishes. *)
  Theorem C19_initialize_creates_exactly_one : forall now c v sess st,
    Inv st ->
    let k := fresh (next sid st) in
    let '(st', r) := step now (OInitialize true c v sess) st in
    exists ver,
      r = OutInit ver k
      /\ abs st k = None
      /\ abs st' k = Some (new_rec c ver now 0)
      /\ forall k', k' <> k -> is_some (abs st' k') = is_some (abs st k').
  Proof. exact (initialize_creates_exactly_one sid sid_eqb fresh answer sid_eqb_spec fresh_inj). Qed.
End C19.

Print Assumptions C19_step_refines.
Print Assumptions C19_history_refines.
Print Assumptions C19_ids_unique.
Print Assumptions C19_handed_out_ids_distinct.
Print Assumptions C19_cleanup_exact.
Print Assumptions C19_boundary_stays.
Print Assumptions C19_list_is_copy.
Print Assumptions C19_initialize_creates_exactly_one.

(** The extracted checker that judges the IMPLEMENTATION's observed steps is sound for the
    declarative specification: an accepted step is a step of the simple map (and leaves a
    duplicate-free store, so the next step's premise holds; the first store is empty). *)
Theorem C19_checker_sound : forall (sid : Type) (sid_eqb : sid -> sid -> bool),
  (forall a b, sid_eqb a b = true <-> a = b) ->
  forall fresh_id now o pre post res,
    NoDup (map fst pre) ->
    step_ok sid sid_eqb fresh_id now o pre post res = true ->
    NoDup (map fst post)
    /\ Spec_step sid sid_eqb fresh_id now o
         (fun k => l_lookup sid sid_eqb k pre) (fun k => l_lookup sid sid_eqb k post) res.
Proof. exact step_ok_sound. Qed.
Print Assumptions C19_checker_sound.

(** Non-vacuity: integers as ids, the identity-like supply is injective; a history that
    creates, touches, expires at the boundary and initializes. *)
Definition ex_fresh (n : nat) : Z := Z.of_nat n.
Definition ex_answer (v : vreq) : str := match v with VStr s => s | _ => [50] end.
Definition ex_hist : list (Z * op Z) :=
  [(0, OCreate 7 [49] 0); (5, OCreate 8 [49] 0); (10, OTouch 0);
   (15, OCleanup 10);                       (* session 1: idle exactly 10 -> stays; session 0: idle 5 *)
   (16, OCleanup 10);                       (* session 1: idle 11 -> goes *)
   (20, OInitialize true 9 (VStr [51]) (Some 0))].

Example C19_nonvacuous :
  (forall a b, Z.eqb a b = true <-> a = b)
  /\ (forall a b, ex_fresh a = ex_fresh b -> a = b)
  /\ map fst (store Z (fst (run Z Z.eqb ex_fresh ex_answer (firstn 4 ex_hist) (init Z)))) = [0; 1]
  /\ map fst (store Z (fst (run Z Z.eqb ex_fresh ex_answer (firstn 5 ex_hist) (init Z)))) = [0]
  /\ snd (run Z Z.eqb ex_fresh ex_answer ex_hist (init Z))
     = [OutId 0; OutId 1; OutBool true; OutCount 0; OutCount 1; OutInit [51] 2]
  /\ abs Z Z.eqb (fst (run Z Z.eqb ex_fresh ex_answer ex_hist (init Z))) 2 = Some (new_rec 9 [51] 20 0)
  /\ option_map r_last (abs Z Z.eqb (fst (run Z Z.eqb ex_fresh ex_answer ex_hist (init Z))) 0) = Some 20.
Proof.
  split; [exact Z.eqb_eq|]. split; [exact Nat2Z.inj|]. repeat split; reflexivity.
Qed.

(** The expiry test the MODEL uses is the filter of cleanup_expired's list
    comprehension as it stands in the source (Gen/SessionsGen.v, regenerated on
    every run); for ALL integers it is "idle time strictly greater than the
    limit" - the boundary [now - last = max_age] stays.  A changed comparison or
    operand breaks this proof; a wrapped conversion (int(...), round(...)) is
    outside the translator's grammar and fails closed. *)
Theorem C19_expiry_test_is_the_sources : forall now last created max_age,
  SessionsGen.expired_src now last created max_age = (now - last >? max_age).
Proof. exact expired_src_is_spec. Qed.
Print Assumptions C19_expiry_test_is_the_sources.

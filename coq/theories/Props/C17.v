(** C17 — JSON encoding is backend-independent and always a single NDJSON
    frame.  Property theorems only; each is closed by [exact] of a lemma.

    [dumps]/[loads] are the model of fast_json's wrapper (Model/FastJson.v);
    the four codecs are universally quantified and constrained by
    [codec_contracts] (Proofs/FastJson.v) — the contracts are what the tie
    tests against the real orjson / stdlib json.  The reference codec
    (Model/JsonEnc.v) is proved on its own and inhabits the contracts. *)
From Verif.Base Require Import Prelude JsonVal.
From Verif.Model Require Import JsonEnc FastJson.
From Verif.Spec Require Import C17.
From Verif.Proofs Require Import JsonEncClean FastJson.
Open Scope Z_scope.

(** Encode under backend [a] (orjson importable or not), decode under backend
    [b]: all four pairs give the value back, for every JSON value of the
    domain whose integers fit in 64 bits, whatever kwargs the caller passes. *)
Theorem C17_wrapper_roundtrip :
  forall (F : Type) enc_o enc_s dec_o dec_s (fparse : str -> option F) dom,
    codec_contracts enc_o enc_s dec_o dec_s fparse dom ->
    forall (a b : bool) (kw : kwargs) (v : json F),
      dom v -> in_domain v = true ->
      exists s, dumps enc_o enc_s a kw v = Some s /\
                Spec_roundtrip v (loads dec_o dec_s b s).
Proof. exact wrapper_roundtrip. Qed.
Print Assumptions C17_wrapper_roundtrip.

(** The same, all four pairs at once. *)
Theorem C17_backend_independent :
  forall (F : Type) enc_o enc_s dec_o dec_s (fparse : str -> option F) dom,
    codec_contracts enc_o enc_s dec_o dec_s fparse dom ->
    forall (kw : kwargs) (v : json F),
      dom v -> in_domain v = true ->
      exists so ss,
        dumps enc_o enc_s true kw v = Some so /\ dumps enc_o enc_s false kw v = Some ss /\
        Spec_backend_independent v
          [loads dec_o dec_s true so; loads dec_o dec_s false so;
           loads dec_o dec_s true ss; loads dec_o dec_s false ss].
Proof. exact wrapper_backend_independent. Qed.
Print Assumptions C17_backend_independent.

(** Decoding any text that denotes an in-domain value does not depend on the
    backend. *)
Theorem C17_loads_backend_independent :
  forall (F : Type) enc_o enc_s dec_o dec_s (fparse : str -> option F) dom,
    codec_contracts enc_o enc_s dec_o dec_s fparse dom ->
    forall s v, ref_parse fparse s = Some v -> dom v -> in_domain v = true ->
      loads dec_o dec_s true s = loads dec_o dec_s false s.
Proof. exact loads_backend_independent. Qed.
Print Assumptions C17_loads_backend_independent.

(** Outside the 64-bit window orjson steps aside and both configurations emit
    the very same (stdlib) text. *)
Theorem C17_unfit_falls_back :
  forall (F : Type) enc_o enc_s dec_o dec_s (fparse : str -> option F) dom,
    codec_contracts enc_o enc_s dec_o dec_s fparse dom ->
    forall kw (v : json F), fits64 v = false ->
      dumps enc_o enc_s true kw v = dumps enc_o enc_s false kw v.
Proof. exact dumps_unfit_falls_back. Qed.
Print Assumptions C17_unfit_falls_back.

(** A call without [indent] yields bytes without 0x0A and without 0x0D. *)
Theorem C17_single_frame :
  forall (F : Type) enc_o enc_s dec_o dec_s (fparse : str -> option F) dom,
    codec_contracts enc_o enc_s dec_o dec_s fparse dom ->
    forall (a : bool) (kw : kwargs) (v : json F) (s : str),
      kw_indent kw = None -> dumps enc_o enc_s a kw v = Some s ->
      Spec_single_frame (utf8_str s).
Proof. exact wrapper_single_frame. Qed.
Print Assumptions C17_single_frame.

(** The checker the harness applies to the implementation's bytes decides the
    specification. *)
Theorem C17_single_frame_checker :
  forall bytes, single_frame_ok bytes = true <-> Spec_single_frame bytes.
Proof. exact single_frame_ok_spec. Qed.
Print Assumptions C17_single_frame_checker.

(** Reference encoder: no byte below 0x20 — in particular neither 0x0A nor
    0x0D — for EVERY value (no well-formedness needed) and every policy,
    given that the float formatter emits none. *)
Theorem JsonEnc_no_control_byte :
  forall (F : Type) (ftext : F -> str) (p : policy) (v : json F),
    float_texts_clean ftext v ->
    Forall (fun b => 32 <= b) (ref_encode ftext p v).
Proof. exact ref_encode_no_control_byte. Qed.
Print Assumptions JsonEnc_no_control_byte.

Theorem JsonEnc_single_frame :
  forall (F : Type) (ftext : F -> str) (p : policy) (v : json F),
    float_texts_clean ftext v ->
    Spec_single_frame (ref_encode ftext p v).
Proof. exact ref_encode_single_frame. Qed.
Print Assumptions JsonEnc_single_frame.

(** C17 — JSON encoding is backend-independent and always a single NDJSON
    frame.  Property theorems only; each is closed by [exact] of a lemma.

    [dumps]/[loads] are the model of fast_json's wrapper (Model/FastJson.v);
    the four codecs are universally quantified and constrained by
    [codec_contracts] (Proofs/FastJson.v) — the contracts are what the tie
    tests against the real orjson / stdlib json.  The reference codec
    (Model/JsonEnc.v) is proved on its own (no control byte; decoder inverts
    encoder, text and byte level) and inhabits the contracts
    (C17_reference_codec_satisfies_contracts, C17_nonvacuous). *)
From Verif.Base Require Import Prelude JsonVal.
From Verif.Model Require Import JsonEnc FastJson.
From Verif.Spec Require Import C17.
From Verif.Proofs Require Import JsonEncClean FastJson JsonEncRoundInt JsonEncRoundVal JsonEncRoundContracts.
Open Scope Z_scope.

(** Encode under backend [a] (orjson importable or not), decode under backend
    [b]: all four pairs give the value back, for every JSON value of the
    domain whose integers fit in 64 bits, whatever kwargs the caller passes. *)
Theorem C17_wrapper_roundtrip :
  forall (F : Type) enc_o enc_s dec_o dec_s (fparse : str -> option F) dom,
    codec_contracts enc_o enc_s dec_o dec_s fparse dom ->
    forall (a b : bool) (kw : kwargs) (v : json F),
      dom v -> in_domain v = true ->
      exists s, dumps enc_o enc_s a kw v = Some s /\
                Spec_roundtrip v (loads dec_o dec_s b s).
Proof. exact wrapper_roundtrip. Qed.
Print Assumptions C17_wrapper_roundtrip.

(** The same, all four pairs at once. *)
Theorem C17_backend_independent :
  forall (F : Type) enc_o enc_s dec_o dec_s (fparse : str -> option F) dom,
    codec_contracts enc_o enc_s dec_o dec_s fparse dom ->
    forall (kw : kwargs) (v : json F),
      dom v -> in_domain v = true ->
      exists so ss,
        dumps enc_o enc_s true kw v = Some so /\ dumps enc_o enc_s false kw v = Some ss /\
        Spec_backend_independent v
          [loads dec_o dec_s true so; loads dec_o dec_s false so;
           loads dec_o dec_s true ss; loads dec_o dec_s false ss].
Proof. exact wrapper_backend_independent. Qed.
Print Assumptions C17_backend_independent.

(** Decoding any text that denotes an in-domain value does not depend on the
    backend. *)
Theorem C17_loads_backend_independent :
  forall (F : Type) enc_o enc_s dec_o dec_s (fparse : str -> option F) dom,
    codec_contracts enc_o enc_s dec_o dec_s fparse dom ->
    forall s v, ref_parse fparse s = Some v -> dom v -> in_domain v = true ->
      loads dec_o dec_s true s = loads dec_o dec_s false s.
Proof. exact loads_backend_independent. Qed.
Print Assumptions C17_loads_backend_independent.

(** Outside the 64-bit window orjson steps aside and both configurations emit
    the very same (stdlib) text. *)
Theorem C17_unfit_falls_back :
  forall (F : Type) enc_o enc_s dec_o dec_s (fparse : str -> option F) dom,
    codec_contracts enc_o enc_s dec_o dec_s fparse dom ->
    forall kw (v : json F), fits64 v = false ->
      dumps enc_o enc_s true kw v = dumps enc_o enc_s false kw v.
Proof. exact dumps_unfit_falls_back. Qed.
Print Assumptions C17_unfit_falls_back.

(** A call without [indent] yields bytes without 0x0A and without 0x0D. *)
Theorem C17_single_frame :
  forall (F : Type) enc_o enc_s dec_o dec_s (fparse : str -> option F) dom,
    codec_contracts enc_o enc_s dec_o dec_s fparse dom ->
    forall (a : bool) (kw : kwargs) (v : json F) (s : str),
      kw_indent kw = None -> dumps enc_o enc_s a kw v = Some s ->
      Spec_single_frame (utf8_str s).
Proof. exact wrapper_single_frame. Qed.
Print Assumptions C17_single_frame.

(** The checker the harness applies to the implementation's bytes decides the
    specification. *)
Theorem C17_single_frame_checker :
  forall bytes, single_frame_ok bytes = true <-> Spec_single_frame bytes.
Proof. exact single_frame_ok_spec. Qed.
Print Assumptions C17_single_frame_checker.

(** Reference encoder: no byte below 0x20 — in particular neither 0x0A nor
    0x0D — for EVERY value (no well-formedness needed) and every policy,
    given that the float formatter emits none. *)
Theorem JsonEnc_no_control_byte :
  forall (F : Type) (ftext : F -> str) (p : policy) (v : json F),
    float_texts_clean ftext v ->
    Forall (fun b => 32 <= b) (ref_encode ftext p v).
Proof. exact ref_encode_no_control_byte. Qed.
Print Assumptions JsonEnc_no_control_byte.

Theorem JsonEnc_single_frame :
  forall (F : Type) (ftext : F -> str) (p : policy) (v : json F),
    float_texts_clean ftext v ->
    Spec_single_frame (ref_encode ftext p v).
Proof. exact ref_encode_single_frame. Qed.
Print Assumptions JsonEnc_single_frame.

(** Reference codec, round trip with explicit fuel and continuation: for every
    policy, every well-formed value (strings and keys are Unicode scalar
    values; every float's text is a float token - number characters with at
    least one of [.eE] - that the float reader gives back; integers
    unbounded), every fuel [n >= size v] and every continuation that does not
    start with a number character, the parser reads the rendered value and
    stops exactly at the continuation. *)
Theorem JsonEnc_roundtrip_fuel :
  forall (F : Type) (ftext : F -> str) (fparse : str -> option F) (p : policy) (v : json F),
    wf_value ftext fparse v ->
    forall (n : nat) (rest : str), (size v <= n)%nat -> no_num_head rest ->
      pval fparse n (render ftext p v ++ rest) = Some (v, rest).
Proof. exact pval_render. Qed.
Print Assumptions JsonEnc_roundtrip_fuel.

(** (R) The reference decoder inverts the reference encoder on texts; the
    entry point's fuel [S (length text)] is enough because
    [size v <= length (render p v)] (size_le_length). *)
Theorem JsonEnc_roundtrip :
  forall (F : Type) (ftext : F -> str) (fparse : str -> option F) (p : policy) (v : json F),
    wf_value ftext fparse v ->
    ref_parse fparse (render ftext p v) = Some v.
Proof. exact ref_parse_render. Qed.
Print Assumptions JsonEnc_roundtrip.

(** (B) The same on bytes: strict UTF-8 decoding of the UTF-8 encoding of the
    text, then the parser. *)
Theorem JsonEnc_roundtrip_bytes :
  forall (F : Type) (ftext : F -> str) (fparse : str -> option F) (p : policy) (v : json F),
    wf_value ftext fparse v ->
    ref_decode fparse (ref_encode ftext p v) = Some v.
Proof. exact ref_decode_encode. Qed.
Print Assumptions JsonEnc_roundtrip_bytes.

(** (C) The reference instantiation of the four codecs satisfies the eight
    contracts on the domain of values well-formed for both float formatters,
    provided no float text contains a character below 0x20 (the two
    [single_line] contracts are claimed for EVERY value, not only on [dom]). *)
Theorem C17_reference_codec_satisfies_contracts :
  forall (F : Type) (ftext_o ftext_s : F -> str) (fparse : str -> option F),
    (forall f, Forall (fun c => 32 <= c) (ftext_o f)) ->
    (forall f, Forall (fun c => 32 <= c) (ftext_s f)) ->
    codec_contracts (ref_enc_o ftext_o) (ref_enc_s ftext_s) (ref_dec_o fparse) (ref_dec_s fparse) fparse
                    (fun v => wf_value ftext_o fparse v /\ wf_value ftext_s fparse v).
Proof. exact ref_codec_contracts. Qed.
Print Assumptions C17_reference_codec_satisfies_contracts.

(** Non-vacuity: the premise [codec_contracts] of the wrapper theorems is
    inhabited - by the reference codec with floats = RFC 8259 float tokens -
    on a domain containing a nested value (a float, escapes, a non-BMP
    character, 2^64-1), and on that value the wrapper run with these codecs
    does round-trip under all four backend pairs. *)
Example C17_nonvacuous :
  exists (F : Type) enc_o enc_s dec_o dec_s (fparse : str -> option F) (dom : json F -> Prop) (v : json F),
    codec_contracts enc_o enc_s dec_o dec_s fparse dom /\
    dom v /\ in_domain v = true /\ (2 <= depth v)%nat /\
    forall a b, exists s, dumps enc_o enc_s a kw_none v = Some s /\ loads dec_o dec_s b s = Some v.
Proof. exact contracts_nonvacuous. Qed.
Print Assumptions C17_nonvacuous.

(** C01 — a request completes only with the response that bears its own id. *)
From Coq Require Import Sorting.Sorted.
From Verif.Base Require Import Prelude.
From Verif.Gen Require Import ConstsGen ErrorsGen.
From Verif.Model Require Import Await.
From Verif.Spec Require Import C01.
From Coq Require Import Lia.
From Verif.Proofs Require Import Await AwaitSpec AwaitReadable.
Open Scope Z_scope.

(** For EVERY arrival history (any mix of matching results/errors, same-id server
    requests, other-id responses, notifications, progress, batches; any arrival
    times; queue order = time order), every id, every deadline and every
    resolution of same-instant events: the call satisfies the C01 checker —
    it returns/raises the payload of the FIRST answer bearing its id iff that
    answer arrives before the deadline, times out at the deadline otherwise,
    and writes exactly the one request.  [poll] is the code's own polling
    interval (regenerated), [is_retryable_error] the code's own classifier. *)
Theorem C01_result_is_first_matching_response :
  forall t0 D me has_cb arrivals r,
  t0 <= D -> StronglySorted le_time arrivals ->
  In r (run sub_timeout_ticks is_retryable_error D me has_cb None t0 arrivals) ->
  c01_ok t0 D me arrivals r = true.
Proof. exact (run_c01 sub_timeout_ticks is_retryable_error eq_refl). Qed.
Print Assumptions C01_result_is_first_matching_response.

(** Declarative reading of the checker's core: a returned payload is that of an
    [MRes] with the caller's id that occurs in the history — never a server
    request, another id, a notification or a batch. *)
Theorem C01_never_foreign :
  forall t0 D me has_cb arrivals r tok,
  t0 <= D -> StronglySorted le_time arrivals ->
  In r (run sub_timeout_ticks is_retryable_error D me has_cb None t0 arrivals) ->
  r_out r = Return tok ->
  exists a i, In (a, MRes i tok) arrivals /\ rid_eqb i me = true /\
              first_answer me arrivals = Some (a, MRes i tok).
Proof. exact (never_foreign sub_timeout_ticks is_retryable_error eq_refl). Qed.
Print Assumptions C01_never_foreign.

(** If no response bearing the id arrives, the call times out at the deadline. *)
Theorem C01_no_response_times_out :
  forall t0 D me has_cb arrivals r,
  t0 <= D -> StronglySorted le_time arrivals ->
  first_answer me arrivals = None ->
  In r (run sub_timeout_ticks is_retryable_error D me has_cb None t0 arrivals) ->
  r_out r = Timeout /\ r_end r = D /\ r_req_written r = true.
Proof. exact (no_response_times_out sub_timeout_ticks is_retryable_error eq_refl). Qed.
Print Assumptions C01_no_response_times_out.

(** Non-vacuity: a history with every kind of distractor before the answer. *)
Example C01_nonvacuous :
  let me := IdStr [97] in
  let hist := [(10, MReq me); (20, MRes (IdStr [98]) 1); (20, MRes (IdInt 97) 2); (35, MNotif);
               (50, MBatch); (50, MProg true 3); (120, MRes me 7); (130, MRes me 8)] in
  StronglySorted le_time hist /\
  map r_out (run sub_timeout_ticks is_retryable_error 6000 me false None 0 hist) = [Return 7] /\
  map r_out (run sub_timeout_ticks is_retryable_error 100 me false None 0 hist) = [Timeout].
Proof.
  cbn zeta. split; [|split; vm_compute; reflexivity].
  repeat constructor; unfold le_time; cbn; try lia.
Qed.

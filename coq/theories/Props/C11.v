(** C11 — Streamable HTTP: exactly one terminal message per request, whatever
    the server.  Property theorems only; each is closed by [exact] of a lemma
    from Proofs/HttpSse.v or Proofs/HttpDispatch.v.

    The model is the transport WITH fixes/C11-1..7 (see notes/C11.md); the
    pre-fix code, the refutations of these statements for it and the partial
    round trip it did satisfy are in History/C11_prefix.v.

    External code is universally quantified: [obj] (a decoded JSON object),
    [obj_valid] (JSONRPCMessage.model_validate accepts it), [obj_id],
    [obj_method], [obj_payload] (what the validated message carries) and [loads]
    (json.loads) range over ALL functions. *)
From Verif.Base Require Import Prelude HttpBase.
From Verif.Model Require Import HttpSse HttpDispatch.
From Verif.Spec Require Import C11.
From Verif.Proofs Require Import HttpSse HttpDispatch C11Spec.
Open Scope Z_scope.

(** For ALL message lists (single-line JSON object texts) and ALL per-event
    encoding choices (event field absent / before / after the data line, a
    space after the colons or none, LF or CRLF, any comment / id: / retry:
    lines before and after, any number of extra blank lines) the parser hands
    to the JSON decoder exactly the messages, in order. *)
Theorem C11_sse_roundtrip : forall l : list (enc_choice * str),
  forallb event_ok l = true ->
  sse_messages (sse_encode l) = map snd l.
Proof. exact sse_roundtrip. Qed.
Print Assumptions C11_sse_roundtrip.

(** ... and events WITHOUT data between the messages - a typed keep-alive ("event: ping" and the blank line), a block
    holding only a comment, even a data-less "event: message" - change nothing: nothing is delivered for them and the type
    they name does not stick to the events that follow (every such block, any name, any spelling choices). *)
Theorem C11_dataless_events_change_nothing : forall l : list (list noise * (enc_choice * str)),
  forallb noisy_event_ok l = true ->
  sse_messages (sse_encode_noisy l) = map (fun x => snd (snd x)) l.
Proof. exact sse_roundtrip_noisy. Qed.
Print Assumptions C11_dataless_events_change_nothing.

(** For EVERY answer (any integer status, any content-type string, any body,
    any exception) to a request with id r: either the server's own response to
    r is among the delivered messages and nothing was synthesised, or no
    delivered message answers r and exactly one synthesised terminal message
    carrying r was delivered.  For a notification: at most one synthesised
    message, and none carrying an id. *)
Theorem C11_exactly_one_terminal :
  forall (obj : Type) (obj_valid : obj -> bool) (obj_id : obj -> option jid)
         (obj_method obj_payload : obj -> bool) (loads : str -> jres obj)
         (st : tstate) (rq : request) (a : answer),
  (rq_id rq <> None -> rq_method rq = true) ->
  Spec_terminal obj (answers_obj obj obj_id obj_method) (rq_id rq)
    (map (abstract obj) (snd (post obj obj_valid obj_id obj_method obj_payload loads st rq a))).
Proof. exact exactly_one_terminal. Qed.
Print Assumptions C11_exactly_one_terminal.

(** Every status >= 400, whatever the headers and the body: exactly the one
    synthesised error (with the POSTed message's id), transport state untouched. *)
Theorem C11_error_status_one_synth :
  forall (obj : Type) obj_valid obj_id obj_method obj_payload (loads : str -> jres obj)
         st rq status ctype body utf8 session,
  status >= 400 ->
  post obj obj_valid obj_id obj_method obj_payload loads st rq (Resp status ctype body utf8 session)
  = (st, [Synth (rq_id rq) (SError (-32603))]).
Proof. exact error_status_one_synth. Qed.
Print Assumptions C11_error_status_one_synth.

(** Connection failure, read timeout, protocol error, asyncio timeout: likewise. *)
Theorem C11_exception_one_synth :
  forall (obj : Type) obj_valid obj_id obj_method obj_payload (loads : str -> jres obj) st rq k,
  post obj obj_valid obj_id obj_method obj_payload loads st rq (Exc k)
  = (st, [Synth (rq_id rq) (SError (exc_code k))]).
Proof. exact exception_one_synth. Qed.
Print Assumptions C11_exception_one_synth.

(** A JSON body yields the server's message or messages: every member (of an
    object, of an array, of nested arrays) that is a valid JSON-RPC message, in
    order, and nothing else from the server. *)
Theorem C11_json_body_delivered :
  forall (obj : Type) obj_valid obj_id obj_method obj_payload (loads : str -> jres obj)
         st rq status ctype body utf8 session v,
  status < 400 -> served_as_json ctype body utf8 -> loads body = JOk v ->
  servers obj (map (abstract obj) (snd (post obj obj_valid obj_id obj_method obj_payload loads st rq
                                             (Resp status ctype body utf8 session))))
  = filter (deliverable obj obj_valid obj_method obj_payload) (flatten obj v).
Proof. exact json_body_delivered. Qed.
Print Assumptions C11_json_body_delivered.

(** An SSE body in any spec-conformant encoding yields every JSON-RPC message it contains, in order. *)
Theorem C11_sse_body_delivered :
  forall (obj : Type) obj_valid obj_id obj_method obj_payload (loads : str -> jres obj)
         st rq status ctype utf8 session (l : list (enc_choice * str)),
  status < 400 -> contains s_app_json ctype = false -> contains s_event_stream ctype = true ->
  forallb event_ok l = true ->
  servers obj (map (abstract obj) (snd (post obj obj_valid obj_id obj_method obj_payload loads st rq
                                             (Resp status ctype (sse_encode l) utf8 session))))
  = flat_map (decoded obj obj_valid obj_method obj_payload loads) (map snd l).
Proof. exact sse_body_delivered. Qed.
Print Assumptions C11_sse_body_delivered.

(** For ALL answer lists the n-th request is still processed: its POST is
    issued and it puts on the read stream exactly what one POST does in the
    state left by the first n answers — no earlier failure changes that. *)
Theorem C11_loop_survives :
  forall (obj : Type) obj_valid obj_id obj_method obj_payload (loads : str -> jres obj)
         (n : nat) (l : list (request * answer)) (st : tstate) (ra : request * answer),
  nth_error l n = Some ra ->
  nth_error (snd (run_loop obj obj_valid obj_id obj_method obj_payload loads st l)) n
  = Some (sent_session (fst (run_loop obj obj_valid obj_id obj_method obj_payload loads st (firstn n l))),
          snd (post obj obj_valid obj_id obj_method obj_payload loads
                    (fst (run_loop obj obj_valid obj_id obj_method obj_payload loads st (firstn n l)))
                    (fst ra) (snd ra))).
Proof. exact loop_survives. Qed.
Print Assumptions C11_loop_survives.

Theorem C11_loop_one_entry_per_request :
  forall (obj : Type) obj_valid obj_id obj_method obj_payload (loads : str -> jres obj) l st,
  length (snd (run_loop obj obj_valid obj_id obj_method obj_payload loads st l)) = length l.
Proof. exact loop_length. Qed.
Print Assumptions C11_loop_one_entry_per_request.

(** Invariant of every history: the session header sent with request n is the
    most recent id issued before it (the configured one counting as issued first). *)
Theorem C11_session_latest :
  forall (obj : Type) obj_valid obj_id obj_method obj_payload (loads : str -> jres obj)
         (n : nat) (l : list (request * answer)) (init : option str) (ra : request * answer),
  nth_error l n = Some ra ->
  init <> Some [] -> (forall x, In x l -> issued x <> Some []) ->
  exists out,
    nth_error (snd (run_loop obj obj_valid obj_id obj_method obj_payload loads init l)) n
    = Some (demanded_header init (map issued (firstn n l)), out).
Proof. exact session_latest. Qed.
Print Assumptions C11_session_latest.

(** The boolean checkers the harness applies to the IMPLEMENTATION's observations
    decide exactly the predicates used above. *)
Theorem C11_terminal_checker_exact : forall (M : Type) (answers : jid -> M -> bool) rid out,
  terminal_ok M answers rid out = true <-> Spec_terminal M answers rid out.
Proof. exact terminal_ok_spec. Qed.
Print Assumptions C11_terminal_checker_exact.

Theorem C11_session_checker_exact : forall init hist sent,
  session_ok init hist sent = true <-> sent = demanded_header init hist.
Proof. exact session_ok_spec. Qed.
Print Assumptions C11_session_checker_exact.

(** "the most recent one": the last id issued in the history. *)
Theorem C11_most_recent_is_last : forall pre s post,
  Forall (fun x => x = None) post -> most_recent (pre ++ Some s :: post) = Some s.
Proof. exact most_recent_last. Qed.
Print Assumptions C11_most_recent_is_last.

(** Non-vacuity: concrete, non-trivial values satisfy the hypotheses, and the
    theorems' left-hand sides compute to non-trivial results. *)
Definition ex_choice : enc_choice :=
  {| ec_before := [XComment [32;104;105]; XId [52;49]]; ec_after := [XRetry [53]];
     ec_event := EvAbsent; ec_space := false; ec_crlf := true; ec_blanks := 1 |}.
Definition ex_msg : str := [123;34;105;100;34;58;55;125].        (* {"id":7} *)
Definition ex_loads (t : str) : jres Z := if str_eqb t ex_msg then JOk (JArr [JObj 7; JScalar; JObj 8]) else JBad.
Definition ex_rq : request := {| rq_id := Some (IdInt 7); rq_method := true |}.

Example C11_nonvacuous :
  forallb event_ok [(ex_choice, ex_msg); (ex_choice, ex_msg)] = true
  /\ sse_messages (sse_encode [(ex_choice, ex_msg); (ex_choice, ex_msg)]) = [ex_msg; ex_msg]
  (* the server's own response (object 7 answers id 7) is delivered, nothing is synthesised *)
  /\ snd (post Z (fun _ => true) (fun z => Some (IdInt z)) (fun _ => false) (fun _ => true) ex_loads None ex_rq
               (Resp 200 s_event_stream (sse_encode [(ex_choice, ex_msg)]) true (Some [115])))
     = [Server 7; Server 8]
  (* an unrelated body: the server's message, then exactly one synthesised error carrying id 7 *)
  /\ snd (post Z (fun _ => true) (fun z => Some (IdInt (z + 1))) (fun _ => false) (fun _ => true) ex_loads None ex_rq
               (Resp 200 s_app_json ex_msg true None))
     = [Server 7; Server 8; Synth (Some (IdInt 7)) (SError (-32603))]
  /\ served_as_json s_app_json ex_msg true
  /\ demanded_header None [Some [97]; None; Some [98]; None] = Some [98]
  /\ issues 200 (Some [97]) = Some [97] /\ issues 404 (Some [97]) = None.
Proof.
  repeat split; try (vm_compute; reflexivity).
  left. split; reflexivity.
Qed.

(** A typed keep-alive and a comment-only block ahead of a message that has NO event field of its own, CRLF ends, no space
    after the colons: the message is delivered (the "ping" type is gone by then). *)
Example C11_dataless_nonvacuous :
  let c := {| ec_before := []; ec_after := []; ec_event := EvAbsent; ec_space := false; ec_crlf := true; ec_blanks := 0%nat |} in
  let m := [123; 34; 97; 34; 58; 49; 125] in
  let l := [([NTyped [112; 105; 110; 103]; NCommentOnly [32; 107]; NTyped v_message], (c, m))] in
  forallb noisy_event_ok l = true /\ sse_messages (sse_encode_noisy l) = [m].
Proof. vm_compute. split; reflexivity. Qed.

(** C09 -- Pydantic and fallback validation back ends agree on all spec-valid traffic.
    Model/Validate.v; the claimed theorems are about the fallback WITH
    fixes/C09-union-exact-member-first.patch and fixes/C09-literal-checked.patch
    ([fallback_validate = fb patched]); History/C09_prefix.v refutes the same
    statement for the code at the pinned commit. *)
From Verif.Base Require Import Prelude Json ValidSchema ValidWitness.
From Verif.Gen Require Import SchemaGen.
From Verif.Model Require Import Validate.
From Verif.Spec Require Import C09.
From Verif.Proofs Require Import JsonFacts Validate.
From Verif.History Require C09_prefix.
Open Scope Z_scope.

(** For EVERY well-formed schema table, annotation, wire value and fuel: spec-valid
    input is accepted by the fallback with exactly the reference result, and
    the two re-serialise to the same JSON value. *)
Theorem C09_agree_on_valid :
  forall SS fuel t j, wf_schemas SS = true -> wf_ty t = true -> conforms SS fuel t j = true ->
    fallback_validate SS fuel t j = Some (ref_validate SS fuel t j)
    /\ option_map (dump_by_alias SS) (fallback_validate SS fuel t j)
       = Some (dump_by_alias SS (ref_validate SS fuel t j)).
Proof. intros SS fuel t j WF. exact (agree_dump SS WF fuel t j). Qed.
Print Assumptions C09_agree_on_valid.

(** The side condition holds for the table generated from the code as it is now. *)
Theorem C09_generated_table_wf : wf_schemas all = true.
Proof. vm_compute. reflexivity. Qed.
Print Assumptions C09_generated_table_wf.

Theorem C09_agree_on_generated_table :
  forall fuel n j, conforms all fuel (TModel n) j = true ->
    fallback_validate all fuel (TModel n) j = Some (ref_validate all fuel (TModel n) j).
Proof. intros fuel n j C. exact (proj1 (agree_dump all C09_generated_table_wf fuel (TModel n) j eq_refl C)). Qed.
Print Assumptions C09_agree_on_generated_table.

(** An id (Union[int, str]) is returned as the wire value itself: a string stays a
    string, an integer an integer. *)
Theorem C09_id_type_preserved :
  forall SS fuel j, wf_schemas SS = true -> conforms SS fuel t_id j = true ->
    fallback_validate SS fuel t_id j = Some (VJ j)
    /\ ref_validate SS fuel t_id j = VJ j
    /\ dump_by_alias SS (VJ j) = j
    /\ ((exists z, j = JInt z) \/ (exists s, j = JStr s)).
Proof. intros SS fuel j WF. exact (id_type_preserved SS WF fuel j). Qed.
Print Assumptions C09_id_type_preserved.

(** Discriminated content keeps its variant: for a union of models both back ends
    produce an instance of the SAME class, the first member not ruled out by a
    literal tag or a missing required member. *)
Theorem C09_variant_preserved :
  forall SS fuel ts j, wf_schemas SS = true -> forallb is_model_ty ts = true ->
    conforms SS fuel (TUnion ts) j = true ->
    exists n fs, find (fun t' => negb (quick_reject SS t' j)) ts = Some (TModel n)
                 /\ fallback_validate SS fuel (TUnion ts) j = Some (VModel n fs)
                 /\ ref_validate SS fuel (TUnion ts) j = VModel n fs.
Proof. intros SS fuel ts j WF. exact (variant_preserved SS WF fuel ts j). Qed.
Print Assumptions C09_variant_preserved.

(** Documented invariants are enforced by both back ends or by neither -- as a
    statement about the generated table: every hook is a [model_post_init] (run by
    both) and no field carries a Pydantic-only range constraint.  REFUTED: Root
    and CompletionResult use [__post_init__] (fallback only), the priorities use
    [Field(ge=, le=)] (Pydantic only).  Recorded as known findings. *)
Definition C09_invariants_same_statement : Prop := invariants_symmetric all = true.

Theorem C09_invariants_same_refuted : ~ C09_invariants_same_statement.
Proof. unfold C09_invariants_same_statement. vm_compute. discriminate. Qed.
Print Assumptions C09_invariants_same_refuted.

(** ... with the concrete inputs: accepted by the model of one back end, rejected by the other. *)
Theorem C09_invariants_same_witnesses :
  (accepts_pydantic all 6%nat (TModel n_root) j_root_http = true
   /\ fallback_validate all 6%nat (TModel n_root) j_root_http = None)
  /\ (accepts_pydantic all 6%nat (TModel n_completion) j_completion_101 = true
      /\ fallback_validate all 6%nat (TModel n_completion) j_completion_101 = None)
  /\ (accepts_pydantic all 6%nat (TModel n_annotations) j_priority_5 = false
      /\ fallback_validate all 6%nat (TModel n_annotations) j_priority_5 <> None).
Proof. vm_compute. repeat split; try reflexivity. discriminate. Qed.
Print Assumptions C09_invariants_same_witnesses.

(** The strongest true restriction: invariants attached through [model_post_init]
    (JSON-RPC error shape, the unified message rules) are run by both, and on
    spec-valid input (every invariant holds) the two agree -- C09_agree_on_valid. *)
Theorem C09_invariants_same_partial :
  forall s pi, s_hook_kind s = KModelPostInit -> hook_runs pi s = true.
Proof. exact model_post_init_both. Qed.
Print Assumptions C09_invariants_same_partial.

(** The generated hooks are the invariants the property text names. *)
Theorem C09_documented_invariants_pinned :
  option_map s_hook (find_schema n_root all) = Some (HUriPrefix [117; 114; 105] root_uri_prefix)
  /\ option_map s_hook (find_schema n_completion all)
     = Some (HMaxLen [118; 97; 108; 117; 101; 115] max_completion_values).
Proof. vm_compute. split; reflexivity. Qed.
Print Assumptions C09_documented_invariants_pinned.

(** The checker the harness applies to the two workers' observations is the specification. *)
Theorem C09_agree_ok_reflects :
  forall valid p f, agree_ok valid p f = true <-> Spec_agree valid p f.
Proof.
  intros valid p f. unfold agree_ok, Spec_agree. rewrite andb_true_iff, json_eqb_eq. split.
  - intros [E H]. split; auto. intros ->. simpl in H. exact H.
  - intros [E H]. split; auto. destruct valid; simpl; auto.
Qed.
Print Assumptions C09_agree_ok_reflects.

(** The code at the pinned commit does not satisfy the property (History). *)
Theorem C09_agree_on_valid_head_refuted : ~ C09_prefix.C09_agree_on_valid_head_statement.
Proof. exact C09_prefix.C09_head_refuted_by_id_123. Qed.
Print Assumptions C09_agree_on_valid_head_refuted.

(** Non-vacuity: concrete wire objects satisfy the hypotheses and exercise the claims. *)
Example C09_nonvacuous :
  conforms all 8%nat (TModel n_request) j_req_id123 = true
  /\ conforms all 8%nat (TModel n_request) j_req_int = true
  /\ conforms all 8%nat (TModel n_toolresult) j_audio = true
  /\ conforms all 8%nat (TModel n_root) j_root_file = true
  /\ conforms all 8%nat (TModel n_root) j_root_http = false
  /\ conforms all 8%nat (TModel n_toolresult) j_lax = false
  /\ conforms all 8%nat t_id (JStr [49; 50; 51]) = true.
Proof. vm_compute. repeat split; reflexivity. Qed.

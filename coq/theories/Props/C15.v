(** C15 — property theorems.  Nothing but statements closed by [exact]. *)
From Verif.Base Require Import Prelude StdioUtf8 SseVocab Json.
From Verif.Model Require Import Carrier.
From Verif.Model Require Lines HttpSse SseLegacy.
From Verif.Spec Require C11.
From Verif.Spec Require Import C15.
From Verif.Proofs Require Carrier CarrierDecode.
From Verif.Model Require Envelope.
From Verif.Spec Require C02.
Open Scope Z_scope.

(** ONE conversation (any list of admissible message texts: single-line JSON
    object texts of Unicode scalar values), framed for each carrier with ANY
    of the encoding choices the wire formats leave open (LF / CRLF per stdio
    line; event field absent / before / after the data line, space after the
    colons or none, LF / CRLF, comment / id: / retry: lines, extra blank lines
    for an SSE body; comments, optional space, LF / CRLF, extra blank lines on
    the legacy stream) and cut into ANY chunks (stdio bytes, legacy stream
    text): every carrier's receive path hands the common decoder exactly the
    server's messages, in the server's order.  So for every decoder [parse] the
    three transcripts are equal — to each other and to the canonical one. *)
Theorem C15_carrier_independent :
  forall (T : Type) (parse : str -> list T) (msgs : list str)
         (ls : list (bool * str)) (lh : list (C11.enc_choice * str)) (ll : list (lchoice * str))
         c base url chunks_stdio chunks_legacy,
  forallb msg_ok msgs = true ->
  map snd ls = msgs -> map snd lh = msgs -> map snd ll = msgs ->
  forallb (fun cm => C11.choice_ok (fst cm)) lh = true ->
  forallb (fun cm => lchoice_ok (fst cm)) ll = true ->
  SseLegacy.c_opt_space c = true -> url <> [] ->
  concat chunks_stdio = stdio_frame ls ->
  concat chunks_legacy = legacy_frame ll ->
  rx_stdio T parse chunks_stdio = flat_map parse msgs
  /\ rx_http_sse T parse (http_sse_frame lh) = flat_map parse msgs
  /\ rx_legacy T parse c base (legacy_connected url) chunks_legacy = flat_map parse msgs.
Proof. exact Carrier.carrier_independent. Qed.
Print Assumptions C15_carrier_independent.

(** The legacy stream parser is back in its idle connected state after any
    number of framed events: conversations compose. *)
Theorem C15_legacy_stream_composes :
  forall (T : Type) (parse : str -> list T) c base url l chunks,
  SseLegacy.c_opt_space c = true -> url <> [] ->
  forallb (fun cm => lchoice_ok (fst cm) && msg_ok (snd cm)) l = true ->
  concat chunks = legacy_frame l ->
  rx_legacy T parse c base (legacy_connected url) chunks = flat_map parse (map snd l)
  /\ fst (SseLegacy.run_parser c base (legacy_connected url) chunks) = legacy_connected url.
Proof. exact Carrier.legacy_transcript. Qed.
Print Assumptions C15_legacy_stream_composes.

(** Streamable HTTP with JSON bodies: the body goes to the JSON decoder whole.
    Under the stated contract of that decoder — the body of a step (the answer
    object, or the array of the step's messages) decodes to what its messages
    decode to, in order — the transcript is the canonical one as well. *)
Theorem C15_http_json_transcript :
  forall (T : Type) (parse : str -> list T) (parse_body : str -> list T) (cv : conv),
  (forall s, In s cv -> parse_body (http_json_body s) = flat_map parse (step_msgs s)) ->
  flat_map (fun s => rx_http_json T parse_body (http_json_body s)) cv = flat_map parse (canonical cv).
Proof. exact Carrier.http_json_transcript. Qed.
Print Assumptions C15_http_json_transcript.

(** Relative order of notifications and responses on the legacy carrier, where
    the response alone takes a detour through the sender task: for EVERY
    sequential conversation (each step: any number of notifications not bearing
    the request's id, then the answer), whether the POST is acknowledged before
    any, between any two, or after all of the step's stream events (202), or
    carries the answer itself (200), the read stream gets the server's messages
    in the server's order, and the sender is idle again after every step. *)
Theorem C15_legacy_order :
  forall c (l : list cstep),
  Forall Carrier.cstep_ok l ->
  map snd (SseLegacy.run c SseLegacy.sinit (lconv_events l)) = lconv_canonical l
  /\ SseLegacy.final c SseLegacy.sinit (lconv_events l) = SseLegacy.sinit.
Proof. exact Carrier.legacy_conversation_order. Qed.
Print Assumptions C15_legacy_order.

(** The per-message decoders (the [parse] the theorems above are generic in)
    differ per carrier in the code: stdio uses [parse_message], legacy SSE
    [JSONRPCMessage.model_validate], Streamable HTTP the same plus its
    non-message filter.  On EVERY valid JSON-RPC 2.0 message whose result - if
    it is a result - is a JSON object, under either validation back end, the
    three deliver the same view (kind, id with its JSON type, method, params,
    result, error): exactly what the wire says. *)
Theorem C15_decoders_agree : forall fb m k,
  C02.classify (Json.JObj m) = inr k ->
  (k = Envelope.KRes -> CarrierDecode.result_is_object m) ->
  CarrierDecode.decode_stdio fb m = C02.view_of_wire (Json.JObj m)
  /\ CarrierDecode.decode_legacy m = C02.view_of_wire (Json.JObj m)
  /\ CarrierDecode.decode_http m = C02.view_of_wire (Json.JObj m)
  /\ C02.view_of_wire (Json.JObj m) <> None.
Proof. exact CarrierDecode.decoders_agree. Qed.
Print Assumptions C15_decoders_agree.

(** At full strength - every valid JSON-RPC message, results of any JSON type -
    the statement is FALSE of the code: the unified message class refuses a
    result that is not an object, so {"jsonrpc":"2.0","id":1,"result":null} (or 5,
    or "s", or [..]) is delivered over stdio only (recorded finding; MCP
    results are objects). *)
Definition C15_decoders_agree_on_every_valid_message_statement : Prop :=
  CarrierDecode.decoders_agree_on_every_valid_message.
Theorem C15_decoders_agree_on_every_valid_message_refuted :
  ~ C15_decoders_agree_on_every_valid_message_statement.
Proof. exact CarrierDecode.decoders_agree_on_every_valid_message_refuted. Qed.
Print Assumptions C15_decoders_agree_on_every_valid_message_refuted.

(** The stream parser the extracted driver runs on long streams (one pass,
    reversed accumulator) computes exactly what the chunk-by-chunk model does. *)
Theorem C15_driver_parser_is_the_model :
  forall (T : Type) (parse : str -> list T) c base url chunks,
  rx_legacy_fast T parse c base (legacy_connected url) chunks = rx_legacy T parse c base (legacy_connected url) chunks.
Proof. intros. apply Carrier.rx_legacy_fast_eq. reflexivity. Qed.
Print Assumptions C15_driver_parser_is_the_model.

(** The checker the harness applies to the four OBSERVED transcripts decides
    exactly "every carrier's transcript is the canonical one". *)
Theorem C15_checker_reflects : forall canon obs, agree_ok canon obs = true <-> Spec_agree canon obs.
Proof. exact Carrier.agree_ok_spec. Qed.
Print Assumptions C15_checker_reflects.

(** Non-vacuity: a two-message conversation (a notification with U+2028 and an
    astral code point in its text, then a response), CRLF on stdio, no space and
    no event field in the SSE body, a comment and CRLF on the legacy stream,
    stdio cut inside the 4-byte character. *)
Definition ex_notif : str := [123; 34; 109; 34; 58; 34; 8232; 128512; 34; 125].   (* {"m":"<U+2028><U+1F600>"} *)
Definition ex_resp : str := [123; 34; 105; 100; 34; 58; 49; 125].                  (* {"id":1} *)
Definition ex_choice : C11.enc_choice :=
  {| C11.ec_before := []; C11.ec_after := []; C11.ec_event := C11.EvAbsent; C11.ec_space := false;
     C11.ec_crlf := false; C11.ec_blanks := 0 |}.
Definition ex_lchoice : lchoice := {| lc_comments := [[107]]; lc_space := true; lc_crlf := true; lc_blanks := 1 |}.

Example C15_nonvacuous :
  forallb msg_ok [ex_notif; ex_resp] = true
  /\ (let bytes := stdio_frame [(true, ex_notif); (false, ex_resp)] in
      concat [firstn 10 bytes; skipn 10 bytes] = bytes
      /\ rx_stdio str (fun t => [t]) [firstn 10 bytes; skipn 10 bytes] = [ex_notif; ex_resp])
  /\ rx_http_sse str (fun t => [t]) (http_sse_frame [(ex_choice, ex_notif); (ex_choice, ex_resp)]) = [ex_notif; ex_resp]
  /\ rx_legacy str (fun t => [t]) SseLegacy.cfg_patched [104] (legacy_connected [104; 47; 109])
       [legacy_frame [(ex_lchoice, ex_notif); (ex_lchoice, ex_resp)]] = [ex_notif; ex_resp].
Proof. vm_compute. repeat split; reflexivity. Qed.

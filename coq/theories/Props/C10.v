(** C10 -- typed protocol models are lossless views of the wire and use wire names.
    Model/Validate.v (same model as C09); Spec/C10.v. *)
From Verif.Base Require Import Prelude Json ValidSchema ValidWitness.
From Verif.Gen Require Import SchemaGen.
From Verif.Model Require Import Validate.
From Verif.Spec Require Import C10.
From Verif.Proofs Require Import JsonFacts Validate Lossless.
Open Scope Z_scope.

(** Generic over ALL well-formed schema tables: validating a spec-valid wire value
    and serialising it with wire names preserves every member of the input
    (unknown members included, aliased members under their alias) -- for the
    reference semantics and for the fallback alike. *)
Theorem C10_lossless :
  forall SS fuel t j, wf_schemas SS = true -> wf_ty t = true -> conforms SS fuel t j = true ->
    preserved j (dump_by_alias SS (ref_validate SS fuel t j))
    /\ exists v, fallback_validate SS fuel t j = Some v /\ preserved j (dump_by_alias SS v).
Proof.
  intros SS fuel t j WF W C. split.
  - exact (lossless_gen SS WF fuel t j W C).
  - exact (lossless_fallback SS WF fuel t j W C).
Qed.
Print Assumptions C10_lossless.

(** "Preserved EXACTLY": nothing is dropped at all -- a null inside free-form data (tool arguments, _meta contents) is a
    member like any other and survives; spec-validity rules out nulls at typed positions, the only place where the
    observation's exclude_none applies. *)
Theorem C10_lossless_exactly :
  forall SS fuel t j, wf_schemas SS = true -> wf_ty t = true -> conforms SS fuel t j = true ->
    preserved_exact j (dump_by_alias SS (ref_validate SS fuel t j))
    /\ exists v, fallback_validate SS fuel t j = Some v /\ preserved_exact j (dump_by_alias SS v).
Proof.
  intros SS fuel t j WF W C. split.
  - exact (lossless_exact_gen SS WF fuel t j W C).
  - exact (lossless_exact_fallback SS WF fuel t j W C).
Qed.
Print Assumptions C10_lossless_exactly.

Theorem C10_exact_implies_preserved : forall a b, preserved_exact a b -> preserved a b.
Proof. exact preserved_exact_preserved. Qed.
Print Assumptions C10_exact_implies_preserved.

Theorem C10_preserved_exact_ok_sound : forall fuel a b, preserved_exact_ok fuel a b = true -> preserved_exact a b.
Proof. exact preserved_exact_ok_sound. Qed.
Print Assumptions C10_preserved_exact_ok_sound.

(** Instantiated on the table generated from the code as it is now. *)
Theorem C10_generated_table_wf : wf_schemas all = true.
Proof. vm_compute. reflexivity. Qed.
Print Assumptions C10_generated_table_wf.

Theorem C10_lossless_on_generated_table :
  forall fuel n j, conforms all fuel (TModel n) j = true ->
    preserved j (dump_by_alias all (ref_validate all fuel (TModel n) j)).
Proof. intros fuel n j C. exact (lossless_gen all C10_generated_table_wf fuel (TModel n) j eq_refl C). Qed.
Print Assumptions C10_lossless_on_generated_table.

(** Every member the dump adds is a declared default of the class. *)
Theorem C10_added_members_are_declared_defaults :
  forall SS fuel n s m, wf_schemas SS = true -> find_schema n SS = Some s ->
    conforms SS (S fuel) (TModel n) (JObj m) = true ->
    forall k x', In (k, x') (match dump SS true (ref_validate SS (S fuel) (TModel n) (JObj m)) with JObj o => o | _ => [] end) ->
      (exists v, In (k, v) m)
      \/ (exists fd dv, In fd (s_fields s) /\ k = f_wire fd /\ f_default fd = Some dv /\ x' = dump SS true dv).
Proof. intros SS fuel n s m WF. exact (added_declared SS WF fuel n s m). Qed.
Print Assumptions C10_added_members_are_declared_defaults.

(** The defect class: whatever model instance, a populated attribute is emitted under
    its PYTHON name by a dump without by_alias, and under its wire name with it. *)
Theorem C10_python_name_leaks_without_alias_flag :
  forall SS c fs k x, In (k, x) fs -> is_vnull x = false ->
    In (k, dump SS false x) (match dump SS false (VModel c fs) with JObj o => o | _ => [] end)
    /\ In (out_key SS true c k, dump SS true x) (match dump SS true (VModel c fs) with JObj o => o | _ => [] end).
Proof. exact python_name_leaks. Qed.
Print Assumptions C10_python_name_leaks_without_alias_flag.

(** ... on the generated table: ElicitationParams dumped without by_alias carries
    "schema_" and no "schema"; with by_alias it is the other way round. *)
Theorem C10_elicitation_schema_leak :
  let v := ref_validate all 8%nat (TModel n_elicit) j_elicit in
  conforms all 8%nat (TModel n_elicit) j_elicit = true
  /\ match dump all false v with JObj o => has_key [115; 99; 104; 101; 109; 97; 95] o && negb (has_key [115; 99; 104; 101; 109; 97] o) | _ => false end = true
  /\ match dump all true v with JObj o => has_key [115; 99; 104; 101; 109; 97] o && negb (has_key [115; 99; 104; 101; 109; 97; 95] o) | _ => false end = true.
Proof. vm_compute. repeat split; reflexivity. Qed.
Print Assumptions C10_elicitation_schema_leak.

(** The "wire names only" clause of spec-validity is necessary: an unknown wire
    member spelled like the Python attribute of an aliased field ("meta") is taken
    for that field (populate_by_name) and leaves as "_meta" -- under both back ends.
    Recorded as a known finding. *)
Theorem C10_python_named_member_is_renamed :
  conforms all 8%nat (TModel n_tool) j_tool_pyname = false
  /\ match dump_by_alias all (ref_validate all 8%nat (TModel n_tool) j_tool_pyname) with
     | JObj o => negb (has_key [109; 101; 116; 97] o) && has_key [95; 109; 101; 116; 97] o
     | _ => false
     end = true
  /\ option_map (dump_by_alias all) (fallback_validate all 8%nat (TModel n_tool) j_tool_pyname)
     = Some (dump_by_alias all (ref_validate all 8%nat (TModel n_tool) j_tool_pyname)).
Proof. vm_compute. repeat split; reflexivity. Qed.
Print Assumptions C10_python_named_member_is_renamed.

(** The checker applied to the real code's output implies the specification. *)
Theorem C10_preserved_ok_sound : forall fuel a b, preserved_ok fuel a b = true -> preserved a b.
Proof. exact preserved_ok_sound. Qed.
Print Assumptions C10_preserved_ok_sound.

Example C10_nonvacuous :
  conforms all 8%nat (TModel n_tool) j_tool_meta = true
  /\ preserved_ok 8%nat j_tool_meta (dump_by_alias all (ref_validate all 8%nat (TModel n_tool) j_tool_meta)) = true
  /\ preserved_ok 8%nat j_tool_meta (dump all false (ref_validate all 8%nat (TModel n_tool) j_tool_meta)) = false.
Proof. vm_compute. repeat split; reflexivity. Qed.

(** A null inside free-form data: spec-valid, kept by the model; an output without it fails the exact judgement (and only
    that one: the weaker [preserved] cannot see the loss). *)
Definition j_tool_null_in_meta : json :=
  JObj [([110; 97; 109; 101], JStr [110]); ([105; 110; 112; 117; 116; 83; 99; 104; 101; 109; 97], JObj []);
        ([95; 109; 101; 116; 97], JObj [([97], JNull); ([98], JArr [JNull; JObj [([99], JNull)]])])].
Definition j_tool_null_dropped : json :=
  JObj [([110; 97; 109; 101], JStr [110]); ([105; 110; 112; 117; 116; 83; 99; 104; 101; 109; 97], JObj []);
        ([95; 109; 101; 116; 97], JObj [([98], JArr [JNull; JObj []])])].
Example C10_exact_nonvacuous :
  conforms all 8%nat (TModel n_tool) j_tool_null_in_meta = true
  /\ preserved_exact_ok 8%nat j_tool_null_in_meta (dump_by_alias all (ref_validate all 8%nat (TModel n_tool) j_tool_null_in_meta)) = true
  /\ preserved_exact_ok 8%nat j_tool_null_in_meta j_tool_null_dropped = false
  /\ preserved_ok 8%nat j_tool_null_in_meta j_tool_null_dropped = true.
Proof. vm_compute. repeat split; reflexivity. Qed.

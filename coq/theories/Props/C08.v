(** C08 — Server dispatch: one response per request, none per notification,
    never a crash.  Property theorems only; each is closed by [exact] of a lemma
    from Proofs/Dispatch.v.  [handle] is the model of
    ProtocolHandler.handle_message at the pinned commit (Model/Dispatch.v); the
    codes of the property are pinned in Spec/C08.v.  The theorems quantify over
    EVERY server (handler table, tool and resource registries, behaviour of all
    application code), every id, every method string and every params shape. *)
From Verif.Base Require Import Prelude SrvCommon.
From Verif.Spec Require Import C08.
From Verif.Model Require Import Dispatch.
From Verif.Proofs Require Import Dispatch.
Open Scope Z_scope.

(** Dispatch never raises to its caller: any table, any message (batch,
    response-shaped, request, notification), any handler behaviour including
    exceptions that cannot be printed.  No contract is assumed. *)
Theorem C08_never_raises : forall srv m, handle srv m <> Raised.
Proof. exact (fun srv m => never_raises_tame true srv m (tame_true srv)). Qed.
Print Assumptions C08_never_raises.

(** Every request gets exactly the response the property's table demands for the
    situation it meets (one response, the request's id WITH its JSON type, result
    or error with the pinned code).  Application method handlers are held to
    their (response, session) contract; library handlers need no hypothesis. *)
Theorem C08_request_one_response_same_id : forall srv i meth p,
  contract_ok (Some i) (situation_of srv meth p) = true ->
  Spec_request i (situation_of srv meth p) (handle srv (MSingle (Some i) (Some meth) p)).
Proof. exact (fun srv i meth p => request_spec true srv i meth p (tame_true srv)). Qed.
Print Assumptions C08_request_one_response_same_id.

Theorem C08_request_response_carries_id : forall srv i meth p,
  contract_ok (Some i) (situation_of srv meth p) = true ->
  exists e, handle srv (MSingle (Some i) (Some meth) p) = Resp e /\ env_id e = i.
Proof.
  exact (fun srv i meth p C =>
           spec_request_carries_id i _ _ (request_spec true srv i meth p (tame_true srv) C)).
Qed.
Print Assumptions C08_request_response_carries_id.

(** The code table, row by row. *)
Theorem C08_unregistered_method_32601 : forall srv i meth p,
  assoc meth (handlers srv) = None ->
  handle srv (MSingle (Some i) (Some meth) p) = Resp (EnvError i code_method_not_found).
Proof. exact (unregistered_32601 true). Qed.
Print Assumptions C08_unregistered_method_32601.

Theorem C08_unknown_tool_32602 : forall srv i meth n u a,
  assoc meth (handlers srv) = Some HToolsCall ->
  find_target n (tools srv) = None ->
  handle srv (MSingle (Some i) (Some meth) (PDict n u a)) = Resp (EnvError i code_invalid_params).
Proof. exact (unknown_tool_32602 true). Qed.
Print Assumptions C08_unknown_tool_32602.

Theorem C08_unknown_resource_32602 : forall srv i meth n u a,
  assoc meth (handlers srv) = Some HResourcesRead ->
  find_target u (resources srv) = None ->
  handle srv (MSingle (Some i) (Some meth) (PDict n u a)) = Resp (EnvError i code_invalid_params).
Proof. exact (unknown_resource_32602 true). Qed.
Print Assumptions C08_unknown_resource_32602.

Theorem C08_method_handler_raises_32603 : forall srv i meth p d,
  assoc meth (handlers srv) = Some (HCustom (HRaises d)) ->
  handle srv (MSingle (Some i) (Some meth) p) = Resp (EnvError i code_internal_error).
Proof. exact method_handler_raises_32603. Qed.
Print Assumptions C08_method_handler_raises_32603.

Theorem C08_tool_raises_32603 : forall srv i meth s u a d,
  assoc meth (handlers srv) = Some HToolsCall ->
  assoc s (tools srv) = Some (TRaises d) ->
  handle srv (MSingle (Some i) (Some meth) (PDict (NStr s) u a)) = Resp (EnvError i code_internal_error).
Proof. exact tool_raises_32603. Qed.
Print Assumptions C08_tool_raises_32603.

Theorem C08_resource_raises_32603 : forall srv i meth n s a d,
  assoc meth (handlers srv) = Some HResourcesRead ->
  assoc s (resources srv) = Some (TRaises d) ->
  handle srv (MSingle (Some i) (Some meth) (PDict n (NStr s) a)) = Resp (EnvError i code_internal_error).
Proof. exact resource_raises_32603. Qed.
Print Assumptions C08_resource_raises_32603.

(** No notification is ever answered: registered or not, failing or not. *)
Theorem C08_notification_no_response : forall srv meth p,
  contract_ok None (situation_of srv meth p) = true ->
  handle srv (MSingle None (Some meth) p) = NoResp.
Proof. exact (fun srv meth p => notification_spec true srv meth p (tame_true srv)). Qed.
Print Assumptions C08_notification_no_response.

Theorem C08_idless_methodless_and_batches_silent : forall srv p,
  handle srv (MSingle None None p) = NoResp /\ handle srv MBatch = NoResp.
Proof. exact (fun srv p => conj (methodless_idless_silent true srv p) (batch_silent true srv)). Qed.
Print Assumptions C08_idless_methodless_and_batches_silent.

(** MCPServer as shipped (core + tools/resources handlers, no application method
    handlers): both halves hold with NO hypothesis, for arbitrary tool and
    resource handlers. *)
Theorem C08_mcpserver_request : forall srv i meth p,
  handlers srv = mcp_handlers ->
  Spec_request i (situation_of srv meth p) (handle srv (MSingle (Some i) (Some meth) p)).
Proof.
  exact (fun srv i meth p H =>
           request_spec true srv i meth p (tame_true srv) (mcp_contract srv (Some i) meth p H)).
Qed.
Print Assumptions C08_mcpserver_request.

Theorem C08_mcpserver_notification : forall srv meth p,
  handlers srv = mcp_handlers ->
  handle srv (MSingle None (Some meth) p) = NoResp.
Proof.
  exact (fun srv meth p H =>
           notification_spec true srv meth p (tame_true srv) (mcp_contract srv None meth p H)).
Qed.
Print Assumptions C08_mcpserver_notification.

(** The extracted checkers that judge the implementation decide the declarative spec. *)
Theorem C08_checkers_decide_spec : forall i s o,
  (request_ok i s o = true <-> Spec_request i s o)
  /\ (notification_ok o = true <-> Spec_notification o)
  /\ (never_raises_ok o = true <-> Spec_never_raises o).
Proof.
  exact (fun i s o => conj (request_ok_iff i s o) (conj (notification_ok_iff o) (never_raises_ok_iff o))).
Qed.
Print Assumptions C08_checkers_decide_spec.

(** Non-vacuity: a concrete MCPServer with one good and one failing tool, ids of
    both JSON types, every row of the table and the notification half. *)
Definition ex_srv : server :=
  {| handlers := register_method [99] (HCustom (HRaises 3)) mcp_handlers;
     tools := [([111;107], TReturns); ([98], TRaises 2)];
     resources := [([117], TUnrenderable 1)] |}.

Example C08_nonvacuous :
  handle ex_srv (MSingle (Some (IdInt 0)) (Some s_ping) PAbsent) = Resp (EnvResult (IdInt 0))
  /\ handle ex_srv (MSingle (Some (IdStr [48])) (Some s_tools_call) (PDict (NStr [111;107]) NAbsent ADict))
     = Resp (EnvResult (IdStr [48]))
  /\ handle ex_srv (MSingle (Some (IdInt (-1))) (Some s_tools_call) (PDict (NStr [98]) NAbsent AAbsent))
     = Resp (EnvError (IdInt (-1)) (-32603))
  /\ handle ex_srv (MSingle (Some (IdInt 7)) (Some s_tools_call) (PDict NUnhashable NAbsent AAbsent))
     = Resp (EnvError (IdInt 7) (-32602))
  /\ handle ex_srv (MSingle (Some (IdStr [])) (Some []) PAbsent) = Resp (EnvError (IdStr []) (-32601))
  /\ handle ex_srv (MSingle (Some (IdInt 1)) (Some s_initialized) PAbsent) = Resp (EnvResult (IdInt 1))
  /\ handle ex_srv (MSingle (Some (IdInt 1)) (Some [99]) PAbsent) = Resp (EnvError (IdInt 1) (-32603))
  /\ handle ex_srv (MSingle None (Some [99]) PAbsent) = NoResp
  /\ handle ex_srv (MSingle None (Some s_tools_call) (PDict (NStr [98]) NAbsent ANotMapping)) = NoResp
  /\ contract_ok (Some (IdInt 1)) (situation_of ex_srv [99] PAbsent) = true
  /\ situation_of ex_srv s_resources_read (PDict NAbsent (NStr [117]) AAbsent) = SitRaises.
Proof. repeat split; reflexivity. Qed.

(** C12 — legacy SSE transport: live-or-raise setup, exactly-once delivery,
    chunk-independent.  Property theorems only; each is closed by [exact] of a
    lemma from Proofs/SseLegacy.v.  The model (Model/SseLegacy.v) is indexed by
    [cfg], one flag per repair: [cfg_orig] is the code before any of them,
    [cfg_head] is /repo HEAD (the first five in, the last two —
    fixes/C12-6-late-answer-dropped.patch, fixes/C12-7-answer-routed-in-stream-order.patch
    — proposed), [cfg_patched] HEAD with both.  The theorems say which flags
    they need; every full-strength statement comes with its refutation for the
    members that lack the flag. *)
From Verif.Base Require Import Prelude SseVocab.
From Verif.Spec Require Import C12.
From Verif.Model Require Import SseLegacy.
From Verif.Proofs Require Import SseLegacy C12Spec.
Open Scope Z_scope.

(** Entering yields [Live u] only with a non-empty URL the server announced on
    a 200 stream before the timeout; everything else raises no later than the
    timeout.  For every member of the family, every server behaviour. *)
Theorem C12_enter_live_or_raise : forall c base timeout e,
  0 < timeout ->
  match enter c base timeout e with
  | Live u ta => u <> [] /\ ta < timeout /\ announced c base e u ta
  | Raise t => t <= timeout
  end.
Proof. exact enter_live_or_raise. Qed.
Print Assumptions C12_enter_live_or_raise.

(** "announced in each accepted form": with the optional-space repair both
    fields are recognised with and without the space, and a CR before the LF
    is ignored. *)
Theorem C12_field_forms : forall c v (sp : bool),
  c_opt_space c = true ->
  field c s_data (s_data ++ (if sp then [32] else []) ++ v) = Some (py_strip v) /\
  field c s_event (s_event ++ (if sp then [32] else []) ++ v) = Some (py_strip v) /\
  forall s, rstrip_cr (s ++ [13]) = rstrip_cr s.
Proof. intros. split; [|split]. apply field_data_forms; auto. apply field_event_forms; auto. exact rstrip_cr_snoc. Qed.
Print Assumptions C12_field_forms.

(** Exactly one terminal message with the request's id (JSON type included),
    for every complete life of a request in the property's environment
    ([sched_ok]): any interleaving of the POST result, the answer on the
    stream, the timer, the sender's wake-up and unrelated traffic - which
    since ecb7629 includes requests and notifications of the server's own that
    bear the request's id ([answer_key] in Spec/C12.v), hence the flag
    [c_answers_only]: the member without it loses the answer on such a life
    (C12_server_request_witness). *)
Theorem C12_one_terminal_per_request : forall c rid evs late,
  c_keep_id c = true -> c_other_terminal c = true -> c_answers_only c = true ->
  sched_ok rid evs = true ->
  count_terminals rid (run c (SS SIdle late) (ESend (CReq rid) :: evs)) = 1%nat /\
  s_task (final c (SS SIdle late) (ESend (CReq rid) :: evs)) = SIdle.
Proof. exact one_terminal. Qed.
Print Assumptions C12_one_terminal_per_request.

(** FULL STRENGTH, late answers included ([sched_ok_late]: the server's one
    answer on the stream may also come after the request has had its
    synthesised terminal message — timeout, failed POST, unexpected status):
    still exactly one terminal message, from whatever set of remembered keys
    the request starts.  Needs the patch that remembers abandoned requests;
    refuted for every member without it. *)
Theorem C12_one_terminal_full : forall c,
  c_keep_id c = true -> c_other_terminal c = true -> c_drop_late c = true -> c_answers_only c = true ->
  forall rid evs late, sched_ok_late rid evs = true ->
  count_terminals rid (run c (SS SIdle late) (ESend (CReq rid) :: evs)) = 1%nat /\
  s_task (final c (SS SIdle late) (ESend (CReq rid) :: evs)) = SIdle.
Proof. exact one_terminal_full. Qed.
Print Assumptions C12_one_terminal_full.

Theorem C12_one_terminal_refuted : forall c, c_drop_late c = false -> ~ one_terminal_statement c.
Proof. exact one_terminal_refuted. Qed.
Print Assumptions C12_one_terminal_refuted.

(** The full-strength environment extends the property's, and accepts the late
    modes (answer after the timeout error / after a failed POST / after an
    unexpected status) with arbitrary unrelated traffic around them. *)
Theorem C12_late_environment :
  (forall rid evs, sched_ok rid evs = true -> sched_ok_late rid evs = true) /\
  (forall rid a n1 n2 n3,
     is_terminal rid a = true -> noise rid n1 -> noise rid n2 -> noise rid n3 ->
     sched_ok_late rid (n1 ++ EPost (PStatus 202 BNotJson) :: n2 ++ ETimeout :: n3 ++ [ESse (Some a)]) = true /\
     sched_ok_late rid (n1 ++ EPost PExc :: n2 ++ [ESse (Some a)]) = true /\
     sched_ok_late rid (n1 ++ EPost (PStatus 500 BNotJson) :: n2 ++ [ESse (Some a)]) = true).
Proof. split. exact sched_ok_is_late. exact late_modes_accepted. Qed.
Print Assumptions C12_late_environment.

(** The six modes of the property text, with arbitrary unrelated traffic
    around them, are such lives. *)
Theorem C12_modes_accepted : forall rid a n1 n2 n3 code b,
  is_terminal rid a = true -> noise rid n1 -> noise rid n2 -> noise rid n3 ->
  code <> 200 -> code <> 202 -> body_ok_other rid b = true ->
  sched_ok rid (n1 ++ EPost (PStatus 200 (BMsg a)) :: n2) = true /\
  sched_ok rid (n1 ++ EPost (PStatus 202 BNotJson) :: n2 ++ ESse (Some a) :: EWake :: n3) = true /\
  sched_ok rid (n1 ++ ESse (Some a) :: n2 ++ EPost (PStatus 202 BNotJson) :: n3) = true /\
  sched_ok rid (n1 ++ EPost (PStatus 202 BNotJson) :: n2 ++ ETimeout :: n3) = true /\
  sched_ok rid (n1 ++ EPost (PStatus code b) :: n2) = true /\
  sched_ok rid (n1 ++ EPost PExc :: n2) = true.
Proof. exact modes_accepted. Qed.
Print Assumptions C12_modes_accepted.

(** The parser's output (endpoint and message events in order, final event
    type, message URL and buffered tail) depends only on the text, not on how
    it is cut into chunks — for ALL chunkings, both parser variants. *)
Theorem C12_stream_chunk_independent : forall c base chunks chunks',
  concat chunks = concat chunks' ->
  run_parser c base pinit chunks = run_parser c base pinit chunks'.
Proof. exact chunk_independent. Qed.
Print Assumptions C12_stream_chunk_independent.

(** What the event-stream task delivers is a subsequence of what was on the
    stream (nothing twice, nothing reordered, nothing invented) under every
    interleaving with the sender; and traffic that does not carry the key of a
    request of this client is delivered completely. *)
Theorem C12_in_order_once : forall c evs st,
  Subseq (sse_outs (run c st evs)) (stream_msgs evs) /\
  ((forall m k, In m (stream_msgs evs) -> In k (st_keys st ++ sent_keys evs) -> msg_has_key k m = false) ->
   sse_outs (run c st evs) = stream_msgs evs).
Proof. intros. split. apply sse_outs_subseq. apply unrelated_traffic_in_order. Qed.
Print Assumptions C12_in_order_once.

(** FULL STRENGTH: in every life of a request — late answer included — what
    reaches the read stream FROM THE EVENT STREAM ([stream_part]: whoever
    delivered it) is exactly what is due ([stream_due], Spec/C12.v), in stream
    order: every message, the answer at its own place in the stream, the late
    answer not at all.  In the property's own environment that is everything
    that was on the stream.  Needs both proposed patches; refuted for every
    member that hands the answer to the sender task, and for every member
    that delivers the late answer. *)
Theorem C12_in_order_full : forall c,
  c_keep_id c = true -> c_other_terminal c = true -> c_drop_late c = true -> c_route_in_stream c = true ->
  c_answers_only c = true ->
  (forall rid evs, sched_ok_late rid evs = true ->
     stream_part (run c sinit (ESend (CReq rid) :: evs)) = stream_due rid late_init evs) /\
  (forall rid evs, sched_ok rid evs = true ->
     stream_part (run c sinit (ESend (CReq rid) :: evs)) = stream_msgs evs).
Proof. exact in_order_full_both. Qed.
Print Assumptions C12_in_order_full.

Theorem C12_in_order_refuted :
  (forall c, c_route_in_stream c = false -> ~ in_order_statement c) /\
  (forall c, c_drop_late c = false -> ~ in_order_statement c).
Proof. split. exact in_order_refuted. exact in_order_refuted_late. Qed.
Print Assumptions C12_in_order_refuted.

(** _cleanup releases everything from ANY resource state and is idempotent;
    every closed life (normal exit, exception, cancellation, failed or
    cancelled entering) has released everything; leaving from ANY inside state
    completes and releases everything, failing or cancelled entering likewise;
    no life ever gets stuck. *)
Theorem C12_cleanup_releases_all :
  (forall r, released (cleanup r) = true) /\
  (forall r, cleanup (cleanup r) = cleanup r) /\
  (forall c evs, c_enter_cancel c = true ->
     lp (life c evs) = LClosed -> released (lr (life c evs)) = true) /\
  (forall c evs k, c_reraise_cancel c = true -> lp (life c evs) = LInside ->
     lp (lstep c (life c evs) (LExit k)) = LClosed /\ released (lr (lstep c (life c evs) (LExit k))) = true) /\
  (forall c evs, c_enter_cancel c = true -> lp (life c evs) = LEntering ->
     (lp (lstep c (life c evs) LEnterRaise) = LClosed /\ released (lr (lstep c (life c evs) LEnterRaise)) = true) /\
     (lp (lstep c (life c evs) LEnterCancel) = LClosed /\ released (lr (lstep c (life c evs) LEnterCancel)) = true)) /\
  (forall c evs, c_reraise_cancel c = true -> lp (life c evs) <> LStuck).
Proof.
  split; [|split; [|split; [|split; [|split]]]].
  exact cleanup_releases_all. exact cleanup_idempotent. exact life_closed_released.
  intros; apply exits_close; auto. intros; apply enter_failures_close; auto. exact never_stuck.
Qed.
Print Assumptions C12_cleanup_releases_all.

(** /repo HEAD: the two open defects on their concrete inputs, and what the
    two proposed patches make of the same inputs. *)
Theorem C12_head_witnesses :
  (~ one_terminal_statement cfg_head /\ ~ in_order_statement cfg_head) /\
  (sched_ok_late w_rid w_late = true /\
   map snd (run cfg_head sinit (ESend (CReq w_rid) :: w_late)) = [Msg (Some w_rid) (KErr (-32000)) 0; w_ans] /\
   map snd (run cfg_patched sinit (ESend (CReq w_rid) :: w_late)) = [Msg (Some w_rid) (KErr (-32000)) 0]) /\
  (sched_ok w_rid w_overtaken = true /\
   stream_msgs w_overtaken = [w_ans; w_notif] /\
   map snd (run cfg_head sinit (ESend (CReq w_rid) :: w_overtaken)) = [w_notif; w_ans] /\
   map snd (run cfg_patched sinit (ESend (CReq w_rid) :: w_overtaken)) = [w_ans; w_notif]).
Proof.
  split; [|split].
  split. exact (one_terminal_refuted cfg_head eq_refl). exact (in_order_refuted cfg_head eq_refl).
  exact head_late_answer_second_terminal. exact head_answer_overtaken.
Qed.
Print Assumptions C12_head_witnesses.

(** The code before the five earlier repairs: one witness per defect (all
    repaired in /repo since). *)
Theorem C12_orig_witnesses :
  (count_terminals (IdInt 1) (run cfg_orig sinit [ESend (CReq (IdInt 1)); EPost (PStatus 202 BNotJson); ETimeout]) = 0%nat
   /\ sched_ok (IdInt 1) [EPost (PStatus 202 BNotJson); ETimeout] = true) /\
  (count_terminals w_rid (run cfg_orig sinit [ESend (CReq w_rid); EPost (PStatus 500 BInvalid)]) = 0%nat
   /\ sched_ok w_rid [EPost (PStatus 500 BInvalid)] = true) /\
  (snd (run_parser cfg_orig w_base pinit [w_nospace]) = []
   /\ snd (run_parser cfg_head w_base pinit [w_nospace]) = [AEndpoint (w_base ++ s_messages ++ [120])]) /\
  (lp (life cfg_orig [LAlloc; LStreamOpen; LEnterCancel]) = LClosed
   /\ released (lr (life cfg_orig [LAlloc; LStreamOpen; LEnterCancel])) = false) /\
  (lp (life cfg_orig [LAlloc; LStreamOpen; LEnterOk; LPendAdd; LWait; LSseEnds; LExit XNormal]) = LStuck
   /\ r_out_task (lr (life cfg_orig [LAlloc; LStreamOpen; LEnterOk; LPendAdd; LWait; LSseEnds; LExit XNormal])) = true).
Proof.
  split; [|split; [|split; [|split]]].
  exact orig_int_id_no_terminal. exact orig_other_status_no_terminal.
  exact orig_nospace_not_recognised. exact orig_cancel_during_enter_leaks. exact orig_exit_after_stream_end_hangs.
Qed.
Print Assumptions C12_orig_witnesses.

(** The extracted checkers applied to the implementation's observations decide
    the declarative specification. *)
Theorem C12_spec_checkers_reflect :
  (forall timeout ann obs, enter_ok timeout ann obs = true <-> Spec_enter timeout ann obs) /\
  (forall rid d, terminal_ok rid d = true <-> Spec_one_terminal rid d) /\
  (forall sent delivered, order_ok sent delivered = true <-> Spec_in_order_once sent delivered) /\
  (forall l, released_ok l = true <-> Spec_released l).
Proof. split; [|split; [|split]]. exact enter_ok_spec. exact terminal_ok_spec. exact order_ok_spec. exact released_ok_spec. Qed.
Print Assumptions C12_spec_checkers_reflect.

(** Non-vacuity: concrete non-trivial values meet the hypotheses. *)
Example C12_nonvacuous :
  sched_ok w_rid [ESse (Some w_notif); EPost (PStatus 202 BNotJson); ESse (Some w_ans); ESse (Some w_notif); EWake] = true
  /\ map snd (run cfg_patched sinit [ESend (CReq w_rid); ESse (Some w_notif); EPost (PStatus 202 BNotJson);
                                     ESse (Some w_ans); ESse (Some w_notif); EWake]) = [w_notif; w_ans; w_notif]
  /\ map snd (run cfg_head sinit [ESend (CReq w_rid); ESse (Some w_notif); EPost (PStatus 202 BNotJson);
                                  ESse (Some w_ans); ESse (Some w_notif); EWake]) = [w_notif; w_notif; w_ans]
  /\ sched_ok_late w_rid (ESse (Some w_notif) :: w_late ++ [ESse (Some w_notif)]) = true
  /\ stream_due w_rid late_init (ESse (Some w_notif) :: w_late ++ [ESse (Some w_notif)]) = [w_notif; w_notif]
  /\ enter cfg_patched w_base 5000 (EstResp 10 200 [(100, w_nospace)] None) = Live (w_base ++ s_messages ++ [120]) 100
  /\ enter cfg_orig w_base 5000 (EstResp 10 200 [(100, w_nospace)] None) = Raise 5000
  /\ enter cfg_patched w_base 5000 (EstResp 10 404 [] None) = Raise 10
  /\ lp (life cfg_patched [LAlloc; LStreamOpen; LEnterOk; LPendAdd; LExit XCancelTask]) = LClosed.
Proof. repeat split; reflexivity. Qed.

(** ecb7629.  A request (or notification) of the server's own is never an
    answer: with [c_answers_only] it is delivered at its place and the life of
    the client's request goes on untouched - for EVERY state of the sender,
    every id the message bears (also the one of the request in flight: ids are
    per direction).  The member without the flag loses the answer of the POST
    reply on exactly that history (witness below; found by C15's carrier
    comparison on the unchanged tree, then repaired). *)
Theorem C12_server_request_is_not_an_answer : forall c st m,
  c_answers_only c = true -> kind_call (m_kind m) = true ->
  step c st (ESse (Some m)) = (st, [(FromSse, m)]).
Proof. exact server_call_untouched. Qed.
Print Assumptions C12_server_request_is_not_an_answer.

(** The property's environment really contains such lives: a request of the
    server's own with ANY id is unrelated traffic ([noise]), so every mode of
    C12_modes_accepted may be surrounded by pings that bear the request's id -
    and C12_one_terminal_per_request / C12_in_order_full speak about them. *)
Theorem C12_server_calls_are_unrelated_traffic : forall rid m,
  kind_call (m_kind m) = true -> noise rid [ESse (Some m)].
Proof. exact server_call_is_noise. Qed.
Print Assumptions C12_server_calls_are_unrelated_traffic.

Example C12_server_request_witness :
  let ping := Msg (Some w_rid) KReq 5 in
  let evs := [ESend (CReq w_rid); ESse (Some ping); EPost (PStatus 200 (BMsg w_ans))] in
  (* before the repair: the server's ping is taken for the answer, the real answer in the POST reply is never delivered *)
  (map snd (run cfg_before_answers_only sinit evs) = [ping]
   /\ count_terminals w_rid (run cfg_before_answers_only sinit evs) = 0%nat) /\
  (* after it: both are delivered, in order, one terminal message *)
  (map snd (run cfg_patched sinit evs) = [ping; w_ans] /\ count_terminals w_rid (run cfg_patched sinit evs) = 1%nat) /\
  (* and that life is inside the property's environment *)
  sched_ok w_rid [ESse (Some ping); EPost (PStatus 200 (BMsg w_ans))] = true.
Proof. cbv zeta. repeat split; vm_compute; reflexivity. Qed.


(** C12 — legacy SSE transport: live-or-raise setup, exactly-once delivery,
    chunk-independent.  Property theorems only; each is closed by [exact] of a
    lemma from Proofs/SseLegacy.v.  The model (Model/SseLegacy.v) is indexed by
    [cfg]; [cfg_head] is /repo HEAD, each flag set to [true] is one proposed
    patch (fixes/C12-*.patch).  The theorems say which flags they need; the
    [_head_] theorems are the refutation witnesses for the flags HEAD lacks. *)
From Verif.Base Require Import Prelude SseVocab.
From Verif.Spec Require Import C12.
From Verif.Model Require Import SseLegacy.
From Verif.Proofs Require Import SseLegacy C12Spec.
Open Scope Z_scope.

(** Entering yields [Live u] only with a non-empty URL the server announced on
    a 200 stream before the timeout; everything else raises no later than the
    timeout.  For every member of the family, every server behaviour. *)
Theorem C12_enter_live_or_raise : forall c base timeout e,
  0 < timeout ->
  match enter c base timeout e with
  | Live u ta => u <> [] /\ ta < timeout /\ announced c base e u ta
  | Raise t => t <= timeout
  end.
Proof. exact enter_live_or_raise. Qed.
Print Assumptions C12_enter_live_or_raise.

(** "announced in each accepted form": with the optional-space patch both
    fields are recognised with and without the space, and a CR before the LF
    is ignored. *)
Theorem C12_field_forms : forall c v (sp : bool),
  c_opt_space c = true ->
  field c s_data (s_data ++ (if sp then [32] else []) ++ v) = Some (py_strip v) /\
  field c s_event (s_event ++ (if sp then [32] else []) ++ v) = Some (py_strip v) /\
  forall s, rstrip_cr (s ++ [13]) = rstrip_cr s.
Proof. intros. split; [|split]. apply field_data_forms; auto. apply field_event_forms; auto. exact rstrip_cr_snoc. Qed.
Print Assumptions C12_field_forms.

(** Exactly one terminal message with the request's id (JSON type included),
    for every complete life of a request in the property's environment
    ([sched_ok]): any interleaving of the POST result, the answer on the
    stream, the timer, the sender's wake-up and unrelated traffic. *)
Theorem C12_one_terminal_per_request : forall c rid evs,
  c_keep_id c = true -> c_other_terminal c = true ->
  sched_ok rid evs = true ->
  count_terminals rid (run c SIdle (ESend (CReq rid) :: evs)) = 1%nat /\
  final c SIdle (ESend (CReq rid) :: evs) = SIdle.
Proof. exact one_terminal. Qed.
Print Assumptions C12_one_terminal_per_request.

(** The six modes of the property text, with arbitrary unrelated traffic
    around them, are such lives. *)
Theorem C12_modes_accepted : forall rid a n1 n2 n3 code b,
  is_terminal rid a = true -> noise rid n1 -> noise rid n2 -> noise rid n3 ->
  code <> 200 -> code <> 202 -> body_ok_other rid b = true ->
  sched_ok rid (n1 ++ EPost (PStatus 200 (BMsg a)) :: n2) = true /\
  sched_ok rid (n1 ++ EPost (PStatus 202 BNotJson) :: n2 ++ ESse (Some a) :: EWake :: n3) = true /\
  sched_ok rid (n1 ++ ESse (Some a) :: n2 ++ EPost (PStatus 202 BNotJson) :: n3) = true /\
  sched_ok rid (n1 ++ EPost (PStatus 202 BNotJson) :: n2 ++ ETimeout :: n3) = true /\
  sched_ok rid (n1 ++ EPost (PStatus code b) :: n2) = true /\
  sched_ok rid (n1 ++ EPost PExc :: n2) = true.
Proof. exact modes_accepted. Qed.
Print Assumptions C12_modes_accepted.

(** The parser's output (endpoint and message events in order, final event
    type, message URL and buffered tail) depends only on the text, not on how
    it is cut into chunks — for ALL chunkings, both parser variants. *)
Theorem C12_stream_chunk_independent : forall c base chunks chunks',
  concat chunks = concat chunks' ->
  run_parser c base pinit chunks = run_parser c base pinit chunks'.
Proof. exact chunk_independent. Qed.
Print Assumptions C12_stream_chunk_independent.

(** What the event-stream task delivers is a subsequence of what was on the
    stream (nothing twice, nothing reordered, nothing invented) under every
    interleaving with the sender; and traffic that does not carry the key of a
    request of this client is delivered completely. *)
Theorem C12_in_order_once : forall c evs st,
  Subseq (sse_outs (run c st evs)) (stream_msgs evs) /\
  ((forall m i, In m (stream_msgs evs) -> In i (st_ids st ++ sent_ids evs) -> same_key i m = false) ->
   sse_outs (run c st evs) = stream_msgs evs).
Proof. intros. split. apply sse_outs_subseq. apply unrelated_traffic_in_order. Qed.
Print Assumptions C12_in_order_once.

(** _cleanup releases everything from ANY resource state and is idempotent;
    every closed life (normal exit, exception, cancellation, failed or
    cancelled entering) has released everything; leaving from ANY inside state
    completes and releases everything, failing or cancelled entering likewise;
    no life ever gets stuck. *)
Theorem C12_cleanup_releases_all :
  (forall r, released (cleanup r) = true) /\
  (forall r, cleanup (cleanup r) = cleanup r) /\
  (forall c evs, c_enter_cancel c = true ->
     lp (life c evs) = LClosed -> released (lr (life c evs)) = true) /\
  (forall c evs k, c_reraise_cancel c = true -> lp (life c evs) = LInside ->
     lp (lstep c (life c evs) (LExit k)) = LClosed /\ released (lr (lstep c (life c evs) (LExit k))) = true) /\
  (forall c evs, c_enter_cancel c = true -> lp (life c evs) = LEntering ->
     (lp (lstep c (life c evs) LEnterRaise) = LClosed /\ released (lr (lstep c (life c evs) LEnterRaise)) = true) /\
     (lp (lstep c (life c evs) LEnterCancel) = LClosed /\ released (lr (lstep c (life c evs) LEnterCancel)) = true)) /\
  (forall c evs, c_reraise_cancel c = true -> lp (life c evs) <> LStuck).
Proof.
  split; [|split; [|split; [|split; [|split]]]].
  exact cleanup_releases_all. exact cleanup_idempotent. exact life_closed_released.
  intros; apply exits_close; auto. intros; apply enter_failures_close; auto. exact never_stuck.
Qed.
Print Assumptions C12_cleanup_releases_all.

(** Full-strength claims the code does not meet, patched or not (known findings). *)
Theorem C12_one_terminal_refuted : forall c, ~ one_terminal_statement c.
Proof. exact one_terminal_refuted. Qed.
Print Assumptions C12_one_terminal_refuted.

Theorem C12_in_order_refuted : forall c, ~ in_order_statement c.
Proof. exact in_order_refuted. Qed.
Print Assumptions C12_in_order_refuted.

(** HEAD without the proposed patches: one witness per open defect. *)
Theorem C12_head_witnesses :
  (count_terminals (IdInt 1) (run cfg_head SIdle [ESend (CReq (IdInt 1)); EPost (PStatus 202 BNotJson); ETimeout]) = 0%nat
   /\ sched_ok (IdInt 1) [EPost (PStatus 202 BNotJson); ETimeout] = true) /\
  (count_terminals w_rid (run cfg_head SIdle [ESend (CReq w_rid); EPost (PStatus 500 BInvalid)]) = 0%nat
   /\ sched_ok w_rid [EPost (PStatus 500 BInvalid)] = true) /\
  (snd (run_parser cfg_head w_base pinit [w_nospace]) = []
   /\ snd (run_parser cfg_patched w_base pinit [w_nospace]) = [AEndpoint (w_base ++ s_messages ++ [120])]) /\
  (lp (life cfg_head [LAlloc; LStreamOpen; LEnterCancel]) = LClosed
   /\ released (lr (life cfg_head [LAlloc; LStreamOpen; LEnterCancel])) = false) /\
  (lp (life cfg_head [LAlloc; LStreamOpen; LEnterOk; LPendAdd; LWait; LSseEnds; LExit XNormal]) = LStuck
   /\ r_out_task (lr (life cfg_head [LAlloc; LStreamOpen; LEnterOk; LPendAdd; LWait; LSseEnds; LExit XNormal])) = true).
Proof.
  split; [|split; [|split; [|split]]].
  exact head_int_id_no_terminal. exact head_other_status_no_terminal.
  exact head_nospace_not_recognised. exact head_cancel_during_enter_leaks. exact head_exit_after_stream_end_hangs.
Qed.
Print Assumptions C12_head_witnesses.

(** The extracted checkers applied to the implementation's observations decide
    the declarative specification. *)
Theorem C12_spec_checkers_reflect :
  (forall timeout ann obs, enter_ok timeout ann obs = true <-> Spec_enter timeout ann obs) /\
  (forall rid d, terminal_ok rid d = true <-> Spec_one_terminal rid d) /\
  (forall sent delivered, order_ok sent delivered = true <-> Spec_in_order_once sent delivered) /\
  (forall l, released_ok l = true <-> Spec_released l).
Proof. split; [|split; [|split]]. exact enter_ok_spec. exact terminal_ok_spec. exact order_ok_spec. exact released_ok_spec. Qed.
Print Assumptions C12_spec_checkers_reflect.

(** Non-vacuity: concrete non-trivial values meet the hypotheses. *)
Example C12_nonvacuous :
  sched_ok w_rid [ESse (Some w_notif); EPost (PStatus 202 BNotJson); ESse (Some w_ans); ESse (Some w_notif); EWake] = true
  /\ map snd (run cfg_patched SIdle [ESend (CReq w_rid); ESse (Some w_notif); EPost (PStatus 202 BNotJson);
                                     ESse (Some w_ans); ESse (Some w_notif); EWake]) = [w_notif; w_notif; w_ans]
  /\ enter cfg_patched w_base 5000 (EstResp 10 200 [(100, w_nospace)] None) = Live (w_base ++ s_messages ++ [120]) 100
  /\ enter cfg_head w_base 5000 (EstResp 10 200 [(100, w_nospace)] None) = Raise 5000
  /\ enter cfg_patched w_base 5000 (EstResp 10 404 [] None) = Raise 10
  /\ lp (life cfg_patched [LAlloc; LStreamOpen; LEnterOk; LPendAdd; LExit XCancelTask]) = LClosed.
Proof. repeat split; reflexivity. Qed.

(** Model of StreamableHTTPTransport (src/chuk_mcp/transports/http/transport.py)
    AS PATCHED by fixes/C11-1..7: one POST ([_send_message_internal]: status /
    content-type dispatch with synthesised errors, [_process_sse_text],
    [_route_response], session-id handling, the "unanswered request" completion)
    and the serial sender loop ([_outgoing_message_handler]).

    External components are Section variables: the JSON codec ([loads]) and what
    pydantic's JSONRPCMessage.model_validate makes of a decoded object.
    Definitions only. *)
From Verif.Base Require Import Prelude HttpBase.
From Verif.Model Require Import HttpSse.
Open Scope Z_scope.

Definition s_app_json : str := [97;112;112;108;105;99;97;116;105;111;110;47;106;115;111;110].        (* "application/json" *)
Definition s_event_stream : str := [116;101;120;116;47;101;118;101;110;116;45;115;116;114;101;97;109]. (* "text/event-stream" *)
Definition s_event_colon : str := [101;118;101;110;116;58].    (* "event:" *)
Definition s_data_colon : str := [100;97;116;97;58].           (* "data:" *)

Inductive exc_kind : Type := ExConnect | ExReadTimeout | ExProtocol | ExAsyncioTimeout.

(** How the endpoint answers one POST.  [body] is [response.text] (httpx decodes
    with errors="replace"); [utf8] tells whether the raw bytes were valid UTF-8
    (response.json() decodes strictly).  [ctype] is the Content-Type header
    value ("" when absent), [session] the Mcp-Session-Id header. *)
Inductive answer : Type :=
| Resp (status : Z) (ctype : str) (body : str) (utf8 : bool) (session : option str)
| Exc (k : exc_kind).

(** The message being POSTed: its id (None for a notification) and whether it has a method. *)
Record request : Type := { rq_id : option jid; rq_method : bool }.

(** Transport state relevant here: [_session_id]. *)
Definition tstate : Type := option str.

Inductive synth_kind : Type := SResult | SError (code : Z).

Section Dispatch.
  Variable obj : Type.                    (* a decoded JSON object *)
  Variable obj_valid : obj -> bool.       (* JSONRPCMessage.model_validate accepts it *)
  Variable obj_id : obj -> option jid.    (* its id, when it validates *)
  Variable obj_method : obj -> bool.      (* message.method is not None *)
  Variable obj_payload : obj -> bool.     (* message.result is not None or message.error is not None *)

  Inductive jv : Type :=
  | JObj (o : obj)
  | JArr (l : list jv)
  | JScalar.

  Inductive jres : Type := JOk (v : jv) | JBad.

  Variable loads : str -> jres.           (* json.loads: JBad = JSONDecodeError *)

  (** What arrives on the read stream. *)
  Inductive outmsg : Type :=
  | Server (o : obj)
  | Synth (id : option jid) (k : synth_kind).

  (** _route_response on one decoded object: validate; drop what is not a
      JSON-RPC message (no method, no result, no error); deliver. *)
  Definition route_obj (o : obj) : list outmsg :=
    if obj_valid o && (obj_method o || obj_payload o) then [Server o] else [].

  (** _route_response on a decoded value: a list routes every member, a scalar fails validation. *)
  Fixpoint route_value (v : jv) : list outmsg :=
    match v with
    | JObj o => route_obj o
    | JArr l => flat_map route_value l
    | JScalar => []
    end.

  Fixpoint flatten (v : jv) : list obj :=
    match v with
    | JObj o => [o]
    | JArr l => flat_map flatten l
    | JScalar => []
    end.

  (** _process_sse_text + _process_sse_event: every payload the parser extracts
      is decoded (a decode error is logged and skipped) and routed. *)
  Definition route_payload (p : str) : list outmsg :=
    match loads p with
    | JOk v => route_value v
    | JBad => []
    end.

  Definition process_sse (body : str) : list outmsg := flat_map route_payload (sse_messages body).

  (** A synthesised message always validates and is delivered. *)
  Definition synth (rq : request) (k : synth_kind) : list outmsg := [Synth (rq_id rq) k].

  (** The try/except body of _send_message_internal, up to the completion check. *)
  Definition handle_answer (st : tstate) (rq : request) (a : answer) : tstate * list outmsg :=
    match a with
    | Exc ExAsyncioTimeout => (st, synth rq (SError (-32000)))
    | Exc _ => (st, synth rq (SError (-32603)))
    | Resp status ctype body utf8 session =>
        if status >=? 400 then (st, synth rq (SError (-32603)))
        else
          (match session with Some s => Some s | None => st end,
           if contains s_app_json ctype then
             if utf8 then
               match loads body with
               | JOk v => route_value v
               | JBad => synth rq (SError (-32700))
               end
             else synth rq (SError (-32603))
           else if contains s_event_stream ctype then process_sse body
           else if is_nil body then
             (if is_none (rq_id rq) then [] else synth rq SResult)
           else if starts_with s_event_colon body || starts_with s_data_colon body then process_sse body
           else
             match loads body with
             | JOk v => route_value v
             | JBad => if (status =? 202) && is_none (rq_id rq) then []
                       else synth rq (SError (-32603))
             end)
    end.

  (** [message.method is None and message.id is not None and message.id == self._unanswered_id] *)
  Definition answers_obj (r : jid) (o : obj) : bool :=
    option_eqb jid_eqb (obj_id o) (Some r) && negb (obj_method o).

  Definition answers (r : jid) (m : outmsg) : bool :=
    match m with
    | Server o => answers_obj r o
    | Synth (Some i) _ => jid_eqb i r
    | Synth None _ => false
    end.

  (** The completion check: a request (id and method) none of whose routed
      messages answered it gets one synthesised error. *)
  Definition completion (rq : request) (out : list outmsg) : list outmsg :=
    match rq_id rq with
    | Some r => if rq_method rq && negb (existsb (answers r) out)
                then [Synth (Some r) (SError (-32603))] else []
    | None => []
    end.

  Definition post (st : tstate) (rq : request) (a : answer) : tstate * list outmsg :=
    let '(st', out) := handle_answer st rq a in (st', out ++ completion rq out).

  (** [if self._session_id: headers["Mcp-Session-Id"] = ...] *)
  Definition sent_session (st : tstate) : option str :=
    match st with
    | Some (c :: s) => Some (c :: s)
    | _ => None
    end.

  (** The serial sender loop: one entry per POST = (session header it carried, what it put on the read stream). *)
  Definition loop_step (acc : tstate * list (option str * list outmsg)) (ra : request * answer)
    : tstate * list (option str * list outmsg) :=
    let '(st, tr) := acc in
    let '(st', out) := post st (fst ra) (snd ra) in
    (st', tr ++ [(sent_session st, out)]).

  Definition run_loop (st : tstate) (l : list (request * answer)) : tstate * list (option str * list outmsg) :=
    fold_left loop_step l (st, []).
End Dispatch.

Arguments JObj {obj} o.
Arguments JArr {obj} l.
Arguments JScalar {obj}.
Arguments JOk {obj} v.
Arguments JBad {obj}.
Arguments Server {obj} o.
Arguments Synth {obj} id k.

(** Executable model of the envelope code of chuk_mcp (C02): the four typed
    envelope classes and the unified legacy class of json_rpc_message.py, their
    validators, the module-level constructors [create_*], the
    [JSONRPCMessage.create_*] classmethods, [model_dump(exclude_none=True)],
    [parse_message] as written, and the dict-building emitters of
    features/batching.py.  Definitions only (lemmas: Proofs/Envelope.v).

    Python values are [json] terms; Python [None] is [JNull] (a member that is
    absent from the wire and a member that is null are the same attribute value).

    MODELLED DOMAIN ([in_domain]): a JSON object whose "id" is absent / null /
    an integer / a string, whose "method" is absent / null / a string and whose
    "jsonrpc" is absent or a string.  Outside it the two validation back ends
    coerce differently (Pydantic turns [true] into 1, the fallback turns 5 into
    "5"); such values are never ids / methods of a valid message and the
    correspondence run skips them.  A JSON array (batch) is outside as well. *)
From Verif.Base Require Import Prelude Json Envelope.
Open Scope Z_scope.

Definition obj : Type := list (str * json).

Inductive cls : Type := CRequest | CNotification | CResponse | CError | CUnified.

(** A validated envelope object: its class and its declared attributes
    (an attribute a class does not declare is [None] / [JNull] here).  Extra
    members ([extra="allow"]) are carried by the real objects but are not part
    of what the property compares; they are not modelled. *)
Record msg : Type := {
  m_cls : cls;
  m_jsonrpc : str;
  m_id : option rid;
  m_method : option str;
  m_params : json;
  m_result : json;
  m_error : json
}.

(** ** Field validators (the annotations) *)

(** [Optional[Union[int, str]]] *)
Definition val_opt_id (j : json) : option (option rid) :=
  match j with
  | JNull => Some None
  | JInt z => Some (Some (IdInt z))
  | JStr s => Some (Some (IdStr s))
  | _ => None
  end.

(** [Union[int, str]], required *)
Definition val_id (j : json) : option rid := rid_of_json j.

(** [Optional[str]] *)
Definition val_opt_str (j : json) : option (option str) :=
  match j with
  | JNull => Some None
  | JStr s => Some (Some s)
  | _ => None
  end.

(** [Optional[Dict[str, Any]]] *)
Definition val_opt_dict (j : json) : option json :=
  match j with
  | JNull => Some JNull
  | JObj _ => Some j
  | _ => None
  end.

(** [Literal["2.0"] = "2.0"]: absent -> default *)
Definition val_literal_version (m : obj) : bool :=
  match assoc k_jsonrpc m with
  | None => true
  | Some (JStr s) => str_eqb s v2
  | Some _ => false
  end.

(** [isinstance(x, int)]: a bool is an int in Python *)
Definition is_pyint (j : json) : bool :=
  match j with JInt _ | JBool _ => true | _ => false end.
Definition is_pystr (j : json) : bool := match j with JStr _ => true | _ => false end.

(** Python truthiness of a JSON value ([result or {}], [if self.error:]). *)
Definition truthy (j : json) : bool :=
  match j with
  | JNull => false
  | JBool b => b
  | JInt z => negb (z =? 0)
  | JFloat _ => true          (* a float with a fractional part is never 0.0 *)
  | JStr s => match s with [] => false | _ => true end
  | JArr l => match l with [] => false | _ => true end
  | JObj m => match m with [] => false | _ => true end
  end.

(** ** The four typed classes: [Cls(kwargs)] / [Cls.model_validate(dict)] *)

Definition new_request (m : obj) : option msg :=
  if negb (val_literal_version m) then None else
  match val_id (field k_id m), field k_method m, val_opt_dict (field k_params m) with
  | Some i, JStr meth, Some p =>
      Some {| m_cls := CRequest; m_jsonrpc := v2; m_id := Some i; m_method := Some meth;
              m_params := p; m_result := JNull; m_error := JNull |}
  | _, _, _ => None
  end.

Definition new_notification (m : obj) : option msg :=
  if negb (val_literal_version m) then None else
  match field k_method m, val_opt_dict (field k_params m) with
  | JStr meth, Some p =>
      Some {| m_cls := CNotification; m_jsonrpc := v2; m_id := None; m_method := Some meth;
              m_params := p; m_result := JNull; m_error := JNull |}
  | _, _ => None
  end.

(** [result: Any] is a required member: the key must be there.  Pydantic
    accepts [None] as its value; the fallback back end ([fb = true]) treats a
    [None]-valued required field as missing. *)
Definition new_response (fb : bool) (m : obj) : option msg :=
  if negb (val_literal_version m) then None else
  match val_id (field k_id m), assoc k_result m with
  | Some i, Some r =>
      if fb && is_null r then None else
      Some {| m_cls := CResponse; m_jsonrpc := v2; m_id := Some i; m_method := None;
              m_params := JNull; m_result := r; m_error := JNull |}
  | _, _ => None
  end.

(** [error: Dict[str, Any]] + [model_post_init]: a NON-EMPTY error must have an
    int code and a str message. *)
Definition error_post_init (e : json) : bool :=
  match e with
  | JObj em =>
      if truthy e
      then (match assoc k_code em with Some c => is_pyint c | None => false end)
           && (match assoc k_message em with Some s => is_pystr s | None => false end)
      else true
  | _ => false
  end.

Definition new_error (m : obj) : option msg :=
  if negb (val_literal_version m) then None else
  match val_id (field k_id m), field k_error m with
  | Some i, JObj em =>
      if error_post_init (JObj em)
      then Some {| m_cls := CError; m_jsonrpc := v2; m_id := Some i; m_method := None;
                   m_params := JNull; m_result := JNull; m_error := JObj em |}
      else None
  | _, _ => None
  end.

(** ** The unified legacy class [JSONRPCMessage] *)

(** [JSONRPCMessage(kwargs)]: field validation, then [model_post_init]
    (SKIP_JSONRPC_VALIDATION is unset in the harness). *)
Definition unified_init (m : obj) : option msg :=
  match (match assoc k_jsonrpc m with
         | None => Some v2
         | Some (JStr s) => Some s
         | Some _ => None
         end),
        val_opt_id (field k_id m), val_opt_str (field k_method m),
        val_opt_dict (field k_params m), val_opt_dict (field k_result m), val_opt_dict (field k_error m) with
  | Some v, Some i, Some meth, Some p, Some r, Some e =>
      (* a response (id, no method) has exactly one of result / error *)
      if (match i, meth with Some _, None => true | _, _ => false end)
         && (Bool.eqb (is_null r) (is_null e))
      then None
      else Some {| m_cls := CUnified; m_jsonrpc := v; m_id := i; m_method := meth;
                   m_params := p; m_result := r; m_error := e |}
  | _, _, _, _, _, _ => None
  end.

(** [JSONRPCMessage.model_validate]: an error DICT must have the keys "code"
    and "message" (their types are not looked at), then the constructor. *)
Definition unified_validate (m : obj) : option msg :=
  if (match field k_error m with
      | JObj em => negb (has_key k_code em && has_key k_message em)
      | _ => false
      end)
  then None
  else unified_init m.

(** ** parse_message (single message), as written: the unified class first, then
    the field-presence classification. *)
Definition parse_message (fb : bool) (j : json) : option msg :=
  match j with
  | JObj m =>
      match unified_validate m with
      | Some e => Some e
      | None =>
          if negb (json_eqb (field k_jsonrpc m) (JStr v2)) then None
          else
            let has_id := has_key k_id m in
            let has_method := has_key k_method m in
            let has_result := has_key k_result m in
            let has_error := has_key k_error m in
            if has_method && has_id then new_request m
            else if has_method && negb has_id then new_notification m
            else if has_id && has_result && negb has_error then new_response fb m
            else if has_id && has_error && negb has_result then new_error m
            else None
      end
  | _ => None
  end.

Definition in_domain (j : json) : bool :=
  match j with
  | JObj m =>
      (match field k_id m with JNull | JInt _ | JStr _ => true | _ => false end)
      && (match field k_method m with JNull | JStr _ => true | _ => false end)
      && (match assoc k_jsonrpc m with None | Some (JStr _) => true | _ => false end)
  | _ => false
  end.

(** ** Kinds: the class for the typed envelopes, the [is_*] predicates for the
    unified class ([None]: none of them holds).  [is_response] is "no method and
    (an id or an error)": an error response whose id is null - JSON-RPC 2.0's
    answer to a request whose id could not be determined, and what
    create_batch_rejection_error() builds - is still an error response
    (fixes/C02-null-id-error-is-a-response.patch; the pre-fix predicate is in
    History/C02_prefix.v). *)
Definition kind_of (e : msg) : option kind :=
  match m_cls e with
  | CRequest => Some KReq
  | CNotification => Some KNotif
  | CResponse => Some KRes
  | CError => Some KErr
  | CUnified =>
      match m_method e, m_id e with
      | Some _, Some _ => Some KReq                         (* is_request *)
      | Some _, None => Some KNotif                         (* is_notification *)
      | None, i =>
          if negb (is_null (m_error e)) then Some KErr      (* is_error_response *)
          else match i with Some _ => Some KRes | None => None end   (* is_response *)
      end
  end.

Definition view_of_msg (e : msg) : option view :=
  match kind_of e with
  | Some k => Some {| v_kind := k; v_id := m_id e; v_method := m_method e;
                      v_params := m_params e; v_result := m_result e; v_error := m_error e |}
  | None => None
  end.

(** ** model_dump(exclude_none=True) *)

(** [_serialize_value] of the fallback base class (Pydantic's serialiser walks
    a [Dict[str, Any]] / [Any] payload the same way): containers are rebuilt
    member by member, nothing is dropped below the top level. *)
Fixpoint serialize_value (j : json) {struct j} : json :=
  match j with
  | JArr l => JArr (map serialize_value l)
  | JObj m => JObj (map (fun kv => match kv with (k, v) => (k, serialize_value v) end) m)
  | _ => j
  end.

(** the declared attributes of each class, in declaration order *)
Definition attributes (e : msg) : obj :=
  let ver := (k_jsonrpc, JStr (m_jsonrpc e)) in
  let i := (k_id, match m_id e with Some r => json_of_rid r | None => JNull end) in
  let meth := (k_method, match m_method e with Some s => JStr s | None => JNull end) in
  let p := (k_params, m_params e) in
  let r := (k_result, m_result e) in
  let er := (k_error, m_error e) in
  match m_cls e with
  | CRequest => [ver; i; meth; p]
  | CNotification => [ver; meth; p]
  | CResponse => [ver; i; r]
  | CError => [ver; i; er]
  | CUnified => [ver; i; meth; p; r; er]
  end.

(** [exclude_none]: a [None]-valued attribute is skipped at the TOP level only;
    every kept value is serialised recursively. *)
Definition dump_exclude_none (e : msg) : json :=
  JObj (map (fun kv => match kv with (k, v) => (k, serialize_value v) end)
            (filter (fun kv => negb (is_null (snd kv))) (attributes e))).

(** ** Constructors *)

Definition params_json (p : option obj) : json :=
  match p with None => JNull | Some m => JObj m end.

(** Python [d[k] = v]: replace in place, or append. *)
Fixpoint dict_set (k : str) (v : json) (m : obj) : obj :=
  match m with
  | [] => [(k, v)]
  | (k', v') :: m' => if str_eqb k k' then (k', v) :: m' else (k', v') :: dict_set k v m'
  end.

Definition k_meta : str := [95; 109; 101; 116; 97].                                          (* "_meta" *)
Definition k_progressToken : str := [112;114;111;103;114;101;115;115;84;111;107;101;110].    (* "progressToken" *)

(** create_request's progress-token block.  [None] = it raises (params["_meta"]
    exists but does not support item assignment with a str key). *)
Definition with_progress_token (params : option obj) (tok : rid) : option (option obj) :=
  let p := match params with None => [] | Some m => m end in
  let p1 := if has_key k_meta p then p else dict_set k_meta (JObj []) p in
  match assoc k_meta p1 with
  | Some (JObj mm) => Some (Some (dict_set k_meta (JObj (dict_set k_progressToken (json_of_rid tok) mm)) p1))
  | _ => None
  end.

(** module-level helpers (the id is explicit: uuid generation is the caller's) *)
Definition create_request (meth : str) (params : option obj) (i : rid) : option msg :=
  new_request [(k_jsonrpc, JStr v2); (k_id, json_of_rid i); (k_method, JStr meth); (k_params, params_json params)].

Definition create_request_progress (meth : str) (params : option obj) (i : rid) (tok : rid) : option msg :=
  match with_progress_token params tok with
  | Some p => create_request meth p i
  | None => None
  end.

Definition create_notification (meth : str) (params : option obj) : option msg :=
  new_notification [(k_jsonrpc, JStr v2); (k_method, JStr meth); (k_params, params_json params)].

Definition create_response (fb : bool) (i : rid) (result : json) : option msg :=
  let r := if is_null result then JObj [] else result in
  new_response fb [(k_jsonrpc, JStr v2); (k_id, json_of_rid i); (k_result, r)].

Definition error_dict (code : Z) (message : str) (data : json) : json :=
  JObj ([(k_code, JInt code); (k_message, JStr message)]
        ++ (if is_null data then [] else [(k_data, data)])).

Definition create_error_response (i : rid) (code : Z) (message : str) (data : json) : option msg :=
  new_error [(k_jsonrpc, JStr v2); (k_id, json_of_rid i); (k_error, error_dict code message data)].

(** JSONRPCMessage.create_* classmethods *)
Definition u_create_request (meth : str) (params : option obj) (i : rid) : option msg :=
  unified_init [(k_jsonrpc, JStr v2); (k_id, json_of_rid i); (k_method, JStr meth); (k_params, params_json params)].

Definition u_create_notification (meth : str) (params : option obj) : option msg :=
  unified_init [(k_jsonrpc, JStr v2); (k_method, JStr meth); (k_params, params_json params)].

(** [result or {}] *)
Definition u_create_response (i : rid) (result : json) : option msg :=
  let r := if truthy result then result else JObj [] in
  unified_init [(k_jsonrpc, JStr v2); (k_id, json_of_rid i); (k_result, r)].

Definition u_create_error_response (i : rid) (code : Z) (message : str) (data : json) : option msg :=
  unified_init [(k_jsonrpc, JStr v2); (k_id, json_of_rid i); (k_error, error_dict code message data)].

(** ** Dict-building emitters (features/batching.py) *)

(** BatchProcessor.create_batch_rejection_error(message_id=None): the id member
    is ALWAYS written, [null] when no id is given; message and data texts are
    opaque here ([msg], [data]). *)
Definition batch_rejection_error (i : option rid) (msg : str) (data : json) : json :=
  JObj [(k_jsonrpc, JStr v2);
        (k_id, match i with Some r => json_of_rid r | None => JNull end);
        (k_error, JObj [(k_code, JInt (-32600)); (k_message, JStr msg); (k_data, data)])].

(** Model of the inbound half of the stdio transport
    (transports/stdio/stdio_client.py: [_stdout_reader], [_route_message]) as the
    code stands after "fix: stdio reader buffers bytes ...".  Definitions only.

      buffer = b""
      async for chunk in process.stdout:
          if isinstance(chunk, str): chunk = chunk.encode("utf-8")     # [chunk_bytes]
          buffer += chunk
          lines = buffer.split(b"\n"); buffer = lines[-1]              # [feed]
          for raw_line in lines[:-1]:
              try:
                  line = raw_line.decode("utf-8").strip()              # [deliver]
                  if not line: continue
                  data = json.loads(line); await self._process_message_data(data)   # [parse]
              except ...: log                                          # -> []

    [parse] (json.loads + batch handling + parse_message + the swallowed
    exceptions) is external code: a Section variable.  One line may deliver
    several messages (a JSON array while batching is enabled), hence
    [list msg]. *)
From Verif.Base Require Import Prelude StdioUtf8.
Open Scope Z_scope.

(** The code, literally: [bytes.split(b"\n")] is [split_on 10]. *)
Definition feed (buf chunk : bytes) : list bytes * bytes :=
  let pieces := split_on 10 (buf ++ chunk) in
  (removelast pieces, last pieces []).

(** The same function by structural recursion (proved equal to [feed] in
    Proofs/Lines.v); complete lines and the unterminated rest. *)
Fixpoint split_lines (s : bytes) : list bytes * bytes :=
  match s with
  | [] => ([], [])
  | c :: s' =>
      let (ls, r) := split_lines s' in
      if c =? 10 then ([] :: ls, r)
      else match ls with
           | [] => ([], c :: r)
           | l :: ls' => ((c :: l) :: ls', r)
           end
  end.

(** A chunk is [bytes] (what a real pipe yields) or [str] (accepted for test
    doubles; encoded OUTSIDE the per-line try, so a lone surrogate ends the
    reader). *)
Inductive chunk : Type :=
| CBytes (b : bytes)
| CText (s : str).

Definition chunk_bytes (c : chunk) : option bytes :=
  match c with
  | CBytes b => Some b
  | CText s => utf8_encode s
  end.

(** The byte chunks the loop gets to see: everything before the first chunk
    whose encoding raises. *)
Fixpoint seen_chunks (cs : list chunk) : list bytes :=
  match cs with
  | [] => []
  | c :: cs' => match chunk_bytes c with
                | None => []
                | Some b => b :: seen_chunks cs'
                end
  end.

Section Reader.
  Variable msg : Type.
  Variable deliver : bytes -> list msg.

  (** (messages handed to [_route_message] in order, final buffer) *)
  Fixpoint reader (buf : bytes) (chunks : list bytes) : list msg * bytes :=
    match chunks with
    | [] => ([], buf)
    | c :: cs =>
        let (ls, buf') := feed buf c in
        let (out, b) := reader buf' cs in
        (flat_map deliver ls ++ out, b)
    end.

  Definition run (chunks : list bytes) : list msg := fst (reader [] chunks).
  Definition run_chunks (cs : list chunk) : list msg := run (seen_chunks cs).
End Reader.

Section Deliver.
  Variable msg : Type.
  Variable parse : str -> list msg.

  (** What reaches [json.loads]: the decoded, stripped, non-empty text. *)
  Definition line_text (raw : bytes) : option str :=
    match utf8_decode raw with
    | None => None                      (* UnicodeDecodeError, caught per line *)
    | Some t => match strip t with
                | [] => None            (* if not line: continue *)
                | t' => Some t'
                end
    end.

  Definition deliver_line (raw : bytes) : list msg :=
    match line_text raw with
    | None => []
    | Some t => parse t
    end.
End Deliver.

(** [_route_message] for messages without a registered per-request stream:
    every message goes to the main stream (blocking send: never lost while the
    receive end is open); a message whose [id] is None is first offered to the
    notification stream with [send_nowait], which drops it when the buffer
    ([cap] = 100 in the code) is full.  [Take] = the application receives one
    item from [client.notifications]. *)
Section Route.
  Variable msg : Type.
  Variable no_id : msg -> bool.

  Inductive ev : Type :=
  | Arrive (m : msg)
  | Take.

  Definition offer (cap : nat) (q : list msg) (m : msg) : list msg :=
    if (length q <? cap)%nat then q ++ [m] else q.

  Record rstate : Type := {
    rs_main : list msg;     (* sent on the main stream, in order *)
    rs_queue : list msg;    (* buffered in the notification stream *)
    rs_recv : list msg      (* received from the notification stream so far *)
  }.

  Definition rstep (cap : nat) (st : rstate) (e : ev) : rstate :=
    match e with
    | Arrive m =>
        {| rs_main := rs_main st ++ [m];
           rs_queue := if no_id m then offer cap (rs_queue st) m else rs_queue st;
           rs_recv := rs_recv st |}
    | Take =>
        match rs_queue st with
        | [] => st
        | x :: q' => {| rs_main := rs_main st; rs_queue := q'; rs_recv := rs_recv st ++ [x] |}
        end
    end.

  Definition rinit : rstate := {| rs_main := []; rs_queue := []; rs_recv := [] |}.
  Definition route (cap : nat) (evs : list ev) : rstate := fold_left (rstep cap) evs rinit.

  (** the arrivals of a schedule *)
  Fixpoint arrivals (evs : list ev) : list msg :=
    match evs with
    | [] => []
    | Arrive m :: r => m :: arrivals r
    | Take :: r => arrivals r
    end.
End Route.

(** Reference JSON codec (C17, reused by C06).  Definitions only.

    Two layers, as in the code under test: [render] produces the TEXT (a list
    of code points — what [fast_json.dumps] returns as a Python [str]),
    [utf8_str] produces the BYTES (what [stdio_client] puts on the wire with
    [str.encode()]).  [ref_encode = utf8_str . render],
    [ref_decode = ref_parse . utf8_dec].

    A policy is what the two real encoders differ in:
      orjson            raw UTF-8, compact separators  ","  ":"
      stdlib default    ensure_ascii (\uXXXX, surrogate pairs), ", " and ": "
      stdlib compact    ensure_ascii, separators=(",", ":")   (model_dump_json)
    Floats are opaque: [ftext] is the encoder's float formatter, [fparse] the
    decoder's float reader (oracles, Section variables). *)
From Verif.Base Require Import Prelude JsonVal.
Open Scope Z_scope.

Record policy : Type := { pol_ascii : bool; pol_spaced : bool }.
Definition pol_orjson : policy := {| pol_ascii := false; pol_spaced := false |}.
Definition pol_stdlib_default : policy := {| pol_ascii := true; pol_spaced := true |}.
Definition pol_stdlib_compact : policy := {| pol_ascii := true; pol_spaced := false |}.

(* ------------------------------------------------------------------------- *)
(** * UTF-8 *)

Definition utf8 (c : Z) : list Z :=
  if c <? 128 then [c]
  else if c <? 2048 then [192 + c / 64; 128 + c mod 64]
  else if c <? 65536 then [224 + c / 4096; 128 + (c / 64) mod 64; 128 + c mod 64]
  else [240 + c / 262144; 128 + (c / 4096) mod 64; 128 + (c / 64) mod 64; 128 + c mod 64].

Definition utf8_str (s : str) : list Z := flat_map utf8 s.

Definition is_cont (b : Z) : bool := (128 <=? b) && (b <? 192).

Definition ocons {A B} (a : A) (o : option (list A * B)) : option (list A * B) :=
  match o with Some (x, r) => Some (a :: x, r) | None => None end.

Definition ocons1 {A} (a : A) (o : option (list A)) : option (list A) :=
  match o with Some x => Some (a :: x) | None => None end.

(** strict decoder: shortest form only, no surrogates, nothing above U+10FFFF *)
Fixpoint utf8_dec (b : list Z) : option str :=
  match b with
  | [] => Some []
  | b0 :: r =>
      if b0 <? 0 then None
      else if b0 <? 128 then ocons1 b0 (utf8_dec r)
      else if b0 <? 192 then None
      else if b0 <? 224 then
        match r with
        | b1 :: r' =>
            let c := (b0 - 192) * 64 + (b1 - 128) in
            if is_cont b1 && (128 <=? c) then ocons1 c (utf8_dec r') else None
        | _ => None
        end
      else if b0 <? 240 then
        match r with
        | b1 :: b2 :: r' =>
            let c := (b0 - 224) * 4096 + (b1 - 128) * 64 + (b2 - 128) in
            if is_cont b1 && is_cont b2 && (2048 <=? c) && negb (is_surrogate c)
            then ocons1 c (utf8_dec r') else None
        | _ => None
        end
      else if b0 <? 248 then
        match r with
        | b1 :: b2 :: b3 :: r' =>
            let c := (b0 - 240) * 262144 + (b1 - 128) * 4096 + (b2 - 128) * 64 + (b3 - 128) in
            if is_cont b1 && is_cont b2 && is_cont b3 && (65536 <=? c) && (c <=? 1114111)
            then ocons1 c (utf8_dec r') else None
        | _ => None
        end
      else None
  end.

(* ------------------------------------------------------------------------- *)
(** * Decimal integers *)

Fixpoint digits_fuel (fuel : nat) (n : Z) (acc : str) : str :=
  match fuel with
  | O => acc
  | S f =>
      let acc' := (48 + n mod 10) :: acc in
      if n <? 10 then acc' else digits_fuel f (n / 10) acc'
  end.

(** decimal digits of [n >= 0], most significant first, no leading zero *)
Definition nat_chars (n : Z) : str := digits_fuel (S (Z.to_nat (Z.log2 n))) n [].

Definition int_chars (z : Z) : str :=
  if z <? 0 then 45 :: nat_chars (- z) else nat_chars z.

Definition digits_val (s : str) : Z := fold_left (fun a d => 10 * a + (d - 48)) s 0.

(** optional minus, then a single 0 or a digit string without leading zero *)
Definition nat_of_digits (s : str) : option Z :=
  match s with
  | [] => None
  | d :: r =>
      if forallb is_digit s && (negb (d =? 48) || match r with [] => true | _ => false end)
      then Some (digits_val s) else None
  end.

Definition int_of_tok (t : str) : option Z :=
  match t with
  | c :: r => if c =? 45 then option_map Z.opp (nat_of_digits r) else nat_of_digits t
  | [] => None
  end.

(** characters a JSON number token is made of: [-+.eE0-9] *)
Definition is_num_char (c : Z) : bool :=
  is_digit c || (c =? 45) || (c =? 43) || (c =? 46) || (c =? 101) || (c =? 69).

Definition is_frac_char (c : Z) : bool := (c =? 46) || (c =? 101) || (c =? 69).

(** what the codec needs from a float's text: number characters only and at
    least one of [.eE] (so that it is not read back as an integer) *)
Definition float_text_ok (t : str) : bool := forallb is_num_char t && existsb is_frac_char t.

Fixpoint span_num (s : str) : str * str :=
  match s with
  | [] => ([], [])
  | c :: r => if is_num_char c then let (t, r') := span_num r in (c :: t, r') else ([], s)
  end.

(* ------------------------------------------------------------------------- *)
(** * Strings *)

Definition hexd (n : Z) : Z := let m := n mod 16 in if m <? 10 then 48 + m else 87 + m.   (* lower case *)
Definition hex4 (u : Z) : str := [hexd (u / 4096); hexd (u / 256); hexd (u / 16); hexd u].
Definition uesc (u : Z) : str := 92 :: 117 :: hex4 u.

Definition esc_char (ascii : bool) (c : Z) : str :=
  if c =? 34 then [92; 34]
  else if c =? 92 then [92; 92]
  else if c =? 8 then [92; 98]
  else if c =? 12 then [92; 102]
  else if c =? 10 then [92; 110]
  else if c =? 13 then [92; 114]
  else if c =? 9 then [92; 116]
  else if c <? 32 then uesc c
  else if negb ascii then [c]
  else if c <? 127 then [c]
  else if c <? 65536 then uesc c
  else uesc (55296 + (c - 65536) / 1024) ++ uesc (56320 + (c - 65536) mod 1024).

Definition esc_str (ascii : bool) (s : str) : str := flat_map (esc_char ascii) s.
Definition render_string (ascii : bool) (s : str) : str := 34 :: esc_str ascii s ++ [34].

Definition hexv (c : Z) : option Z :=
  if (48 <=? c) && (c <=? 57) then Some (c - 48)
  else if (97 <=? c) && (c <=? 102) then Some (c - 87)
  else if (65 <=? c) && (c <=? 70) then Some (c - 55)
  else None.

Definition hex4v (a b c d : Z) : option Z :=
  match hexv a, hexv b, hexv c, hexv d with
  | Some x, Some y, Some z, Some w => Some (4096 * x + 256 * y + 16 * z + w)
  | _, _, _, _ => None
  end.

Definition unescape_simple (e : Z) : option Z :=
  if e =? 34 then Some 34
  else if e =? 92 then Some 92
  else if e =? 47 then Some 47
  else if e =? 98 then Some 8
  else if e =? 102 then Some 12
  else if e =? 110 then Some 10
  else if e =? 114 then Some 13
  else if e =? 116 then Some 9
  else None.

Definition is_hi (u : Z) : bool := (55296 <=? u) && (u <=? 56319).
Definition is_lo (u : Z) : bool := (56320 <=? u) && (u <=? 57343).
Definition combine_surr (h l : Z) : Z := 65536 + (h - 55296) * 1024 + (l - 56320).

(** body of a string literal after the opening quote; [hi] = a pending high
    surrogate from a preceding \uD8xx escape.  Strict: raw control characters,
    unknown escapes and lone surrogates are rejected. *)
Fixpoint pstr (hi : option Z) (s : str) : option (str * str) :=
  match s with
  | [] => None
  | c :: r =>
      if c =? 34 then match hi with None => Some ([], r) | Some _ => None end
      else if c =? 92 then
        match r with
        | [] => None
        | e :: r1 =>
            if e =? 117 then
              match r1 with
              | a :: b :: c' :: d :: r2 =>
                  match hex4v a b c' d with
                  | None => None
                  | Some u =>
                      if is_hi u then match hi with None => pstr (Some u) r2 | Some _ => None end
                      else if is_lo u then
                        match hi with Some h => ocons (combine_surr h u) (pstr None r2) | None => None end
                      else match hi with None => ocons u (pstr None r2) | Some _ => None end
                  end
              | _ => None
              end
            else
              match hi with
              | Some _ => None
              | None => match unescape_simple e with
                        | Some x => ocons x (pstr None r1)
                        | None => None
                        end
              end
        end
      else if c <? 32 then None
      else match hi with Some _ => None | None => ocons c (pstr None r) end
  end.

(* ------------------------------------------------------------------------- *)
(** * Values *)

Definition is_ws (c : Z) : bool := (c =? 32) || (c =? 9) || (c =? 10) || (c =? 13).

Fixpoint skip_ws (s : str) : str :=
  match s with
  | c :: r => if is_ws c then skip_ws r else s
  | [] => []
  end.

Fixpoint expect (lit : str) (s : str) : option str :=
  match lit with
  | [] => Some s
  | c :: lit' => match s with
                 | d :: s' => if c =? d then expect lit' s' else None
                 | [] => None
                 end
  end.

Definition item_sep (p : policy) : str := if pol_spaced p then [44; 32] else [44].
Definition key_sep (p : policy) : str := if pol_spaced p then [58; 32] else [58].

Section Codec.
  Variable F : Type.
  Variable ftext : F -> str.              (* the encoder's float formatter *)
  Variable fparse : str -> option F.      (* the decoder's float reader *)

  Fixpoint render (p : policy) (v : json F) : str :=
    match v with
    | JNull => [110; 117; 108; 108]
    | JBool true => [116; 114; 117; 101]
    | JBool false => [102; 97; 108; 115; 101]
    | JInt z => int_chars z
    | JFloat f => ftext f
    | JStr s => render_string (pol_ascii p) s
    | JArr l =>
        match l with
        | [] => [91; 93]
        | v0 :: l' =>
            91 :: render p v0 ++ flat_map (fun x => item_sep p ++ render p x) l' ++ [93]
        end
    | JObj m =>
        match m with
        | [] => [123; 125]
        | (k0, v0) :: m' =>
            123 :: render_string (pol_ascii p) k0 ++ key_sep p ++ render p v0
              ++ flat_map (fun kv => item_sep p ++ render_string (pol_ascii p) (fst kv)
                                       ++ key_sep p ++ render p (snd kv)) m'
              ++ [125]
        end
    end.

  Definition ref_encode (p : policy) (v : json F) : list Z := utf8_str (render p v).

  Definition pnumber (s : str) : option (json F * str) :=
    let (tok, rest) := span_num s in
    match int_of_tok tok with
    | Some z => Some (JInt z, rest)
    | None => if float_text_ok tok
              then match fparse tok with Some f => Some (JFloat f, rest) | None => None end
              else None
    end.

  Definition pkey (s : str) : option (str * str) :=
    match skip_ws s with
    | c :: r => if c =? 34 then
                  match pstr None r with
                  | Some (k, r1) => match skip_ws r1 with
                                    | d :: r2 => if d =? 58 then Some (k, r2) else None
                                    | [] => None
                                    end
                  | None => None
                  end
                else None
    | [] => None
    end.

  (** fuelled recursive descent: [pval] one value (leading white space
      allowed), [parr] the rest of an array after an element, [pobj] the rest
      of an object after a member *)
  Fixpoint pval (n : nat) (s : str) : option (json F * str) :=
    match n with
    | O => None
    | S n' =>
        match skip_ws s with
        | [] => None
        | c :: r =>
            if c =? 110 then match expect [117; 108; 108] r with Some r' => Some (JNull, r') | None => None end
            else if c =? 116 then match expect [114; 117; 101] r with Some r' => Some (JBool true, r') | None => None end
            else if c =? 102 then match expect [97; 108; 115; 101] r with Some r' => Some (JBool false, r') | None => None end
            else if c =? 34 then match pstr None r with Some (x, r') => Some (JStr x, r') | None => None end
            else if c =? 91 then
              match skip_ws r with
              | [] => None
              | d :: r0 =>
                  if d =? 93 then Some (JArr [], r0)
                  else match pval n' r with
                       | Some (v, r1) => match parr n' r1 with
                                         | Some (l, r2) => Some (JArr (v :: l), r2)
                                         | None => None
                                         end
                       | None => None
                       end
              end
            else if c =? 123 then
              match skip_ws r with
              | [] => None
              | d :: r0 =>
                  if d =? 125 then Some (JObj [], r0)
                  else match pkey r with
                       | Some (k, r1) =>
                           match pval n' r1 with
                           | Some (v, r2) => match pobj n' r2 with
                                             | Some (m, r3) => Some (JObj ((k, v) :: m), r3)
                                             | None => None
                                             end
                           | None => None
                           end
                       | None => None
                       end
              end
            else if is_num_char c then pnumber (c :: r)
            else None
        end
    end
  with parr (n : nat) (s : str) : option (list (json F) * str) :=
    match n with
    | O => None
    | S n' =>
        match skip_ws s with
        | [] => None
        | c :: r =>
            if c =? 93 then Some ([], r)
            else if c =? 44 then
              match pval n' r with
              | Some (v, r1) => match parr n' r1 with
                                | Some (l, r2) => Some (v :: l, r2)
                                | None => None
                                end
              | None => None
              end
            else None
        end
    end
  with pobj (n : nat) (s : str) : option (list (str * json F) * str) :=
    match n with
    | O => None
    | S n' =>
        match skip_ws s with
        | [] => None
        | c :: r =>
            if c =? 125 then Some ([], r)
            else if c =? 44 then
              match pkey r with
              | Some (k, r1) =>
                  match pval n' r1 with
                  | Some (v, r2) => match pobj n' r2 with
                                    | Some (m, r3) => Some ((k, v) :: m, r3)
                                    | None => None
                                    end
                  | None => None
                  end
              | None => None
              end
            else None
        end
    end.

  (** a whole document: one value, then only white space *)
  Definition ref_parse (s : str) : option (json F) :=
    match pval (S (length s)) s with
    | Some (v, r) => match skip_ws r with [] => Some v | _ :: _ => None end
    | None => None
    end.

  Definition ref_decode (b : list Z) : option (json F) :=
    match utf8_dec b with
    | Some s => ref_parse s
    | None => None
    end.

  (** well-formed value: strings and keys are sequences of Unicode scalar
      values (no lone surrogates), floats have a text the float reader gives
      back *)
  Definition wf_str (s : str) : Prop := Forall (fun c => is_scalar c = true) s.
  Definition wf_float (f : F) : Prop := float_text_ok (ftext f) = true /\ fparse (ftext f) = Some f.

  Fixpoint wf_value (v : json F) : Prop :=
    match v with
    | JFloat f => wf_float f
    | JStr s => wf_str s
    | JArr l => fold_right (fun x acc => wf_value x /\ acc) True l
    | JObj m => fold_right (fun kv acc => (wf_str (fst kv) /\ wf_value (snd kv)) /\ acc) True m
    | _ => True
    end.

  (** all floats inside the value have a text without control characters *)
  Fixpoint float_texts_clean (v : json F) : Prop :=
    match v with
    | JFloat f => Forall (fun c => 32 <= c) (ftext f)
    | JArr l => fold_right (fun x acc => float_texts_clean x /\ acc) True l
    | JObj m => fold_right (fun kv acc => float_texts_clean (snd kv) /\ acc) True m
    | _ => True
    end.
End Codec.

Arguments render {F} ftext p v.
Arguments ref_encode {F} ftext p v.
Arguments pnumber {F} fparse s.
Arguments pval {F} fparse n s.
Arguments parr {F} fparse n s.
Arguments pobj {F} fparse n s.
Arguments ref_parse {F} fparse s.
Arguments ref_decode {F} fparse b.
Arguments wf_float {F} ftext fparse f.
Arguments wf_value {F} ftext fparse v.
Arguments float_texts_clean {F} ftext v.

(* ------------------------------------------------------------------------- *)
(** * Driver instance: a float is its token text; the float reader accepts
    exactly the RFC 8259 number grammar: optional minus, int part without
    leading zero, optional fraction (dot, 1+ digits), optional exponent
    (e or E, optional sign, 1+ digits). *)
Fixpoint drop_digits (s : str) : str :=
  match s with
  | c :: r => if is_digit c then drop_digits r else s
  | [] => []
  end.

Definition digits1 (s : str) : option str :=
  match s with
  | c :: r => if is_digit c then Some (drop_digits r) else None
  | [] => None
  end.

Definition json_number_ok (t : str) : bool :=
  let s0 := match t with c :: r => if c =? 45 then r else t | [] => t end in
  match s0 with
  | [] => false
  | c :: r =>
      let after_int := if c =? 48 then Some r else if is_digit c then Some (drop_digits r) else None in
      match after_int with
      | None => false
      | Some s1 =>
          let after_frac :=
            match s1 with
            | c1 :: r1 => if c1 =? 46 then digits1 r1 else Some s1
            | [] => Some s1
            end in
          match after_frac with
          | None => false
          | Some [] => true
          | Some (c2 :: r2) =>
              if (c2 =? 101) || (c2 =? 69) then
                let r3 := match r2 with
                          | c3 :: r3' => if (c3 =? 43) || (c3 =? 45) then r3' else r2
                          | [] => r2
                          end in
                match digits1 r3 with Some [] => true | _ => false end
              else false
          end
      end
  end.

Definition tok_ftext (t : str) : str := t.
Definition tok_fparse (t : str) : option str := if json_number_ok t then Some t else None.

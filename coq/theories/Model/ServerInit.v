(** Model of the server side of MCP version negotiation:
    ProtocolHandler._handle_initialize (server/protocol_handler.py) and the
    session it records (server/session/memory.py: create_session stores the
    protocol_version it is given).  Definitions only.  The default literal, the
    decision chain and "session/result use the decided variable" are REGENERATED
    from the AST of _handle_initialize (Gen/ServerInitGen.v, by
    harness/translate_c04.py); SUPPORTED_VERSIONS / CURRENT_VERSION come from
    Gen/VersionsGen.v. *)
From Verif.Base Require Import Prelude.
From Verif.Gen Require Import VersionsGen ServerInitGen.
From Verif.Model Require Import Batching Negotiation.
Open Scope Z_scope.

(** The [protocolVersion] member of the initialize request's params. *)
Inductive requested :=
| RAbsent                      (* no such member (or no params at all) *)
| RStr (s : str)               (* a JSON string *)
| RNonStr.                     (* null, number, boolean, list, object *)

(** params.get("protocolVersion", <default>) *)
Definition read_requested (r : requested) : option str :=
  match r with
  | RAbsent => server_default
  | RStr s => Some s
  | RNonStr => None
  end.

(** The value put into result["protocolVersion"]; [None] = a non-string value. *)
Definition server_answer (r : requested) : option str :=
  result_version_of (server_decide (read_requested r)).

(** The value stored in SessionInfo.protocol_version of the created session. *)
Definition session_version (r : requested) : option str :=
  session_version_of (server_decide (read_requested r)).

(** The response as the client model sees it (Model/Negotiation.v's [answer]):
    a result object carrying the decided protocolVersion together with the
    handler's own serverInfo and capabilities (which validate: [rest_ok]). *)
Definition jver_of (x : option str) : jver :=
  match x with Some s => JStr s | None => JNonStr end.
Definition server_response (p : str) : answer :=
  AResult (Some (jver_of (server_answer (RStr p)))) true.

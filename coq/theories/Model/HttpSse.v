(** Model of the SSE text parser of the Streamable HTTP transport
    (src/chuk_mcp/transports/http/transport.py: _parse_sse_line,
    _process_sse_text, _process_sse_event) AS PATCHED by fixes/C11-1..3.
    The pre-fix parser is History/C11_prefix.v; both are instances of the
    same loop skeleton [sse_run].  Definitions only. *)
From Verif.Base Require Import Prelude HttpBase.
Open Scope Z_scope.

(** What the loop body does with one NON-EMPTY line. *)
Inductive line_class : Type :=
| LSkip                    (* comment, unknown field: nothing changes *)
| LEvent (v : str)         (* current_event = v *)
| LData (v : str).         (* event_data.append(v) *)

(** An event as handed to _process_sse_event: (current_event, event_data). *)
Definition sse_event : Type := (option str * list str)%type.

Section Loop.
  Variable classify : str -> line_class.
  Variable dispatchable : option str -> list str -> bool.

  Definition sse_flush (cur : option str) (data : list str) : list sse_event :=
    if dispatchable cur data then [(cur, data)] else [].

  (** The [for line in lines] loop of _process_sse_text, followed by
      "process any remaining event".  [lines] already had rstrip("\r"). *)
  Fixpoint sse_run (cur : option str) (data : list str) (lines : list str) : list sse_event :=
    match lines with
    | [] => sse_flush cur data
    | l :: ls =>
        match l with
        | [] => sse_flush cur data ++ sse_run None [] ls
        | _ :: _ =>
            match classify l with
            | LSkip => sse_run cur data ls
            | LEvent v => sse_run (Some v) data ls
            | LData v => sse_run cur (data ++ [v]) ls
            end
        end
    end.
End Loop.

Definition s_event : str := [101;118;101;110;116].                 (* "event" *)
Definition s_data : str := [100;97;116;97].                        (* "data" *)
Definition s_message : str := [109;101;115;115;97;103;101].        (* "message" *)
Definition s_response : str := [114;101;115;112;111;110;115;101].  (* "response" *)

(** _parse_sse_line: None for a comment, else (field, value) with ONE leading space removed. *)
Definition parse_sse_line (l : str) : option (str * str) :=
  if starts_with [58] l then None
  else
    let '(field, after) := partition_colon l in
    let value := match after with Some v => v | None => [] end in
    Some (field, if starts_with [32] value then tl value else value).

Definition classify_line (l : str) : line_class :=
  match parse_sse_line l with
  | None => LSkip
  | Some (field, value) =>
      if str_eqb field s_event then LEvent (py_strip value)
      else if str_eqb field s_data then LData value
      else LSkip
  end.

(** [if event_data:] *)
Definition dispatchable_data (cur : option str) (data : list str) : bool := negb (is_nil data).

(** [current_event or "message"] *)
Definition event_type (cur : option str) : str :=
  match cur with
  | Some (c :: t) => c :: t
  | _ => s_message
  end.

(** [text.split("\n")], [line.rstrip("\r")] *)
Definition sse_lines (text : str) : list str := map rstrip_cr (split_on 10 text).

Definition sse_events (text : str) : list sse_event :=
  sse_run classify_line dispatchable_data None [] (sse_lines text).

(** _process_sse_event: the text handed to json.loads, if any.
    [event_type in ["message", "response", None]] and
    [full_data.strip().startswith(("{", "["))]. *)
Definition type_accepted (t : str) : bool := str_eqb t s_message || str_eqb t s_response.

Definition payload_start_ok (s : str) : bool :=
  match s with
  | c :: _ => (c =? 123) || (c =? 91)
  | [] => false
  end.

Definition event_payload (e : sse_event) : option str :=
  let '(cur, data) := e in
  if type_accepted (event_type cur) then
    let s := py_strip (join_lf data) in
    if payload_start_ok s then Some s else None
  else None.

(** Every text the parser hands to json.loads, in order. *)
Definition sse_messages (text : str) : list str :=
  flat_map (fun e => opt_list (event_payload e)) (sse_events text).

(** Model of the outbound half of the stdio transport
    (transports/stdio/stdio_client.py: [_stdin_writer]).  Definitions only.

      async for message in self._outgoing_recv:
          try:
              if isinstance(message, str):   json_str = message                      # [Raw]
                  [patched: if "\n" in json_str or "\r" in json_str:
                                json_str = json.dumps(json.loads(json_str))]         # [Recompact]
              elif isinstance(message, dict): json_str = json.dumps(message)         # [Dict]
              elif has model_dump_json:       json_str = message.model_dump_json(exclude_none=True)      # [Typed]
              elif has model_dump:            json_str = json.dumps(message.model_dump(exclude_none=True)) # [DumpOnly]
              else:                           json_str = json.dumps(message)         # [Other]
              await self.process.stdin.send(f"{json_str}\n".encode())
          except Exception: log; continue                                            # dropped alone
      await self.process.stdin.aclose()                                              # stream ended

    The serialisers are external code (orjson / stdlib json / pydantic):
    Section variables returning [None] when they raise.  [raw_policy] selects
    between the code at /repo HEAD ([Verbatim]) and the code with
    fixes/C06-raw-string-line-breaks.patch applied ([Recompact]). *)
From Verif.Base Require Import Prelude StdioUtf8.
Open Scope Z_scope.

Inductive raw_policy : Type := Verbatim | Recompact.

Inductive outmsg (model value : Type) : Type :=
| Typed (m : model)        (* object with model_dump_json *)
| DumpOnly (m : model)     (* object with model_dump only *)
| Dict (v : value)         (* plain dict *)
| Other (v : value)        (* anything else: json.dumps as is *)
| Raw (t : str).           (* pre-serialised string *)
Arguments Typed {model value}.
Arguments DumpOnly {model value}.
Arguments Dict {model value}.
Arguments Other {model value}.
Arguments Raw {model value}.

Definition has_break (t : str) : bool := mem_Z 10 t || mem_Z 13 t.

Section Writer.
  Variables model value : Type.
  Variable dump_json : model -> option str.      (* model_dump_json(exclude_none=True) *)
  Variable model_dump : model -> option value.   (* model_dump(exclude_none=True) *)
  Variable dumps : value -> option str.          (* fast_json.dumps *)
  Variable loads : str -> option value.          (* fast_json.loads *)
  Variable policy : raw_policy.

  Definition recompact (t : str) : option str :=
    match loads t with None => None | Some v => dumps v end.

  Definition text_of (m : outmsg model value) : option str :=
    match m with
    | Typed e => dump_json e
    | DumpOnly e => match model_dump e with None => None | Some v => dumps v end
    | Dict v => dumps v
    | Other v => dumps v
    | Raw t => match policy with
               | Verbatim => Some t
               | Recompact => if has_break t then recompact t else Some t
               end
    end.

  (** [f"{json_str}\n".encode()]: one write per message; [None] = raised. *)
  Definition write_of (m : outmsg model value) : option bytes :=
    match text_of m with
    | None => None
    | Some t => utf8_encode (t ++ [10])
    end.

  (** the line without its terminator *)
  Definition body_of (m : outmsg model value) : option bytes :=
    match text_of m with
    | None => None
    | Some t => utf8_encode t
    end.

  Definition bodies (msgs : list (outmsg model value)) : list bytes :=
    flat_map (fun m => match body_of m with None => [] | Some b => [b] end) msgs.

  Definition writes (msgs : list (outmsg model value)) : list bytes :=
    flat_map (fun m => match write_of m with None => [] | Some w => [w] end) msgs.

  (** The application's use of the write stream: send a message, or close it
      (after which nothing can be sent any more). *)
  Inductive oev : Type :=
  | Send (m : outmsg model value)
  | Close.

  Fixpoint sent_before_close (evs : list oev) : list (outmsg model value) * bool :=
    match evs with
    | [] => ([], false)
    | Close :: _ => ([], true)
    | Send m :: r => let (ms, c) := sent_before_close r in (m :: ms, c)
    end.

  (** (what the child's stdin receives, write by write; whether stdin was closed) *)
  Definition run_out (evs : list oev) : list bytes * bool :=
    let (ms, c) := sent_before_close evs in (writes ms, c).
End Writer.

(** C20 — executable model of the host glue AS IT IS at /repo HEAD:
      chuk_mcp/config.py                       load_config
      chuk_mcp/transports/stdio/stdio_client.py  StdioClient.__init__ / __aenter__ (the spawn)
      chuk_mcp/mcp_client/host/environment.py  get_default_environment
      chuk_mcp/__main__.py                     test_server (behind main())
      chuk_mcp/mcp_client/host/server_manager.py  run_command
    Definitions only.

    Python is dynamically typed and the defect class this property is about is
    INTERFACE DRIFT between two modules (one returns a tuple, the other expects
    the parameters object).  So values that cross module boundaries are a small
    dynamic type [dyn]; each consumer does what the Python does on each shape. *)
From Verif.Base Require Import Prelude Json Decimal HostTypes.
Open Scope Z_scope.

Inductive dyn : Type :=
| DParams (p : params)            (* a StdioParameters instance *)
| DNum (d : dec)                  (* a float *)
| DNone
| DTuple (a b : dyn).             (* a 2-tuple *)

Inductive result (A : Type) : Type :=
| Ok (a : A)
| Err (e : err).
Arguments Ok {A} a.
Arguments Err {A} e.

(* ------------------------------------------------------------------ *)
(** * config.py *)

(** Python truthiness of a decoded JSON value ([if not server_config]). *)
Definition falsy (j : json) : bool :=
  match j with
  | JNull => true
  | JBool b => negb b
  | JInt z => z =? 0
  | JFloat t => match dec_of_str t with Some d => d_m d =? 0 | None => false end
  | JStr s => match s with [] => true | _ => false end
  | JArr l => match l with [] => true | _ => false end
  | JObj m => match m with [] => true | _ => false end
  end.

Fixpoint all_jstr (l : list json) : option (list str) :=
  match l with
  | [] => Some []
  | JStr s :: r => match all_jstr r with Some r' => Some (s :: r') | None => None end
  | _ :: _ => None
  end.

Fixpoint all_jstr_env (m : list (str * json)) : option envt :=
  match m with
  | [] => Some []
  | (k, JStr s) :: r => match all_jstr_env r with Some r' => Some ((k, s) :: r') | None => None end
  | _ :: _ => None
  end.

(** [StdioParameters(command=c, args=a, env=e)] under Pydantic: [command: str],
    [args: List[str]], [env: Optional[Dict[str, str]]]; no coercion from other
    JSON types; [None] = validation error (a ValueError subclass). *)
Definition mk_params (c a e : json) : option params :=
  match c with
  | JStr cs =>
      match a with
      | JArr l =>
          match all_jstr l with
          | Some args =>
              match e with
              | JNull => Some (Params cs args None)
              | JObj m => match all_jstr_env m with
                          | Some ev => Some (Params cs args (Some ev))
                          | None => None
                          end
              | _ => None
              end
          | None => None
          end
      | _ => None
      end
  | _ => None
  end.

(** [float(x)] on a decoded JSON value that is not None. *)
Inductive fres : Type := FOk (d : dec) | FErrValue | FErrType.

Definition float_of_json (j : json) : fres :=
  match j with
  | JInt z => FOk (dec_norm z 0)
  | JFloat t => match dec_of_str t with Some d => FOk d | None => FErrValue end
  | JBool b => FOk (Dec (if b then 1 else 0) 0)
  | JStr s => match dec_of_str s with Some d => FOk d | None => FErrValue end
  | JNull | JArr _ | JObj _ => FErrType
  end.

Definition default {A} (d : A) (o : option A) : A := match o with Some x => x | None => d end.

(** [load_config(config_path, server_name)].  The three [except] clauses
    re-raise the same class, so the class that leaves is the class that was
    raised inside. *)
Definition load_config (src : source) (name : str) : result dyn :=
  match src with
  | SrcMissing => Err EFileNotFound                       (* open() *)
  | SrcBadJson => Err EJSONDecode                         (* json.load *)
  | SrcJson config =>
      match config with
      | JObj top =>
          match default (JObj []) (assoc k_mcpServers top) with      (* config.get("mcpServers", {}) *)
          | JObj sm =>
              match assoc name sm with                                (* .get(server_name) *)
              | None => Err EValue
              | Some sc =>
                  if falsy sc then Err EValue                         (* if not server_config: raise ValueError *)
                  else
                    match sc with
                    | JObj m =>
                        match assoc k_command m with                  (* server_config["command"] *)
                        | None => Err EOther                          (* KeyError *)
                        | Some c =>
                            match mk_params c (default (JArr []) (assoc k_args m))
                                            (default JNull (assoc k_env m)) with
                            | None => Err EValue                      (* ValidationError <: ValueError *)
                            | Some p =>
                                match assoc k_timeout m with          (* .get("timeout"); is not None -> float() *)
                                | None | Some JNull => Ok (DTuple (DParams p) DNone)
                                | Some t =>
                                    match float_of_json t with
                                    | FOk d => Ok (DTuple (DParams p) (DNum d))
                                    | FErrValue => Err EValue
                                    | FErrType => Err EOther          (* TypeError *)
                                    end
                                end
                            end
                        end
                    | _ => Err EOther                                 (* indexing a list / str / number: TypeError *)
                    end
              end
          | _ => Err EOther                                           (* .get on a non-dict: AttributeError *)
          end
      | _ => Err EOther                                               (* .get on a non-dict: AttributeError *)
      end
  end.

(** The loader's result as the observation the specification talks about. *)
Definition load_obs_of (r : result dyn) : load_obs :=
  match r with
  | Ok (DTuple (DParams p) DNone) => Loaded p None
  | Ok (DTuple (DParams p) (DNum d)) => Loaded p (Some d)
  | Ok _ => Raised EOther
  | Err e => Raised e
  end.

(* ------------------------------------------------------------------ *)
(** * environment.py *)

Definition inherited_vars : list str :=
  [ [72;79;77;69];                 (* HOME *)
    [76;79;71;78;65;77;69];        (* LOGNAME *)
    [80;65;84;72];                 (* PATH *)
    [83;72;69;76;76];              (* SHELL *)
    [84;69;82;77];                 (* TERM *)
    [85;83;69;82] ].               (* USER *)

(** [get_default_environment()]: the inherited variables that are set,
    non-empty and do not start with "()" (exported shell functions). *)
Definition default_env (host : envt) : envt :=
  flat_map (fun k => match assoc k host with
                     | Some (c :: v) => if starts_with [40;41] (c :: v) then [] else [(k, c :: v)]
                     | _ => []
                     end) inherited_vars.

(* ------------------------------------------------------------------ *)
(** * stdio_client.py, __main__.py, server_manager.py *)

Section Host.
  (** The world: does the server program [command] answer initialize?
      (External code — the configured server itself.) *)
  Variable answers : str -> bool.
  (** What [get_default_environment()] returns in the host process (it reads
      [os.environ]; modelled above as [default_env], and taken here as a
      parameter so that nothing below depends on which variables it inherits). *)
  Variable denv : envt.

  (** [StdioClient(server)]: reads [server.command], [server.args]. *)
  Definition stdio_client (d : dyn) : result params :=
    match d with
    | DParams p => match p_command p with
                   | [] => Err EValue                   (* "Server command must not be empty." *)
                   | _ :: _ => Ok p
                   end
    | _ => Err EOther                                   (* AttributeError: no attribute 'command' *)
    end.

  (** [anyio.open_process([command, *args], env = server.env or get_default_environment())] *)
  Definition spawn (p : params) : launch :=
    {| l_argv := p_command p :: p_args p;
       l_env := match p_env p with
                | Some (b :: r) => b :: r
                | _ => denv
                end |}.

  (** [stdio_client(d)] entered, then [send_initialize]: the processes started
      and the number of connections that came up. *)
  Definition connect (d : dyn) : list proc * Z :=
    match stdio_client d with
    | Err _ => ([], 0)
    | Ok p => ([Proc (spawn p) true], if answers (p_command p) then 1 else 0)
    end.

  (** [python -m chuk_mcp --config F --server NAME] -> [test_server]:
      [server_params, _ = await load_config(...)]; every exception ends in
      "return False". *)
  Definition cli (src : source) (name : str) : run_obs :=
    match load_config src name with
    | Err _ => RunObs [] 0
    | Ok (DTuple a _) => let (ps, n) := connect a in RunObs ps n
    | Ok _ => RunObs [] 0                               (* cannot unpack *)
    end.

  (** [run_command]: per name
        loaded = await load_config(config_file, sname)
        server_params = loaded[0] if isinstance(loaded, tuple) else loaded
        stdio_client(server_params) ... send_initialize
      any exception: print, continue with the next name. *)
  Definition runner_one (src : source) (name : str) : list proc * Z :=
    match load_config src name with
    | Err _ => ([], 0)
    | Ok (DTuple a _) => connect a
    | Ok d => connect d
    end.

  Definition runner (src : source) (names : list str) : run_obs :=
    let rs := map (runner_one src) names in
    RunObs (flat_map fst rs) (fold_right Z.add 0 (map snd rs)).
End Host.

(** C09 / C10 -- executable model of the two validation back ends of
    chuk_mcp/protocol/mcp_pydantic_base.py over the type grammar of
    Base/ValidSchema.v.  Definitions only (lemmas: Proofs/Validate.v).

    - [accepts pi cs] : strict typing of a wire value against an annotation
      (no coercion).  [pi] = the dataclass-style [__post_init__] invariants are
      enforced, [cs] = the [Field(ge=,le=)] constraints are enforced.
      [conforms] = [accepts true true] = SPEC-VALIDITY in the MCP sense (typing,
      every documented invariant, no null-valued member at model level, wire
      names only, union variant decided by literal tags / required members).
    - [ref_validate] : the reference semantics on conforming input = what
      Pydantic does there: value kept as is, model instance of the decided
      union variant, ids keep their JSON type.
    - [fb px] : a transcription of the fallback ([_deep_validate] and the
      fallback constructor), quirks included; [px] selects the three repairs of
      fixes/C09-*.patch ([head] = the code at the pinned commit, [patched] = all
      three applied).
    - [dump ba] : [model_dump(by_alias=ba, exclude_none=True)].

    All recursion through the schema table uses one explicit fuel. *)
From Coq Require Import Decimal.
From Verif.Base Require Import Prelude Json ValidSchema.
Open Scope Z_scope.

(** * Generic helpers *)
Fixpoint mapM {A B} (f : A -> option B) (l : list A) : option (list B) :=
  match l with
  | [] => Some []
  | x :: l' => match f x with
               | Some y => match mapM f l' with Some ys => Some (y :: ys) | None => None end
               | None => None
               end
  end.

Fixpoint first_some {A B} (f : A -> option B) (l : list A) : option B :=
  match l with
  | [] => None
  | x :: l' => match f x with Some y => Some y | None => first_some f l' end
  end.

Fixpoint find_last {A} (p : A -> bool) (l : list A) : option A :=
  match l with
  | [] => None
  | x :: l' => match find_last p l' with
               | Some y => Some y
               | None => if p x then Some x else None
               end
  end.

(** [str(int)] *)
Fixpoint uint_codes (u : Decimal.uint) : str :=
  match u with
  | Nil => []
  | D0 r => 48 :: uint_codes r | D1 r => 49 :: uint_codes r | D2 r => 50 :: uint_codes r
  | D3 r => 51 :: uint_codes r | D4 r => 52 :: uint_codes r | D5 r => 53 :: uint_codes r
  | D6 r => 54 :: uint_codes r | D7 r => 55 :: uint_codes r | D8 r => 56 :: uint_codes r
  | D9 r => 57 :: uint_codes r
  end.

Definition dec_of_Z (z : Z) : str :=
  match Z.to_int z with
  | Decimal.Pos u => uint_codes u
  | Decimal.Neg u => 45 :: uint_codes u
  end.

Definition ascii_lower (s : str) : str :=
  map (fun c => if (65 <=? c) && (c <=? 90) then c + 32 else c) s.

Definition s_True : str := [84; 114; 117; 101].
Definition s_False : str := [70; 97; 108; 115; 101].
Definition truthy : list str :=
  [[116; 114; 117; 101]; [49]; [121; 101; 115]; [111; 110]].          (* true 1 yes on *)
Definition falsy : list str :=
  [[102; 97; 108; 115; 101]; [48]; [110; 111]; [111; 102; 102]].      (* false 0 no off *)

(** A float token [-]ddd.ddd: its floor and whether the fraction is zero.
    Tokens in exponent notation are outside the modelled domain. *)
Definition float_parts (tok : str) : option (Z * bool) :=
  let neg := match tok with 45 :: _ => true | _ => false end in
  let body := if neg then tl tok else tok in
  match split_on 46 body with
  | [ip; fp] =>
      if all_digits ip && all_digits fp then
        let i := digits_val ip in
        let fz := forallb (fun c => c =? 48) fp in
        Some (if neg then (if fz then - i else - i - 1) else i, fz)
      else None
  | _ => None
  end.

Definition float_in_range (lo hi : Z) (tok : str) : bool :=
  match float_parts tok with
  | Some (fl, integral) => (lo <=? fl) && (if integral then fl <=? hi else fl <? hi)
  | None => false
  end.

(** * Field lookup *)
Definition key_matches (fd : field) (k : str) : bool :=
  str_eqb k (f_wire fd) || str_eqb k (f_py fd).

Definition count_matches (fd : field) (m : list (str * json)) : nat :=
  length (filter (fun kv => key_matches fd (fst kv)) m).

(** Fallback: [_process_aliases] renames alias keys to attribute names into a
    dict, so when both spellings are present the LAST one wins. *)
Definition lookup_fb (fd : field) (m : list (str * json)) : option json :=
  option_map snd (find_last (fun kv => key_matches fd (fst kv)) m).

(** Pydantic (validate_by_alias + validate_by_name): alias first, then name. *)
Definition lookup_ref (fd : field) (m : list (str * json)) : option json :=
  match assoc (f_wire fd) m with
  | Some v => Some v
  | None => assoc (f_py fd) m
  end.

Definition is_extra (fds : list field) (k : str) : bool :=
  negb (existsb (fun fd => key_matches fd k) fds).

Definition extras (fds : list field) (m : list (str * json)) : list (str * value) :=
  map (fun kv => (fst kv, VJ (snd kv))) (filter (fun kv => is_extra fds (fst kv)) m).

Definition wire_only (fds : list field) (m : list (str * json)) : bool :=
  forallb (fun fd => str_eqb (f_py fd) (f_wire fd) || negb (has_key (f_py fd) m)) fds.

Definition is_model_ty (t : ty) : bool := match t with TModel _ => true | _ => false end.

(** * Hooks, evaluated on the validated declared fields (attribute name -> value) *)
Definition is_vnull (v : value) : bool := match v with VJ JNull => true | _ => false end.

Definition attr (k : str) (fs : list (str * value)) : value :=
  match assoc k fs with Some v => v | None => VJ JNull end.

Definition k_id : str := [105; 100].
Definition k_method : str := [109; 101; 116; 104; 111; 100].
Definition k_result : str := [114; 101; 115; 117; 108; 116].
Definition k_error : str := [101; 114; 114; 111; 114].
Definition k_code : str := [99; 111; 100; 101].
Definition k_message : str := [109; 101; 115; 115; 97; 103; 101].

Definition hook_ok (h : hook) (fs : list (str * value)) : bool :=
  match h with
  | HNone => true
  | HUriPrefix f p => match attr f fs with VJ (JStr s) => starts_with p s | _ => false end
  | HMaxLen f n => match attr f fs with
                   | VArr l => Z.of_nat (length l) <=? n
                   | VJ (JStr s) => Z.of_nat (length s) <=? n
                   | _ => false
                   end
  | HRpcError =>
      (* if self.error: code must be an int (bool is an int), message a str *)
      match attr k_error fs with
      | VMap [] => true
      | VMap em =>
          (match assoc k_code em with Some (VJ (JInt _)) | Some (VJ (JBool _)) => true | _ => false end)
          && (match assoc k_message em with Some (VJ (JStr _)) => true | _ => false end)
      | _ => true
      end
  | HRpcMessage =>
      (* model_validate: a dict error needs code and message; model_post_init: a
         response (id, no method) has exactly one of result / error *)
      (match attr k_error fs with
       | VMap em => has_key k_code em && has_key k_message em
       | _ => true
       end)
      && (if negb (is_vnull (attr k_id fs)) && is_vnull (attr k_method fs)
          then xorb (is_vnull (attr k_result fs)) (is_vnull (attr k_error fs))
          else true)
  end.

Definition hook_runs (pi : bool) (s : schema) : bool :=
  match s_hook_kind s with KPostInit => pi | KModelPostInit => true end.

(** * Variant rule for unions of models: a member is ruled out when one of its
    literal-typed members carries another tag or a required member is missing. *)
Definition field_rejects (fd : field) (m : list (str * json)) : bool :=
  match lookup_fb fd m with
  | Some v => match f_ty fd with TLit vs => negb (mem_json v vs) | _ => false end
  | None => match f_default fd with None => true | Some _ => false end
  end.

Definition quick_reject (SS : list schema) (t : ty) (j : json) : bool :=
  match t, j with
  | TModel n, JObj m =>
      match find_schema n SS with
      | Some s => existsb (fun fd => field_rejects fd m) (s_fields s)
      | None => true
      end
  | TModel _, _ => true
  | _, _ => false
  end.

(** * Reference semantics (Pydantic on conforming input) *)
Definition ref_field (rec : ty -> json -> value) (m : list (str * json)) (fd : field) : str * value :=
  (f_py fd,
   match lookup_ref fd m with
   | Some v => rec (f_ty fd) v
   | None => match f_default fd with Some dv => dv | None => VJ JNull end
   end).

Fixpoint ref_validate (SS : list schema) (fuel : nat) (t : ty) (j : json) : value :=
  match fuel with
  | O => VJ j
  | S f =>
      match t with
      | TOpt t' => if is_null j then VJ JNull else ref_validate SS f t' j
      | TUnion ts =>
          if forallb is_model_ty ts then
            match find (fun t' => negb (quick_reject SS t' j)) ts with
            | Some t' => ref_validate SS f t' j
            | None => VJ j
            end
          else VJ j
      | TList t' => match j with JArr l => VArr (map (ref_validate SS f t') l) | _ => VJ j end
      | TDict t' => match j with
                    | JObj m => VMap (map (fun kv => (fst kv, ref_validate SS f t' (snd kv))) m)
                    | _ => VJ j
                    end
      | TModel n =>
          match find_schema n SS, j with
          | Some s, JObj m =>
              VModel n (map (ref_field (ref_validate SS f) m) (s_fields s) ++ extras (s_fields s) m)
          | _, _ => VJ j
          end
      | _ => VJ j
      end
  end.

(** * Strict typing / spec-validity *)
Definition field_ok (rec : ty -> json -> bool) (m : list (str * json)) (fd : field) : bool :=
  (Nat.leb (count_matches fd m) 1)
  && match lookup_ref fd m with
     | Some v => rec (f_ty fd) v
     | None => match f_default fd with Some _ => true | None => false end
     end.

(** Below a [List[Any]] / [Dict[str, Any]] position items are not looked at (nulls included). *)
Definition acc_item (rec : ty -> json -> bool) (t : ty) (x : json) : bool :=
  match t with TAny => true | _ => rec t x end.

Fixpoint accepts (pi cs : bool) (SS : list schema) (fuel : nat) (t : ty) (j : json) : bool :=
  match fuel with
  | O => false
  | S f =>
      match t with
      | TAny => negb (is_null j)
      | TStr => match j with JStr _ => true | _ => false end
      | TInt => match j with JInt _ => true | _ => false end
      | TBool => match j with JBool _ => true | _ => false end
      | TFloat => match j with JInt _ | JFloat _ => true | _ => false end
      | TFloatRange lo hi =>
          match j with
          | JInt z => negb cs || ((lo <=? z) && (z <=? hi))
          | JFloat tok => negb cs || float_in_range lo hi tok
          | _ => false
          end
      | TLit vs => mem_json j vs
      | TOpt t' => is_null j || accepts pi cs SS f t' j
      | TUnion ts =>
          if forallb is_model_ty ts then
            match find (fun t' => negb (quick_reject SS t' j)) ts with
            | Some t' => accepts pi cs SS f t' j
            | None => false
            end
          else existsb (fun t' => accepts pi cs SS f t' j) ts
      | TList t' => match j with JArr l => forallb (acc_item (accepts pi cs SS f) t') l | _ => false end
      | TDict t' => match j with
                    | JObj m => forallb (fun kv => acc_item (accepts pi cs SS f) t' (snd kv)) m
                    | _ => false
                    end
      | TModel n =>
          match find_schema n SS, j with
          | Some s, JObj m =>
              forallb (field_ok (accepts pi cs SS f) m) (s_fields s)
              && forallb (fun kv => negb (is_null (snd kv))) m
              && wire_only (s_fields s) m
              && (if hook_runs pi s
                  then hook_ok (s_hook s) (map (ref_field (ref_validate SS f) m) (s_fields s))
                  else true)
          | _, _ => false
          end
      end
  end.

Definition conforms := accepts true true.
(** What the Pydantic back end enforces / what the fallback enforces, on
    coercion-free input. *)
Definition accepts_pydantic := accepts false true.
Definition accepts_fallback := accepts true false.

(** * The fallback *)
Record patches : Type := mkPatches {
  px_exact_first : bool;   (* union: a member the value matches exactly wins over coercion *)
  px_lit_check : bool;     (* Literal[...] is checked *)
  px_opt_union : bool      (* Optional[Union[a, b]] validates against the whole union, not only [a] *)
}.
Definition head : patches := mkPatches false false false.
Definition patched : patches := mkPatches true true true.

Definition exact_prim (t : ty) (j : json) : bool :=
  match t, j with
  | TStr, JStr _ => true
  | TInt, JInt _ => true
  | TBool, JBool _ => true
  | TFloat, JFloat _ => true
  | _, _ => false
  end.

(** Non-recursive part of [_deep_validate] on a non-null value. *)
Definition fb_prim (px : patches) (t : ty) (j : json) : option value :=
  match t with
  | TAny => Some (VJ j)
  | TStr =>
      match j with
      | JStr _ => Some (VJ j)
      | JInt z => Some (VJ (JStr (dec_of_Z z)))                       (* str(value) *)
      | JFloat tok => Some (VJ (JStr tok))
      | JBool b => Some (VJ (JStr (if b then s_True else s_False)))
      | _ => None
      end
  | TInt =>
      match j with
      | JInt _ | JBool _ => Some (VJ j)                               (* isinstance(value, int) *)
      | JStr s => option_map (fun z => VJ (JInt z)) (int_of_digit_string s)
      | _ => None                                                     (* a float with a fraction *)
      end
  | TFloat | TFloatRange _ _ =>                                       (* ge/le are ignored *)
      match j with
      | JInt _ | JFloat _ => Some (VJ j)
      | JBool b => Some (VJ (JInt (if b then 1 else 0)))              (* float(True) *)
      | _ => None                                                     (* float(str) is not modelled *)
      end
  | TBool =>
      match j with
      | JBool _ => Some (VJ j)
      | JStr s => let l := ascii_lower s in
                  if mem_str l truthy then Some (VJ (JBool true))
                  else if mem_str l falsy then Some (VJ (JBool false)) else None
      | _ => None
      end
  | TLit vs => if px_lit_check px then (if mem_json j vs then Some (VJ j) else None)
               else Some (VJ j)                                       (* "unknown type": returned as is *)
  | _ => None
  end.

(** A declared default goes through [_deep_validate] as well (no recursion
    needed: defaults are constants or ready-made instances). *)
Definition strip_opt (t : ty) : ty := match t with TOpt t' => t' | _ => t end.
Definition fb_default (px : patches) (t : ty) (dv : value) : option value :=
  match dv with
  | VJ dj => if is_null dj then (match t with TOpt _ => Some (VJ JNull) | _ => None end)
             else fb_prim px (strip_opt t) dj
  | _ => Some dv
  end.

Definition fb_field (px : patches) (rec : ty -> json -> option value) (m : list (str * json)) (fd : field)
  : option (str * value) :=
  match lookup_fb fd m with
  | Some v => option_map (pair (f_py fd)) (rec (f_ty fd) v)
  | None => match f_default fd with
            | Some dv => option_map (pair (f_py fd)) (fb_default px (f_ty fd) dv)
            | None => None                                            (* Missing required fields *)
            end
  end.

Definition is_int_str_union (ts : list ty) : bool :=
  match ts with
  | [TInt; TStr] | [TStr; TInt] => true
  | _ => false
  end.

(** [item_type is Any] -> the item is appended unvalidated (even None). *)
Definition fb_item (rec : ty -> json -> option value) (t : ty) (x : json) : option value :=
  match t with TAny => Some (VJ x) | _ => rec t x end.

Fixpoint fb (px : patches) (SS : list schema) (fuel : nat) (t : ty) (j : json) : option value :=
  match fuel with
  | O => None
  | S f =>
      if is_null j then (match t with TOpt _ => Some (VJ JNull) | _ => None end)   (* "field required" *)
      else
        match t with
        | TOpt t' =>
            match t', px_opt_union px with
            | TUnion (a :: rest), false =>
                (* _get_non_none_type keeps only the FIRST member; an int that came from
                   Union[int, str] is "permissive": digit strings become ints, others stay *)
                match a, j with
                | TInt, JStr s =>
                    if is_int_str_union (a :: rest) then
                      match int_of_digit_string s with
                      | Some z => Some (VJ (JInt z))
                      | None => Some (VJ j)
                      end
                    else fb px SS f a j
                | _, _ => fb px SS f a j
                end
            | _, _ => fb px SS f t' j
            end
        | TUnion ts =>
            if px_exact_first px && existsb (fun t' => exact_prim t' j) ts then Some (VJ j)
            else first_some (fun t' => fb px SS f t' j) ts
        | TList t' =>
            match j with
            | JArr l => option_map VArr (mapM (fb_item (fb px SS f) t') l)
            | _ => None
            end
        | TDict t' =>
            match j with
            | JObj m => option_map VMap
                          (mapM (fun kv => option_map (pair (fst kv)) (fb_item (fb px SS f) t' (snd kv))) m)
            | _ => None
            end
        | TModel n =>
            match find_schema n SS, j with
            | Some s, JObj m =>
                match mapM (fb_field px (fb px SS f) m) (s_fields s) with
                | Some ents =>
                    if hook_ok (s_hook s) ents                          (* both hook kinds are called *)
                    then Some (VModel n (ents ++ extras (s_fields s) m))
                    else None
                | None => None
                end
            | _, _ => None
            end
        | _ => fb_prim px t j
        end
  end.

Definition fallback_validate := fb patched.
Definition fallback_validate_head := fb head.

(** * model_dump(by_alias=ba, exclude_none=True) *)
Definition out_key (SS : list schema) (ba : bool) (cls k : str) : str :=
  if ba then
    match find_schema cls SS with
    | Some s => match find (fun fd => str_eqb k (f_py fd)) (s_fields s) with
                | Some fd => f_wire fd
                | None => k
                end
    | None => k
    end
  else k.

Fixpoint dump (SS : list schema) (ba : bool) (v : value) {struct v} : json :=
  match v with
  | VJ j => j
  | VArr l => JArr (map (dump SS ba) l)
  | VMap m => JObj (map (fun kv => match kv with (k, x) => (k, dump SS ba x) end) m)
  | VModel c fs =>
      JObj (flat_map (fun kv => match kv with
                                | (k, x) => if is_vnull x then [] else [(out_key SS ba c k, dump SS ba x)]
                                end) fs)
  end.

Definition dump_by_alias (SS : list schema) := dump SS true.

(** * Well-formedness of a schema table (checked on the generated table by vm_compute) *)
Definition is_jstr (j : json) : bool := match j with JStr _ => true | _ => false end.

Fixpoint wf_ty (t : ty) : bool :=
  match t with
  | TOpt t' => wf_ty t' && (match t' with TOpt _ => false | _ => true end)
  | TUnion ts =>
      (forallb is_model_ty ts
       || forallb (fun t' => match t' with
                             | TStr | TInt | TBool => true
                             | TLit vs => forallb is_jstr vs && existsb (fun u => match u with TStr => true | _ => false end) ts
                             | _ => false
                             end) ts)
  | TList t' => wf_ty t'
  | TDict t' => wf_ty t'
  | TLit vs => forallb (fun v => negb (is_null v)) vs
  | _ => true
  end.

(** A constant default that [fb_default] returns unchanged. *)
Definition default_stable (t : ty) (dv : value) : bool :=
  match dv with
  | VJ dj =>
      if is_null dj then (match t with TOpt _ => true | _ => false end)
      else match strip_opt t, dj with
           | TStr, JStr _ => true
           | TInt, JInt _ => true
           | TBool, JBool _ => true
           | TLit vs, _ => mem_json dj vs
           | TAny, _ => true
           | _, _ => false
           end
  | _ => true
  end.

Fixpoint distinct_strs (l : list str) : bool :=
  match l with
  | [] => true
  | x :: l' => negb (mem_str x l') && distinct_strs l'
  end.

Definition wf_schema (s : schema) : bool :=
  forallb (fun fd => wf_ty (f_ty fd)
                     && (match f_default fd with Some dv => default_stable (f_ty fd) dv | None => true end)
                     && (match f_default fd, f_ty fd with None, TOpt _ => false | _, _ => true end))
          (s_fields s)
  && distinct_strs (map f_py (s_fields s))
  && distinct_strs (map f_wire (s_fields s))
  (* an alias is never the attribute name of another field *)
  && forallb (fun fd => forallb (fun fd' => str_eqb (f_py fd) (f_py fd') || negb (str_eqb (f_wire fd) (f_py fd')))
                                (s_fields s)) (s_fields s).

Definition wf_schemas (SS : list schema) : bool :=
  forallb wf_schema SS && distinct_strs (map s_name SS).

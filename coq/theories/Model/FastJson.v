(** Model of chuk_mcp/protocol/fast_json.py — the wrapper logic of [dumps] and
    [loads] (C17).  Definitions only.

    The two codecs are parameters:
      [enc_o i v]   orjson.dumps(obj, option = OPT_INDENT_2 if i else 0).decode("utf-8")
      [enc_s kw v]  json.dumps(obj, **kwargs)
      [dec_o s]     orjson.loads(s)
      [dec_s s]     json.loads(s)
    [None] = the call raises an [Exception].  Text is a list of code points (a
    Python [str]); the transports turn it into bytes with [str.encode()]
    ([utf8_str]).  [has_orjson] is the module-level flag HAS_ORJSON, fixed at
    import time by whether [import orjson] succeeds. *)
From Verif.Base Require Import Prelude JsonVal.
From Verif.Model Require Import JsonEnc.
Open Scope Z_scope.

(** the keyword arguments of [dumps] that any caller in the package passes
    ([default=str] does not matter on JSON values) *)
Record kwargs : Type := {
  kw_indent : option Z;      (* indent=n ;  None = absent / None *)
  kw_compact : bool          (* separators=(",", ":") *)
}.
Definition kw_none : kwargs := {| kw_indent := None; kw_compact := false |}.       (* dumps(obj) *)
Definition kw_compact_seps : kwargs := {| kw_indent := None; kw_compact := true |}. (* model_dump_json fallback *)

(** [if kwargs.get("indent"):] — Python truthiness of an optional int *)
Definition indent_truthy (kw : kwargs) : bool :=
  match kw_indent kw with Some n => negb (n =? 0) | None => false end.

Section Wrapper.
  Variable F : Type.
  Variable enc_o : bool -> json F -> option str.
  Variable enc_s : kwargs -> json F -> option str.
  Variable dec_o : str -> option (json F).
  Variable dec_s : str -> option (json F).

  (** fast_json.dumps: orjson first when importable, ANY exception falls back
      to the stdlib encoder with the caller's kwargs *)
  Definition dumps (has_orjson : bool) (kw : kwargs) (v : json F) : option str :=
    if has_orjson then
      match enc_o (indent_truthy kw) v with
      | Some s => Some s
      | None => enc_s kw v
      end
    else enc_s kw v.

  (** fast_json.loads on a [str] *)
  Definition loads (has_orjson : bool) (s : str) : option (json F) :=
    if has_orjson then
      match dec_o s with
      | Some v => Some v
      | None => dec_s s
      end
    else dec_s s.
End Wrapper.

Arguments dumps {F} enc_o enc_s has_orjson kw v.
Arguments loads {F} dec_o dec_s has_orjson s.

(** * Reference instantiation of the four codecs (what the tie compares the
    real backends with, byte for byte, on calls without [indent]).

    orjson: raw UTF-8, compact; refuses integers outside [-2^63, 2^64-1] and
    containers nested deeper than 254.  stdlib: ensure_ascii, ", " / ": "
    unless compact separators were passed.  Decoders: the reference parser;
    orjson's is only specified on values whose integers fit in 64 bits. *)
Definition orjson_max_depth : nat := 254.

Section Reference.
  Variable F : Type.
  Variable ftext_o ftext_s : F -> str.     (* the two float formatters *)
  Variable fparse : str -> option F.

  Definition ref_enc_o (_indent : bool) (v : json F) : option str :=
    if fits64 v && (Nat.leb (depth v) orjson_max_depth)
    then Some (render ftext_o pol_orjson v) else None.

  Definition policy_of_kwargs (kw : kwargs) : policy :=
    if kw_compact kw then pol_stdlib_compact else pol_stdlib_default.

  Definition ref_enc_s (kw : kwargs) (v : json F) : option str :=
    Some (render ftext_s (policy_of_kwargs kw) v).

  Definition ref_dec_o (s : str) : option (json F) :=
    match ref_parse fparse s with
    | Some v => if fits64 v then Some v else None
    | None => None
    end.

  Definition ref_dec_s (s : str) : option (json F) := ref_parse fparse s.

  Definition ref_dumps : bool -> kwargs -> json F -> option str := dumps ref_enc_o ref_enc_s.
  Definition ref_loads : bool -> str -> option (json F) := loads ref_dec_o ref_dec_s.
End Reference.

Arguments ref_enc_o {F} ftext_o _indent v.
Arguments ref_enc_s {F} ftext_s kw v.
Arguments ref_dec_o {F} fparse s.
Arguments ref_dec_s {F} fparse s.
Arguments ref_dumps {F} ftext_o ftext_s _ _ _.
Arguments ref_loads {F} fparse _ _.

(** Model of the stdio client's life-cycle edges
    (transports/stdio/stdio_client.py): entering ([StdioClient.__init__],
    [__aenter__], the [stdio_client] wrapper's exception filter), leaving
    ([__aexit__]: close outgoing, cancel the task group, terminate) and the
    termination protocol [_terminate_process]
        terminate(); fail_after(g1): wait();  on timeout  kill(); fail_after(g2): wait()
    as total functions over a CHILD-BEHAVIOUR ORACLE.  Time is in ticks of
    10 ms, counted from the moment the context starts to be left.  The two grace
    periods are regenerated from the code (Gen/ShutdownGen.v).

    The model is a family indexed by [variant]:
      [VHead]        /repo before fixes/C16-*.patch: [_terminate_process] is awaited inside the
                     body of [__aexit__]; when the surrounding cancel scope is cancelled
                     (anyio: level-triggered) [tg.__aexit__] re-raises the cancellation and the
                     termination is skipped.
      [VShield]      + fixes/C16-shutdown-survives-cancellation.patch: termination runs in a
                     [finally] under [CancelScope(shield=True)].
      [VShieldClose] + fixes/C16-close-child-pipes-on-exit.patch: once the return code is known
                     [process.aclose()] closes our ends of the child's pipes.  MAIN MODEL.

    Modelled, not verified (DESIGN section 4): everything below
    [Process.terminate/kill/wait] - signal delivery, reaping by asyncio's child
    watcher, pipe transports closing themselves when the peer is gone, a paused
    read transport never seeing EOF.  Definitions only. *)
From Verif.Base Require Import Prelude.
From Verif.Gen Require Import ShutdownGen.
From Verif.Model Require Import Await.
Open Scope Z_scope.

Inductive signal : Type := SIGTERM | SIGKILL.

Inductive variant : Type := VHead | VShield | VShieldClose.
Definition shielded (v : variant) : bool := match v with VHead => false | _ => true end.
Definition closes_pipes (v : variant) : bool := match v with VShieldClose => true | _ => false end.

(** How the context is left.  Scope = an anyio cancel scope (cancellation is
    level-triggered: every unshielded await keeps raising until the scope is
    left); Task = asyncio [task.cancel()] / [asyncio.timeout] (edge-triggered:
    one CancelledError, thrown into the body). *)
Inductive exit_path : Type :=
| PNormal | PException | PCancelScope | PTimeoutScope | PCancelTask | PTimeoutTask.

Definition level_cancelled (p : exit_path) : bool :=
  match p with PCancelScope | PTimeoutScope => true | _ => false end.

Inductive exit_outcome : Type := Returned | BodyExceptionOut | CancelledOut.

(** The child as an oracle: what it does in reaction to each stimulus.  [None]
    = never.  Delays may be any integer (a negative delay = "at once"). *)
Record child : Type := {
  c_dead : bool;               (* its return code is already known when the context is left *)
  c_eof_exit : option Z;       (* exits this long after its stdin reaches end-of-file *)
  c_term_exit : option Z;      (* exits this long after SIGTERM  (None: ignores it) *)
  c_kill_exit : option Z;      (* is gone this long after SIGKILL (None: never - uninterruptible) *)
  c_floods : bool              (* writes without bound: our read transport is paused *)
}.

(** The behaviours named by the property text, as oracles; [k] = SIGKILL delay. *)
Inductive behaviour : Type :=
| ExitsOnStdinEof (d : Z)      (* a well-behaved server: default SIGTERM action, exits [d] after EOF *)
| ExitsOnTerm (d : Z)          (* SIGTERM handler that exits after [d]; ignores EOF *)
| IgnoresTerm                  (* ignores SIGTERM and EOF *)
| EofOnly (d : Z)              (* ignores SIGTERM but exits [d] after EOF *)
| AlreadyDead                  (* exited at an earlier step of the conversation *)
| NeverReads                   (* never reads its stdin; default SIGTERM action *)
| Floods (ignores_term : bool) (* writes endlessly *)
| ClosesPipes (ignores_term : bool).   (* closed its stdout and/or stdin, keeps running *)

Definition child_of (k : option Z) (b : behaviour) : child :=
  let mk dead eof term fl :=
    {| c_dead := dead; c_eof_exit := eof; c_term_exit := term; c_kill_exit := k; c_floods := fl |} in
  match b with
  | ExitsOnStdinEof d => mk false (Some d) (Some 0) false
  | ExitsOnTerm d => mk false None (Some d) false
  | IgnoresTerm => mk false None None false
  | EofOnly d => mk false (Some d) None false
  | AlreadyDead => mk true None None false
  | NeverReads => mk false None (Some 0) false
  | Floods ign => mk false None (if ign then None else Some 0) true
  | ClosesPipes ign => mk false None (if ign then None else Some 0) false
  end.

Record exit_result : Type := {
  x_duration : Z;              (* ticks until the context has been left *)
  x_signals : list signal;     (* signals sent, in order *)
  x_reaped : bool;             (* return code known: the child is neither running nor a zombie *)
  x_stdin_open : bool;         (* our end of the child's stdin pipe is still open *)
  x_stdout_open : bool;        (* our end of the child's stdout pipe is still open *)
  x_outcome : exit_outcome
}.

Definition min_opt (a b : option Z) : option Z :=
  match a, b with
  | Some x, Some y => Some (Z.min x y)
  | Some x, None => Some x
  | None, o => o
  end.

Definition shift (o : option Z) (by_ : Z) : option Z :=
  match o with Some d => Some (d - by_) | None => None end.

(** [with fail_after(grace): await process.wait()] when the child exits
    [exit_in] ticks from now: (returned in time, ticks spent).  An exit exactly
    at the deadline counts as a timeout. *)
Definition wait_within (grace : Z) (exit_in : option Z) : bool * Z :=
  match exit_in with
  | Some d => if d <? grace then (true, Z.max 0 d) else (false, grace)
  | None => (false, grace)
  end.

(** [_terminate_process] entered with [returncode is None].  [eof] = when the
    child would exit because of end-of-file on its stdin (if that was delivered). *)
Definition terminate_process (c : child) (eof : option Z) : Z * list signal * bool :=
  let d1 := min_opt eof (c_term_exit c) in
  let '(ok1, t1) := wait_within term_grace_ticks d1 in
  if ok1 then (t1, [SIGTERM], true)
  else
    let d2 := min_opt (shift d1 term_grace_ticks) (c_kill_exit c) in
    let '(ok2, t2) := wait_within kill_grace_ticks d2 in
    (term_grace_ticks + t2, [SIGTERM; SIGKILL], ok2).

(** [StdioClient.__aexit__] (and what [stdio_client] / [StdioTransport] add: nothing).
    1. [_outgoing_send.aclose()] (no checkpoint) wakes the writer with end-of-stream;
    2. [tg.cancel_scope.cancel()]; [await tg.__aexit__()]: the writer - already woken -
       closes the child's stdin before the cancellation reaches it; if the surrounding scope
       is cancelled the writer died with it and stdin stays open, and [tg.__aexit__] re-raises
       the cancellation;
    3. [if returncode is None: _terminate_process()] - reached only if nothing was raised
       ([VHead]) / always, shielded ([VShield]);
    4. [VShieldClose]: [if returncode is not None: process.aclose()]. *)
Definition stdin_closed_by_writer (p : exit_path) : bool := negb (level_cancelled p).
Definition runs_tail (v : variant) (p : exit_path) : bool := negb (level_cancelled p) || shielded v.

(** (ticks spent, signals sent, return code known) *)
Definition exit_core (v : variant) (p : exit_path) (c : child) : Z * list signal * bool :=
  let eof := if stdin_closed_by_writer p then c_eof_exit c else None in
  if c_dead c then (0, [], true)
  else if runs_tail v p then terminate_process c eof
  else (0, [], false).

Definition aexit (v : variant) (p : exit_path) (c : child) : exit_result :=
  let '(dur, sigs, reaped) := exit_core v p c in
  let closes := closes_pipes v && runs_tail v p && reaped in
  {| x_duration := dur;
     x_signals := sigs;
     x_reaped := reaped;
     (* the write transport closes itself when the reading peer is gone *)
     x_stdin_open := negb (stdin_closed_by_writer p || reaped || closes);
     (* the read transport closes itself on EOF - which a paused transport never sees *)
     x_stdout_open := negb closes && (negb reaped || c_floods c);
     x_outcome := match p with
                  | PNormal => Returned
                  | PException => BodyExceptionOut
                  | _ => CancelledOut
                  end |}.

Definition fds_left (r : exit_result) : Z :=
  (if x_stdin_open r then 1 else 0) + (if x_stdout_open r then 1 else 0).

(** Entering. *)
Inductive spawn : Type :=
| SpawnOk
| SpawnEmptyCommand                          (* StdioClient.__init__: ValueError *)
| SpawnOsError (mentions_cancel_scope : bool). (* open_process raises; does str(exc) contain "cancel scope"? *)

Inductive entry : Type := EClient | EWrapper.   (* StdioClient / StdioTransport  |  stdio_client() *)

Inductive raised : Type := RValueError | ROsError | RGeneratorDidNotYield.

Inductive enter_result : Type :=
| Entered
| EnterRaised (what : raised) (children_started : nat) (tasks_started : nat).

(** [__aenter__] logs and re-raises; the wrapper's [except Exception] swallows
    an exception whose text mentions "cancel scope", after which
    [asynccontextmanager] raises RuntimeError("generator didn't yield"). *)
Definition enter (e : entry) (s : spawn) : enter_result :=
  match s with
  | SpawnOk => Entered
  | SpawnEmptyCommand => EnterRaised RValueError 0 0
  | SpawnOsError m =>
      match e with
      | EClient => EnterRaised ROsError 0 0
      | EWrapper => if m then EnterRaised RGeneratorDidNotYield 0 0 else EnterRaised ROsError 0 0
      end
  end.

(** A request pending while the child dies: the read stream carries what the
    child wrote up to its death at [td] and nothing afterwards (neither the
    reader task nor [__aexit__] puts anything on it or closes it); the request
    itself is [send_message] (Model/Await.v). *)
Definition child_output (td : Z) (script : list (Z * inmsg)) : list (Z * inmsg) :=
  filter (fun x => fst x <=? td) script.

Definition pending (poll : Z) (retryable : Z -> bool) (D : Z) (me : rid) (t0 td : Z)
           (script : list (Z * inmsg)) : list AwaitTypes.result :=
  run poll retryable D me false None t0 (child_output td script).

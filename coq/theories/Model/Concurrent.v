(** Model of several send_message calls sharing ONE read stream
    (send_message.py: every waiter dequeues from the common queue, keeps what
    bears its own id and DISCARDS everything else).

    A run is abstracted to its delivery log: which waiter dequeued which object,
    in order.  Which waiter gets the next object is decided by the stream's
    wake-up order and the waiters' poll timers; the model leaves it open (every
    log is possible), the correspondence run records the real log with a
    wrapping receive stream and replays it here.  Definitions only. *)
From Verif.Base Require Import Prelude AwaitTypes.
Open Scope Z_scope.

Inductive delivery : Type := Deliver (k : nat) (m : inmsg).

(** What waiter [me] does with a dequeued object (the filter chain of
    _await_response without progress handling): complete or discard. *)
Definition decide (retryable : Z -> bool) (me : rid) (m : inmsg) : option outcome :=
  match m with
  | MRes i tok => if rid_eqb i me then Some (Return tok) else None
  | MErr i code => if rid_eqb i me then Some (RaiseErr (retryable code) code) else None
  | _ => None
  end.

(** state: per waiter, its id and whether/how it completed *)
Definition wstate : Type := list (rid * option outcome).

Fixpoint deliver_to (retryable : Z -> bool) (k : nat) (m : inmsg) (ws : wstate) {struct ws} : wstate :=
  match ws with
  | [] => []
  | (i, o) :: ws' =>
      match k with
      | O => (i, match o with
                 | None => decide retryable i m      (* pending: completes, or the object is discarded *)
                 | Some x => Some x                  (* already completed: it no longer receives *)
                 end) :: ws'
      | S k' => (i, o) :: deliver_to retryable k' m ws'
      end
  end.

Definition step (retryable : Z -> bool) (ws : wstate) (d : delivery) : wstate :=
  match d with Deliver k m => deliver_to retryable k m ws end.

Definition init (ids : list rid) : wstate := map (fun i => (i, None)) ids.

Definition replay (retryable : Z -> bool) (ids : list rid) (log : list delivery) : wstate :=
  fold_left (step retryable) log (init ids).

Definition outcome_of (ws : wstate) (k : nat) : option outcome :=
  match nth_error ws k with Some (_, o) => o | None => None end.

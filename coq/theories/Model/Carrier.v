(** C15 — the four carriers' inbound paths side by side.

    Nothing new is modelled here: each carrier's receive path is the
    composition of the de-framer already modelled (and tied to the code) for
    its own property —
      stdio          Model/Lines.v      (_stdout_reader: byte buffer, split on LF, per-line decode + strip)
      HTTP, SSE body Model/HttpSse.v    (_process_sse_text / _process_sse_event)
      HTTP, JSON     the body is handed to the JSON decoder whole
      legacy SSE     Model/SseLegacy.v  (_process_sse_stream: chunk buffer, line state machine) and the
                                        sender / event-stream race [run]
    with ONE common per-message decoder [parse] (json.loads + envelope
    validation + normalisation; [] when the text is rejected), a Section
    variable.  Definitions only. *)
From Verif.Base Require Import Prelude StdioUtf8 SseVocab.
From Verif.Model Require Lines HttpSse SseLegacy.
Open Scope Z_scope.

Section Carrier.
  Variable T : Type.
  Variable parse : str -> list T.

  (** stdio: what reaches [_route_message], for a chunked byte stream. *)
  Definition rx_stdio (chunks : list bytes) : list T :=
    Lines.run T (Lines.deliver_line T parse) chunks.

  (** Streamable HTTP, SSE body. *)
  Definition rx_http_sse (body : str) : list T :=
    flat_map parse (HttpSse.sse_messages body).

  (** Streamable HTTP, JSON body: [parse_body] is the decoder applied to a whole
      body (json.loads, then every member of an array routed on its own). *)
  Variable parse_body : str -> list T.
  Definition rx_http_json (body : str) : list T := parse_body body.

  (** Legacy SSE: the data of the message events the stream parser emits. *)
  Fixpoint legacy_texts (acts : list SseLegacy.action) : list str :=
    match acts with
    | [] => []
    | SseLegacy.AMessage d :: r => d :: legacy_texts r
    | SseLegacy.AEndpoint _ :: r => legacy_texts r
    end.

  Definition rx_legacy (c : SseLegacy.cfg) (base : str) (ps : SseLegacy.pstate) (chunks : list str) : list T :=
    flat_map parse (legacy_texts (snd (SseLegacy.run_parser c base ps chunks))).
End Carrier.

(** The parser state of an established legacy connection: empty buffer, no
    pending event type, the announced message URL. *)
Definition legacy_connected (url : str) : SseLegacy.pstate :=
  SseLegacy.PState [] (SseLegacy.LState None (Some url)).

(** One sequential request over the legacy carrier, as events of the sender /
    event-stream race: the client writes request [i]; the stream carries the
    step's notifications, then the answer; the POST is acknowledged (202)
    after [p] of those stream events were handled (p = 0: before all of them;
    p > length notifs: after the answer); the sender wakes. *)
Definition legacy_step_events (i : id) (notifs : list msg) (ans : msg) (p : nat) : list ev :=
  let stream := map (fun m => ESse (Some m)) (notifs ++ [ans]) in
  ESend (CReq i) :: firstn p stream ++ EPost (PStatus 202 BNotJson) :: skipn p stream ++ [EWake].

(** ... and the mode in which the POST reply itself carries the answer (200),
    the notifications having been handled on the stream while the POST was in flight. *)
Definition legacy_step_events_200 (i : id) (notifs : list msg) (ans : msg) : list ev :=
  ESend (CReq i) :: map (fun m => ESse (Some m)) notifs ++ [EPost (PStatus 200 (BMsg ans))].

Record cstep : Type := { cs_id : id; cs_notifs : list msg; cs_ans : msg; cs_mode : option nat }.

Definition cstep_events (s : cstep) : list ev :=
  match cs_mode s with
  | Some p => legacy_step_events (cs_id s) (cs_notifs s) (cs_ans s) p
  | None => legacy_step_events_200 (cs_id s) (cs_notifs s) (cs_ans s)
  end.

Definition lconv_events (l : list cstep) : list ev := flat_map cstep_events l.
Definition lconv_canonical (l : list cstep) : list msg := flat_map (fun s => cs_notifs s ++ [cs_ans s]) l.

(** An equivalent of [SseLegacy.lines_rest] / [run_parser] that the extracted
    driver can run on long streams: reversed accumulator instead of
    [cur ++ [c]], one recursive call per line instead of two, one pass over the
    concatenated text instead of re-scanning the buffer per chunk.  Proved
    equal to the chunk-by-chunk model (Proofs/Carrier.v: [rx_legacy_fast_eq]). *)
Fixpoint lines_rest_acc (racc : str) (s : str) : list str * str :=
  match s with
  | [] => ([], rev racc)
  | c :: s' =>
      if c =? 10 then let (ls, r) := lines_rest_acc [] s' in (rev racc :: ls, r)
      else lines_rest_acc (c :: racc) s'
  end.

Definition parse_text_fast (c : SseLegacy.cfg) (base : str) (ps : SseLegacy.pstate) (text : str)
  : SseLegacy.pstate * list SseLegacy.action :=
  let sp := lines_rest_acc [] (SseLegacy.p_buf ps ++ text) in
  let r := SseLegacy.handle_lines c base (SseLegacy.p_l ps) (fst sp) in
  (SseLegacy.PState (snd sp) (fst r), snd r).

Definition rx_legacy_fast (T : Type) (parse : str -> list T) (c : SseLegacy.cfg) (base : str)
  (ps : SseLegacy.pstate) (chunks : list str) : list T :=
  flat_map parse (legacy_texts (snd (parse_text_fast c base ps (concat chunks)))).

(** Model of the server's session bookkeeping (C19):
      server/session/memory.py   InMemorySessionManager
      server/session/base.py     generate_session_id (uuid4)
      server/protocol_handler.py handle_message: update_activity on dispatch, _handle_initialize
    Executable definitions only.

    The store is an insertion-ordered association list, as the Python dict.
    [time.time()] is the explicit argument [now] of every step.  [uuid4] is the
    id supply [fresh : nat -> sid] (the n-th call returns [fresh n]); the number
    of calls so far is part of the state.  [answer] is the version policy of
    _handle_initialize (what the response says for a requested version). *)
From Verif.Base Require Import Prelude.
From Verif.Spec Require Import C19.
From Verif.Gen Require SessionsGen.
Open Scope Z_scope.

Section Sessions.
  Variable sid : Type.
  Variable sid_eqb : sid -> sid -> bool.
  Variable fresh : nat -> sid.
  Variable answer : vreq -> str.

  Record state : Type := {
    store : list (sid * rec);      (* InMemorySessionManager.sessions *)
    next : nat                     (* uuid4 calls so far *)
  }.

  Definition init : state := {| store := []; next := O |}.

  (** [self.sessions[k] = r]: replace in place when the key exists, append otherwise *)
  Fixpoint upsert (k : sid) (r : rec) (l : list (sid * rec)) : list (sid * rec) :=
    match l with
    | [] => [(k, r)]
    | (k', r') :: l' => if sid_eqb k k' then (k, r) :: l' else (k', r') :: upsert k r l'
    end.

  (** [k in self.sessions] / [self.sessions.get(k)] *)
  Definition lookup (k : sid) (l : list (sid * rec)) : option rec := l_lookup sid sid_eqb k l.

  (** [del self.sessions[k]] *)
  Definition remove (k : sid) (l : list (sid * rec)) : list (sid * rec) :=
    filter (fun kv => negb (sid_eqb (fst kv) k)) l.

  (** [if k in self.sessions: self.sessions[k].last_activity = now] (in place) *)
  Definition touch (now : Z) (k : sid) (l : list (sid * rec)) : list (sid * rec) :=
    map (fun kv => if sid_eqb (fst kv) k then (fst kv, set_last now (snd kv)) else kv) l.

  Definition touch_opt (now : Z) (k : option sid) (l : list (sid * rec)) : list (sid * rec) :=
    match k with Some k => touch now k l | None => l end.

  (** cleanup_expired: collect the expired ids, delete each, return how many.
      The expiry test is the filter of the list comprehension AS IT STANDS IN THE
      SOURCE (Gen/SessionsGen.v, regenerated on every run), not the specification's. *)
  Definition expired_m (now age : Z) (r : rec) : bool :=
    SessionsGen.expired_src now (r_last r) (r_created r) age.
  Definition expired_entries (now age : Z) (l : list (sid * rec)) : list (sid * rec) :=
    filter (fun kv => expired_m now age (snd kv)) l.
  Definition cleanup (now age : Z) (l : list (sid * rec)) : list (sid * rec) :=
    filter (fun kv => negb (expired_m now age (snd kv))) l.

  Definition create (now : Z) (c : Z) (v : str) (meta : Z) (st : state) : state * sid :=
    let k := fresh (next st) in
    ({| store := upsert k (new_rec c v now meta) (store st); next := S (next st) |}, k).

  Definition is_some' (o : option rec) : bool := match o with Some _ => true | None => false end.

  Definition step (now : Z) (o : op sid) (st : state) : state * out sid :=
    match o with
    | OCreate c v meta => let '(st', k) := create now c v meta st in (st', OutId k)
    | OGet s => (st, OutRec (lookup s (store st)))
    | OTouch s =>
        ({| store := touch now s (store st); next := next st |}, OutBool (is_some' (lookup s (store st))))
    | ODelete s =>
        ({| store := remove s (store st); next := next st |}, OutBool (is_some' (lookup s (store st))))
    | OCleanup age =>
        ({| store := cleanup now age (store st); next := next st |},
         OutCount (Z.of_nat (length (expired_entries now age (store st)))))
    | OList => (st, OutListing (store st))          (* dict.copy(): the caller gets its own dict *)
    | OCount => (st, OutCount (Z.of_nat (length (store st))))
    | OClear => ({| store := []; next := next st |}, OutCount (Z.of_nat (length (store st))))
    | OInitialize with_id c v sess =>
        (* handle_message: update_activity(session_id) first, then _handle_initialize creates the session;
           without an id the response cannot be built, the exception is swallowed, the session stays *)
        let st1 := {| store := touch_opt now sess (store st); next := next st |} in
        let ver := answer v in
        let '(st2, k) := create now c ver 0 st1 in
        (st2, if with_id then OutInit ver k else OutNone)
    | ORequest has_method sess =>
        ({| store := if has_method then touch_opt now sess (store st) else store st; next := next st |}, OutNone)
    end.

  (** a history: every operation with the clock reading at which it runs *)
  Fixpoint run (h : list (Z * op sid)) (st : state) : state * list (out sid) :=
    match h with
    | [] => (st, [])
    | (now, o) :: h' =>
        let '(st1, r) := step now o st in
        let '(st2, rs) := run h' st1 in
        (st2, r :: rs)
    end.

  Definition abs (st : state) : amap sid := fun k => lookup k (store st).
End Sessions.

(** _handle_initialize's version policy, over the lists the code uses:
      v = params.get("protocolVersion", "2025-03-26"); if v not in SUPPORTED_VERSIONS: v = CURRENT_VERSION *)
Definition default_version_literal : str := [50;48;50;53;45;48;51;45;50;54].   (* "2025-03-26" *)
Definition answer_with (supported : list str) (current : str) (v : vreq) : str :=
  match v with
  | VAbsent => if mem_str default_version_literal supported then default_version_literal else current
  | VStr s => if mem_str s supported then s else current
  | VOther => current
  end.

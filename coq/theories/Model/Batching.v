(** Model of protocol/features/batching.py (supports_batching, BatchProcessor),
    ProtocolVersion.compare (protocol/types/versioning.py) and the stdio
    reader's reject-or-iterate step (stdio_client.py:_process_message_data).
    Definitions only.  The decision core [decide] is REGENERATED from the source
    (Gen/BatchingGen.v); everything else here is hand-written and tied to the
    code by the correspondence run of check C13. *)
From Verif.Base Require Import Prelude.
From Verif.Gen Require Import BatchingGen.
Open Scope Z_scope.

(** Whitespace that CPython's [int()] skips around an ASCII literal: space and
    \t \n \v \f \r -- NOT the separators 0x1c..0x1f that [str.strip] removes
    (found by the correspondence run: int("\x1c5") raises). *)
Definition is_int_space (c : Z) : bool := (c =? 32) || ((9 <=? c) && (c <=? 13)).
Fixpoint strip_left (s : str) : str :=
  match s with
  | [] => []
  | c :: s' => if is_int_space c then strip_left s' else s
  end.
Definition strip (s : str) : str := rev (strip_left (rev (strip_left s))).

(** Python [int(s)] for an ASCII string: optional surrounding whitespace, an
    optional sign, then decimal digits with single underscores between digits.
    [None] models ValueError. *)
Fixpoint parse_digits (s : str) (acc : Z) (after_digit : bool) : option Z :=
  match s with
  | [] => if after_digit then Some acc else None
  | c :: s' =>
      if is_digit c then parse_digits s' (acc * 10 + digit_val c) true
      else if (c =? 95) && after_digit then parse_digits s' acc false
      else None
  end.

Definition py_int (s : str) : option Z :=
  match strip s with
  | [] => None
  | c :: r =>
      if c =? 45 then option_map Z.opp (parse_digits r 0 false)
      else if c =? 43 then parse_digits r 0 false
      else parse_digits (c :: r) 0 false
  end.

(** supports_batching: the templated prelude around the generated [decide]. *)
Definition supports_batching (v : option str) : bool :=
  match v with
  | None => true
  | Some [] => true
  | Some s =>
      match split_on 45 s with
      | [a; b; c] =>
          match py_int a, py_int b, py_int c with
          | Some y, Some m, Some d => decide y m d
          | _, _, _ => true
          end
      | _ => true
      end
  end.

(** ProtocolVersion.validate_format on ASCII input: ^\d{4}-\d{2}-\d{2}$ ; note
    that [$] also matches before one trailing newline. *)
Definition fmt_core (s : str) : bool :=
  match s with
  | [a; b; c; d; h1; e; f; h2; g; h] =>
      is_digit a && is_digit b && is_digit c && is_digit d && (h1 =? 45)
      && is_digit e && is_digit f && (h2 =? 45) && is_digit g && is_digit h
  | _ => false
  end.
Definition validate_format (s : str) : bool :=
  fmt_core s ||
  match rev s with
  | 10 :: r => fmt_core (rev r)
  | _ => false
  end.

(** ProtocolVersion.compare: [None] models ValueError. *)
Definition version_compare (a b : str) : option comparison :=
  if str_eqb a b then Some Eq
  else if negb (validate_format a) then None
  else if negb (validate_format b) then None
  else Some (match str_compare a b with Gt => Gt | _ => Lt end).

(** BatchProcessor state. *)
Record bp : Type := { bp_version : option str; bp_enabled : bool }.
Definition bp_init (v : option str) : bp :=
  {| bp_version := v; bp_enabled := supports_batching v |}.
Definition bp_update (st : bp) (v : option str) : bp :=
  {| bp_version := v; bp_enabled := supports_batching v |}.

(** The reader's step on one decoded line.  Items are abstract; [parse] is the
    per-item parser (parse_message), [None] = the item is not a valid message. *)
Section Reader.
  Variables item msg : Type.
  Variable parse : item -> option msg.

  Inductive line_data := Single (i : item) | Batch (l : list item).
  Inductive written := RejectError (version : option str).   (* one -32600 error line *)

  Fixpoint deliver_all (l : list item) : list msg :=
    match l with
    | [] => []
    | i :: l' => match parse i with
                 | Some m => m :: deliver_all l'
                 | None => deliver_all l'
                 end
    end.

  Definition process_data (st : bp) (d : line_data) : list msg * list written :=
    match d with
    | Single i => (deliver_all [i], [])
    | Batch l =>
        if bp_enabled st then (deliver_all l, [])
        else ([], [RejectError (bp_version st)])
    end.
End Reader.
Arguments Single {item}.
Arguments Batch {item}.
Arguments process_data {item msg}.
Arguments deliver_all {item msg}.

(** Model of the server-side dispatcher of chuk-mcp (C08):
      server/protocol_handler.py  ProtocolHandler.handle_message + core handlers
      server/server.py            MCPServer._handle_tools_list/_call, _resources_list/_read
      protocol/messages/json_rpc_message.py  create_response / create_error_response
    Executable definitions only.

    What is data here:
    - the id of the message ([None] = the message carries no id / a null id);
    - the JSON shape of [params] and of the fields the handlers read;
    - the behaviour of every piece of application code the dispatcher calls
      (method handlers registered with register_method, tool handlers, resource
      handlers): returns / raises / returns nonsense;
    - an exception is a [nat]: 0 = an exception that can be printed, S n = an
      exception whose __str__ raises exception n (the except blocks of the code
      format the exception with an f-string, which runs __str__ inside the
      except block). *)
From Verif.Base Require Import Prelude SrvCommon.
From Verif.Spec Require Import C08.
Open Scope Z_scope.

(** Result of evaluating a Python expression / block. *)
Inductive res (A : Type) : Type :=
| Ok (a : A)
| Exn (depth : nat).
Arguments Ok {A} a.
Arguments Exn {A} depth.

Definition bind {A B} (x : res A) (f : A -> res B) : res B :=
  match x with Ok a => f a | Exn d => Exn d end.

(** json_rpc_message.py: JSONRPCResponse / JSONRPCError declare [id: RequestId]
    (required, non-null).  Building one with id None raises ValidationError
    under Pydantic; reading [message.id] of a JSONRPCNotification raises
    AttributeError.  Both are ordinary printable exceptions. *)
Definition mk_response (i : option rid) : res env :=
  match i with Some i => Ok (EnvResult i) | None => Exn 0 end.
Definition mk_error (i : option rid) (code : Z) : res env :=
  match i with Some i => Ok (EnvError i code) | None => Exn 0 end.

(** ---- JSON shapes ---- *)

(** value of params["name"] / params["uri"] *)
Inductive jname : Type :=
| NAbsent                 (* key missing: dict.get gives None *)
| NStr (s : str)
| NHashable               (* null, number, bool: not a str *)
| NUnhashable.            (* array or object *)

(** value of params["arguments"] *)
Inductive jargs : Type :=
| AAbsent                 (* default {} *)
| ADict                   (* a JSON object *)
| ANotMapping.            (* null, array, string, number: [**arguments] raises TypeError *)

Inductive pshape : Type :=
| PAbsent                 (* params missing or null *)
| PFalsy                  (* a falsy non-object ([], "", 0, false): [params or {}] replaces it by {} *)
| PTruthyNonDict          (* a truthy non-object ([1], "s", 5): [.get] raises AttributeError *)
| PDict (name uri : jname) (args : jargs).

(** ---- application code as data ---- *)

(** a tool / resource handler, together with what rendering its value does *)
Inductive tbeh : Type :=
| TReturns                    (* returns a value that _format_content / str() renders *)
| TUnrenderable (d : nat)     (* returns nonsense: rendering it raises exception d *)
| TRaises (d : nat).          (* raises exception d (also: not awaitable, rejects the keyword arguments) *)

(** a method handler registered with register_method *)
Inductive hbeh : Type :=
| HReturns (r : option env)   (* returns (r, _) *)
| HRaises (d : nat)
| HJunk.                      (* returns something that is not a pair *)

Inductive handler : Type :=
| HInitialize | HInitialized | HPing                              (* protocol_handler.py *)
| HToolsList | HToolsCall | HResourcesList | HResourcesRead      (* server.py *)
| HCustom (b : hbeh).

Record server : Type := {
  handlers  : list (str * handler);     (* ProtocolHandler._handlers, latest registration first *)
  tools     : list (str * tbeh);        (* MCPServer._tools *)
  resources : list (str * tbeh)         (* MCPServer._resources *)
}.

Inductive msg : Type :=
| MBatch                                               (* a list *)
| MSingle (i : option rid) (meth : option str) (p : pshape).

(** method names as code-point lists *)
Definition s_initialize     : str := [105;110;105;116;105;97;108;105;122;101].
Definition s_initialized    : str := [110;111;116;105;102;105;99;97;116;105;111;110;115;47;105;110;105;116;105;97;108;105;122;101;100].
Definition s_ping           : str := [112;105;110;103].
Definition s_tools_list     : str := [116;111;111;108;115;47;108;105;115;116].
Definition s_tools_call     : str := [116;111;111;108;115;47;99;97;108;108].
Definition s_resources_list : str := [114;101;115;111;117;114;99;101;115;47;108;105;115;116].
Definition s_resources_read : str := [114;101;115;111;117;114;99;101;115;47;114;101;97;100].

(** ProtocolHandler._register_core_handlers *)
Definition core_handlers : list (str * handler) :=
  [(s_initialize, HInitialize); (s_initialized, HInitialized); (s_ping, HPing)].

(** MCPServer._register_default_handlers (register_method = dict assignment) *)
Definition register_method (m : str) (h : handler) (t : list (str * handler)) := (m, h) :: t.
Definition mcp_handlers : list (str * handler) :=
  register_method s_resources_read HResourcesRead
  (register_method s_resources_list HResourcesList
  (register_method s_tools_call HToolsCall
  (register_method s_tools_list HToolsList core_handlers))).

(** ---- handler bodies ---- *)

Inductive hres : Type :=
| RPair (r : option env)
| RJunk.

Definition answer (e : res env) : res hres := bind e (fun e => Ok (RPair (Some e))).

(** [params = message.params or {}] followed by the first [params.get(..)] *)
Definition params_fields (p : pshape) : res (jname * jname * jargs) :=
  match p with
  | PAbsent | PFalsy => Ok (NAbsent, NAbsent, AAbsent)
  | PTruthyNonDict => Exn 0
  | PDict n u a => Ok (n, u, a)
  end.

(** [not isinstance(name, str) or name not in registry] *)
Definition find_target (n : jname) (reg : list (str * tbeh)) : option tbeh :=
  match n with
  | NStr s => assoc s reg
  | NAbsent | NHashable | NUnhashable => None
  end.

(** the [except Exception as e:] blocks of server.py: the log line formats [e]
    with an f-string BEFORE the error envelope is built *)
Definition inner_catch (i : option rid) (d : nat) : res hres :=
  match d with
  | O => answer (mk_error i (-32603))
  | S d' => Exn d'
  end.

(** the try block of _handle_tools_call / _handle_resources_read.
    [args_ok = false]: [**arguments] raises TypeError (arguments is not a mapping) *)
Definition run_target (i : option rid) (args_ok : bool) (b : tbeh) : res hres :=
  let body :=
    if args_ok then
      match b with
      | TReturns => mk_response i
      | TUnrenderable d => Exn d
      | TRaises d => Exn d
      end
    else Exn 0 in
  match body with
  | Ok e => Ok (RPair (Some e))
  | Exn d => inner_catch i d
  end.

Definition args_mapping (a : jargs) : bool :=
  match a with ANotMapping => false | AAbsent | ADict => true end.

Definition run_tools_call (srv : server) (i : option rid) (p : pshape) : res hres :=
  bind (params_fields p) (fun '(n, _, a) =>
  match find_target n (tools srv) with
  | None => answer (mk_error i (-32602))
  | Some b => run_target i (args_mapping a) b
  end).

Definition run_resources_read (srv : server) (i : option rid) (p : pshape) : res hres :=
  bind (params_fields p) (fun '(_, u, _) =>
  match find_target u (resources srv) with
  | None => answer (mk_error i (-32602))
  | Some b => run_target i true b
  end).

Definition run_handler (srv : server) (h : handler) (i : option rid) (p : pshape) : res hres :=
  match h with
  | HInitialize => bind (params_fields p) (fun _ => answer (mk_response i))
  | HInitialized => match i with Some _ => answer (mk_response i) | None => Ok (RPair None) end
  | HPing => answer (mk_response i)
  | HToolsList | HResourcesList => answer (mk_response i)
  | HToolsCall => run_tools_call srv i p
  | HResourcesRead => run_resources_read srv i p
  | HCustom (HReturns r) => Ok (RPair r)
  | HCustom (HRaises d) => Exn d
  | HCustom HJunk => Ok RJunk
  end.

(** ---- handle_message ---- *)

Definition of_mk (r : res env) : outcome :=
  match r with Ok e => Resp e | Exn _ => Raised end.

(** the three error paths: [if msg_id is None: return None, None] guards the
    construction of the error envelope *)
Definition error_path (i : option rid) (code : Z) : outcome :=
  match i with
  | None => NoResp
  | Some _ => of_mk (mk_error i code)
  end.

(** The outer except block of handle_message.  Since e2c49d5 it computes
    [detail = str(e)] under its own try/except, so it can no longer re-raise:
    [safe_detail = true] is the code that exists.  [false] is the code before
    that commit (the f-string formatted [e] directly); it is kept only for
    History/C08_prefix.v. *)
Definition outer_catch (safe_detail : bool) (i : option rid) (d : nat) : outcome :=
  match d, safe_detail with
  | O, _ | _, true => error_path i (-32603)
  | S _, false => Raised          (* the f-string in the except block re-raises *)
  end.

Definition handle_gen (safe_detail : bool) (srv : server) (m : msg) : outcome :=
  match m with
  | MBatch => NoResp
  | MSingle i None _ => error_path i (-32600)
  | MSingle i (Some meth) p =>
      match assoc meth (handlers srv) with
      | None => error_path i (-32601)
      | Some h =>
          match run_handler srv h i p with
          | Ok (RPair (Some e)) => Resp e
          | Ok (RPair None) => NoResp
          | Ok RJunk => Junk
          | Exn d => outer_catch safe_detail i d
          end
      end
  end.

Definition current_safe_detail : bool := true.
Definition handle : server -> msg -> outcome := handle_gen current_safe_detail.

(** ---- which case of the property's table a message meets (input side only) ---- *)

Definition target_situation (n : jname) (reg : list (str * tbeh)) (args_ok : bool) : situation :=
  match find_target n reg with
  | None => SitUnknownTarget
  | Some TReturns => if args_ok then SitReturns else SitRaises
  | Some (TUnrenderable _) | Some (TRaises _) => SitRaises
  end.

Definition handler_situation (srv : server) (h : handler) (p : pshape) : situation :=
  match h with
  | HPing | HInitialized | HToolsList | HResourcesList => SitReturns
  | HInitialize =>
      match p with PTruthyNonDict => SitMalformedParams | _ => SitReturns end
  | HToolsCall =>
      match p with
      | PTruthyNonDict | PFalsy => SitMalformedParams
      | PAbsent => SitUnknownTarget
      | PDict n _ a => target_situation n (tools srv) (args_mapping a)
      end
  | HResourcesRead =>
      match p with
      | PTruthyNonDict | PFalsy => SitMalformedParams
      | PAbsent => SitUnknownTarget
      | PDict _ u _ => target_situation u (resources srv) true
      end
  | HCustom (HReturns (Some e)) => SitCustomAnswers e
  | HCustom (HReturns None) => SitCustomSilent
  | HCustom (HRaises _) => SitRaises
  | HCustom HJunk => SitCustomJunk
  end.

Definition situation_of (srv : server) (meth : str) (p : pshape) : situation :=
  match assoc meth (handlers srv) with
  | None => SitUnregistered
  | Some h => handler_situation srv h p
  end.

(** every exception the application code of this scenario can raise is printable *)
Definition tbeh_printable (b : tbeh) : bool :=
  match b with TReturns => true | TUnrenderable d | TRaises d => Nat.leb d 1 end.
Definition handler_printable (h : handler) : bool :=
  match h with HCustom (HRaises d) => Nat.eqb d 0 | _ => true end.

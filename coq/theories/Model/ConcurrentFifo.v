(** The wake-up discipline of the shared read stream, as far as it is LOGIC:
    an anyio memory object stream hands the next object to the receiver that
    has been waiting longest (anyio/streams/memory.py: [_waiting_receivers] is
    an ordered dict, [send_nowait] pops its first item), and a waiter of
    send_message that discards an object calls [receive()] again, i.e. joins
    the queue at its tail; a waiter that completes leaves.  Between two poll
    instants (send_message polls in slices of 0.5 s, all waiters of one burst
    at the same instants) nothing else moves the queue.

    [fifo_log] computes the delivery log of Model/Concurrent.v for that
    discipline.  Definitions only. *)
From Verif.Base Require Import Prelude AwaitTypes.
From Verif.Model Require Import Concurrent.
Open Scope Z_scope.

Definition requeue (retryable : Z -> bool) (ids : list rid) (k : nat) (m : inmsg) (q : list nat) : list nat :=
  match nth_error ids k with
  | Some i => match decide retryable i m with
              | Some _ => q              (* its own answer: the waiter leaves *)
              | None => q ++ [k]         (* discarded: it waits again, behind everybody *)
              end
  | None => q
  end.

Fixpoint fifo_log (retryable : Z -> bool) (ids : list rid) (queue : list nat) (arrivals : list inmsg)
  {struct arrivals} : list delivery :=
  match arrivals with
  | [] => []
  | m :: rest =>
      match queue with
      | [] => []                         (* nobody waits: the object stays in the stream's buffer *)
      | k :: q => Deliver k m :: fifo_log retryable ids (requeue retryable ids k m q) rest
      end
  end.

(** all callers of one burst, waiting in the order in which they sent their requests *)
Definition request_order (ids : list rid) : list nat := seq 0 (length ids).

(** Model of the client side of MCP version negotiation:
    protocol/messages/initialize/send_messages.py (send_initialize,
    send_initialized_notification, send_initialize_with_client_tracking),
    the part of protocol/messages/send_message.py it runs through
    (_await_response's filter loop, _process_response's error classification)
    and StdioClient.set_protocol_version (via Model/Batching.v's BatchProcessor).
    Definitions only.  Regenerated inputs: SUPPORTED_VERSIONS (Gen/VersionsGen.v),
    INVALID_PARAMS and is_retryable_error (Gen/ErrorsGen.v), [decide] inside
    supports_batching (Gen/BatchingGen.v).  Everything else is hand-written and
    tied to the code by the correspondence run of check C03. *)
From Verif.Base Require Import Prelude.
From Verif.Gen Require Import VersionsGen ErrorsGen.
From Verif.Model Require Import Batching.
Open Scope Z_scope.

(** * Proposed version (send_messages.py:82-92)

    [supported_versions is None] -> a copy of SUPPORTED_VERSIONS.
    [if preferred_version and preferred_version in supported_versions]: an EMPTY
    preferred string is falsy and therefore treated like an absent one.
    [supported_versions[0]] on an empty list raises IndexError: [None]. *)
Definition effective_supported (arg : option (list str)) : list str :=
  match arg with Some l => l | None => SUPPORTED_VERSIONS end.

Definition propose (supported : list str) (preferred : option str) : option str :=
  match preferred with
  | Some (c :: p) => if mem_str (c :: p) supported then Some (c :: p) else hd_error supported
  | _ => hd_error supported
  end.

(** * What the peer may put on the read stream *)

(** the [protocolVersion] member of a result object *)
Inductive jver := JStr (s : str) | JNonStr.

Inductive answer :=
| AResult (v : option jver) (rest_ok : bool)
    (* a response whose result is an object; [v] = its protocolVersion member
       ([None] = member missing); [rest_ok] = capabilities and serverInfo are
       present and validate *)
| ANotObject                   (* result is null / a list / a scalar *)
| AError (code : Z) (msg : str). (* JSON-RPC error response (integer code, string message) *)

Inductive inmsg :=
| INoise                       (* anything _await_response skips: another id, a notification,
                                  a server request reusing the id, a batch *)
| IAnswer (a : answer).        (* a response (no method) bearing the request's id *)

(** what happens on the read stream once [incoming] is exhausted *)
Inductive ending := EndSilence | EndClosed.

(** _await_response: the first response with the request's id *)
Fixpoint await (incoming : list inmsg) : option answer :=
  match incoming with
  | [] => None
  | INoise :: r => await r
  | IAnswer a :: _ => Some a
  end.

(** * Outcome classes (return value / exception type) *)
Inductive outcome :=
| Ok (v : str)                 (* returns an InitializeResult with this protocolVersion *)
| VersionMismatch              (* VersionMismatchError *)
| Timeout                      (* TimeoutError *)
| Retryable (code : Z)         (* RetryableError, re-raised *)
| NonRetryable (code : Z)      (* NonRetryableError, re-raised *)
| Invalid                      (* pydantic ValidationError from InitializeResult.model_validate *)
| Closed                       (* EndOfStream / BrokenResourceError / ClosedResourceError *)
| NoVersions.                  (* IndexError: empty supported list *)

(** * Error text test (send_messages.py:163-169)

    str(e) is "JSON-RPC Error: <message> (code: <code>)"; the test is only
    evaluated when code == INVALID_PARAMS, so the suffix is a constant.
    [lower]: ASCII A-Z, plus the only two non-ASCII code points whose
    str.lower() contains an ASCII character (U+0130 -> "i" U+0307, U+212A -> "k");
    every other code point lowers to non-ASCII characters only, which cannot be
    part of the ASCII needle (checked over all code points by the harness). *)
Definition lower_cp (c : Z) : list Z :=
  if (65 <=? c) && (c <=? 90) then [c + 32]
  else if c =? 304 then [105; 775]
  else if c =? 8490 then [107]
  else [c].
Definition lower (s : str) : str := flat_map lower_cp s.

Fixpoint is_prefix (p s : str) : bool :=
  match p, s with
  | [], _ => true
  | _ :: _, [] => false
  | x :: p', y :: s' => (x =? y) && is_prefix p' s'
  end.
Fixpoint contains (p s : str) : bool :=
  is_prefix p s || match s with [] => false | _ :: s' => contains p s' end.

Definition needle : str :=        (* "protocol version" *)
  [112;114;111;116;111;99;111;108;32;118;101;114;115;105;111;110].
Definition err_prefix : str :=    (* "JSON-RPC Error: " *)
  [74;83;79;78;45;82;80;67;32;69;114;114;111;114;58;32].
Definition err_suffix_invalid_params : str :=   (* " (code: -32602)" *)
  [32;40;99;111;100;101;58;32;45;51;50;54;48;50;41].

Definition says_protocol_version (msg : str) : bool :=
  contains needle (lower (err_prefix ++ msg ++ err_suffix_invalid_params)).

(** * Judging the matched response (send_messages.py:118-173, send_message.py:229-240) *)
Definition accepts (supported : list str) (proposed v : str) : bool :=
  str_eqb v proposed || mem_str v supported.

Definition on_answer (supported : list str) (proposed : str) (a : answer) : outcome :=
  match a with
  | AResult (Some (JStr v)) true =>
      if accepts supported proposed v then Ok v else VersionMismatch
  | AResult _ _ => Invalid
  | ANotObject => Invalid
  | AError code msg =>
      if (code =? INVALID_PARAMS) && says_protocol_version msg then VersionMismatch
      else if is_retryable_error code then Retryable code
      else NonRetryable code
  end.

(** * The run: what is written, in which order relative to the answer, and how it ends *)
Inductive wire :=
| WInit (v : str)              (* request "initialize" with params.protocolVersion = v *)
| WInitialized.                (* notification "notifications/initialized" *)
Inductive event :=
| ESend (w : wire)
| ERecv.                       (* the matching response was taken from the read stream *)

Record run : Type := { out : outcome; trace : list event }.

(** [notif_ok]: the write stream still accepts a message when the notification
    is due ([false]: the peer closed it after answering -> BrokenResourceError). *)
Definition client_init (supported_arg : option (list str)) (preferred : option str)
           (incoming : list inmsg) (e : ending) (notif_ok : bool) : run :=
  let supported := effective_supported supported_arg in
  match propose supported preferred with
  | None => {| out := NoVersions; trace := [] |}
  | Some p =>
      match await incoming with
      | None =>
          {| out := match e with EndSilence => Timeout | EndClosed => Closed end;
             trace := [ESend (WInit p)] |}
      | Some a =>
          match on_answer supported p a with
          | Ok v =>
              if notif_ok
              then {| out := Ok v; trace := [ESend (WInit p); ERecv; ESend WInitialized] |}
              else {| out := Closed; trace := [ESend (WInit p); ERecv] |}
          | o => {| out := o; trace := [ESend (WInit p); ERecv] |}
          end
      end
  end.

(** * send_initialize_with_client_tracking (send_messages.py:262-276):
    only a returned result reaches client.set_protocol_version. *)
Definition track (st : bp) (o : outcome) : bp :=
  match o with
  | Ok v => bp_update st (Some v)
  | _ => st
  end.

Definition count_initialized (t : list event) : nat :=
  length (filter (fun e => match e with ESend WInitialized => true | _ => false end) t).

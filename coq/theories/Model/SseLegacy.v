(** Model of chuk_mcp/transports/sse/transport.py (legacy SSE transport).
    Executable definitions only; lemmas are in Proofs/SseLegacy.v.

    The model is a small FAMILY indexed by [cfg]: each flag selects between the
    behaviour before one repair (false) and after it (true).  The first five
    repairs are in /repo (commits 0908bfd, 4efc7a1, 863d8f1, 4529f64, 88582b2);
    the last two are proposed (fixes/C12-6-*.patch, fixes/C12-7-*.patch).
    [cfg_orig] is the code before any of them, [cfg_head] the code as it exists
    at /repo HEAD, [cfg_patched] HEAD with the two proposed patches.  The check
    identifies the member the code under test behaves like and runs the
    correspondence against that member; the full-strength theorems hold for
    [cfg_patched], each [false] flag has a refutation witness.

    (a) establishment   [enter]
    (b) stream parser   [feed] / [run_parser]           (_process_sse_stream, _handle_endpoint_event)
    (c) request race    [step] / [run]                  (_send_message_via_http x _handle_message_event)
    (d) resources       [cleanup] / [life]              (__aenter__, __aexit__, _cleanup)           *)
From Verif.Base Require Import Prelude SseVocab.
Open Scope Z_scope.

Record cfg := Cfg {
  c_opt_space : bool;        (* parser accepts "data:"/"event:" without the optional space   (C12-sse-field-optional-space) *)
  c_keep_id : bool;          (* synthesised errors carry the request's id, not str(id)       (C12-synth-error-keeps-request-id) *)
  c_other_terminal : bool;   (* unexpected status: answer for this id or a synthesised error (C12-other-status-always-terminal) *)
  c_enter_cancel : bool;     (* cancellation while entering runs _cleanup                    (C12-cancel-during-enter-cleans-up) *)
  c_reraise_cancel : bool;   (* the sender does not swallow the CancelledError of its future (C12-exit-deadlock-swallowed-cancel) *)
  c_drop_late : bool;        (* the keys of requests answered with a synthesised error are remembered and a
                                later response bearing such a key is dropped                  (C12-6-late-answer-dropped) *)
  c_route_in_stream : bool;  (* an answer that resolves a pending future is delivered by the event-stream
                                task itself, at once; the sender routes nothing more for it   (C12-7-answer-routed-in-stream-order) *)
  c_answers_only : bool      (* only a RESPONSE resolves a pending request: a request or notification of the server's
                                own that bears the same id (ids are per direction) does not    (ecb7629) *)
}.
Definition cfg_orig := Cfg false false false false false false false false.
Definition cfg_head := Cfg true true true true true false false false.
Definition cfg_patched := Cfg true true true true true true true true.
Definition cfg_before_answers_only := Cfg true true true true true true true false.   (* /repo 4ccf059 .. 14f3f5e *)

(* ------------------------------------------------------------------ *)
(** * (b) the event-stream parser                                      *)
(* ------------------------------------------------------------------ *)
Definition s_event : str := [101;118;101;110;116;58].                 (* "event:" *)
Definition s_data : str := [100;97;116;97;58].                        (* "data:"  *)
Definition s_endpoint : str := [101;110;100;112;111;105;110;116].     (* "endpoint" *)
Definition s_message : str := [109;101;115;115;97;103;101].           (* "message" *)
Definition s_keepalive : str := [107;101;101;112;97;108;105;118;101]. (* "keepalive" *)
Definition s_messages : str := [47;109;101;115;115;97;103;101;115;47]. (* "/messages/" *)
Definition s_messages_q : str := s_messages ++ [63].                  (* "/messages/?" *)
Definition s_mcp : str := [47;109;99;112].                            (* "/mcp" *)
Definition s_http : str := [104;116;116;112].                         (* "http" *)
Definition s_jsonrpc : str := [34;106;115;111;110;114;112;99;34].     (* "\"jsonrpc\"" *)

(** [line.rstrip("\r")] *)
Fixpoint drop_cr (r : str) : str :=
  match r with
  | c :: r' => if c =? 13 then drop_cr r' else r
  | [] => []
  end.
Definition rstrip_cr (s : str) : str := rev (drop_cr (rev s)).

(** [buffer.split("\n", 1)] repeated: complete lines and the remainder.
    [cur] is the (newline-free) text already scanned. *)
Fixpoint lines_rest (cur : str) (s : str) : list str * str :=
  match s with
  | [] => ([], cur)
  | c :: s' =>
      if c =? 10 then (cur :: fst (lines_rest [] s'), snd (lines_rest [] s'))
      else lines_rest (cur ++ [c]) s'
  end.

(** [line.startswith(name + " ")] / patched: [line.startswith(name)]; value = rest.strip() *)
Definition field (c : cfg) (name line : str) : option str :=
  let p := if c_opt_space c then name else name ++ [32] in
  if starts_with p line then Some (py_strip (skipn (length p) line)) else None.

(** _handle_endpoint_event: the message URL built from the announced data. *)
Definition endpoint_url (base data : str) : str :=
  let path := py_strip data in
  if starts_with [47] path then base ++ path
  else if contains [61] path && negb (starts_with s_http path) then
    (if contains s_messages base then base ++ [63] ++ path else base ++ s_messages_q ++ path)
  else path.

Record lstate := LState { l_event : option str; l_url : option str }.
Inductive action := AEndpoint (url : str) | AMessage (data : str).

Definition url_falsy (u : option str) : bool :=
  match u with None => true | Some [] => true | Some (_ :: _) => false end.

Definition handle_line (c : cfg) (base : str) (st : lstate) (line0 : str) : lstate * list action :=
  let line := rstrip_cr line0 in
  match line with
  | [] => (LState None (l_url st), [])
  | _ :: _ =>
    match field c s_event line with
    | Some v => (LState (Some v) (l_url st), [])
    | None =>
      match field c s_data line with
      | None => (st, [])
      | Some data =>
          let endpoint := (LState (l_event st) (Some (endpoint_url base data)), [AEndpoint (endpoint_url base data)]) in
          let message := (st, [AMessage data]) in
          let untyped :=
            if url_falsy (l_url st) && (contains s_messages data || contains s_mcp data) then endpoint
            else if starts_with [123] data && contains s_jsonrpc data then message
            else (st, []) in
          match l_event st with
          | Some e =>
              if str_eqb e s_endpoint then endpoint
              else if str_eqb e s_message then message
              else if str_eqb e s_keepalive then (st, [])
              else untyped
          | None => untyped
          end
      end
    end
  end.

Fixpoint handle_lines (c : cfg) (base : str) (st : lstate) (ls : list str) : lstate * list action :=
  match ls with
  | [] => (st, [])
  | l :: ls' =>
      let r := handle_line c base st l in
      let r' := handle_lines c base (fst r) ls' in
      (fst r', snd r ++ snd r')
  end.

Record pstate := PState { p_buf : str; p_l : lstate }.
Definition pinit : pstate := PState [] (LState None None).

(** One chunk of [aiter_text()]: [if not chunk: continue; buffer += chunk; while "\n" in buffer: ...] *)
Definition feed (c : cfg) (base : str) (ps : pstate) (chunk : str) : pstate * list action :=
  match chunk with
  | [] => (ps, [])
  | _ :: _ =>
      let sp := lines_rest [] (p_buf ps ++ chunk) in
      let r := handle_lines c base (p_l ps) (fst sp) in
      (PState (snd sp) (fst r), snd r)
  end.

Fixpoint run_parser (c : cfg) (base : str) (ps : pstate) (chunks : list str) : pstate * list action :=
  match chunks with
  | [] => (ps, [])
  | ch :: rest =>
      let r := feed c base ps ch in
      let r' := run_parser c base (fst r) rest in
      (fst r', snd r ++ snd r')
  end.

(* ------------------------------------------------------------------ *)
(** * (a) establishment                                                *)
(* ------------------------------------------------------------------ *)
(** What the server does with GET /sse.  Times are absolute (ms since
    [__aenter__] started). *)
Inductive est :=
| EstConnError (t : Z)                 (* stream().__aenter__ raises at t *)
| EstConnHang                          (* ... never completes *)
| EstResp (t : Z) (code : Z) (chunks : list (Z * str)) (endt : option Z).
                                       (* headers at t; text chunks at their times; stream closes/fails at endt *)

Definition connect_cap (timeout : Z) : Z := Z.min timeout 15000.

Fixpoint first_endpoint (acts : list action) : option str :=
  match acts with
  | [] => None
  | AEndpoint u :: _ => Some u
  | AMessage _ :: r => first_endpoint r
  end.

(** The first chunk whose processing sets [_connected] (an endpoint event). *)
Fixpoint first_connect (c : cfg) (base : str) (ps : pstate) (chunks : list (Z * str)) : option (Z * str) :=
  match chunks with
  | [] => None
  | (t, ch) :: rest =>
      let r := feed c base ps ch in
      match first_endpoint (snd r) with
      | Some u => Some (t, u)
      | None => first_connect c base (fst r) rest
      end
  end.

Definition before_end (endt : option Z) (tc : Z * str) : bool :=
  match endt with Some te => fst tc <? te | None => true end.

Definition enter (c : cfg) (base : str) (timeout : Z) (e : est) : enter_res :=
  let cap := connect_cap timeout in
  match e with
  | EstConnHang => Raise cap
  | EstConnError t => Raise (Z.min t cap)
  | EstResp t code chunks endt =>
      if cap <=? t then Raise cap
      else if negb (code =? 200) then Raise t
      else
        match first_connect c base pinit (filter (before_end endt) chunks) with
        | Some (ta, u) =>
            if timeout <=? ta then Raise timeout
            else match u with
                 | [] => Raise ta            (* announced an empty URL: [if not self._message_url] *)
                 | _ :: _ => Live u ta
                 end
        | None =>
            match endt with
            | Some te => if te <? timeout then Raise te else Raise timeout
            | None => Raise timeout
            end
        end
  end.

(* ------------------------------------------------------------------ *)
(** * (c) one sender task against the event-stream task                *)
(* ------------------------------------------------------------------ *)
(** The sender handles one message at a time ([async for message in
    self._outgoing_recv: await self._send_message_via_http(message)]), so the
    pending-future table holds at most the entry of the request in flight;
    the sender state carries it.
    [SPosting i]    future registered under str(i), POST in flight
    [SResolved i a] the event stream delivered [a] before the POST completed (entry popped, future holds [a])
    [SWaiting i]    202 received, [wait_for(future, timeout)] running
    [SWoken i a]    future resolved while waiting; the sender has not run yet *)
Inductive sender :=
| SIdle
| SPostingN
| SPosting (i : id)
| SResolved (i : id) (a : msg)
| SWaiting (i : id)
| SWoken (i : id) (a : msg).

(** The transport's state as far as requests go: what the sender task is doing
    and [_abandoned_requests] — the keys ([str(id)]) of the requests the
    transport has answered itself with a synthesised error.  Members without
    [c_drop_late] have no such set: the list is never written nor read. *)
Record sstate := SS { s_task : sender; s_late : list str }.
Definition sinit : sstate := SS SIdle [].

Definition has_key (k : str) (l : list str) : bool := existsb (str_eqb k) l.
Definition drop_key (k : str) (l : list str) : list str := filter (fun x => negb (str_eqb k x)) l.

(** [self._abandoned_requests.add(message_id)] / [.discard(message_id)] *)
Definition abandon (c : cfg) (i : id) (late : list str) : list str :=
  if c_drop_late c then key i :: late else late.
Definition unabandon (c : cfg) (i : id) (late : list str) : list str :=
  if c_drop_late c then drop_key (key i) late else late.

Definition err_id (c : cfg) (i : id) : id := if c_keep_id c then i else IdStr (key i).
Definition synth (c : cfg) (i : id) (code : Z) : out := (FromSender, Msg (Some (err_id c i)) (KErr code) 0).

(** The patched unexpected-status branch routes the body only if it is a
    response (result/error) whose id is the request's. *)
Definition is_answer_for (i : id) (m : msg) : bool := kind_terminal (m_kind m) && same_key i m.

(** The request ends with a synthesised error: routed, key remembered. *)
Definition fail (c : cfg) (i : id) (late : list str) (code : Z) : sstate * list out :=
  (SS SIdle (abandon c i late), [synth c i code]).
Definition done (late : list str) (o : list out) : sstate * list out := (SS SIdle late, o).

(** The POST completes; [acked]: what a 202 leads to. *)
Definition post_branches (c : cfg) (i : id) (late : list str) (r : post_res) (acked : sstate * list out)
  : sstate * list out :=
  match r with
  | PExc => fail c i late (-32603)
  | PStatus code b =>
      if code =? 200 then
        match b with
        | BMsg m => done late [(FromSender, m)]
        | BInvalid => done late []                 (* _route_incoming_message swallows the validation error *)
        | BNotJson => fail c i late (-32603)
        end
      else if code =? 202 then acked
      else if c_other_terminal c then
        match b with
        | BMsg m => if is_answer_for i m then done late [(FromSender, m)] else fail c i late (-32603)
        | _ => fail c i late (-32603)
        end
      else
        match b with
        | BMsg m => done late [(FromSender, m)]
        | BInvalid => done late []
        | BNotJson => fail c i late (-32603)
        end
  end.

(** [fut = Some a]: the event stream has already resolved the future with [a]
    (the entry is popped).  HEAD: the branches as above, a 202 hands [a] on at
    once ([wait_for] on a done future).  With [c_route_in_stream] the stream
    task has delivered [a] itself and the sender routes nothing, whatever the
    POST says ([if request.delivered_in_stream]). *)
Definition post_done (c : cfg) (i : id) (fut : option msg) (late : list str) (r : post_res) : sstate * list out :=
  match fut with
  | Some a =>
      if c_route_in_stream c then done late []
      else post_branches c i late r (done late [(FromHandoff, a)])
  | None => post_branches c i late r (SS (SWaiting i) late, [])
  end.

(** A message event that resolves no pending future: a response (result or
    error) bearing the key of an abandoned request is dropped and the key
    forgotten ([c_drop_late]); anything else is routed. *)
Definition late_hit (c : cfg) (late : list str) (m : msg) : bool :=
  c_drop_late c && kind_terminal (m_kind m) &&
  match m_id m with Some i => has_key (key i) late | None => false end.

Definition forget (late : list str) (m : msg) : list str :=
  match m_id m with Some i => drop_key (key i) late | None => late end.

Definition not_pending (c : cfg) (st : sstate) (m : msg) : sstate * list out :=
  if late_hit c (s_late st) m then (SS (s_task st) (forget (s_late st) m), [])
  else (st, [(FromSse, m)]).

(** ... that resolves the pending future: handed to the sender (nothing yet),
    or — [c_route_in_stream] — delivered here and now. *)
Definition resolved_out (c : cfg) (m : msg) : list out :=
  if c_route_in_stream c then [(FromSse, m)] else [].

(** does the event-stream message [m] resolve the pending request [i]?  [_handle_message_event] looks the id up in the
    pending table; since ecb7629 only for a message without a method. *)
Definition resolves (c : cfg) (i : id) (m : msg) : bool :=
  same_key i m && negb (c_answers_only c && kind_call (m_kind m)).

Definition step (c : cfg) (st : sstate) (e : ev) : sstate * list out :=
  let late := s_late st in
  match e with
  | ESend (CReq i) => match s_task st with SIdle => (SS (SPosting i) (unabandon c i late), []) | _ => (st, []) end
  | ESend CNotif => match s_task st with SIdle => (SS SPostingN late, []) | _ => (st, []) end
  | EPost r =>
      match s_task st with
      | SPostingN => (SS SIdle late, [])
      | SPosting i => post_done c i None late r
      | SResolved i a => post_done c i (Some a) late r
      | _ => (st, [])
      end
  | ETimeout =>
      match s_task st with
      | SWaiting i => fail c i late (-32000)
      | SWoken i _ =>                                  (* exact tie: the task is cancelled before it reads the result *)
          if c_route_in_stream c then done late [] else fail c i late (-32000)
      | _ => (st, [])
      end
  | EWake =>
      match s_task st with
      | SWoken i a => done late (if c_route_in_stream c then [] else [(FromHandoff, a)])
      | _ => (st, [])
      end
  | ESse None => (st, [])
  | ESse (Some m) =>
      match s_task st with
      | SPosting i => if resolves c i m then (SS (SResolved i m) late, resolved_out c m) else not_pending c st m
      | SWaiting i => if resolves c i m then (SS (SWoken i m) late, resolved_out c m) else not_pending c st m
      | _ => not_pending c st m
      end
  end.

Fixpoint run (c : cfg) (st : sstate) (evs : list ev) : list out :=
  match evs with
  | [] => []
  | e :: r => snd (step c st e) ++ run c (fst (step c st e)) r
  end.

Fixpoint final (c : cfg) (st : sstate) (evs : list ev) : sstate :=
  match evs with
  | [] => st
  | e :: r => final c (fst (step c st e)) r
  end.

(** Messages the event-stream task handled, in stream order. *)
Fixpoint stream_msgs (evs : list ev) : list msg :=
  match evs with
  | [] => []
  | ESse (Some m) :: r => m :: stream_msgs r
  | _ :: r => stream_msgs r
  end.

Definition sse_outs (l : list out) : list msg :=
  map snd (filter (fun o => match fst o with FromSse => true | _ => false end) l).

(** What reached the read stream FROM THE EVENT STREAM, in the order it
    reached it — whoever delivered it. *)
Definition from_stream (o : out) : bool := match fst o with FromSender => false | _ => true end.
Definition stream_part (l : list out) : list msg := map snd (filter from_stream l).

(* ------------------------------------------------------------------ *)
(** * (d) resources                                                    *)
(* ------------------------------------------------------------------ *)
(** What the transport holds: the two tasks (running), the stream context
    (entered), the two HTTP clients (open), the send ends of the two memory
    streams (open), unresolved futures in the pending table; [r_waiting]: the
    sender task is inside [wait_for(future)] (after a 202). *)
Record res := Res {
  r_sse_task : bool; r_out_task : bool; r_stream_ctx : bool;
  r_stream_client : bool; r_send_client : bool;
  r_in_send : bool; r_out_send : bool; r_pending : nat; r_waiting : bool }.

Definition res_none := Res false false false false false false false 0 false.
Definition res_alloc := Res true true false true true true true 0 false.

Definition released (r : res) : bool :=
  negb (r_sse_task r) && negb (r_out_task r) && negb (r_stream_ctx r) && negb (r_stream_client r)
  && negb (r_send_client r) && negb (r_in_send r) && negb (r_out_send r) && (Nat.eqb (r_pending r) 0).

Definition set_sse (b : bool) (r : res) := Res b (r_out_task r) (r_stream_ctx r) (r_stream_client r) (r_send_client r) (r_in_send r) (r_out_send r) (r_pending r) (r_waiting r).
Definition set_out (b : bool) (r : res) := Res (r_sse_task r) b (r_stream_ctx r) (r_stream_client r) (r_send_client r) (r_in_send r) (r_out_send r) (r_pending r) (r_waiting r && b).
Definition set_ctx (b : bool) (r : res) := Res (r_sse_task r) (r_out_task r) b (r_stream_client r) (r_send_client r) (r_in_send r) (r_out_send r) (r_pending r) (r_waiting r).
Definition set_pending (n : nat) (w : bool) (r : res) := Res (r_sse_task r) (r_out_task r) (r_stream_ctx r) (r_stream_client r) (r_send_client r) (r_in_send r) (r_out_send r) n w.

(** _cleanup, statement by statement. *)
Definition cl_pending (r : res) := set_pending 0 (r_waiting r) r.      (* futures cancelled, table cleared *)
Definition cl_sse (r : res) := set_sse false r.
Definition cl_out (r : res) := set_out false r.
Definition cl_ctx (r : res) := set_ctx false r.
Definition cl_streams (r : res) := Res (r_sse_task r) (r_out_task r) (r_stream_ctx r) (r_stream_client r) (r_send_client r) false false (r_pending r) (r_waiting r).
Definition cl_clients (r : res) := Res (r_sse_task r) (r_out_task r) (r_stream_ctx r) false false (r_in_send r) (r_out_send r) (r_pending r) (r_waiting r).
Definition cleanup (r : res) : res := cl_clients (cl_streams (cl_ctx (cl_out (cl_sse (cl_pending r))))).

(** [LStuck]: __aexit__ was called and never returns. *)
Inductive lphase := LFresh | LEntering | LInside | LClosed | LStuck.
(** [XCancelTask]: one [task.cancel()]; [XCancelScope]: an anyio cancel scope,
    which keeps re-cancelling whatever the exiting task awaits. *)
Inductive exit_kind := XNormal | XException | XCancelTask | XCancelScope.

(** Life-cycle events of one transport object. *)
Inductive lev :=
| LAlloc                 (* __aenter__: clients, memory streams and both tasks are created *)
| LStreamOpen            (* the sse task entered client.stream() *)
| LSseEnds               (* the sse task ends by itself (status, error, stream closed) *)
| LOutEnds               (* the outgoing task ends by itself *)
| LPendAdd               (* the sender registers a future and starts the POST *)
| LWait                  (* 202: the sender awaits the future *)
| LPendDone              (* the future is resolved or popped; the sender moves on *)
| LEnterOk               (* readiness reached, message URL present *)
| LEnterRaise            (* no endpoint / timeout: the except branches run _cleanup *)
| LEnterCancel           (* the entering task is cancelled while waiting for readiness *)
| LExit (k : exit_kind). (* __aexit__ *)

Record lstate2 := L2 { lp : lphase; lr : res }.

(** _cleanup cancels the pending futures, then (only if the sse task is still
    running) awaits it, then cancels and awaits the outgoing task.  When the
    sse task has already ended there is no await between the two
    cancellations: the sender, waiting on its future, receives ONE
    CancelledError for both, HEAD's [except asyncio.CancelledError] after the
    202 swallows it, the sender goes back to reading the write stream and
    [await self._outgoing_task] never returns — unless the exit itself runs
    under a cancel scope that cancels that await again (which reaches the
    sender a second time). *)
Definition exit_stuck (c : cfg) (k : exit_kind) (r : res) : bool :=
  negb (c_reraise_cancel c) && negb (r_sse_task r) && r_out_task r && r_waiting r
  && match k with XCancelScope => false | _ => true end.

Definition lstep (c : cfg) (s : lstate2) (e : lev) : lstate2 :=
  let r := lr s in
  match e, lp s with
  | LAlloc, LFresh => L2 LEntering res_alloc
  | LStreamOpen, (LEntering | LInside) => if r_sse_task r then L2 (lp s) (set_ctx true r) else s
  | LSseEnds, (LEntering | LInside) => L2 (lp s) (cl_sse r)
  | LOutEnds, (LEntering | LInside) => L2 (lp s) (cl_out r)
  | LPendAdd, LInside => if r_out_task r then L2 (lp s) (set_pending (S (r_pending r)) false r) else s
  | LWait, LInside => if r_out_task r && negb (Nat.eqb (r_pending r) 0) then L2 (lp s) (set_pending (r_pending r) true r) else s
  | LPendDone, LInside => L2 (lp s) (set_pending (Nat.pred (r_pending r)) false r)
  | LEnterOk, LEntering => L2 LInside r
  | LEnterRaise, LEntering => L2 LClosed (cleanup r)
  | LEnterCancel, LEntering => L2 LClosed (if c_enter_cancel c then cleanup r else r)
  | LExit k, LInside => if exit_stuck c k r then L2 LStuck (cl_pending r) else L2 LClosed (cleanup r)
  | _, _ => s
  end.

Definition life (c : cfg) (evs : list lev) : lstate2 := fold_left (lstep c) evs (L2 LFresh res_none).

(** Model of protocol/messages/send_message.py: send_message, _await_response
    and _process_response, on a discrete time line (1 tick = 10 ms).

    A run is determined by the arrival history (time-stamped incoming messages,
    in queue order), the absolute deadline [D], the optional time [c] at which
    the cancellation token is triggered, and the polling interval [poll].
    Events that fall on exactly the same instant (a message and a timer, the
    token and a loop head, anything and the deadline) are ordered arbitrarily by
    the event loop, so the model returns the LIST OF ALL POSSIBLE RESULTS; the
    theorems hold for every member, the correspondence run checks membership.

    Loop-head analysis (derived from the code): a loop head occurs at the start,
    after every dequeued message (matching or not — it is processed BEFORE the
    next cancellation check), and [poll] ticks after the last head while nothing
    arrives.  The cancellation flag is looked at only at heads.  The outer
    deadline pre-empts everything from [D] on.  Definitions only. *)
From Verif.Base Require Import Prelude.
From Verif.Base Require Export AwaitTypes.
Open Scope Z_scope.

Inductive action : Type := ASkip | ACallback (v : Z) | AReturn (tok : Z) | ARaise (code : Z).

Section Await.
  Variable poll : Z.                     (* sub_timeout in ticks (Gen/ConstsGen.v) *)
  Variable retryable : Z -> bool.        (* is_retryable_error (Gen/ErrorsGen.v) *)
  Variable D : Z.                        (* absolute deadline *)
  Variable me : rid.                     (* the id this request waits for *)
  Variable has_cb : bool.                (* a progress callback (hence a progress token) was supplied *)
  Variable cancel : option Z.            (* time at which the token is triggered, if ever *)

  (** What one dequeued object does to the waiting request (the body of the
      loop after [receive]): progress dispatch, id filter, list filter,
      response-only filter, _process_response. *)
  Definition classify (m : inmsg) : action :=
    match m with
    | MProg true v => if has_cb then ACallback v else ASkip
    | MProg false _ => ASkip
    | MNotif => ASkip
    | MBatch => ASkip
    | MReq _ => ASkip
    | MRes i tok => if rid_eqb i me then AReturn tok else ASkip
    | MErr i code => if rid_eqb i me then ARaise code else ASkip
    end.

  Definition fin (o : outcome) (t : Z) (notifs : Z) (log : list Z) : result :=
    {| r_out := o; r_end := t; r_req_written := true; r_cancel_notifs := notifs; r_cb := rev log |}.

  (** First polling head at or after [c], counting from head [h] (for [h < c]). *)
  Definition first_head_from (h c : Z) : Z := h + poll * ((c - h + poll - 1) / poll).

  (** When an idle loop that starts at head [h] can SEE the cancellation: at the
      first polling head at or after [c].  If that head falls exactly on [c]
      (the token is triggered at the very instant of a loop head) the head's
      check may have run first, and the cancellation is seen one full poll
      later - both are possible.  [c = h] with this head's check already done:
      one poll later.  [None]: there is no token. *)
  Definition cancel_heads (h : Z) : list (option Z) :=
    match cancel with
    | Some c => if h <? c then
                  let f := first_head_from h c in
                  if f =? c then [Some c; Some (c + poll)] else [Some f]
                else [Some (h + poll)]
    | None => [None]
    end.

  Definition min_opt (a : Z) (o : option Z) : Z :=
    match o with Some b => Z.min a b | None => a end.

  Definition is_time (o : option Z) (t : Z) : bool :=
    match o with Some b => b =? t | None => false end.

  (** [loop l h log]: all possible results from a loop head at time [h] with
      the remaining arrivals [l] (clamped so that every time is >= h) and the
      callback log so far (newest first). *)
  Fixpoint loop (l : list (Z * inmsg)) (h : Z) (log : list Z) {struct l} : list result :=
    let step (m : inmsg) (l' : list (Z * inmsg)) (t : Z) : list result :=
      match classify m with
      | ASkip => loop l' t log
      | ACallback v => loop l' t (v :: log)
      | AReturn tok => [fin (Return tok) t 0 log]
      | ARaise code => [fin (RaiseErr (retryable code) code) t 0 log]
      end in
    let deadline_alt := if h =? D then [fin Timeout D 0 log] else [] in
    let cancelled_now := [fin Cancelled h 1 log] in
    let definitely := match cancel with Some c => c <? h | None => false end in
    let maybe := match cancel with Some c => c =? h | None => false end in
    if definitely then deadline_alt ++ cancelled_now
    else
      (if maybe then cancelled_now else []) ++ deadline_alt ++
      match l with
      | [] =>
          flat_map (fun hc =>
            let e := min_opt D hc in
            (if is_time hc e then [fin Cancelled e 1 log] else []) ++
            (if D =? e then [fin Timeout D 0 log] else [])) (cancel_heads h)
      | (a, m) :: l' =>
          if a <=? h then step m l' h
          else
            flat_map (fun hc =>
              let e := min_opt (Z.min a D) hc in
              (if a =? e then step m l' a else []) ++
              (if is_time hc e then [fin Cancelled e 1 log] else []) ++
              (if D =? e then [fin Timeout D 0 log] else [])) (cancel_heads h)
      end.

  Definition clamp (t0 : Z) (x : Z * inmsg) : Z * inmsg := (Z.max t0 (fst x), snd x).

  (** send_message from the moment it is called at time [t0] (the request is
      written at [t0]; the deadline [D] is [t0 + timeout]). *)
  Definition run (t0 : Z) (arrivals : list (Z * inmsg)) : list result :=
    let not_sent := [{| r_out := Cancelled; r_end := t0; r_req_written := false;
                        r_cancel_notifs := 1; r_cb := [] |}] in
    match cancel with
    | Some c =>
        if c <? t0 then not_sent
        else (if c =? t0 then not_sent else []) ++ loop (map (clamp t0) arrivals) t0 []
    | None => loop (map (clamp t0) arrivals) t0 []
    end.
End Await.

(** The three boolean convenience wrappers (send_ping, send_resources_subscribe,
    send_resources_unsubscribe): a result is reported as [true], every error
    and timeout as [false]. *)
Definition bool_wrapper (o : outcome) : bool :=
  match o with
  | Return _ => true
  | _ => false
  end.

(** Type grammar, validated values and schema records shared by the generated
    schema table (Gen/SchemaGen.v) and the validation model (Model/Validate.v).
    Definitions only. *)
From Verif.Base Require Import Prelude Json.
Open Scope Z_scope.

(** Annotation grammar.  [TLit] lists the admitted JSON constants; [TModel]
    names a class of the schema table (module-qualified). *)
Inductive ty : Type :=
| TStr | TInt | TFloat | TBool | TAny
| TFloatRange (lo hi : Z)   (* float with Field(ge=lo, le=hi): the bound is enforced by Pydantic only *)
| TOpt (t : ty)
| TUnion (ts : list ty)
| TList (t : ty)
| TDict (t : ty)             (* Dict[str, t] *)
| TLit (vs : list json)
| TModel (n : str).

(** A validated Python value.  [VJ] is a value kept exactly as it came off the
    wire (primitives, and everything below an [Any] position); [VModel] is a
    model instance: class name and the instance dictionary keyed by PYTHON
    attribute names (declared fields first, then extra members). *)
Inductive value : Type :=
| VJ (j : json)
| VArr (l : list value)
| VMap (m : list (str * value))
| VModel (cls : str) (fs : list (str * value)).

(** A declared field: Python attribute name, wire name (= alias if one is
    declared, else the attribute name), annotation, declared default
    ([None] = the field is required). *)
Record field : Type := mkField {
  f_py : str;
  f_wire : str;
  f_ty : ty;
  f_default : option value
}.

(** Post-construction hooks found on model classes (each is matched by the
    translator against a pinned AST; anything else is unmodelled). *)
Inductive hook : Type :=
| HNone
| HUriPrefix (fld : str) (prefix : str)      (* not self.<fld>.startswith(prefix) -> raise *)
| HMaxLen (fld : str) (n : Z)                (* len(self.<fld>) > n -> raise *)
| HRpcError                                  (* JSONRPCError.model_post_init *)
| HRpcMessage.                               (* JSONRPCMessage.model_validate + model_post_init *)

(** Which mechanism runs the hook: [__post_init__] is a dataclass convention that
    only the fallback constructor calls; [model_post_init] is called by both. *)
Inductive hook_kind : Type := KPostInit | KModelPostInit.

Record schema : Type := mkSchema {
  s_name : str;
  s_fields : list field;
  s_hook : hook;
  s_hook_kind : hook_kind
}.

Fixpoint find_schema (n : str) (ss : list schema) : option schema :=
  match ss with
  | [] => None
  | s :: ss' => if str_eqb n (s_name s) then Some s else find_schema n ss'
  end.

(** sexp encoding of the Await types (shared by the model and spec drivers). *)
From Verif.Base Require Import Prelude Sexp AwaitTypes.
Open Scope Z_scope.

Definition sx_rid (s : sexp) : rid :=
  if sx_tag s =? 0 then IdInt (sx_Z (sx_arg 0 s)) else IdStr (sx_str (sx_arg 0 s)).

Definition sx_inmsg (s : sexp) : inmsg :=
  let t := sx_tag s in
  if t =? 0 then MRes (sx_rid (sx_arg 0 s)) (sx_Z (sx_arg 1 s))
  else if t =? 1 then MErr (sx_rid (sx_arg 0 s)) (sx_Z (sx_arg 1 s))
  else if t =? 2 then MReq (sx_rid (sx_arg 0 s))
  else if t =? 3 then MNotif
  else if t =? 4 then MProg (sx_bool (sx_arg 0 s)) (sx_Z (sx_arg 1 s))
  else MBatch.

Definition sx_arrival (s : sexp) : Z * inmsg := (sx_Z (sx_nth 0 s), sx_inmsg (sx_nth 1 s)).

Definition of_outcome (o : outcome) : sexp :=
  match o with
  | Return tok => Li [At 0; At tok]
  | RaiseErr b code => Li [At 1; of_bool b; At code]
  | Timeout => Li [At 2]
  | Cancelled => Li [At 3]
  end.

Definition sx_outcome (s : sexp) : outcome :=
  let t := sx_tag s in
  if t =? 0 then Return (sx_Z (sx_arg 0 s))
  else if t =? 1 then RaiseErr (sx_bool (sx_arg 0 s)) (sx_Z (sx_arg 1 s))
  else if t =? 2 then Timeout
  else Cancelled.

Definition of_result (r : result) : sexp :=
  Li [of_outcome (r_out r); At (r_end r); of_bool (r_req_written r); At (r_cancel_notifs r);
      of_list of_Z (r_cb r)].

Definition sx_result (s : sexp) : result :=
  {| r_out := sx_outcome (sx_nth 0 s); r_end := sx_Z (sx_nth 1 s);
     r_req_written := sx_bool (sx_nth 2 s); r_cancel_notifs := sx_Z (sx_nth 3 s);
     r_cb := map sx_Z (sx_list (sx_nth 4 s)) |}.

(** Exact decimal values (C20): what a JSON number / a numeric string DENOTES.
    A value is [m * 10^e], kept normalised ([m] not divisible by ten; zero is
    [Dec 0 0]) so that equal values are equal terms.  This is the shared
    vocabulary for "the configured timeout, as a number": the specification
    uses it to say what was configured, the model uses it for [float(x)] —
    exact for every literal of at most 15 significant digits (an IEEE double
    round-trips those), which is the stated domain.  Definitions only. *)
From Verif.Base Require Import Prelude Json.
Open Scope Z_scope.

Record dec : Type := Dec { d_m : Z; d_e : Z }.

Definition dec_eqb (a b : dec) : bool := (d_m a =? d_m b) && (d_e a =? d_e b).

Fixpoint strip0 (fuel : nat) (m e : Z) : dec :=
  match fuel with
  | O => Dec m e
  | S f => if (m mod 10 =? 0) then strip0 f (m / 10) (e + 1) else Dec m e
  end.

(** [m * 10^e], normalised.  [log2 |m| + 1] bounds the number of decimal digits. *)
Definition dec_norm (m e : Z) : dec :=
  if m =? 0 then Dec 0 0 else strip0 (S (Z.to_nat (Z.log2 (Z.abs m)))) m e.

Fixpoint span_digits (s : str) : str * str :=
  match s with
  | c :: r => if is_digit c then let (d, r') := span_digits r in (c :: d, r') else ([], s)
  | [] => ([], [])
  end.

(** optional sign: returns (negative?, rest) *)
Definition parse_sign (s : str) : bool * str :=
  match s with
  | 45 :: r => (true, r)        (* - *)
  | 43 :: r => (false, r)       (* + *)
  | _ => (false, s)
  end.

(** exponent part: [] -> 0 ; ("e"|"E") sign? digits+ and nothing after *)
Definition parse_exp (s : str) : option Z :=
  match s with
  | [] => Some 0
  | c :: r =>
      if (c =? 101) || (c =? 69) then
        let (eneg, r1) := parse_sign r in
        let (ed, r2) := span_digits r1 in
        match ed, r2 with
        | _ :: _, [] => Some (if eneg then - digits_val ed else digits_val ed)
        | _, _ => None
        end
      else None
  end.

(** The plain decimal grammar  sign? digits+ ("." digits+)? (("e"|"E") sign? digits+)?
    — what [repr(float)] prints and what a "string-number" of the property is.
    (CPython's [float()] accepts more: surrounding blanks, "_" between digits,
    "5." / ".5", inf/nan, non-ASCII digits.  Those are outside the domain.) *)
Definition dec_of_str (s : str) : option dec :=
  let (neg, s1) := parse_sign s in
  let (ip, s2) := span_digits s1 in
  match ip with
  | [] => None
  | _ :: _ =>
      let '(fp, s3) := match s2 with
                       | 46 :: r => let (f, r') := span_digits r in (Some f, r')
                       | _ => (None, s2)
                       end in
      match fp with
      | Some [] => None
      | _ =>
          let fd := match fp with Some f => f | None => [] end in
          match parse_exp s3 with
          | None => None
          | Some x =>
              let m := digits_val (ip ++ fd) in
              Some (dec_norm (if neg then - m else m) (x - Z.of_nat (length fd)))
          end
      end
  end.

(** The number a JSON value denotes when used as a number: a JSON number, or a
    string holding a plain decimal literal. *)
Definition dec_of_json (j : json) : option dec :=
  match j with
  | JInt z => Some (dec_norm z 0)
  | JFloat t => dec_of_str t
  | JStr s => dec_of_str s
  | _ => None
  end.

(** sexp <-> json / value codecs for the C09/C10 drivers (definitions only).
    json:  (0) null | (1 b) | (2 z) | (3 tok) | (4 s) | (5 (items)) | (6 ((k v) ...))
    value: (0 json) | (1 (items)) | (2 ((k v) ...)) | (3 cls ((k v) ...)) *)
From Verif.Base Require Import Prelude Sexp Json ValidSchema.
Open Scope Z_scope.

Fixpoint js_of_sx (s : sexp) {struct s} : json :=
  match s with
  | At _ => JNull
  | Li l =>
      match l with
      | [At 1; b] => JBool (sx_bool b)
      | [At 2; z] => JInt (sx_Z z)
      | [At 3; t] => JFloat (sx_str t)
      | [At 4; t] => JStr (sx_str t)
      | [At 5; Li items] => JArr (map js_of_sx items)
      | [At 6; Li items] =>
          JObj (map (fun kv => match kv with
                               | Li [k; v] => (sx_str k, js_of_sx v)
                               | _ => ([], JNull)
                               end) items)
      | _ => JNull
      end
  end.

Fixpoint sx_of_js (j : json) {struct j} : sexp :=
  match j with
  | JNull => Li [At 0]
  | JBool b => Li [At 1; of_bool b]
  | JInt z => Li [At 2; At z]
  | JFloat t => Li [At 3; of_str t]
  | JStr s => Li [At 4; of_str s]
  | JArr l => Li [At 5; Li (map sx_of_js l)]
  | JObj m => Li [At 6; Li (map (fun kv => match kv with (k, v) => Li [of_str k; sx_of_js v] end) m)]
  end.

Fixpoint sx_of_value (v : value) {struct v} : sexp :=
  match v with
  | VJ j => Li [At 0; sx_of_js j]
  | VArr l => Li [At 1; Li (map sx_of_value l)]
  | VMap m => Li [At 2; Li (map (fun kv => match kv with (k, x) => Li [of_str k; sx_of_value x] end) m)]
  | VModel c fs => Li [At 3; of_str c; Li (map (fun kv => match kv with (k, x) => Li [of_str k; sx_of_value x] end) fs)]
  end.

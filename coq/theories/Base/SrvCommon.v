(** Shared by the server-side properties C08 / C19: request ids with their JSON
    type, response envelopes, the observable outcome of one dispatch, and
    association lists with Python-dict lookup.  Definitions only. *)
From Verif.Base Require Import Prelude.
Open Scope Z_scope.

(** A JSON-RPC id: the JSON type is part of equality (Python: 1 != "1"). *)
Inductive rid : Type :=
| IdInt (z : Z)
| IdStr (s : str).

Definition rid_eqb (a b : rid) : bool :=
  match a, b with
  | IdInt x, IdInt y => x =? y
  | IdStr x, IdStr y => str_eqb x y
  | _, _ => false
  end.

(** A response envelope, as far as the property talks about it. *)
Inductive env : Type :=
| EnvResult (i : rid)
| EnvError (i : rid) (code : Z).

Definition env_id (e : env) : rid :=
  match e with EnvResult i => i | EnvError i _ => i end.

Definition env_eqb (a b : env) : bool :=
  match a, b with
  | EnvResult i, EnvResult j => rid_eqb i j
  | EnvError i c, EnvError j d => rid_eqb i j && (c =? d)
  | _, _ => false
  end.

(** What the caller of [handle_message] observes. *)
Inductive outcome : Type :=
| Raised                (* an exception escaped to the caller *)
| NoResp                (* (None, _) *)
| Junk                  (* a value that is not a (response, session) pair *)
| Resp (e : env).       (* (envelope, _) *)

Definition outcome_eqb (a b : outcome) : bool :=
  match a, b with
  | Raised, Raised | NoResp, NoResp | Junk, Junk => true
  | Resp x, Resp y => env_eqb x y
  | _, _ => false
  end.

(** Python [dict.get] on an association list whose FIRST binding of a key wins
    (registration conses, so the latest registration shadows earlier ones). *)
Fixpoint assoc {A} (k : str) (l : list (str * A)) : option A :=
  match l with
  | [] => None
  | (k', v) :: l' => if str_eqb k k' then Some v else assoc k l'
  end.

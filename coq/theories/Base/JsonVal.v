(** JSON values (C17, reused by C06).  Definitions only.

    Strings are lists of Unicode code points, integers are unbounded [Z],
    floats are an abstract type [F] (an IEEE double on the Python side; the
    bit pattern or the token text on the driver side).  Object members keep
    their order (Python dicts do); duplicate keys are outside the domain. *)
From Verif.Base Require Import Prelude Sexp.
Open Scope Z_scope.

Inductive json (F : Type) : Type :=
| JNull
| JBool (b : bool)
| JInt (z : Z)
| JFloat (f : F)
| JStr (s : str)
| JArr (l : list (json F))
| JObj (m : list (str * json F)).

Arguments JNull {F}.
Arguments JBool {F} b.
Arguments JInt {F} z.
Arguments JFloat {F} f.
Arguments JStr {F} s.
Arguments JArr {F} l.
Arguments JObj {F} m.

(** The 64-bit window of the property text: everything a signed OR an unsigned
    64-bit integer can hold. *)
Definition int64_min : Z := - 9223372036854775808.      (* -2^63 *)
Definition uint64_max : Z := 18446744073709551615.      (* 2^64 - 1 *)
Definition fits64_Z (z : Z) : bool := (int64_min <=? z) && (z <=? uint64_max).

Section WithF.
  Variable F : Type.

  (** every integer inside the value fits in 64 bits *)
  Fixpoint fits64 (v : json F) : bool :=
    match v with
    | JInt z => fits64_Z z
    | JArr l => forallb fits64 l
    | JObj m => forallb (fun kv => fits64 (snd kv)) m
    | _ => true
    end.

  Fixpoint depth (v : json F) : nat :=
    match v with
    | JArr l => S (fold_right (fun x acc => Nat.max (depth x) acc) O l)
    | JObj m => S (fold_right (fun kv acc => Nat.max (depth (snd kv)) acc) O m)
    | _ => O
    end.

  (** number of nodes (every list cell counts one more): fuel bound of the
      reference parser *)
  Fixpoint size (v : json F) : nat :=
    match v with
    | JArr l => S (fold_right (fun x acc => S (size x) + acc)%nat O l)
    | JObj m => S (fold_right (fun kv acc => S (size (snd kv)) + acc)%nat O m)
    | _ => 1%nat
    end.

  Variable feqb : F -> F -> bool.

  Fixpoint json_eqb (a b : json F) {struct a} : bool :=
    match a, b with
    | JNull, JNull => true
    | JBool x, JBool y => Bool.eqb x y
    | JInt x, JInt y => x =? y
    | JFloat x, JFloat y => feqb x y
    | JStr x, JStr y => str_eqb x y
    | JArr x, JArr y =>
        (fix go (x : list (json F)) (y : list (json F)) {struct x} : bool :=
           match x, y with
           | [], [] => true
           | u :: x', w :: y' => json_eqb u w && go x' y'
           | _, _ => false
           end) x y
    | JObj x, JObj y =>
        (fix go (x : list (str * json F)) (y : list (str * json F)) {struct x} : bool :=
           match x, y with
           | [], [] => true
           | (k, u) :: x', (k', w) :: y' => str_eqb k k' && json_eqb u w && go x' y'
           | _, _ => false
           end) x y
    | _, _ => false
    end.
End WithF.

Arguments fits64 {F} v.
Arguments depth {F} v.
Arguments size {F} v.
Arguments json_eqb {F} feqb a b.

(** A Unicode scalar value: a code point that is not a surrogate. *)
Definition is_surrogate (c : Z) : bool := (55296 <=? c) && (c <=? 57343).
Definition is_scalar (c : Z) : bool := (0 <=? c) && (c <=? 1114111) && negb (is_surrogate c).

(** Wire format of a value between harness and driver:
    (0) null, (1 b) bool, (2 z) int, (3 f) float, (4 (cp ...)) string,
    (5 (v ...)) array, (6 ((k v) ...)) object. *)
Section Wire.
  Variable F : Type.
  Variable sx_F : sexp -> F.
  Variable of_F : F -> sexp.

  Fixpoint sx_json (s : sexp) : json F :=
    match s with
    | At _ => JNull
    | Li l =>
        match l with
        | At t :: args =>
            if t =? 1 then JBool (match args with a :: _ => sx_bool a | [] => false end)
            else if t =? 2 then JInt (match args with a :: _ => sx_Z a | [] => 0 end)
            else if t =? 3 then match args with a :: _ => JFloat (sx_F a) | [] => JNull end
            else if t =? 4 then JStr (match args with a :: _ => sx_str a | [] => [] end)
            else if t =? 5 then
              match args with
              | Li vs :: _ => JArr (map sx_json vs)
              | _ => JArr []
              end
            else if t =? 6 then
              match args with
              | Li ms :: _ =>
                  JObj (map (fun kv => match kv with
                                       | Li (k :: v :: _) => (sx_str k, sx_json v)
                                       | _ => ([], JNull)
                                       end) ms)
              | _ => JObj []
              end
            else JNull
        | _ => JNull
        end
    end.

  Fixpoint of_json (v : json F) : sexp :=
    match v with
    | JNull => Li [At 0]
    | JBool b => Li [At 1; of_bool b]
    | JInt z => Li [At 2; At z]
    | JFloat f => Li [At 3; of_F f]
    | JStr s => Li [At 4; of_str s]
    | JArr l => Li [At 5; Li (map of_json l)]
    | JObj m => Li [At 6; Li (map (fun kv => Li [of_str (fst kv); of_json (snd kv)]) m)]
    end.
End Wire.

Arguments sx_json {F} sx_F s.
Arguments of_json {F} of_F v.

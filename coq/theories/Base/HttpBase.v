(** Shared executable definitions of the HTTP group (C11): JSON-RPC ids with
    their JSON type, Python string primitives used by the Streamable HTTP
    transport.  Definitions only. *)
From Verif.Base Require Import Prelude.
Open Scope Z_scope.

(** A JSON-RPC id WITH its JSON type: [7] and ["7"] are different ids. *)
Inductive jid : Type :=
| IdInt (z : Z)
| IdStr (s : str).

Definition jid_eqb (a b : jid) : bool :=
  match a, b with
  | IdInt x, IdInt y => x =? y
  | IdStr x, IdStr y => str_eqb x y
  | _, _ => false
  end.

Definition is_nil {A} (l : list A) : bool := match l with [] => true | _ => false end.
Definition is_none {A} (o : option A) : bool := match o with None => true | _ => false end.

(** Python [s.startswith(p)] *)
Fixpoint starts_with (p s : str) : bool :=
  match p, s with
  | [], _ => true
  | x :: p', y :: s' => (x =? y) && starts_with p' s'
  | _ :: _, [] => false
  end.

(** Python [p in s] *)
Fixpoint contains (p s : str) : bool :=
  match s with
  | [] => starts_with p []
  | _ :: s' => starts_with p s || contains p s'
  end.

(** Python [str.isspace] for one character (the complete Unicode set of CPython 3.12). *)
Definition is_py_space (c : Z) : bool :=
  ((9 <=? c) && (c <=? 13)) || ((28 <=? c) && (c <=? 32)) || (c =? 133) || (c =? 160)
  || (c =? 5760) || ((8192 <=? c) && (c <=? 8202)) || (c =? 8232) || (c =? 8233)
  || (c =? 8239) || (c =? 8287) || (c =? 12288).

Fixpoint lstrip (s : str) : str :=
  match s with
  | [] => []
  | c :: s' => if is_py_space c then lstrip s' else s
  end.

Fixpoint rstrip (s : str) : str :=
  match s with
  | [] => []
  | c :: s' => match rstrip s' with
               | [] => if is_py_space c then [] else [c]
               | r => c :: r
               end
  end.

(** Python [s.strip()] *)
Definition py_strip (s : str) : str := rstrip (lstrip s).

(** Python [s.rstrip("\r")] *)
Fixpoint rstrip_cr (s : str) : str :=
  match s with
  | [] => []
  | c :: s' => match rstrip_cr s' with
               | [] => if c =? 13 then [] else [c]
               | r => c :: r
               end
  end.

(** Python [s.partition(":")]: (before, Some after) at the FIRST colon, (s, None) without one. *)
Fixpoint partition_colon (s : str) : str * option str :=
  match s with
  | [] => ([], None)
  | c :: s' => if c =? 58 then ([], Some s')
               else let '(b, a) := partition_colon s' in (c :: b, a)
  end.

(** Python ["\n".join(l)] *)
Definition join_lf (l : list str) : str :=
  match l with
  | [] => []
  | x :: r => x ++ flat_map (fun y => 10 :: y) r
  end.

(** No line terminator inside. *)
Definition line_safe (s : str) : bool :=
  forallb (fun c => negb (c =? 10) && negb (c =? 13)) s.

Definition opt_list {A} (o : option A) : list A := match o with Some x => [x] | None => [] end.

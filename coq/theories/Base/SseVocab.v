(** Shared vocabulary of the legacy-SSE property (C12): ids with their JSON
    type, abstract messages, the events of one session and what is delivered.
    Definitions only.  Imported by Spec/C12.v (environment assumptions and
    checkers) and Model/SseLegacy.v (the transport). *)
From Verif.Base Require Import Prelude.
Open Scope Z_scope.

(** A JSON-RPC id keeps its JSON type: Python [1 != "1"]. *)
Inductive id := IdInt (z : Z) | IdStr (s : str).

Definition id_eqb (a b : id) : bool :=
  match a, b with
  | IdInt x, IdInt y => x =? y
  | IdStr x, IdStr y => str_eqb x y
  | _, _ => false
  end.

(** Python [str(n)] for an integer: decimal digits, leading [-]. *)
Fixpoint dec_digits (fuel : nat) (n : Z) (acc : str) : str :=
  match fuel with
  | O => acc
  | S f =>
      let acc' := (48 + n mod 10) :: acc in
      if n / 10 =? 0 then acc' else dec_digits f (n / 10) acc'
  end.

Definition dec_of_Z (z : Z) : str :=
  if z <? 0 then 45 :: dec_digits (S (Z.to_nat (Z.log2 (- z)))) (- z) []
  else dec_digits (S (Z.to_nat (Z.log2 z))) z [].

(** The transport keys its pending-future table by [str(id)]. *)
Definition key (i : id) : str :=
  match i with IdInt z => dec_of_Z z | IdStr s => s end.

(** Message kinds the property distinguishes: a response, an error response
    (both terminal for the request bearing their id), a server request, a
    notification, or an object that is none of these ([KOther], e.g. the JSON
    body of an HTTP error page that happens to validate).  [m_tok] stands for
    the rest of the payload. *)
Inductive kind := KRes | KErr (code : Z) | KReq | KNotif | KOther.

Record msg := Msg { m_id : option id; m_kind : kind; m_tok : Z }.

Definition kind_terminal (k : kind) : bool :=
  match k with KRes | KErr _ => true | _ => false end.

(** [m] is a terminal message for request [rid] — same id INCLUDING its JSON type. *)
Definition is_terminal (rid : id) (m : msg) : bool :=
  kind_terminal (m_kind m) &&
  match m_id m with Some i => id_eqb i rid | None => false end.

(** [m] carries an id the transport cannot tell from [rid] ([str(id)] equal). *)
Definition same_key (rid : id) (m : msg) : bool :=
  match m_id m with Some i => str_eqb (key i) (key rid) | None => false end.

(** [m] has a method: a request or a notification of the SERVER's own (ids are per direction: its id says nothing) *)
Definition kind_call (k : kind) : bool := match k with KReq | KNotif => true | _ => false end.

(** [m] bears the key of request [rid] and is not a call of the server's own: only such a message can be meant as
    the answer to [rid]. *)
Definition answer_key (rid : id) (m : msg) : bool := same_key rid m && negb (kind_call (m_kind m)).

(** Body of a POST reply: JSON that validates as a message, JSON that does
    not, or not JSON at all (empty, text, truncated). *)
Inductive body := BMsg (m : msg) | BInvalid | BNotJson.

Inductive post_res := PStatus (code : Z) (b : body) | PExc.

(** What the user writes to the write stream: a message with an id, or without. *)
Inductive cmsg := CReq (i : id) | CNotif.

(** Events of a session after establishment.
    [ESend]    the sender task takes the next message off the write stream;
    [EPost]    the POST in flight completes;
    [ETimeout] the timer of [wait_for(future, timeout)] fires;
    [EWake]    the sender task resumes after its future was resolved;
    [ESse]     the event-stream task handles one message event
               ([None]: the data did not decode to a valid message). *)
Inductive ev :=
| ESend (c : cmsg)
| EPost (p : post_res)
| ETimeout
| EWake
| ESse (m : option msg).

(** Who put a message on the read stream: the event-stream task, at the moment
    it handled the event ([FromSse]); the sender task for something of its own
    — a POST body, a synthesised error ([FromSender]); or the sender task for
    an answer it was handed from the event stream through the pending future
    ([FromHandoff] — the message came from the stream but is delivered when
    the sender runs). *)
Inductive src := FromSse | FromSender | FromHandoff.
Definition out := (src * msg)%type.

Definition kind_eqb (a b : kind) : bool :=
  match a, b with
  | KRes, KRes | KReq, KReq | KNotif, KNotif | KOther, KOther => true
  | KErr x, KErr y => x =? y
  | _, _ => false
  end.

Definition msg_eqb (a b : msg) : bool :=
  option_eqb id_eqb (m_id a) (m_id b) && kind_eqb (m_kind a) (m_kind b) && (m_tok a =? m_tok b).

Definition count_terminals (rid : id) (l : list out) : nat :=
  length (filter (fun o => is_terminal rid (snd o)) l).

(** Code points Python's [str.strip()] removes ([str.isspace]). *)
Definition is_py_space (c : Z) : bool :=
  ((9 <=? c) && (c <=? 13)) || ((28 <=? c) && (c <=? 32)) || (c =? 133) || (c =? 160)
  || (c =? 5760) || ((8192 <=? c) && (c <=? 8202)) || (c =? 8232) || (c =? 8233)
  || (c =? 8239) || (c =? 8287) || (c =? 12288).

Fixpoint lstrip (s : str) : str :=
  match s with
  | c :: s' => if is_py_space c then lstrip s' else s
  | [] => []
  end.

Definition py_strip (s : str) : str := rev (lstrip (rev (lstrip s))).

Fixpoint starts_with (p s : str) : bool :=
  match p, s with
  | [], _ => true
  | x :: p', y :: s' => (x =? y) && starts_with p' s'
  | _ :: _, [] => false
  end.

Fixpoint contains (p s : str) : bool :=
  starts_with p s || match s with [] => false | _ :: s' => contains p s' end.

(** [l] is a subsequence of [m] (same relative order, each element used once). *)
Inductive Subseq {A : Type} : list A -> list A -> Prop :=
| SubNil : Subseq [] []
| SubSkip : forall l m x, Subseq l m -> Subseq l (x :: m)
| SubTake : forall l m x, Subseq l m -> Subseq (x :: l) (x :: m).

(** Result of entering the context, with the virtual time of completion. *)
Inductive enter_res := Live (url : str) (t : Z) | Raise (t : Z).

(** Shared executable definitions: strings as code-point lists, membership,
    lexicographic order.  Definitions only; lemmas about them live in
    Base/PreludeFacts.v so that models still build when a proof breaks. *)
From Coq Require Export ZArith List Bool.
Export ListNotations.
Open Scope Z_scope.

(** A string (or byte string) is the list of its code points (bytes). *)
Definition str := list Z.

Fixpoint str_eqb (a b : str) : bool :=
  match a, b with
  | [], [] => true
  | x :: a', y :: b' => (x =? y) && str_eqb a' b'
  | _, _ => false
  end.

Fixpoint mem_Z (x : Z) (l : list Z) : bool :=
  match l with
  | [] => false
  | y :: l' => (x =? y) || mem_Z x l'
  end.

Fixpoint mem_str (x : str) (l : list str) : bool :=
  match l with
  | [] => false
  | y :: l' => str_eqb x y || mem_str x l'
  end.

(** Code-point lexicographic comparison: Python's [<] on [str]. *)
Fixpoint str_compare (a b : str) : comparison :=
  match a, b with
  | [], [] => Eq
  | [], _ :: _ => Lt
  | _ :: _, [] => Gt
  | x :: a', y :: b' =>
      match x ?= y with
      | Eq => str_compare a' b'
      | c => c
      end
  end.

Definition str_ltb (a b : str) : bool :=
  match str_compare a b with Lt => true | _ => false end.

Definition option_eqb {A} (eqb : A -> A -> bool) (a b : option A) : bool :=
  match a, b with
  | None, None => true
  | Some x, Some y => eqb x y
  | _, _ => false
  end.

Fixpoint list_eqb {A} (eqb : A -> A -> bool) (a b : list A) : bool :=
  match a, b with
  | [], [] => true
  | x :: a', y :: b' => eqb x y && list_eqb eqb a' b'
  | _, _ => false
  end.

(** ASCII helpers used by several models. *)
Definition is_digit (c : Z) : bool := (48 <=? c) && (c <=? 57).
Definition digit_val (c : Z) : Z := c - 48.

(** Python [str.isspace] restricted to ASCII (the correspondence domain). *)
Definition is_ascii_space (c : Z) : bool :=
  (c =? 32) || ((9 <=? c) && (c <=? 13)) || ((28 <=? c) && (c <=? 31)).

(** Split on a separator code point, as Python's [s.split(sep)] for a
    one-character [sep]: always at least one piece. *)
Fixpoint split_on (sep : Z) (s : str) : list str :=
  match s with
  | [] => [[]]
  | c :: s' =>
      if c =? sep then [] :: split_on sep s'
      else match split_on sep s' with
           | [] => [[c]]            (* unreachable: split_on never returns [] *)
           | p :: ps => (c :: p) :: ps
           end
  end.

(** UTF-8 and Python [str.strip] as executable definitions (group stdio: C05/C06).
    Definitions only; lemmas live in Proofs/StdioUtf8.v.

    - [utf8_cp], [utf8_enc], [utf8_encode]: CPython's [str.encode("utf-8")]
      (strict: a lone surrogate raises UnicodeEncodeError -> [None]).
    - [utf8_decode]: CPython's [bytes.decode("utf-8")] (strict: overlong forms,
      surrogates, > U+10FFFF, stray continuation bytes, truncated sequences
      raise UnicodeDecodeError -> [None]), written as a left-to-right automaton.
    - [py_isspace], [strip]: [str.strip()] without argument.
    Tied to CPython by the correspondence runs of C05 (all code points for
    [utf8_cp] and [py_isspace]; seeded + structured byte strings for
    [utf8_decode]). *)
From Verif.Base Require Import Prelude.
Open Scope Z_scope.

Definition bytes := list Z.

(** Unicode scalar value: what a Python [str] element must be for
    [.encode("utf-8")] to succeed. *)
Definition is_scalar (c : Z) : bool :=
  (0 <=? c) && (c <=? 1114111) && negb ((55296 <=? c) && (c <=? 57343)).

Definition utf8_cp (c : Z) : bytes :=
  if c <? 128 then [c]
  else if c <? 2048 then [192 + c / 64; 128 + c mod 64]
  else if c <? 65536 then [224 + c / 4096; 128 + (c / 64) mod 64; 128 + c mod 64]
  else [240 + c / 262144; 128 + (c / 4096) mod 64; 128 + (c / 64) mod 64; 128 + c mod 64].

Definition utf8_enc (s : str) : bytes := flat_map utf8_cp s.

Definition utf8_encode (s : str) : option bytes :=
  if forallb is_scalar s then Some (utf8_enc s) else None.

(** Decoder automaton.  [Pend n acc lo hi]: [n] continuation bytes are still
    due, the next one must lie in [lo, hi] (and always in 0x80..0xBF). *)
Inductive dstate : Type :=
| Idle
| Pend (need : nat) (acc lo hi : Z).

Definition between (lo x hi : Z) : bool := (lo <=? x) && (x <=? hi).

Definition dstep (s : dstate) (b : Z) : option (dstate * list Z) :=
  match s with
  | Idle =>
      if between 0 b 127 then Some (Idle, [b])
      else if between 194 b 223 then Some (Pend 1 (b - 192) 128 191, [])
      else if b =? 224 then Some (Pend 2 0 160 191, [])
      else if b =? 237 then Some (Pend 2 13 128 159, [])
      else if between 225 b 239 then Some (Pend 2 (b - 224) 128 191, [])
      else if b =? 240 then Some (Pend 3 0 144 191, [])
      else if between 241 b 243 then Some (Pend 3 (b - 240) 128 191, [])
      else if b =? 244 then Some (Pend 3 4 128 143, [])
      else None
  | Pend n acc lo hi =>
      if between 128 b 191 && between lo b hi then
        let acc' := acc * 64 + (b - 128) in
        match n with
        | O => None
        | S O => Some (Idle, [acc'])
        | S n' => Some (Pend n' acc' 128 191, [])
        end
      else None
  end.

Fixpoint decode_from (s : dstate) (l : bytes) : option str :=
  match l with
  | [] => match s with Idle => Some [] | Pend _ _ _ _ => None end
  | b :: r =>
      match dstep s b with
      | None => None
      | Some (s', out) =>
          match decode_from s' r with
          | None => None
          | Some t => Some (out ++ t)
          end
      end
  end.

Definition utf8_decode (l : bytes) : option str := decode_from Idle l.

(** [str.isspace] for one code point (Unicode White_Space plus the C0
    separators 0x1C..0x1F, as CPython's [_PyUnicode_IsWhitespace]). *)
Definition py_isspace (c : Z) : bool :=
  between 9 c 13 || between 28 c 32 || (c =? 133) || (c =? 160) || (c =? 5760)
  || between 8192 c 8202 || (c =? 8232) || (c =? 8233) || (c =? 8239) || (c =? 8287)
  || (c =? 12288).

Fixpoint lstrip (s : str) : str :=
  match s with
  | [] => []
  | c :: s' => if py_isspace c then lstrip s' else s
  end.
Definition rstrip (s : str) : str := rev (lstrip (rev s)).
Definition strip (s : str) : str := lstrip (rstrip s).

(** JSON values (C09/C10).  Strings are code-point lists ([str]); an object is an
    association list in wire order (Python dicts cannot repeat a key: theorems
    that need it carry a [NoDup (map fst m)] hypothesis).  JSON has ONE number
    type: [JInt z] is a number with an integral value, [JFloat tok] a number with
    a fractional part, [tok] being Python's [repr] of it (opaque to the model).
    Definitions only. *)
From Verif.Base Require Import Prelude.
Open Scope Z_scope.

Inductive json : Type :=
| JNull
| JBool (b : bool)
| JInt (z : Z)
| JFloat (tok : str)
| JStr (s : str)
| JArr (l : list json)
| JObj (m : list (str * json)).

Fixpoint json_eqb (a b : json) {struct a} : bool :=
  match a, b with
  | JNull, JNull => true
  | JBool x, JBool y => Bool.eqb x y
  | JInt x, JInt y => x =? y
  | JFloat x, JFloat y => str_eqb x y
  | JStr x, JStr y => str_eqb x y
  | JArr x, JArr y =>
      (fix go (x y : list json) {struct x} : bool :=
         match x, y with
         | [], [] => true
         | p :: x', q :: y' => json_eqb p q && go x' y'
         | _, _ => false
         end) x y
  | JObj x, JObj y =>
      (fix go (x y : list (str * json)) {struct x} : bool :=
         match x, y with
         | [], [] => true
         | (k, p) :: x', (k', q) :: y' => str_eqb k k' && json_eqb p q && go x' y'
         | _, _ => false
         end) x y
  | _, _ => false
  end.

Definition is_null (j : json) : bool := match j with JNull => true | _ => false end.

(** First binding of a key (wire order). *)
Fixpoint assoc {A} (k : str) (m : list (str * A)) : option A :=
  match m with
  | [] => None
  | (k', v) :: m' => if str_eqb k k' then Some v else assoc k m'
  end.

Definition has_key {A} (k : str) (m : list (str * A)) : bool :=
  match assoc k m with Some _ => true | None => false end.

Fixpoint mem_json (j : json) (l : list json) : bool :=
  match l with
  | [] => false
  | x :: l' => json_eqb j x || mem_json j l'
  end.

(** Decimal digit strings: Python [s.isdigit()] restricted to ASCII and
    [int(s)] on such a string. *)
Definition all_digits (s : str) : bool :=
  match s with [] => false | _ => forallb is_digit s end.

Definition digits_val (s : str) : Z := fold_left (fun acc c => acc * 10 + digit_val c) s 0.

(** [value.isdigit() or (value.startswith("-") and value[1:].isdigit())] -> [int(value)] *)
Definition int_of_digit_string (s : str) : option Z :=
  if all_digits s then Some (digits_val s)
  else match s with
       | 45 :: s' => if all_digits s' then Some (- digits_val s') else None
       | _ => None
       end.

Fixpoint starts_with (p s : str) : bool :=
  match p, s with
  | [], _ => true
  | x :: p', y :: s' => (x =? y) && starts_with p' s'
  | _ :: _, [] => false
  end.

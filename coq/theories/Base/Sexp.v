(** The wire format between the harness and the executable model: a tiny
    S-expression type.  All per-model decoding/encoding is written in Gallina
    (and therefore type-checked and extracted); the OCaml driver only converts
    text <-> [sexp]. *)
From Verif.Base Require Import Prelude.

Inductive sexp : Type :=
| At (z : Z)
| Li (l : list sexp).

Definition sx_Z (s : sexp) : Z := match s with At z => z | Li _ => 0 end.
Definition sx_list (s : sexp) : list sexp := match s with At _ => [] | Li l => l end.
Definition sx_str (s : sexp) : str := map sx_Z (sx_list s).
Definition sx_bool (s : sexp) : bool := negb (sx_Z s =? 0).
Definition sx_nth (n : nat) (s : sexp) : sexp := nth n (sx_list s) (Li []).
(** option: [Li []] is None, [Li [x]] is Some x *)
Definition sx_opt {A} (f : sexp -> A) (s : sexp) : option A :=
  match s with
  | Li (x :: _) => Some (f x)
  | _ => None
  end.

Definition of_Z (z : Z) : sexp := At z.
Definition of_bool (b : bool) : sexp := At (if b then 1 else 0).
Definition of_str (s : str) : sexp := Li (map At s).
Definition of_list {A} (f : A -> sexp) (l : list A) : sexp := Li (map f l).
Definition of_opt {A} (f : A -> sexp) (o : option A) : sexp :=
  match o with None => Li [] | Some x => Li [f x] end.
Definition of_nat (n : nat) : sexp := At (Z.of_nat n).

(** Tag helper: [Li (At tag :: args)] *)
Definition tagged (tag : Z) (args : list sexp) : sexp := Li (At tag :: args).
Definition sx_tag (s : sexp) : Z := sx_Z (sx_nth 0 s).
Definition sx_arg (n : nat) (s : sexp) : sexp := sx_nth (S n) s.

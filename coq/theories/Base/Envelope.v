(** Types shared by the C02 specification (Spec/C02.v) and the model of the
    envelope code (Model/Envelope.v).  Definitions only.

    A request id keeps its JSON type ([IdInt 1] and [IdStr "1"] differ, as
    Python's [1 != "1"]).  A [view] is what the property compares between the
    emitted message and the parsed one: kind, id, method, params, result, error.
    Python has one value ([None]) for "member absent" and "member null", so the
    three payload positions of a view are plain [json] with [JNull] for both. *)
From Verif.Base Require Import Prelude Json.
Open Scope Z_scope.

Inductive rid : Type := IdInt (z : Z) | IdStr (s : str).

Definition rid_eqb (a b : rid) : bool :=
  match a, b with
  | IdInt x, IdInt y => x =? y
  | IdStr x, IdStr y => str_eqb x y
  | _, _ => false
  end.

Definition json_of_rid (i : rid) : json :=
  match i with IdInt z => JInt z | IdStr s => JStr s end.

(** The id carried by a JSON value: only integers and strings are ids. *)
Definition rid_of_json (j : json) : option rid :=
  match j with
  | JInt z => Some (IdInt z)
  | JStr s => Some (IdStr s)
  | _ => None
  end.

Inductive kind : Type := KReq | KNotif | KRes | KErr.

Definition kind_eqb (a b : kind) : bool :=
  match a, b with
  | KReq, KReq | KNotif, KNotif | KRes, KRes | KErr, KErr => true
  | _, _ => false
  end.

Record view : Type := {
  v_kind : kind;
  v_id : option rid;
  v_method : option str;
  v_params : json;
  v_result : json;
  v_error : json
}.

Definition view_eqb (a b : view) : bool :=
  kind_eqb (v_kind a) (v_kind b)
  && option_eqb rid_eqb (v_id a) (v_id b)
  && option_eqb str_eqb (v_method a) (v_method b)
  && json_eqb (v_params a) (v_params b)
  && json_eqb (v_result a) (v_result b)
  && json_eqb (v_error a) (v_error b).

(** Member names and the version literal. *)
Definition k_jsonrpc : str := [106; 115; 111; 110; 114; 112; 99].   (* "jsonrpc" *)
Definition k_id : str := [105; 100].                                 (* "id" *)
Definition k_method : str := [109; 101; 116; 104; 111; 100].         (* "method" *)
Definition k_params : str := [112; 97; 114; 97; 109; 115].           (* "params" *)
Definition k_result : str := [114; 101; 115; 117; 108; 116].         (* "result" *)
Definition k_error : str := [101; 114; 114; 111; 114].               (* "error" *)
Definition k_code : str := [99; 111; 100; 101].                      (* "code" *)
Definition k_message : str := [109; 101; 115; 115; 97; 103; 101].    (* "message" *)
Definition k_data : str := [100; 97; 116; 97].                       (* "data" *)
Definition v2 : str := [50; 46; 48].                                 (* "2.0" *)

(** [d.get(k)]: the member's value, [JNull] (Python [None]) when absent. *)
Definition field (k : str) (m : list (str * json)) : json :=
  match assoc k m with Some v => v | None => JNull end.

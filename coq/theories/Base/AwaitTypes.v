(** Types shared by the model of send_message (Model/Await.v) and the
    specifications C01 / C07 / C14 / C18 (Spec/*.v). *)
From Verif.Base Require Import Prelude.
Open Scope Z_scope.

(** Request ids keep their JSON type: Python [1 != "1"]. *)
Inductive rid : Type := IdInt (z : Z) | IdStr (s : str).
Definition rid_eqb (a b : rid) : bool :=
  match a, b with
  | IdInt x, IdInt y => x =? y
  | IdStr x, IdStr y => str_eqb x y
  | _, _ => false
  end.

(** Incoming objects on the read stream.  Payloads are opaque tokens. *)
Inductive inmsg : Type :=
| MRes (i : rid) (tok : Z)                  (* response with a result *)
| MErr (i : rid) (code : Z)                 (* response with an error *)
| MReq (i : rid)                            (* server-initiated request: has a method AND an id *)
| MNotif                                    (* notification (no id), not a progress notification *)
| MProg (token_matches : bool) (val : Z)    (* notifications/progress; [val] identifies the notified values *)
| MBatch.                                   (* a list object *)

Inductive outcome : Type :=
| Return (tok : Z)
| RaiseErr (retryable : bool) (code : Z)
| Timeout
| Cancelled.

Record result : Type := {
  r_out : outcome;
  r_end : Z;                 (* completion time *)
  r_req_written : bool;      (* the request was written to the write stream *)
  r_cancel_notifs : Z;       (* number of notifications/cancelled written *)
  r_cb : list Z              (* progress-callback invocations, in order *)
}.


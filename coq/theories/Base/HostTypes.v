(** Vocabulary shared by the C20 specification and the host model: what a
    launch is, what the loader hands back, the error classes, where a
    configuration comes from.  Definitions only. *)
From Verif.Base Require Import Prelude Json Decimal.
Open Scope Z_scope.

(** An environment: variable bindings (a Python dict: keys are unique). *)
Definition envt := list (str * str).

(** What [execve] received: argv (argv[0] = the command) and the environment. *)
Record launch : Type := Launch { l_argv : list str; l_env : envt }.

(** StdioParameters. *)
Record params : Type := Params { p_command : str; p_args : list str; p_env : option envt }.

(** Exception classes, as far as the property distinguishes them. *)
Inductive err : Type :=
| EFileNotFound       (* FileNotFoundError *)
| EJSONDecode         (* json.JSONDecodeError *)
| EValue              (* ValueError (not JSONDecodeError) *)
| EOther.             (* anything else: KeyError, TypeError, AttributeError ... *)

Definition err_eqb (a b : err) : bool :=
  match a, b with
  | EFileNotFound, EFileNotFound | EJSONDecode, EJSONDecode | EValue, EValue | EOther, EOther => true
  | _, _ => false
  end.

(** Where the configuration comes from: no file at that path, a file whose text
    is not JSON, or a file holding this JSON value. *)
Inductive source : Type :=
| SrcMissing
| SrcBadJson
| SrcJson (cfg : json).

(** What a process start looks like from outside: the process was started with
    this argv/environment, and it received an [initialize] request or not. *)
Record proc : Type := Proc { pr_launch : launch; pr_init : bool }.

(** Observation of one run of a launching entry point: the processes it
    started, in start order, and how many connections it reported as
    established (CLI: 1 = success, 0 = failure; runner: the number of stream
    pairs handed to the command function). *)
Record run_obs : Type := RunObs { ro_procs : list proc; ro_connected : Z }.

(** Observation of the loader. *)
Inductive load_obs : Type :=
| Loaded (p : params) (timeout : option dec)
| Raised (e : err).

(** File-format keys. *)
Definition k_mcpServers : str := [109;99;112;83;101;114;118;101;114;115].
Definition k_command : str := [99;111;109;109;97;110;100].
Definition k_args : str := [97;114;103;115].
Definition k_env : str := [101;110;118].
Definition k_timeout : str := [116;105;109;101;111;117;116].

Definition oenv (o : option envt) : envt := match o with Some e => e | None => [] end.

(** "environment absent or empty -> the library's default environment". *)
Definition effective_env (denv cfg : envt) : envt :=
  match cfg with [] => denv | _ :: _ => cfg end.

(** Specification of C08, written from the property text only.

    "For every well-formed incoming request the server-side handler returns
     exactly one response carrying the request's id - a result, or an error with
     -32601 for an unregistered method, -32603 when a handler raises and -32602
     for an unknown tool or resource - and for every notification, registered or
     not, failing or not, it returns no response.  Dispatch never raises to its
     caller, whatever the method name, params shape or handler behaviour."

    The codes are pinned HERE.  A dispatch is judged from (a) whether the
    message carried an id, (b) the SITUATION the message meets in the server
    (which of the property's cases applies) and (c) the observed outcome. *)
From Verif.Base Require Import Prelude SrvCommon.
Open Scope Z_scope.

Definition code_method_not_found : Z := -32601.
Definition code_invalid_params   : Z := -32602.
Definition code_internal_error   : Z := -32603.

(** Which case of the property's table a message meets. *)
Inductive situation : Type :=
| SitUnregistered          (* no handler is registered for the method *)
| SitUnknownTarget         (* tools/call / resources/read that does not name a registered tool / resource *)
| SitRaises                (* the method's handler, or the tool / resource handler it runs, raises *)
| SitReturns               (* a handler of the library; everything it runs returns *)
| SitMalformedParams       (* params is not a JSON object although the method reads it: not a well-formed request;
                              only "one response with the id" and "never raises" are demanded *)
| SitCustomAnswers (e : env)   (* a method handler registered by the application returns envelope [e] *)
| SitCustomSilent          (* ... returns (None, _) *)
| SitCustomJunk.           (* ... returns something that is not a (response, session) pair *)

(** The contract the application's own method handlers are held to (pinned by
    tests/mcp/server/test_protocol_handler.py::test_handler_returning_none: the
    dispatcher passes a handler's (response, session) through unchanged, None
    included): answer a request with an envelope carrying its id, answer a
    notification with None, or raise. *)
Definition contract_ok (i : option rid) (s : situation) : bool :=
  match s, i with
  | SitCustomAnswers e, Some j => rid_eqb (env_id e) j
  | SitCustomAnswers _, None => false
  | SitCustomSilent, Some _ => false
  | SitCustomSilent, None => true
  | SitCustomJunk, _ => false
  | _, _ => true
  end.

(** ---- declarative specification ---- *)

(** a request with id [i] meeting situation [s] *)
Definition Spec_request (i : rid) (s : situation) (o : outcome) : Prop :=
  match s with
  | SitUnregistered   => o = Resp (EnvError i code_method_not_found)
  | SitUnknownTarget  => o = Resp (EnvError i code_invalid_params)
  | SitRaises         => o = Resp (EnvError i code_internal_error)
  | SitReturns        => o = Resp (EnvResult i)
  | SitMalformedParams => exists e, o = Resp e /\ env_id e = i
  | SitCustomAnswers e => o = Resp e /\ env_id e = i
  | SitCustomSilent | SitCustomJunk => False     (* excluded by the contract *)
  end.

Definition Spec_notification (o : outcome) : Prop := o = NoResp.

Definition Spec_never_raises (o : outcome) : Prop := o <> Raised.

(** ---- boolean checkers (extracted; applied to the IMPLEMENTATION's outcome) ---- *)

Definition request_ok (i : rid) (s : situation) (o : outcome) : bool :=
  match s with
  | SitUnregistered   => outcome_eqb o (Resp (EnvError i code_method_not_found))
  | SitUnknownTarget  => outcome_eqb o (Resp (EnvError i code_invalid_params))
  | SitRaises         => outcome_eqb o (Resp (EnvError i code_internal_error))
  | SitReturns        => outcome_eqb o (Resp (EnvResult i))
  | SitMalformedParams => match o with Resp e => rid_eqb (env_id e) i | _ => false end
  | SitCustomAnswers e => outcome_eqb o (Resp e) && rid_eqb (env_id e) i
  | SitCustomSilent | SitCustomJunk => false
  end.

Definition notification_ok (o : outcome) : bool :=
  match o with NoResp => true | _ => false end.

Definition never_raises_ok (o : outcome) : bool :=
  match o with Raised => false | _ => true end.

(** Specification of C06, written from the property text only (imports Base
    only).

    "Every message accepted on the stdio write stream ... reaches the child as
    exactly one newline-terminated line of UTF-8 JSON, in the order sent ...;
    no raw line break ever appears inside a line.  A message that cannot be
    serialised is dropped alone, later messages are still delivered, and
    closing the write stream closes the child's stdin." *)
From Verif.Base Require Import Prelude.
Open Scope Z_scope.

(** a raw line break: LF or CR *)
Definition is_break (b : Z) : bool := (b =? 10) || (b =? 13).
Definition no_break (l : list Z) : Prop := ~ In 10 l /\ ~ In 13 l.

(** The child's stdin received exactly the lines [ls], each newline-terminated,
    none containing a raw line break. *)
Definition framed (ls : list (list Z)) : list Z := flat_map (fun l => l ++ [10]) ls.
Definition Spec_stream (ls : list (list Z)) (out : list Z) : Prop :=
  out = framed ls /\ Forall no_break ls.

(** one write = one line *)
Definition Spec_one_line (w : list Z) : Prop := exists body, w = body ++ [10] /\ no_break body.

(** ---- boolean oracle applied to the bytes the IMPLEMENTATION produced ---- *)

Fixpoint frame (s : list Z) : list (list Z) * list Z :=
  match s with
  | [] => ([], [])
  | c :: s' =>
      let (ls, r) := frame s' in
      if c =? 10 then ([] :: ls, r)
      else match ls with
           | [] => ([], c :: r)
           | l :: ls' => ((c :: l) :: ls', r)
           end
  end.

(** [Some ls]: the stream is exactly the lines [ls], each LF-terminated, with
    no CR anywhere and nothing after the last LF. *)
Definition stream_lines (out : list Z) : option (list (list Z)) :=
  let (ls, r) := frame out in
  match r with
  | [] => if mem_Z 13 out then None else Some ls
  | _ => None
  end.

Definition stream_ok (n : Z) (out : list Z) : bool :=
  match stream_lines out with
  | Some ls => Z.of_nat (length ls) =? n
  | None => false
  end.

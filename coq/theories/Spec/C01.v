(** Specification of C01, from the property text: a request completes with the
    payload of the FIRST incoming response (a message without a method) whose
    id equals its own — and with nothing else; exactly one request is written;
    if no such response arrives before the deadline the call times out. *)
From Verif.Base Require Import Prelude AwaitTypes.
Open Scope Z_scope.

(** "a response whose id equals the id it sent": results and errors only —
    never a server request, a notification or a batch, and ids compare with
    their JSON type. *)
Definition is_answer (me : rid) (m : inmsg) : bool :=
  match m with
  | MRes i _ => rid_eqb i me
  | MErr i _ => rid_eqb i me
  | _ => false
  end.

Fixpoint first_answer (me : rid) (l : list (Z * inmsg)) : option (Z * inmsg) :=
  match l with
  | [] => None
  | (a, m) :: l' => if is_answer me m then Some (a, m) else first_answer me l'
  end.

Definition out_matches (m : inmsg) (o : outcome) : bool :=
  match m, o with
  | MRes _ tok, Return tok' => tok =? tok'
  | MErr _ code, RaiseErr _ code' => code =? code'
  | _, _ => false
  end.

Definition is_timeout (o : outcome) : bool := match o with Timeout => true | _ => false end.
Definition is_cancelled (o : outcome) : bool := match o with Cancelled => true | _ => false end.

(** Observation [r] of a call made at [t0] with absolute deadline [D], no
    cancellation token, under arrival history [arrivals] (queue order). *)
Definition c01_ok (t0 D : Z) (me : rid) (arrivals : list (Z * inmsg)) (r : result) : bool :=
  r_req_written r && (r_cancel_notifs r =? 0) &&
  match first_answer me arrivals with
  | Some (a, m) =>
      let a' := Z.max t0 a in
      if a' <? D then out_matches m (r_out r)
      else if a' =? D then out_matches m (r_out r) || is_timeout (r_out r)   (* exact tie with the deadline *)
      else is_timeout (r_out r)
  | None => is_timeout (r_out r)
  end &&
  (if is_timeout (r_out r) then r_end r =? D else r_end r <=? D).

(** C12 — specification, written from the property text only.

    "Entering the SSE client context either yields a connection on which the
    server has announced its message endpoint or raises within the configured
    timeout; it never yields a dead connection.  Once connected, each request
    produces exactly one terminal message with its id whether the answer comes
    in the POST reply, on the event stream before or after the 202
    acknowledgement, never (synthesised timeout error) or the POST fails;
    server messages on the event stream are delivered once and in order,
    independent of how the stream is chunked, and leaving the context releases
    every task, stream and HTTP client."

    Imports Base only. *)
From Verif.Base Require Import Prelude SseVocab.
Open Scope Z_scope.

(* ------------------------------------------------------------------ *)
(** * Establishment                                                    *)
(* ------------------------------------------------------------------ *)
(** [announced]: the time at which the server announced a (non-empty) message
    endpoint, in any form the SSE format accepts, on a 200 stream it opened in
    time — [None] if it never did (error status, connect error, silent or
    closed stream).  [obs]: what entering the context did. *)
Definition Spec_enter (timeout : Z) (announced : option Z) (obs : enter_res) : Prop :=
  match obs with
  | Live u t => u <> [] /\ exists ta, announced = Some ta /\ ta <= t
  | Raise t => t <= timeout /\ forall ta, announced = Some ta -> timeout <= ta
  end.

Definition enter_ok (timeout : Z) (announced : option Z) (obs : enter_res) : bool :=
  match obs with
  | Live u t =>
      match u with [] => false | _ :: _ => true end
      && match announced with Some ta => ta <=? t | None => false end
  | Raise t =>
      (t <=? timeout) && match announced with Some ta => timeout <=? ta | None => true end
  end.

(* ------------------------------------------------------------------ *)
(** * One request                                                      *)
(* ------------------------------------------------------------------ *)
Definition Spec_one_terminal (rid : id) (delivered : list msg) : Prop :=
  length (filter (is_terminal rid) delivered) = 1%nat.

Definition terminal_ok (rid : id) (delivered : list msg) : bool :=
  Nat.eqb (length (filter (is_terminal rid) delivered)) 1.

(** The environment of one request, from the property's list of modes: the
    POST completes exactly once; the server answers at most once on the event
    stream, with the request's own id, and not after the request's life is
    over (202-and-silence means NEVER); a 200 reply carries the answer or is
    not JSON; everything else on the stream is unrelated traffic.  [sched_ok]
    accepts a schedule (the events that follow the request being taken off the
    write stream) iff it is such a life, complete. *)
Inductive phase := PhPosted | PhAnswered | PhAcked | PhAnsweredAcked | PhDone.

Definition body_ok_200 (rid : id) (b : body) : bool :=
  match b with BMsg m => is_terminal rid m | BInvalid => false | BNotJson => true end.

(** any other status: whatever the body; if it looks like this request's answer it must really be it *)
Definition body_ok_other (rid : id) (b : body) : bool :=
  match b with BMsg m => implb (kind_terminal (m_kind m) && same_key rid m) (is_terminal rid m) | _ => true end.

Definition post_phase (rid : id) (p : post_res) : option phase :=
  match p with
  | PExc => Some PhDone
  | PStatus code b =>
      if code =? 202 then Some PhAcked
      else if code =? 200 then (if body_ok_200 rid b then Some PhDone else None)
      else (if body_ok_other rid b then Some PhDone else None)
  end.

Definition phase_step (rid : id) (ph : phase) (e : ev) : option phase :=
  match e with
  | ESend _ => None                                   (* one request's life *)
  | ESse None => Some ph
  | ESse (Some m) =>
      if same_key rid m then
        (if is_terminal rid m then
           match ph with PhPosted => Some PhAnswered | PhAcked => Some PhAnsweredAcked | _ => None end
         else None)
      else Some ph
  | EPost p =>
      match ph with
      | PhPosted => post_phase rid p
      | PhAnswered => match post_phase rid p with Some _ => Some PhDone | None => None end
      | _ => None
      end
  | ETimeout => match ph with PhAcked | PhAnsweredAcked => Some PhDone | _ => Some ph end
  | EWake => match ph with PhAnsweredAcked => Some PhDone | _ => Some ph end
  end.

Fixpoint phase_run (rid : id) (ph : phase) (evs : list ev) : option phase :=
  match evs with
  | [] => Some ph
  | e :: r => match phase_step rid ph e with Some ph' => phase_run rid ph' r | None => None end
  end.

Definition sched_ok (rid : id) (evs : list ev) : bool :=
  match phase_run rid PhPosted evs with Some PhDone => true | _ => false end.

(** The same WITHOUT "not after the request's life is over": a late answer is
    allowed once the request is done (used to state the full-strength claim
    that the code does not meet). *)
Definition phase_step_late (rid : id) (ph : phase) (e : ev) : option phase :=
  match e, ph with
  | ESse (Some m), PhDone => if is_terminal rid m || negb (same_key rid m) then Some PhDone else None
  | _, _ => phase_step rid ph e
  end.

Fixpoint phase_run_late (rid : id) (ph : phase) (evs : list ev) : option phase :=
  match evs with
  | [] => Some ph
  | e :: r => match phase_step_late rid ph e with Some ph' => phase_run_late rid ph' r | None => None end
  end.

Definition sched_ok_late (rid : id) (evs : list ev) : bool :=
  match phase_run_late rid PhPosted evs with Some PhDone => true | _ => false end.

(* ------------------------------------------------------------------ *)
(** * Server messages on the event stream                              *)
(* ------------------------------------------------------------------ *)
(** [sent]: the valid messages the server put on the event stream, in order;
    [delivered]: what reached the read stream from it. *)
Definition Spec_in_order_once (sent delivered : list msg) : Prop := delivered = sent.

Definition order_ok (sent delivered : list msg) : bool := list_eqb msg_eqb sent delivered.

(* ------------------------------------------------------------------ *)
(** * Leaving the context                                              *)
(* ------------------------------------------------------------------ *)
(** Observation after the context was left (or entering failed): tasks of the
    transport still alive, HTTP clients not closed, event-stream responses not
    closed, memory send-streams not closed. *)
Record leftovers := Left { lo_tasks : Z; lo_clients : Z; lo_streams : Z; lo_mem : Z }.

Definition Spec_released (l : leftovers) : Prop :=
  lo_tasks l = 0 /\ lo_clients l = 0 /\ lo_streams l = 0 /\ lo_mem l = 0.

Definition released_ok (l : leftovers) : bool :=
  (lo_tasks l =? 0) && (lo_clients l =? 0) && (lo_streams l =? 0) && (lo_mem l =? 0).

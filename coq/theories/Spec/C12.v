(** C12 — specification, written from the property text only.

    "Entering the SSE client context either yields a connection on which the
    server has announced its message endpoint or raises within the configured
    timeout; it never yields a dead connection.  Once connected, each request
    produces exactly one terminal message with its id whether the answer comes
    in the POST reply, on the event stream before or after the 202
    acknowledgement, never (synthesised timeout error) or the POST fails;
    server messages on the event stream are delivered once and in order,
    independent of how the stream is chunked, and leaving the context releases
    every task, stream and HTTP client."

    Imports Base only. *)
From Verif.Base Require Import Prelude SseVocab.
Open Scope Z_scope.

(* ------------------------------------------------------------------ *)
(** * Establishment                                                    *)
(* ------------------------------------------------------------------ *)
(** [announced]: the time at which the server announced a (non-empty) message
    endpoint, in any form the SSE format accepts, on a 200 stream it opened in
    time — [None] if it never did (error status, connect error, silent or
    closed stream).  [obs]: what entering the context did. *)
Definition Spec_enter (timeout : Z) (announced : option Z) (obs : enter_res) : Prop :=
  match obs with
  | Live u t => u <> [] /\ exists ta, announced = Some ta /\ ta <= t
  | Raise t => t <= timeout /\ forall ta, announced = Some ta -> timeout <= ta
  end.

Definition enter_ok (timeout : Z) (announced : option Z) (obs : enter_res) : bool :=
  match obs with
  | Live u t =>
      match u with [] => false | _ :: _ => true end
      && match announced with Some ta => ta <=? t | None => false end
  | Raise t =>
      (t <=? timeout) && match announced with Some ta => timeout <=? ta | None => true end
  end.

(* ------------------------------------------------------------------ *)
(** * One request                                                      *)
(* ------------------------------------------------------------------ *)
Definition Spec_one_terminal (rid : id) (delivered : list msg) : Prop :=
  length (filter (is_terminal rid) delivered) = 1%nat.

Definition terminal_ok (rid : id) (delivered : list msg) : bool :=
  Nat.eqb (length (filter (is_terminal rid) delivered)) 1.

(** The environment of one request, from the property's list of modes: the
    POST completes exactly once; the server answers at most once on the event
    stream, with the request's own id, and not after the request's life is
    over (202-and-silence means NEVER); a 200 reply carries the answer or is
    not JSON; everything else on the stream is unrelated traffic - also a
    request or notification of the server's own that happens to bear the
    request's id ([answer_key]: ids are per direction).  [sched_ok]
    accepts a schedule (the events that follow the request being taken off the
    write stream) iff it is such a life, complete. *)
Inductive phase := PhPosted | PhAnswered | PhAcked | PhAnsweredAcked | PhDone.

Definition body_ok_200 (rid : id) (b : body) : bool :=
  match b with BMsg m => is_terminal rid m | BInvalid => false | BNotJson => true end.

(** any other status: whatever the body; if it looks like this request's answer it must really be it *)
Definition body_ok_other (rid : id) (b : body) : bool :=
  match b with BMsg m => implb (kind_terminal (m_kind m) && same_key rid m) (is_terminal rid m) | _ => true end.

Definition post_phase (rid : id) (p : post_res) : option phase :=
  match p with
  | PExc => Some PhDone
  | PStatus code b =>
      if code =? 202 then Some PhAcked
      else if code =? 200 then (if body_ok_200 rid b then Some PhDone else None)
      else (if body_ok_other rid b then Some PhDone else None)
  end.

Definition phase_step (rid : id) (ph : phase) (e : ev) : option phase :=
  match e with
  | ESend _ => None                                   (* one request's life *)
  | ESse None => Some ph
  | ESse (Some m) =>
      if answer_key rid m then
        (if is_terminal rid m then
           match ph with PhPosted => Some PhAnswered | PhAcked => Some PhAnsweredAcked | _ => None end
         else None)
      else Some ph                                      (* unrelated: also a request of the server's own bearing the same id *)
  | EPost p =>
      match ph with
      | PhPosted => post_phase rid p
      | PhAnswered => match post_phase rid p with Some _ => Some PhDone | None => None end
      | _ => None
      end
  | ETimeout => match ph with PhAcked | PhAnsweredAcked => Some PhDone | _ => Some ph end
  | EWake => match ph with PhAnsweredAcked => Some PhDone | _ => Some ph end
  end.

Fixpoint phase_run (rid : id) (ph : phase) (evs : list ev) : option phase :=
  match evs with
  | [] => Some ph
  | e :: r => match phase_step rid ph e with Some ph' => phase_run rid ph' r | None => None end
  end.

Definition sched_ok (rid : id) (evs : list ev) : bool :=
  match phase_run rid PhPosted evs with Some PhDone => true | _ => false end.

(** The same WITHOUT "not after the request's life is over": the server's one
    answer on the event stream may also come LATE, after the request has had
    its terminal message (the synthesised timeout error, the error for a
    failed POST) — the full-strength environment.  "At most once" is carried
    through the whole life: the state remembers whether the server has already
    given its answer (on the stream, or in the body of the POST reply); once it
    has, no further answer appears on the stream. *)
Definition late_state := (phase * bool)%type.

(** the POST reply carries the answer (a 202 is only an acknowledgement) *)
Definition post_answers (rid : id) (p : post_res) : bool :=
  match p with
  | PStatus code (BMsg m) => negb (code =? 202) && is_terminal rid m
  | _ => false
  end.

Definition late_step (rid : id) (s : late_state) (e : ev) : option late_state :=
  match e with
  | ESse (Some m) =>
      if answer_key rid m then
        (if is_terminal rid m && negb (snd s) then
           match fst s with
           | PhPosted => Some (PhAnswered, true)
           | PhAcked => Some (PhAnsweredAcked, true)
           | PhDone => Some (PhDone, true)                  (* the late answer *)
           | _ => None
           end
         else None)
      else Some s
  | EPost p =>
      match phase_step rid (fst s) e with
      | Some ph' => Some (ph', snd s || post_answers rid p)
      | None => None
      end
  | _ => match phase_step rid (fst s) e with Some ph' => Some (ph', snd s) | None => None end
  end.

Fixpoint late_run (rid : id) (s : late_state) (evs : list ev) : option late_state :=
  match evs with
  | [] => Some s
  | e :: r => match late_step rid s e with Some s' => late_run rid s' r | None => None end
  end.

Definition late_init : late_state := (PhPosted, false).

Definition sched_ok_late (rid : id) (evs : list ev) : bool :=
  match late_run rid late_init evs with Some (PhDone, _) => true | _ => false end.

(** What is due on the read stream FROM THE EVENT STREAM during such a life:
    every valid message, in stream order — except the late answer: the request
    has had its terminal message, a second one must not be delivered. *)
Definition is_done (ph : phase) : bool := match ph with PhDone => true | _ => false end.

Fixpoint stream_due (rid : id) (s : late_state) (evs : list ev) : list msg :=
  match evs with
  | [] => []
  | e :: r =>
      match e with
      | ESse (Some m) => if answer_key rid m && is_done (fst s) then [] else [m]
      | _ => []
      end ++
      match late_step rid s e with Some s' => stream_due rid s' r | None => [] end
  end.

(* ------------------------------------------------------------------ *)
(** * Server messages on the event stream                              *)
(* ------------------------------------------------------------------ *)
(** [sent]: the valid messages the server put on the event stream, in order;
    [delivered]: what reached the read stream from it. *)
Definition Spec_in_order_once (sent delivered : list msg) : Prop := delivered = sent.

Definition order_ok (sent delivered : list msg) : bool := list_eqb msg_eqb sent delivered.

(* ------------------------------------------------------------------ *)
(** * Leaving the context                                              *)
(* ------------------------------------------------------------------ *)
(** Observation after the context was left (or entering failed): tasks of the
    transport still alive, HTTP clients not closed, event-stream responses not
    closed, memory send-streams not closed. *)
Record leftovers := Left { lo_tasks : Z; lo_clients : Z; lo_streams : Z; lo_mem : Z }.

Definition Spec_released (l : leftovers) : Prop :=
  lo_tasks l = 0 /\ lo_clients l = 0 /\ lo_streams l = 0 /\ lo_mem l = 0.

Definition released_ok (l : leftovers) : bool :=
  (lo_tasks l =? 0) && (lo_clients l =? 0) && (lo_streams l =? 0) && (lo_mem l =? 0).

(** C09 -- specification, from the property text only.

    An observation of one back end on one input is the JSON object
    {"ok": bool, "typed": value with the class of every model instance, "dump":
    model_dump(by_alias=True, exclude_none=True)} (members sorted by the
    harness).  The property: on spec-valid input both back ends accept and their
    observations are the same JSON value (so ids keep their JSON type and
    discriminated content keeps its variant); on the documented invalid inputs
    of an invariant both reject or both accept with the same observation. *)
From Verif.Base Require Import Prelude Json.
Open Scope Z_scope.

(** Constants named by the property text. *)
Definition root_uri_prefix : str := [102; 105; 108; 101; 58; 47; 47].     (* "file://" *)
Definition max_completion_values : Z := 100.

Definition k_ok : str := [111; 107].

Definition accepted (obs : json) : bool :=
  match obs with
  | JObj m => match assoc k_ok m with Some (JBool true) => true | _ => false end
  | _ => false
  end.

Definition Spec_agree (valid : bool) (pyd fbk : json) : Prop :=
  pyd = fbk /\ (valid = true -> accepted pyd = true).

Definition agree_ok (valid : bool) (pyd fbk : json) : bool :=
  json_eqb pyd fbk && (negb valid || accepted pyd).

(** C15 — specification, written from the property text only.

    "The same server conversation produces the same sequence of messages on the
    read stream and the same results and errors from the request helpers
    whether it is carried over stdio, Streamable HTTP with JSON bodies,
    Streamable HTTP with SSE bodies or the legacy SSE transport.  Payload text
    of any Unicode content, ids and the relative order of notifications and
    responses are not altered by the carrier."

    1. A conversation and its canonical transcript.
    2. How a (conformant) SERVER puts a conversation on each carrier: the wire
       framings, with every encoding choice the formats leave open.
    3. The judgement applied to observed transcripts.

    Imports Base and the SSE encoder of Spec/C11 (itself Base only). *)
From Verif.Base Require Import Prelude StdioUtf8 Json.
From Verif.Base Require HttpBase.
From Verif.Spec Require C11.
Open Scope Z_scope.

(* ------------------------------------------------------------------ *)
(** * 1. Conversations                                                  *)
(* ------------------------------------------------------------------ *)
(** One server step: what the server sends because of one request —
    0..n notifications, then the response.  A message is the text of a JSON
    object on one line (what every carrier frames). *)
Record sstep : Type := { s_notifs : list str; s_answer : str }.
Definition step_msgs (s : sstep) : list str := s_notifs s ++ [s_answer s].
Definition conv : Type := list sstep.
(** The canonical transcript: every message, in the order the server sent them. *)
Definition canonical (c : conv) : list str := flat_map step_msgs c.

(** Admissible message texts: a single-line JSON object text ("{" ... "}", no
    CR/LF inside — JSON escapes them) made of Unicode scalar values. *)
Definition msg_ok (m : str) : bool := C11.msg_ok m && forallb is_scalar m.
Definition conv_ok (c : conv) : bool := forallb msg_ok (canonical c).

(* ------------------------------------------------------------------ *)
(** * 2. Server-side framings                                           *)
(* ------------------------------------------------------------------ *)
(** stdio (NDJSON): one message per line, UTF-8, LF or CRLF per line. *)
Definition stdio_line (crlf : bool) (m : str) : bytes :=
  utf8_enc m ++ (if crlf then [13; 10] else [10]).
Definition stdio_frame (l : list (bool * str)) : bytes :=
  flat_map (fun cm => stdio_line (fst cm) (snd cm)) l.

(** Streamable HTTP, SSE body: the encoder of Spec/C11 with all its choices. *)
Definition http_sse_frame (l : list (C11.enc_choice * str)) : str := C11.sse_encode l.

(** Streamable HTTP, JSON body: the response object itself when the step has
    no notification, otherwise a JSON array of the step's messages. *)
Definition json_array_text (ms : list str) : str :=
  match ms with
  | [] => [91; 93]
  | m :: r => 91 :: m ++ flat_map (fun x => 44 :: x) r ++ [93]
  end.
Definition http_json_body (s : sstep) : str :=
  match s_notifs s with
  | [] => s_answer s
  | _ :: _ => json_array_text (step_msgs s)
  end.

(** Legacy SSE: message events on the long-lived stream.  The legacy wire
    format always names the event ("event: message"); the choices left open
    are comment lines before the event, the optional space after the colons,
    LF or CRLF, and extra blank lines. *)
Record lchoice : Type := {
  lc_comments : list str;   (* ":" ++ s lines before the event *)
  lc_space : bool;
  lc_crlf : bool;
  lc_blanks : nat
}.
Definition lsp (c : lchoice) : str := if lc_space c then [32] else [].
Definition leol (c : lchoice) : str := if lc_crlf c then [13; 10] else [10].
Definition levent_lines (c : lchoice) (m : str) : list str :=
  map (fun s => 58 :: s) (lc_comments c)
  ++ [C11.k_event ++ lsp c ++ C11.v_message; C11.k_data ++ lsp c ++ m; []]
  ++ repeat [] (lc_blanks c).
Definition legacy_event (c : lchoice) (m : str) : str :=
  flat_map (fun l => l ++ leol c) (levent_lines c m).
Definition legacy_frame (l : list (lchoice * str)) : str :=
  flat_map (fun cm => legacy_event (fst cm) (snd cm)) l.
Definition lchoice_ok (c : lchoice) : bool := forallb HttpBase.line_safe (lc_comments c).

(* ------------------------------------------------------------------ *)
(** * 3. Judging observed transcripts                                   *)
(* ------------------------------------------------------------------ *)
(** A normalised transcript entry as the harness records it from a read
    stream: the delivered message as a JSON value (object members in a
    canonical order).  Helper outcomes are recorded the same way
    ({"result": ...} / {"error": code}). *)
Definition transcript : Type := list json.

Fixpoint transcript_eqb (a b : transcript) : bool :=
  match a, b with
  | [], [] => true
  | x :: a', y :: b' => json_eqb x y && transcript_eqb a' b'
  | _, _ => false
  end.

(** [Spec_agree canon obs]: every carrier's transcript is the canonical one. *)
Definition Spec_agree (canon : transcript) (obs : list transcript) : Prop :=
  Forall (fun t => t = canon) obs.
Definition agree_ok (canon : transcript) (obs : list transcript) : bool :=
  forallb (transcript_eqb canon) obs.

(** Index of the first carrier that differs (for the replay), if any. *)
Fixpoint first_differing (canon : transcript) (obs : list transcript) (i : Z) : option Z :=
  match obs with
  | [] => None
  | t :: r => if transcript_eqb canon t then first_differing canon r (i + 1) else Some i
  end.

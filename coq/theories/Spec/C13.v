(** Specification of C13, written from the property text only (imports nothing
    generated from the code).  The cutoff 2025-06-18 is pinned HERE. *)
From Verif.Base Require Import Prelude Sexp.
Open Scope Z_scope.

Definition cutoff_str : str := [50;48;50;53;45;48;54;45;49;56].   (* "2025-06-18" *)

(** "well-formed version string": ASCII dddd-dd-dd *)
Definition well_formed (s : str) : bool :=
  match s with
  | [a; b; c; d; h1; e; f; h2; g; h] =>
      is_digit a && is_digit b && is_digit c && is_digit d && (h1 =? 45)
      && is_digit e && is_digit f && (h2 =? 45) && is_digit g && is_digit h
  | _ => false
  end.

(** What the property demands of the batching decision for version [v]:
    [Some b] = must be [b]; [None] = the property does not constrain it. *)
Definition demanded (v : option str) : option bool :=
  match v with
  | None => Some true
  | Some s => if well_formed s then Some (str_ltb s cutoff_str) else None
  end.

Definition decision_ok (v : option str) (observed : bool) : bool :=
  match demanded v with
  | None => true
  | Some b => Bool.eqb b observed
  end.

(** Transport behaviour.  An observation of one decoded line under a recorded
    mode: which members were delivered (by index) and how many rejection
    errors with which code were written back. *)
Record batch_obs : Type := {
  bo_enabled_demanded : bool;       (* demanded mode for the negotiated version *)
  bo_valid : list bool;             (* validity of each member, in order *)
  bo_delivered : list Z;            (* indices of delivered members, in order *)
  bo_error_codes : list Z           (* codes of the errors written back *)
}.

Fixpoint valid_indices (i : Z) (l : list bool) : list Z :=
  match l with
  | [] => []
  | b :: l' => if b then i :: valid_indices (i + 1) l' else valid_indices (i + 1) l'
  end.

Definition batch_ok (o : batch_obs) : bool :=
  if bo_enabled_demanded o
  then list_eqb Z.eqb (bo_delivered o) (valid_indices 0 (bo_valid o))
       && list_eqb Z.eqb (bo_error_codes o) []
  else list_eqb Z.eqb (bo_delivered o) []
       && list_eqb Z.eqb (bo_error_codes o) [(-32600)].

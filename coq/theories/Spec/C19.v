(** Specification of C19, written from the property text only.

    "Session ids are unique, every successful initialize creates exactly one
     session recording the client's info and the answered version, and lookups,
     activity updates, deletions and expiry behave like a simple map from id to
     timestamped record: expiry removes exactly the sessions idle for longer than
     the limit and nothing else.  Listing returns a copy of the map, so adding or
     removing entries in it does not change the store."

    The reference is a SIMPLE MAP: a function  id -> option record.  Each
    operation is specified by what the map is afterwards (pointwise) and what
    the operation returns.  Time is an explicit integer argument. *)
From Verif.Base Require Import Prelude.
Open Scope Z_scope.

(** A session record.  Client info and metadata are opaque tokens (the property
    only needs "the client's info" to be recorded unchanged). *)
Record rec : Type := {
  r_client : Z;
  r_version : str;
  r_created : Z;
  r_last : Z;
  r_meta : Z
}.

Definition rec_eqb (a b : rec) : bool :=
  (r_client a =? r_client b) && str_eqb (r_version a) (r_version b) && (r_created a =? r_created b)
  && (r_last a =? r_last b) && (r_meta a =? r_meta b).

Definition set_last (now : Z) (r : rec) : rec :=
  {| r_client := r_client r; r_version := r_version r; r_created := r_created r; r_last := now; r_meta := r_meta r |}.

(** "idle for longer than the limit": STRICTLY longer; idle = limit stays. *)
Definition expired (now max_age : Z) (r : rec) : bool := now - r_last r >? max_age.

(** the protocolVersion field of an initialize request *)
Inductive vreq : Type :=
| VAbsent
| VStr (s : str)
| VOther.          (* null, number, array, object *)

Section Spec.
  Variable sid : Type.
  Variable sid_eqb : sid -> sid -> bool.

  Inductive op : Type :=
  | OCreate (client : Z) (version : str) (meta : Z)
  | OGet (s : sid)
  | OTouch (s : sid)                       (* update_activity *)
  | ODelete (s : sid)
  | OCleanup (max_age : Z)                 (* cleanup_expired *)
  | OList                                  (* list_sessions; the caller then adds / removes entries in what it got *)
  | OCount
  | OClear
  | OInitialize (with_id : bool) (client : Z) (v : vreq) (session : option sid)
                                           (* handle_message(initialize, session_id) *)
  | ORequest (has_method : bool) (session : option sid).
                                           (* handle_message(any other message, session_id) *)

  Inductive out : Type :=
  | OutId (s : sid)
  | OutRec (r : option rec)
  | OutBool (b : bool)
  | OutCount (n : Z)
  | OutListing (l : list (sid * rec))
  | OutInit (version : str) (s : sid)      (* the version IN THE RESPONSE and the returned session id *)
  | OutNone.

  (** ---- the simple map ---- *)
  Definition amap := sid -> option rec.

  Definition a_set (m : amap) (k : sid) (r : rec) : amap :=
    fun k' => if sid_eqb k' k then Some r else m k'.
  Definition a_del (m : amap) (k : sid) : amap :=
    fun k' => if sid_eqb k' k then None else m k'.
  Definition a_touch (now : Z) (m : amap) (k : sid) : amap :=
    fun k' => if sid_eqb k' k then option_map (set_last now) (m k') else m k'.
  Definition a_touch_opt (now : Z) (m : amap) (k : option sid) : amap :=
    match k with Some k => a_touch now m k | None => m end.
  Definition a_expire (now max_age : Z) (m : amap) : amap :=
    fun k => match m k with
             | Some r => if expired now max_age r then None else Some r
             | None => None
             end.
  Definition a_clear : amap := fun _ => None.

  Definition new_rec (client : Z) (version : str) (now meta : Z) : rec :=
    {| r_client := client; r_version := version; r_created := now; r_last := now; r_meta := meta |}.

  Definition is_some {A} (o : option A) : bool := match o with Some _ => true | None => false end.

  (** [n] is the number of ids satisfying [P] *)
  Definition counts (P : sid -> Prop) (n : Z) : Prop :=
    exists l : list sid, NoDup l /\ (forall k, In k l <-> P k) /\ n = Z.of_nat (length l).

  (** [l] is a listing of map [m] *)
  Fixpoint l_lookup (k : sid) (l : list (sid * rec)) : option rec :=
    match l with
    | [] => None
    | (k', r) :: l' => if sid_eqb k k' then Some r else l_lookup k l'
    end.
  Definition lists (l : list (sid * rec)) (m : amap) : Prop :=
    NoDup (map fst l) /\ forall k, l_lookup k l = m k.

  (** ---- what each operation must do to the map, and return ----
      [fresh_id]: the id handed out by this operation if it creates a session. *)
  Definition Spec_step (fresh_id : sid) (now : Z) (o : op) (m m' : amap) (res : out) : Prop :=
    match o with
    | OCreate c v meta =>
        m fresh_id = None                                               (* ids are unique: never one in use *)
        /\ (forall k, m' k = a_set m fresh_id (new_rec c v now meta) k)
        /\ res = OutId fresh_id
    | OGet s => (forall k, m' k = m k) /\ res = OutRec (m s)
    | OTouch s => (forall k, m' k = a_touch now m s k) /\ res = OutBool (is_some (m s))
    | ODelete s => (forall k, m' k = a_del m s k) /\ res = OutBool (is_some (m s))
    | OCleanup age =>
        (forall k, m' k = a_expire now age m k)                         (* exactly the expired ones go, nothing else changes *)
        /\ exists n, res = OutCount n
                     /\ counts (fun k => exists r, m k = Some r /\ expired now age r = true) n
    | OList => (forall k, m' k = m k) /\ exists l, res = OutListing l /\ lists l m
    | OCount => (forall k, m' k = m k) /\ exists n, res = OutCount n /\ counts (fun k => m k <> None) n
    | OClear => (forall k, m' k = None) /\ exists n, res = OutCount n /\ counts (fun k => m k <> None) n
    | OInitialize with_id c v sess =>
        (* exactly one session is created; it records the client's info and the ANSWERED version *)
        let m1 := a_touch_opt now m sess in
        m fresh_id = None
        /\ exists ver,
             (forall k, m' k = a_set m1 fresh_id (new_rec c ver now 0) k)
             /\ res = (if with_id then OutInit ver fresh_id else OutNone)
    | ORequest has_method sess =>
        (forall k, m' k = (if has_method then a_touch_opt now m sess else m) k) /\ res = OutNone
    end.

  (** ---- boolean checker applied to the IMPLEMENTATION's observations ----
      [pre] / [post]: the store's content before / after the operation. *)
  Fixpoint memb (k : sid) (l : list sid) : bool :=
    match l with [] => false | x :: l' => sid_eqb k x || memb k l' end.
  Fixpoint nodupb (l : list sid) : bool :=
    match l with [] => true | x :: l' => negb (memb x l') && nodupb l' end.

  Definition opt_rec_eqb (a b : option rec) : bool := option_eqb rec_eqb a b.

  Definition agree_on (keys : list sid) (post : list (sid * rec)) (expect : amap) : bool :=
    forallb (fun k => opt_rec_eqb (l_lookup k post) (expect k)) keys.

  Definition op_keys (o : op) : list sid :=
    match o with
    | OGet s | OTouch s | ODelete s => [s]
    | OInitialize _ _ _ (Some s) | ORequest _ (Some s) => [s]
    | _ => []
    end.

  Fixpoint listing_eqb (a b : list (sid * rec)) : bool :=
    match a, b with
    | [], [] => true
    | (k, r) :: a', (k', r') :: b' => sid_eqb k k' && rec_eqb r r' && listing_eqb a' b'
    | _, _ => false
    end.

  (** the returned listing represents the map [pre]: same keys (as sets, both duplicate-free), same records *)
  Definition listing_ok (l pre : list (sid * rec)) : bool :=
    nodupb (map fst l)
    && forallb (fun k => opt_rec_eqb (l_lookup k l) (l_lookup k pre)) (map fst l ++ map fst pre).

  Definition count_where (P : rec -> bool) (pre : list (sid * rec)) : Z :=
    Z.of_nat (length (filter (fun kv => P (snd kv)) pre)).

  Definition step_ok (fresh_id : sid) (now : Z) (o : op) (pre post : list (sid * rec)) (res : out) : bool :=
    let m := fun k => l_lookup k pre in
    let keys := fresh_id :: op_keys o ++ map fst pre ++ map fst post in
    nodupb (map fst post) &&
    match o, res with
    | OCreate c v meta, OutId s =>
        sid_eqb s fresh_id && negb (is_some (m fresh_id))
        && agree_on keys post (a_set m fresh_id (new_rec c v now meta))
    | OGet s, OutRec r => agree_on keys post m && opt_rec_eqb r (m s)
    | OTouch s, OutBool b => agree_on keys post (a_touch now m s) && Bool.eqb b (is_some (m s))
    | ODelete s, OutBool b => agree_on keys post (a_del m s) && Bool.eqb b (is_some (m s))
    | OCleanup age, OutCount n =>
        agree_on keys post (a_expire now age m) && (n =? count_where (expired now age) pre)
    | OList, OutListing l => agree_on keys post m && listing_ok l pre
    | OCount, OutCount n => agree_on keys post m && (n =? Z.of_nat (length pre))
    | OClear, OutCount n => agree_on keys post a_clear && (n =? Z.of_nat (length pre))
    | OInitialize true c v sess, OutInit ver s =>
        sid_eqb s fresh_id && negb (is_some (m fresh_id))
        && agree_on keys post (a_set (a_touch_opt now m sess) fresh_id (new_rec c ver now 0))
    | OInitialize false c v sess, OutNone =>
        negb (is_some (m fresh_id))
        && match l_lookup fresh_id post with
           | Some r => agree_on keys post (a_set (a_touch_opt now m sess) fresh_id (new_rec c (r_version r) now 0))
           | None => false
           end
    | ORequest hm sess, OutNone => agree_on keys post (if hm then a_touch_opt now m sess else m)
    | _, _ => false
    end.
End Spec.

Arguments OCreate {sid}. Arguments OGet {sid}. Arguments OTouch {sid}. Arguments ODelete {sid}.
Arguments OCleanup {sid}. Arguments OList {sid}. Arguments OCount {sid}. Arguments OClear {sid}.
Arguments OInitialize {sid}. Arguments ORequest {sid}.
Arguments OutId {sid}. Arguments OutRec {sid}. Arguments OutBool {sid}. Arguments OutCount {sid}.
Arguments OutListing {sid}. Arguments OutInit {sid}. Arguments OutNone {sid}.

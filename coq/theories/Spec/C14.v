(** Specification of C14, from the property text.  The polling interval of
    0.5 s (50 ticks) is pinned HERE. *)
From Verif.Base Require Import Prelude AwaitTypes.
From Verif.Spec Require Import C01.
Open Scope Z_scope.

Definition poll_spec : Z := 50.

(** The value a progress notification hands to the callback, if it bears the
    request's token and a callback was supplied. *)
Definition cb_value (has_cb : bool) (m : inmsg) : option Z :=
  match m with
  | MProg true v => if has_cb then Some v else None
  | _ => None
  end.

(** "invoked exactly once for each progress notification bearing the request's
    token that arrives before completion, in arrival order, never for other
    tokens": walk the (clamped) history against the recorded invocations.
    An arrival strictly before completion must have been handled; one strictly
    after must not; one at exactly the completion instant may go either way. *)
Fixpoint cb_expected (me : rid) (has_cb : bool) (e : Z) (l : list (Z * inmsg)) (cb : list Z) : bool :=
  match l with
  | [] => match cb with [] => true | _ => false end
  | (a, m) :: l' =>
      if e <? a then match cb with [] => true | _ => false end
      else if is_answer me m then
        (* the answer completes the request: nothing after it is handled *)
        (a =? e) && match cb with [] => true | _ => false end
      else
        match cb_value has_cb m with
        | Some v =>
            match cb with
            | v' :: cb' => (v =? v') && cb_expected me has_cb e l' cb'
            | [] => a =? e                      (* not yet handled only if it arrived at the very end *)
            end
        | None => cb_expected me has_cb e l' cb
        end
  end.

Definition clamp_time (t0 : Z) (x : Z * inmsg) : Z * inmsg := (Z.max t0 (fst x), snd x).

(** Observation [r] of a call made at [t0], deadline [D], token triggered at
    [cancel] (if ever). *)
Definition c14_ok (t0 D : Z) (me : rid) (has_cb : bool) (cancel : option Z)
           (arrivals : list (Z * inmsg)) (r : result) : bool :=
  (r_end r <=? D) &&
  match cancel with
  | None => negb (is_cancelled (r_out r)) && (r_cancel_notifs r =? 0) && r_req_written r
  | Some c =>
      if r_req_written r then
        (t0 <=? c) && (r_end r <=? c + poll_spec) &&
        (if is_cancelled (r_out r) then (c <=? r_end r) && (r_cancel_notifs r =? 1)
         else r_cancel_notifs r =? 0)
      else
        (* cancelled before sending: never sent, exactly one cancelled notification *)
        (c <=? t0) && is_cancelled (r_out r) && (r_cancel_notifs r =? 1) &&
        match r_cb r with [] => true | _ => false end
  end &&
  (* a result / error is always that of the first answer *)
  match r_out r with
  | Return _ | RaiseErr _ _ =>
      match first_answer me arrivals with
      | Some (_, m) => out_matches m (r_out r)
      | None => false
      end
  | _ => true
  end &&
  (if r_req_written r then cb_expected me has_cb (r_end r) (map (clamp_time t0) arrivals) (r_cb r) else true).

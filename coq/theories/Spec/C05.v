(** Specification of C05, written from the property text only (imports Base
    only).

    "The sequence of messages delivered on the stdio read stream equals the
    sequence of well-formed JSON-RPC lines the child wrote, in order,
    regardless of how the operating system splits the byte stream into reads
    ... A line that is not valid JSON or not a valid message is dropped alone
    ... notifications are additionally offered on the notification stream." *)
From Verif.Base Require Import Prelude.
Open Scope Z_scope.

(** ---- declarative framing: what "the lines the child wrote" means -------- *)

Definition no_lf (l : list Z) : Prop := ~ In 10 l.

(** A child that writes the lines [ls] (none containing LF), each followed by
    LF, and then an unterminated [tail], produces this byte stream. *)
Definition terminated (ls : list (list Z)) : list Z := flat_map (fun l => l ++ [10]) ls.

Definition Spec_lines (stream : list Z) (ls : list (list Z)) (tail : list Z) : Prop :=
  stream = terminated ls ++ tail /\ Forall no_lf ls /\ no_lf tail.

(** The property for one stream, whatever the chunking: the delivered sequence
    is, line by line and in order, what each complete line yields on its own
    ([deliver l = []] for a line that is not a valid message). *)
Definition Spec_delivery {msg} (deliver : list Z -> list msg)
           (stream : list Z) (delivered : list msg) : Prop :=
  exists ls tail, Spec_lines stream ls tail /\ delivered = flat_map deliver ls.

(** CRLF-terminated writing of the same lines. *)
Definition terminated_crlf (ls : list (list Z)) : list Z := flat_map (fun l => l ++ [13; 10]) ls.

(** "in the same order": order-preserving subsequence. *)
Inductive subseq {A} : list A -> list A -> Prop :=
| ss_nil : subseq [] []
| ss_keep : forall x a b, subseq a b -> subseq (x :: a) (x :: b)
| ss_skip : forall x a b, subseq a b -> subseq a (x :: b).

(** ---- boolean oracle applied to the IMPLEMENTATION's observation ---------- *)

(** The harness labels every line it makes the child write: a well-formed
    JSON-RPC message carrying a unique tag (and whether it is a notification),
    or junk (not JSON / not a message / not UTF-8 / blank). *)
Inductive wline : Type :=
| Good (tag : Z) (notif : bool)
| Junk.

Definition expected_main (ls : list wline) : list Z :=
  flat_map (fun l => match l with Good t _ => [t] | Junk => [] end) ls.

Definition expected_notif (ls : list wline) : list Z :=
  flat_map (fun l => match l with Good t true => [t] | _ => [] end) ls.

(** [delivered]/[notified]: tags observed on the main / notification stream
    (the harness keeps the notification stream drained, so nothing may be
    missing there). *)
Definition main_ok (ls : list wline) (delivered : list Z) : bool :=
  list_eqb Z.eqb delivered (expected_main ls).

Definition notif_ok (ls : list wline) (notified : list Z) : bool :=
  list_eqb Z.eqb notified (expected_notif ls).

Definition Spec_main (ls : list wline) (delivered : list Z) : Prop := delivered = expected_main ls.
Definition Spec_notif (ls : list wline) (notified : list Z) : Prop := notified = expected_notif ls.

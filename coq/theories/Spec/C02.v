(** C02 -- specification, written from the property text only (imports Base only).

    "Every message the library constructs or emits is a valid JSON-RPC 2.0 object:
    version "2.0", requests carry a string-or-integer id and a method,
    notifications carry no id, responses carry exactly one of result/error and an
    error has an integer code and a string message.  Parsing the emitted form with
    the library's own parser yields a message of the same kind with identical id
    (value and JSON type), method, params, result and error, for every JSON
    payload including nulls nested inside params or results."

    The grammar pinned here (JSON-RPC 2.0 as the property text words it):
      * a message is a JSON object whose member "jsonrpc" is the string "2.0";
      * a message with a "method" is a request (it has an "id") or a notification
        (it has none): the method is a string, the id a string or an integer,
        "params" - when present - is a JSON object (the property quantifies over
        JSON objects as params), and it carries neither "result" nor "error";
      * a message without a "method" is a response: it carries exactly one of
        "result" / "error", no "params", and an "id" that is a string or an
        integer - or null, which JSON-RPC 2.0 reserves for an ERROR response to a
        request whose id could not be determined;
      * an error is an object with an integer "code" and a string "message".
    Unknown extra members are not constrained. *)
From Verif.Base Require Import Prelude Json Envelope.
Open Scope Z_scope.

(** Why an object is not a valid message (each is a distinct failure class). *)
Inductive defect : Type :=
| NotAnObject
| BadVersion                    (* "jsonrpc" missing or not the string "2.0" *)
| BadMethod                     (* "method" present but not a string *)
| RequestCarriesResultOrError
| BadParams                     (* "params" present but not an object *)
| BadRequestId                  (* request id present but not a string / integer *)
| ResponseCarriesParams
| NeitherResultNorError
| BothResultAndError
| ResponseWithoutId
| BadResponseId                 (* not string / integer (null allowed on an error only) *)
| BadErrorObject.               (* error is not {code: integer, message: string, ...} *)

Definition is_obj (j : json) : bool := match j with JObj _ => true | _ => false end.
Definition is_rid (j : json) : bool := match rid_of_json j with Some _ => true | None => false end.

Definition error_ok (e : json) : bool :=
  match e with
  | JObj em =>
      match assoc k_code em, assoc k_message em with
      | Some (JInt _), Some (JStr _) => true
      | _, _ => false
      end
  | _ => false
  end.

(** The grammar as a decision procedure: the kind of a valid message, or the
    first defect. *)
Definition classify (j : json) : defect + kind :=
  match j with
  | JObj m =>
      if negb (json_eqb (field k_jsonrpc m) (JStr v2)) then inl BadVersion
      else match assoc k_method m with
           | Some meth =>
               match meth with
               | JStr _ =>
                   if has_key k_result m || has_key k_error m then inl RequestCarriesResultOrError
                   else if has_key k_params m && negb (is_obj (field k_params m)) then inl BadParams
                   else match assoc k_id m with
                        | None => inr KNotif
                        | Some i => if is_rid i then inr KReq else inl BadRequestId
                        end
               | _ => inl BadMethod
               end
           | None =>
               if has_key k_params m then inl ResponseCarriesParams
               else match assoc k_result m, assoc k_error m with
                    | None, None => inl NeitherResultNorError
                    | Some _, Some _ => inl BothResultAndError
                    | Some _, None =>
                        match assoc k_id m with
                        | None => inl ResponseWithoutId
                        | Some i => if is_rid i then inr KRes else inl BadResponseId
                        end
                    | None, Some e =>
                        match assoc k_id m with
                        | None => inl ResponseWithoutId
                        | Some i =>
                            if is_rid i || is_null i
                            then (if error_ok e then inr KErr else inl BadErrorObject)
                            else inl BadResponseId
                        end
                    end
           end
  | _ => inl NotAnObject
  end.

Definition valid_jsonrpc (j : json) : bool :=
  match classify j with inr _ => true | inl _ => false end.

(** The same grammar, declaratively. *)
Definition version_ok (m : list (str * json)) : Prop := assoc k_jsonrpc m = Some (JStr v2).
Definition params_ok (m : list (str * json)) : Prop :=
  assoc k_params m = None \/ exists p, assoc k_params m = Some (JObj p).

Inductive Spec_valid : json -> kind -> Prop :=
| SV_request : forall m meth i,
    version_ok m -> assoc k_method m = Some (JStr meth) -> assoc k_id m = Some (json_of_rid i) ->
    params_ok m -> assoc k_result m = None -> assoc k_error m = None ->
    Spec_valid (JObj m) KReq
| SV_notification : forall m meth,
    version_ok m -> assoc k_method m = Some (JStr meth) -> assoc k_id m = None ->
    params_ok m -> assoc k_result m = None -> assoc k_error m = None ->
    Spec_valid (JObj m) KNotif
| SV_result : forall m i r,
    version_ok m -> assoc k_method m = None -> assoc k_params m = None ->
    assoc k_id m = Some (json_of_rid i) -> assoc k_result m = Some r -> assoc k_error m = None ->
    Spec_valid (JObj m) KRes
| SV_error : forall m i em code msg,
    version_ok m -> assoc k_method m = None -> assoc k_params m = None ->
    (i = JNull \/ exists r, i = json_of_rid r) -> assoc k_id m = Some i ->
    assoc k_result m = None -> assoc k_error m = Some (JObj em) ->
    assoc k_code em = Some (JInt code) -> assoc k_message em = Some (JStr msg) ->
    Spec_valid (JObj m) KErr.

(** What a valid wire form says: its kind and the six compared positions. *)
Definition view_of_wire (j : json) : option view :=
  match j, classify j with
  | JObj m, inr k =>
      Some {| v_kind := k;
              v_id := rid_of_json (field k_id m);
              v_method := match field k_method m with JStr s => Some s | _ => None end;
              v_params := field k_params m;
              v_result := field k_result m;
              v_error := field k_error m |}
  | _, _ => None
  end.

(** Round trip: the library's parser, applied to the emitted form, must produce
    a message with exactly the view the wire form has.  [parsed = None] stands
    for "the parser raised" or "the parsed object has no kind". *)
Definition Spec_roundtrip (wire : json) (parsed : option view) : Prop :=
  exists v, view_of_wire wire = Some v /\ parsed = Some v.

Definition roundtrip_ok (wire : json) (parsed : option view) : bool :=
  match view_of_wire wire, parsed with
  | Some v, Some p => view_eqb v p
  | _, _ => false
  end.

(** Fidelity: the emitted form says what the caller asked for. *)
Definition Spec_carries (intent : view) (wire : json) : Prop := view_of_wire wire = Some intent.

Definition carries_ok (intent : view) (wire : json) : bool :=
  match view_of_wire wire with
  | Some v => view_eqb intent v
  | None => false
  end.

(** "responses carry exactly one of result/error" on its own. *)
Definition exactly_one_of_result_error (j : json) : bool :=
  match j with
  | JObj m => xorb (has_key k_result m) (has_key k_error m)
  | _ => false
  end.

(** Specification of C07, from the property text.  The documented set of
    permanent (non-retryable) codes at the pinned commit is written down HERE;
    the code's own sets are regenerated into Gen/ErrorsGen.v and the theorems
    relate the two. *)
From Verif.Base Require Import Prelude AwaitTypes.
Open Scope Z_scope.

(** parse error, invalid request, method not found, invalid params, capability
    not supported, tool not found, prompt not found, authorization failed,
    protocol version mismatch, connection closed *)
Definition documented_permanent : list Z :=
  [-32700; -32600; -32601; -32602; -32003; -32005; -32006; -32007; -32008; -32000].

(** internal error, request timeout, initialization failed, resource not found *)
Definition documented_retryable : list Z := [-32603; -32001; -32002; -32004].

(** An error response with [code] must surface as the class the code demands. *)
Definition class_ok (code : Z) (raised_retryable : bool) : bool :=
  Bool.eqb raised_retryable (negb (mem_Z code documented_permanent)).

(** Observation of a matching error response: it never returns normally, it
    carries the server's code, and its class is the documented one. *)
Definition c07_ok (code : Z) (o : outcome) : bool :=
  match o with
  | RaiseErr b code' => (code =? code') && class_ok code b
  | _ => false
  end.

(** The boolean convenience calls report anything but a result as [false]. *)
Definition wrapper_ok (o : outcome) (reported : bool) : bool :=
  match o with
  | Return _ => reported
  | _ => negb reported
  end.

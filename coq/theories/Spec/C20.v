(** Specification of C20, written from the property text only (imports Base
    only; nothing here looks at the code).

    "For every valid server configuration file, each host-level entry point —
    the configuration loader, the command-line connectivity test and the
    multi-server runner — launches exactly the configured command with the
    configured arguments and environment and reaches the initialize handshake.
    Configuration errors (missing file, invalid JSON, unknown server name)
    surface as the documented exception types."

    File format (the documented one): {"mcpServers": {NAME: {"command": str,
    "args": [str...]?, "env": {str: str}?, "timeout": number|numeric string?,
    ...extra keys}}, ...extra keys}.  An absent, null or EMPTY "env" means "the
    library's default environment" [denv] (an input of the specification: the
    property does not say what that environment is, only that it is used). *)
From Verif.Base Require Import Prelude Json Decimal HostTypes.
Open Scope Z_scope.

(* ------------------------------------------------------------------ *)
(** * Reading the configuration *)

Definition jfield (k : str) (j : json) : option json :=
  match j with JObj m => assoc k m | _ => None end.

Definition jstr (j : json) : str := match j with JStr s => s | _ => [] end.

Definition servers_of (cfg : json) : list (str * json) :=
  match jfield k_mcpServers cfg with Some (JObj sm) => sm | _ => [] end.

(** The entry of server [name], if the file configures one. *)
Definition server_of (cfg : json) (name : str) : option json := assoc name (servers_of cfg).

Definition cfg_command (sv : json) : str :=
  match jfield k_command sv with Some (JStr s) => s | _ => [] end.

Definition cfg_args (sv : json) : list str :=
  match jfield k_args sv with Some (JArr l) => map jstr l | _ => [] end.

Definition cfg_env (sv : json) : envt :=
  match jfield k_env sv with
  | Some (JObj m) => map (fun kv => (fst kv, jstr (snd kv))) m
  | _ => []
  end.

(** absent / null -> no timeout; a number or a numeric string -> its value *)
Definition cfg_timeout (sv : json) : option dec :=
  match jfield k_timeout sv with Some j => dec_of_json j | None => None end.

(* ------------------------------------------------------------------ *)
(** * Valid configuration files *)

(** a string the operating system can carry in argv / the environment *)
Definition clean (s : str) : bool := negb (mem_Z 0 s).
Definition is_clean_jstr (j : json) : bool := match j with JStr s => clean s | _ => false end.
Definition valid_env_key (k : str) : bool :=
  match k with [] => false | _ :: _ => clean k && negb (mem_Z 61 k) end.     (* no "=" *)

Fixpoint nodup_keys {A} (m : list (str * A)) : bool :=
  match m with
  | [] => true
  | (k, _) :: r => negb (has_key k r) && nodup_keys r
  end.

Definition valid_args_field (o : option json) : bool :=
  match o with
  | None => true
  | Some (JArr l) => forallb is_clean_jstr l
  | Some _ => false
  end.

Definition valid_env_field (o : option json) : bool :=
  match o with
  | None | Some JNull => true
  | Some (JObj m) => nodup_keys m && forallb (fun kv => valid_env_key (fst kv) && is_clean_jstr (snd kv)) m
  | Some _ => false
  end.

Definition valid_timeout_field (o : option json) : bool :=
  match o with
  | None | Some JNull => true
  | Some j => match dec_of_json j with Some _ => true | None => false end
  end.

Definition valid_server (sv : json) : bool :=
  match sv with
  | JObj m =>
      nodup_keys m
      && match assoc k_command m with Some (JStr (c :: s)) => clean (c :: s) | _ => false end
      && valid_args_field (assoc k_args m)
      && valid_env_field (assoc k_env m)
      && valid_timeout_field (assoc k_timeout m)
  | _ => false
  end.

Definition valid_config (cfg : json) : bool :=
  match cfg with
  | JObj top =>
      nodup_keys top
      && match assoc k_mcpServers top with
         | Some (JObj sm) => nodup_keys sm && forallb (fun kv => valid_server (snd kv)) sm
         | _ => false
         end
  | _ => false
  end.

(* ------------------------------------------------------------------ *)
(** * "Launches exactly the configured command, arguments and environment" *)

(** Two environments are the same when they bind the same variables to the
    same values (order is not observable by the child). *)
Definition env_equiv (a b : envt) : Prop := forall k, assoc k a = assoc k b.

Definition env_equivb (a b : envt) : bool :=
  forallb (fun k => option_eqb str_eqb (assoc k a) (assoc k b)) (map fst a ++ map fst b).

Definition Spec_launch (denv : envt) (sv : json) (l : launch) : Prop :=
  l_argv l = cfg_command sv :: cfg_args sv
  /\ env_equiv (l_env l) (effective_env denv (cfg_env sv)).

Definition launch_ok (denv : envt) (sv : json) (l : launch) : bool :=
  list_eqb str_eqb (l_argv l) (cfg_command sv :: cfg_args sv)
  && env_equivb (l_env l) (effective_env denv (cfg_env sv)).

(** "... and reaches the initialize handshake": the process that was started
    received the initialize request. *)
Definition Spec_proc (denv : envt) (sv : json) (p : proc) : Prop :=
  Spec_launch denv sv (pr_launch p) /\ pr_init p = true.

Definition proc_ok (denv : envt) (sv : json) (p : proc) : bool :=
  launch_ok denv sv (pr_launch p) && pr_init p.

(* ------------------------------------------------------------------ *)
(** * The loader *)

(** What the loader hands back names exactly the configured server (an empty
    environment and no environment are the same request, see above). *)
Definition Spec_loaded (sv : json) (p : params) (t : option dec) : Prop :=
  p_command p = cfg_command sv
  /\ p_args p = cfg_args sv
  /\ env_equiv (oenv (p_env p)) (cfg_env sv)
  /\ t = cfg_timeout sv.

Definition odec_eqb (a b : option dec) : bool := option_eqb dec_eqb a b.

Definition loaded_ok (sv : json) (p : params) (t : option dec) : bool :=
  str_eqb (p_command p) (cfg_command sv)
  && list_eqb str_eqb (p_args p) (cfg_args sv)
  && env_equivb (oenv (p_env p)) (cfg_env sv)
  && odec_eqb t (cfg_timeout sv).

(** The loader on every source: the three configuration errors surface as the
    three documented exception classes; on a valid file a configured name is
    loaded exactly. *)
Definition Spec_load (src : source) (name : str) (o : load_obs) : Prop :=
  match src with
  | SrcMissing => o = Raised EFileNotFound
  | SrcBadJson => o = Raised EJSONDecode
  | SrcJson cfg =>
      valid_config cfg = true ->
      match server_of cfg name with
      | None => o = Raised EValue
      | Some sv => exists p t, o = Loaded p t /\ Spec_loaded sv p t
      end
  end.

Definition is_raised (e : err) (o : load_obs) : bool :=
  match o with Raised e' => err_eqb e e' | Loaded _ _ => false end.

Definition load_ok (src : source) (name : str) (o : load_obs) : bool :=
  match src with
  | SrcMissing => is_raised EFileNotFound o
  | SrcBadJson => is_raised EJSONDecode o
  | SrcJson cfg =>
      if valid_config cfg then
        match server_of cfg name with
        | None => is_raised EValue o
        | Some sv => match o with Loaded p t => loaded_ok sv p t | Raised _ => false end
        end
      else true
  end.

(* ------------------------------------------------------------------ *)
(** * The launching entry points (CLI test = one name; runner = a list) *)

(** The servers an entry point is asked to start: the configured ones among the
    requested names, in request order.  A missing / unparsable file configures
    nothing. *)
Definition requested (src : source) (names : list str) : list json :=
  match src with
  | SrcJson cfg => flat_map (fun n => match server_of cfg n with Some sv => [sv] | None => [] end) names
  | _ => []
  end.

Definition src_valid (src : source) : bool :=
  match src with SrcJson cfg => valid_config cfg | _ => true end.

(** [answers c]: does the server program [c] answer initialize?  (The world,
    not the library: an input of the specification.)  Exactly the requested
    configured servers are started, in order, each exactly as configured, each
    receives initialize; the entry point reports as connected exactly those
    that answered.  Nothing else is started — in particular nothing at all for
    an unknown name, a missing file or invalid JSON. *)
Definition Spec_run (answers : str -> bool) (denv : envt) (src : source) (names : list str)
           (o : run_obs) : Prop :=
  src_valid src = true ->
  Forall2 (Spec_proc denv) (requested src names) (ro_procs o)
  /\ ro_connected o =
     Z.of_nat (length (filter (fun sv => answers (cfg_command sv)) (requested src names))).

Fixpoint forall2b {A B} (f : A -> B -> bool) (a : list A) (b : list B) : bool :=
  match a, b with
  | [], [] => true
  | x :: a', y :: b' => f x y && forall2b f a' b'
  | _, _ => false
  end.

Definition run_ok (answers : str -> bool) (denv : envt) (src : source) (names : list str)
           (o : run_obs) : bool :=
  if src_valid src then
    forall2b (proc_ok denv) (requested src names) (ro_procs o)
    && (ro_connected o =?
        Z.of_nat (length (filter (fun sv => answers (cfg_command sv)) (requested src names))))
  else true.

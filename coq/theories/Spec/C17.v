(** Specification of C17, written from the property text only.

    "for every JSON value whose integers fit in 64 bits, decoding what either
    backend encoded gives back the value, under each backend and across
    backends.  Compact encodings never contain a raw line break, so every
    encoded message is exactly one NDJSON frame." *)
From Verif.Base Require Import Prelude JsonVal.
Open Scope Z_scope.

(** the property's domain: every integer fits a signed or unsigned 64-bit word *)
Definition in_domain {F} (v : json F) : bool := fits64 v.

(** one observation: value [v] was encoded under one backend and the text was
    decoded under one backend; [decoded = None] when either step raised *)
Definition Spec_roundtrip {F} (v : json F) (decoded : option (json F)) : Prop := decoded = Some v.

Definition roundtrip_ok {F} (feqb : F -> F -> bool) (v : json F) (decoded : option (json F)) : bool :=
  match decoded with
  | Some w => json_eqb feqb v w
  | None => false
  end.

(** all (encoder backend, decoder backend) pairs at once *)
Definition Spec_backend_independent {F} (v : json F) (obs : list (option (json F))) : Prop :=
  Forall (Spec_roundtrip v) obs.

Definition backend_independent_ok {F} (feqb : F -> F -> bool) (v : json F) (obs : list (option (json F))) : bool :=
  forallb (roundtrip_ok feqb v) obs.

(** the bytes of one encoded message contain no raw line break *)
Definition Spec_single_frame (bytes : list Z) : Prop := ~ In 10 bytes /\ ~ In 13 bytes.

Definition single_frame_ok (bytes : list Z) : bool := negb (mem_Z 10 bytes) && negb (mem_Z 13 bytes).

(** Specification of C03, written from the property text only (imports nothing
    generated from, or modelled after, the code).

    "Initialization proposes the preferred version when it is in the caller's
    supported list and otherwise the first supported version, and it succeeds
    only if the server answers with a version from that list; any other answer
    raises a version-mismatch error and the initialized notification is never
    sent.  On success exactly one initialized notification is sent, after the
    server's answer was accepted and before the call returns, the returned
    version is the server's answer, and a tracked client's batching mode is the
    one belonging to that version."

    Domain: a version is a NON-EMPTY string (the property's universe is "real
    and invented versions"); the supported list is non-empty.  "The batching
    mode belonging to a version" is C13's [demanded] (Spec/C13.v). *)
From Verif.Base Require Import Prelude Sexp.
From Verif.Spec Require Import C13.
Open Scope Z_scope.

(** What the server did, as far as the property distinguishes it. *)
Inductive s_answer :=
| SVersion (v : str)     (* a well-formed answer carrying version [v] *)
| SOther.                (* malformed answer, JSON-RPC error, silence, closed connection *)

(** How the call ended. *)
Inductive s_outcome :=
| SOk (v : str)          (* returned; [v] = the returned result's protocolVersion *)
| SMismatch              (* raised the version-mismatch error *)
| SFailed.               (* raised anything else *)

(** One observed run of the initialization call. *)
Record obs : Type := {
  o_supported : list str;                  (* the caller's supported list *)
  o_preferred : option str;
  o_answer : s_answer;
  o_inits : list str;      (* protocolVersion of every "initialize" request written, in order *)
  o_before : Z;            (* notifications/initialized written BEFORE the answer was handed over *)
  o_between : Z;           (* ... after the answer was handed over and before the call ended *)
  o_after : Z;             (* ... after the call ended *)
  o_outcome : s_outcome;
  o_tracked : option (option str * bool)   (* tracked client after the call: (recorded version, batching mode) *)
}.

(** ** Declarative specification *)

Definition Spec_proposed (o : obs) : Prop :=
  exists p, o_inits o = [p] /\ In p (o_supported o) /\
    match o_preferred o with
    | Some (c :: q) =>
        (In (c :: q) (o_supported o) -> p = c :: q) /\
        (~ In (c :: q) (o_supported o) -> hd_error (o_supported o) = Some p)
    | Some [] => True                      (* not a version: outside the property's universe *)
    | None => hd_error (o_supported o) = Some p
    end.

Definition Spec_success_only_if_offered (o : obs) : Prop :=
  forall v, o_outcome o = SOk v -> o_answer o = SVersion v /\ In v (o_supported o).

Definition Spec_other_version_is_mismatch (o : obs) : Prop :=
  forall v, o_answer o = SVersion v -> ~ In v (o_supported o) -> o_outcome o = SMismatch.

Definition Spec_notification (o : obs) : Prop :=
  match o_outcome o with
  | SOk _ => o_before o = 0 /\ o_between o = 1 /\ o_after o = 0
  | _ => o_before o = 0 /\ o_between o = 0 /\ o_after o = 0
  end.

Definition Spec_tracked (o : obs) : Prop :=
  forall v ver mode, o_outcome o = SOk v -> o_tracked o = Some (ver, mode) ->
    ver = Some v /\ (forall b, demanded (Some v) = Some b -> mode = b).

Definition Spec_C03 (o : obs) : Prop :=
  Spec_proposed o /\ Spec_success_only_if_offered o /\ Spec_other_version_is_mismatch o /\
  Spec_notification o /\ Spec_tracked o.

(** ** Boolean checkers (proved equivalent in Proofs/Negotiation.v) *)

Definition proposed_ok (o : obs) : bool :=
  match o_inits o with
  | [p] =>
      mem_str p (o_supported o) &&
      match o_preferred o with
      | Some (c :: q) =>
          if mem_str (c :: q) (o_supported o) then str_eqb p (c :: q)
          else option_eqb str_eqb (hd_error (o_supported o)) (Some p)
      | Some [] => true
      | None => option_eqb str_eqb (hd_error (o_supported o)) (Some p)
      end
  | _ => false
  end.

Definition success_only_if_offered_ok (o : obs) : bool :=
  match o_outcome o with
  | SOk v =>
      match o_answer o with
      | SVersion w => str_eqb w v && mem_str v (o_supported o)
      | SOther => false
      end
  | _ => true
  end.

Definition other_version_is_mismatch_ok (o : obs) : bool :=
  match o_answer o with
  | SVersion v =>
      mem_str v (o_supported o) || match o_outcome o with SMismatch => true | _ => false end
  | SOther => true
  end.

Definition notification_ok (o : obs) : bool :=
  match o_outcome o with
  | SOk _ => (o_before o =? 0) && (o_between o =? 1) && (o_after o =? 0)
  | _ => (o_before o =? 0) && (o_between o =? 0) && (o_after o =? 0)
  end.

Definition tracked_ok (o : obs) : bool :=
  match o_outcome o, o_tracked o with
  | SOk v, Some (ver, mode) => option_eqb str_eqb ver (Some v) && decision_ok (Some v) mode
  | _, _ => true
  end.

Definition c03_ok (o : obs) : bool :=
  proposed_ok o && success_only_if_offered_ok o && other_version_is_mismatch_ok o &&
  notification_ok o && tracked_ok o.

(** which clause failed first (0 = none): lets the harness name the failure class *)
Definition c03_failing_clause (o : obs) : Z :=
  if negb (proposed_ok o) then 1
  else if negb (success_only_if_offered_ok o) then 2
  else if negb (other_version_is_mismatch_ok o) then 3
  else if negb (notification_ok o) then 4
  else if negb (tracked_ok o) then 5
  else 0.

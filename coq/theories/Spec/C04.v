(** Specification of C04, written from the property text only.

    "A server built on the library answers initialize with the client's
    requested version only when the server supports it and otherwise with a
    version it does support; it never acknowledges an unsupported or malformed
    version, and the session it records carries the version it answered.
    Consequently a library client talking to a library server ends every
    handshake either agreed on a version both sides support or with a
    version-mismatch error on the client."

    Which versions the server supports is left to the code by the property; the
    observation carries the list the library publishes (SUPPORTED_VERSIONS). *)
From Verif.Base Require Import Prelude Sexp.
Open Scope Z_scope.

(** The protocolVersion member of the request. *)
Inductive s_requested :=
| QAbsent
| QStr (s : str)
| QNonStr.

(** A JSON value where a version is expected: absent / not a string / a string. *)
Inductive s_value :=
| VNone                  (* no such member / no response / no session *)
| VNonStr
| VStr (s : str).

Record srv_obs : Type := {
  so_supported : list str;       (* the versions the server supports *)
  so_requested : s_requested;
  so_answered : s_value;         (* result.protocolVersion of the initialize response *)
  so_session : s_value           (* SessionInfo.protocol_version of the session the response created *)
}.

Definition Spec_server (o : srv_obs) : Prop :=
  exists v, so_answered o = VStr v /\ In v (so_supported o) /\
            (forall s, so_requested o = QStr s -> In s (so_supported o) -> v = s) /\
            so_session o = VStr v.

Definition server_ok (o : srv_obs) : bool :=
  match so_answered o with
  | VStr v =>
      mem_str v (so_supported o) &&
      match so_requested o with
      | QStr s => if mem_str s (so_supported o) then str_eqb v s else true
      | _ => true
      end &&
      match so_session o with VStr w => str_eqb w v | _ => false end
  | _ => false
  end.

(** which clause failed (0 = none): 1 answer is not a string, 2 answered version unsupported,
    3 supported request not echoed, 4 session does not carry the answered version *)
Definition server_failing_clause (o : srv_obs) : Z :=
  match so_answered o with
  | VStr v =>
      if negb (mem_str v (so_supported o)) then 2
      else if negb (match so_requested o with
                    | QStr s => if mem_str s (so_supported o) then str_eqb v s else true
                    | _ => true
                    end) then 3
      else if negb (match so_session o with VStr w => str_eqb w v | _ => false end) then 4
      else 0
  | _ => 1
  end.

(** End-to-end: a library client against a library server. *)
Inductive h_outcome :=
| HOk (v : str)          (* the client call returned version v *)
| HMismatch              (* the client raised the version-mismatch error *)
| HFailed.               (* anything else *)

Record hs_obs : Type := {
  h_client : list str;           (* the client's supported list *)
  h_server : list str;           (* the server's supported list *)
  h_outcome_of : h_outcome;
  h_session : s_value            (* version recorded in the server's session *)
}.

Definition Spec_handshake (o : hs_obs) : Prop :=
  (exists v, h_outcome_of o = HOk v /\ In v (h_client o) /\ In v (h_server o) /\ h_session o = VStr v)
  \/ h_outcome_of o = HMismatch.

Definition handshake_ok (o : hs_obs) : bool :=
  match h_outcome_of o with
  | HOk v => mem_str v (h_client o) && mem_str v (h_server o) &&
             match h_session o with VStr w => str_eqb w v | _ => false end
  | HMismatch => true
  | HFailed => false
  end.

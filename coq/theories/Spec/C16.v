(** Specification of C16, written from the property text only (imports nothing
    generated from, or modelled after, the code).

    "Leaving the stdio client context - normally, by exception or by
    cancellation, at any point of a conversation - returns within a bounded time
    (the two one-second grace periods plus scheduling slack) and leaves no child
    process running or unreaped and no additional open file descriptor, whatever
    the child does.  A request pending when the child dies ends with a timeout or
    an error, never with a fabricated result, and a command that cannot be
    started makes entering the context raise."

    Time is in ticks of 10 ms.  The constants named by the text are pinned HERE. *)
From Verif.Base Require Import Prelude.
Open Scope Z_scope.

Definition grace1 : Z := 100.        (* one second *)
Definition grace2 : Z := 100.        (* one second *)
Definition slack : Z := 75.          (* scheduling slack granted to a wall-clock observation *)
Definition bound : Z := grace1 + grace2 + slack.

(** State of a spawned child in the process table after the context was left. *)
Inductive pstate : Type := Gone | Zombie | Running.

Definition pstate_gone (s : pstate) : bool := match s with Gone => true | _ => false end.

(** One observation of leaving the context. *)
Record exit_obs : Type := {
  eo_duration : Z;             (* from the moment the context starts to be left until it has been left *)
  eo_children : list pstate;   (* every child spawned by the context *)
  eo_extra_fds : Z             (* open descriptors of the host process after minus before the context *)
}.

Definition Spec_exit (o : exit_obs) : Prop :=
  eo_duration o <= bound /\
  (forall s, In s (eo_children o) -> s = Gone) /\
  eo_extra_fds o <= 0.

Definition exit_ok (o : exit_obs) : bool :=
  (eo_duration o <=? bound) && forallb pstate_gone (eo_children o) && (eo_extra_fds o <=? 0).

(** Which of the three clauses an observation breaks (for the failing-input classes). *)
Definition exit_late (o : exit_obs) : bool := negb (eo_duration o <=? bound).
Definition exit_child_left (o : exit_obs) : bool := negb (forallb pstate_gone (eo_children o)).
Definition exit_fd_left (o : exit_obs) : bool := negb (eo_extra_fds o <=? 0).

(** How a request that was pending when the child died ended. *)
Inductive pending_obs : Type :=
| PReturn (tok : Z)            (* returned a result (identified by its token) *)
| PError                       (* raised *)
| PTimeout.

(** [written]: the results the child really wrote for this request before it
    died.  Anything else that is returned is fabricated. *)
Definition Spec_pending (written : list Z) (o : pending_obs) : Prop :=
  match o with
  | PReturn tok => In tok written
  | PError | PTimeout => True
  end.

Definition pending_ok (written : list Z) (o : pending_obs) : bool :=
  match o with
  | PReturn tok => mem_Z tok written
  | PError | PTimeout => true
  end.

(** Entering: a command that cannot be started must not yield a context. *)
Definition Spec_enter (startable entered : bool) : Prop := startable = false -> entered = false.
Definition enter_ok (startable entered : bool) : bool := startable || negb entered.

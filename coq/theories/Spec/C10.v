(** C10 -- specification, from the property text only.

    [preserved a b]: every member of the input [a] occurs unchanged in [b]
    (recursively; a null-valued member counts as absent, which is what the
    observation model_dump(by_alias=True, exclude_none=True) fixes; [b] may
    carry additional members).  [Spec_added]: every member of the output that the
    input does not have is a declared default.  [Spec_wire_names]: no object key
    of a value that leaves the process is one of the given Python attribute names. *)
From Verif.Base Require Import Prelude Json.
Open Scope Z_scope.

Inductive preserved : json -> json -> Prop :=
| P_same : forall j, preserved j j
| P_arr : forall l l', Forall2 preserved l l' -> preserved (JArr l) (JArr l')
| P_obj : forall m m',
    (forall k v, In (k, v) m -> v <> JNull -> exists v', In (k, v') m' /\ preserved v v') ->
    preserved (JObj m) (JObj m').

Fixpoint preserved_ok (fuel : nat) (a b : json) {struct fuel} : bool :=
  json_eqb a b ||
  match fuel with
  | O => false
  | S f =>
      match a, b with
      | JArr l, JArr l' =>
          (fix go (l l' : list json) {struct l} : bool :=
             match l, l' with
             | [], [] => true
             | x :: l1, y :: l2 => preserved_ok f x y && go l1 l2
             | _, _ => false
             end) l l'
      | JObj m, JObj m' =>
          forallb (fun kv => is_null (snd kv)
                             || existsb (fun kv' => str_eqb (fst kv) (fst kv') && preserved_ok f (snd kv) (snd kv')) m') m
      | _, _ => false
      end
  end.

(** [preserved_exact a b]: the same with NO allowance for null: a null-valued member is a member like any other.
    This is what "preserved exactly" means for a spec-valid wire object: the MCP schema has no nullable member, so the
    only nulls such an object carries sit inside free-form data (tool arguments, _meta contents, results of unknown shape)
    -- and there [exclude_none] does not apply.  The weaker [preserved] is kept for the inputs that DO carry a null at a
    typed position (explicit-null kinds), where the observation fixed by the property drops it by definition. *)
Inductive preserved_exact : json -> json -> Prop :=
| PE_same : forall j, preserved_exact j j
| PE_arr : forall l l', Forall2 preserved_exact l l' -> preserved_exact (JArr l) (JArr l')
| PE_obj : forall m m',
    (forall k v, In (k, v) m -> exists v', In (k, v') m' /\ preserved_exact v v') ->
    preserved_exact (JObj m) (JObj m').

Fixpoint preserved_exact_ok (fuel : nat) (a b : json) {struct fuel} : bool :=
  json_eqb a b ||
  match fuel with
  | O => false
  | S f =>
      match a, b with
      | JArr l, JArr l' =>
          (fix go (l l' : list json) {struct l} : bool :=
             match l, l' with
             | [], [] => true
             | x :: l1, y :: l2 => preserved_exact_ok f x y && go l1 l2
             | _, _ => false
             end) l l'
      | JObj m, JObj m' =>
          forallb (fun kv => existsb (fun kv' => str_eqb (fst kv) (fst kv') && preserved_exact_ok f (snd kv) (snd kv')) m') m
      | _, _ => false
      end
  end.

Definition Spec_added (m out defaults : list (str * json)) : Prop :=
  forall k v', In (k, v') out -> (exists v, In (k, v) m) \/ In (k, v') defaults.

Definition added_ok (m out defaults : list (str * json)) : bool :=
  forallb (fun kv' => has_key (fst kv') m
                      || existsb (fun d => str_eqb (fst d) (fst kv') && json_eqb (snd d) (snd kv')) defaults) out.

Fixpoint keys_ok (bad : list str) (j : json) {struct j} : bool :=
  match j with
  | JArr l => forallb (keys_ok bad) l
  | JObj m => forallb (fun kv => match kv with (k, v) => negb (mem_str k bad) && keys_ok bad v end) m
  | _ => true
  end.

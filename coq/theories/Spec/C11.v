(** Specification of C11, written from the property text (and the WHATWG
    event-stream grammar it refers to) only.  Imports Base only.

    1. A SPEC-CONFORMANT SSE ENCODER over per-event encoding choices.
    2. What "exactly one terminal message per request" means for the messages
       one POST put on the read stream.
    3. What "carries the most recent session id" means. *)
From Verif.Base Require Import Prelude HttpBase.
Open Scope Z_scope.

(* ------------------------------------------------------------------ *)
(** * 1. Event-stream encoder                                          *)
(* ------------------------------------------------------------------ *)

(** Lines a conformant parser must ignore: comments, [id:] and [retry:] fields. *)
Inductive extra : Type :=
| XComment (s : str)       (* ":" ++ s *)
| XId (s : str)            (* "id:" [" "] s *)
| XRetry (s : str).        (* "retry:" [" "] s *)

Inductive ev_pos : Type := EvAbsent | EvBefore | EvAfter.

Record enc_choice : Type := {
  ec_before : list extra;   (* ignorable lines before the data line *)
  ec_after : list extra;    (* ... and after it *)
  ec_event : ev_pos;        (* no "event:" field / "event: message" before / after the data line *)
  ec_space : bool;          (* one space after the colon of every field, or none *)
  ec_crlf : bool;           (* CRLF or LF line ends *)
  ec_blanks : nat           (* extra blank lines after the terminating blank line *)
}.

Definition k_event : str := [101;118;101;110;116;58].             (* "event:" *)
Definition k_data : str := [100;97;116;97;58].                    (* "data:" *)
Definition k_id : str := [105;100;58].                            (* "id:" *)
Definition k_retry : str := [114;101;116;114;121;58].             (* "retry:" *)
Definition v_message : str := [109;101;115;115;97;103;101].       (* "message" *)

Definition sp (c : enc_choice) : str := if ec_space c then [32] else [].

Definition extra_line (c : enc_choice) (x : extra) : str :=
  match x with
  | XComment s => 58 :: s
  | XId s => k_id ++ sp c ++ s
  | XRetry s => k_retry ++ sp c ++ s
  end.

Definition event_line (c : enc_choice) : str := k_event ++ sp c ++ v_message.
Definition data_line (c : enc_choice) (m : str) : str := k_data ++ sp c ++ m.

(** The logical lines of one event carrying the message text [m]. *)
Definition event_lines (c : enc_choice) (m : str) : list str :=
  map (extra_line c) (ec_before c)
  ++ (match ec_event c with EvBefore => [event_line c] | _ => [] end)
  ++ [data_line c m]
  ++ (match ec_event c with EvAfter => [event_line c] | _ => [] end)
  ++ map (extra_line c) (ec_after c)
  ++ [] :: repeat [] (ec_blanks c).

Definition eol (c : enc_choice) : str := if ec_crlf c then [13;10] else [10].

Definition encode_event (c : enc_choice) (m : str) : str :=
  flat_map (fun l => l ++ eol c) (event_lines c m).

(** The body of an SSE response carrying the messages [map snd l], each under its own choices. *)
Definition sse_encode (l : list (enc_choice * str)) : str :=
  flat_map (fun cm => encode_event (fst cm) (snd cm)) l.

(** Admissible inputs: ignorable values contain no line terminator; a message
    is a single-line JSON object text ("{" ... "}"). *)
Definition extra_ok (x : extra) : bool :=
  match x with XComment s | XId s | XRetry s => line_safe s end.

Definition msg_ok (m : str) : bool :=
  match m with
  | c :: _ => (c =? 123) && line_safe m && (last m 0 =? 125)
  | [] => false
  end.

Definition choice_ok (c : enc_choice) : bool :=
  forallb extra_ok (ec_before c) && forallb extra_ok (ec_after c).

Definition event_ok (cm : enc_choice * str) : bool := choice_ok (fst cm) && msg_ok (snd cm).

(** Events WITHOUT data between the messages: a typed event that carries no data field (a keep-alive such as
    "event: ping" followed by the blank line) and a block that holds only a comment.  Per the SSE format nothing is
    dispatched for them, and the event type such a block sets does NOT stick to the events that follow. *)
Inductive noise : Type :=
| NTyped (name : str)        (* "event:" [" "] name, blank line *)
| NCommentOnly (s : str).    (* ":" s, blank line *)

Definition noise_lines (c : enc_choice) (n : noise) : list str :=
  match n with
  | NTyped name => [k_event ++ sp c ++ name; []]
  | NCommentOnly s => [58 :: s; []]
  end.

Definition noise_ok (n : noise) : bool :=
  match n with NTyped s | NCommentOnly s => line_safe s end.

(** One message event preceded by its data-less events, all under the same spelling choices. *)
Definition encode_noisy_event (ns : list noise) (c : enc_choice) (m : str) : str :=
  flat_map (fun l => l ++ eol c) (flat_map (noise_lines c) ns ++ event_lines c m).

Definition sse_encode_noisy (l : list (list noise * (enc_choice * str))) : str :=
  flat_map (fun x => encode_noisy_event (fst x) (fst (snd x)) (snd (snd x))) l.

Definition noisy_event_ok (x : list noise * (enc_choice * str)) : bool :=
  forallb noise_ok (fst x) && event_ok (snd x).

(* ------------------------------------------------------------------ *)
(** * 2. Exactly one terminal message                                   *)
(* ------------------------------------------------------------------ *)

(** What one POST put on the read stream, as the property sees it: a message
    the SERVER sent, or one the transport SYNTHESISED (carrying an id or not;
    terminal = it has a result or an error and no method). *)
Inductive omsg (M : Type) : Type :=
| OServer (m : M)
| OSynth (id : option jid) (terminal : bool).
Arguments OServer {M} m.
Arguments OSynth {M} id terminal.

Section Terminal.
  Variable M : Type.
  Variable answers : jid -> M -> bool.    (* m is a response (no method) carrying this id *)

  Definition servers (out : list (omsg M)) : list M :=
    flat_map (fun o => match o with OServer m => [m] | OSynth _ _ => [] end) out.
  Definition synths (out : list (omsg M)) : list (option jid * bool) :=
    flat_map (fun o => match o with OServer _ => [] | OSynth i t => [(i, t)] end) out.

  (** [rid = Some r]: the POST was a request with id r.  Either the server's own
      response to r was delivered and nothing was synthesised, or no delivered
      server message answers r and EXACTLY ONE message was synthesised: terminal,
      carrying r.
      [rid = None]: the POST was a notification: at most one synthesised
      message and none carrying an id. *)
  Definition Spec_terminal (rid : option jid) (out : list (omsg M)) : Prop :=
    match rid with
    | Some r =>
        (existsb (answers r) (servers out) = true /\ synths out = [])
        \/ (existsb (answers r) (servers out) = false /\ synths out = [(Some r, true)])
    | None =>
        (length (synths out) <= 1)%nat /\ forall s, In s (synths out) -> fst s = None
    end.

  Definition synth_is (r : jid) (s : option jid * bool) : bool :=
    match s with
    | (Some i, true) => jid_eqb i r
    | _ => false
    end.

  Definition terminal_ok (rid : option jid) (out : list (omsg M)) : bool :=
    match rid with
    | Some r =>
        if existsb (answers r) (servers out) then is_nil (synths out)
        else match synths out with
             | [s] => synth_is r s
             | _ => false
             end
    | None =>
        (Nat.leb (length (synths out)) 1) && forallb (fun s => is_none (fst s)) (synths out)
    end.
End Terminal.

(** Nothing lost, nothing invented, order kept: the server messages delivered
    are exactly the messages the body contains ([intent], by tag).  When the
    body is not served under its own label only "nothing invented" is demanded:
    the delivered ones are a subsequence of the intent. *)
Fixpoint is_subseq (a b : list Z) : bool :=
  match a, b with
  | [], _ => true
  | _ :: _, [] => false
  | x :: a', y :: b' => if x =? y then is_subseq a' b' else is_subseq a b'
  end.

Definition delivery_ok (no_loss : bool) (intent delivered : list Z) : bool :=
  if no_loss then list_eqb Z.eqb delivered intent else is_subseq delivered intent.

(* ------------------------------------------------------------------ *)
(** * 3. Session id                                                     *)
(* ------------------------------------------------------------------ *)

(** A server issues a session id by putting Mcp-Session-Id on a non-error response. *)
Definition issues (status : Z) (hdr : option str) : option str :=
  if status <? 400 then hdr else None.

(** The most recent id in a history (oldest first) of "issued s" / "issued nothing". *)
Fixpoint most_recent (hist : list (option str)) : option str :=
  match hist with
  | [] => None
  | h :: t => match most_recent t with
              | Some s => Some s
              | None => h
              end
  end.

(** The header a request must carry after [hist] (the id configured at start counts as issued first). *)
Definition demanded_header (init : option str) (hist : list (option str)) : option str :=
  most_recent (init :: hist).

Definition session_ok (init : option str) (hist : list (option str)) (sent : option str) : bool :=
  option_eqb str_eqb sent (demanded_header init hist).

(** Specification of C18, from the property text. *)
From Verif.Base Require Import Prelude AwaitTypes.
From Verif.Spec Require Import C01.
Open Scope Z_scope.

(** One caller: its id, its absolute deadline and what it observed
    ([None] = still pending is impossible at the end of a run; timeouts are
    [Some Timeout]). *)
Record caller : Type := { c_id : rid; c_deadline : Z; c_out : outcome }.

(** "no caller is ever handed another caller's response": a returned payload
    / raised error is that of a response bearing the caller's own id. *)
Definition own_response (arrivals : list (Z * inmsg)) (c : caller) : bool :=
  match c_out c with
  | Return tok =>
      existsb (fun x => match snd x with MRes i t => rid_eqb i (c_id c) && (t =? tok) | _ => false end) arrivals
  | RaiseErr _ code =>
      existsb (fun x => match snd x with MErr i cd => rid_eqb i (c_id c) && (cd =? code) | _ => false end) arrivals
  | _ => true
  end.

(** "every caller whose response the server sent within its deadline receives
    it": if an answer bearing the caller's id arrived strictly before its
    deadline, the caller completed with the first such answer. *)
Definition not_lost (arrivals : list (Z * inmsg)) (c : caller) : bool :=
  match first_answer (c_id c) arrivals with
  | Some (a, m) => if a <? c_deadline c then out_matches m (c_out c) else true
  | None => true
  end.

Definition no_crosstalk_ok (arrivals : list (Z * inmsg)) (cs : list caller) : bool :=
  forallb (own_response arrivals) cs.

Definition no_lost_ok (arrivals : list (Z * inmsg)) (cs : list caller) : bool :=
  forallb (not_lost arrivals) cs.

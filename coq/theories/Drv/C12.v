(** Driver entry point for C12: the model functions (tags < 10) and the
    specification checkers (tags >= 10).  The model does not depend on Gen/,
    so one driver serves both. *)
From Verif.Base Require Import Prelude Sexp SseVocab.
From Verif.Spec Require Import C12.
From Verif.Model Require Import SseLegacy.
Open Scope Z_scope.

Definition sx_cfg (s : sexp) : cfg :=
  Cfg (sx_bool (sx_nth 0 s)) (sx_bool (sx_nth 1 s)) (sx_bool (sx_nth 2 s)) (sx_bool (sx_nth 3 s)) (sx_bool (sx_nth 4 s))
      (sx_bool (sx_nth 5 s)) (sx_bool (sx_nth 6 s)) (sx_bool (sx_nth 7 s)).

Definition sx_id (s : sexp) : id :=
  if sx_Z (sx_nth 0 s) =? 0 then IdInt (sx_Z (sx_nth 1 s)) else IdStr (sx_str (sx_nth 1 s)).
Definition of_id (i : id) : sexp :=
  match i with IdInt z => Li [At 0; At z] | IdStr s => Li [At 1; of_str s] end.

Definition sx_kind (s : sexp) : kind :=
  let t := sx_Z (sx_nth 0 s) in
  if t =? 0 then KRes else if t =? 1 then KErr (sx_Z (sx_nth 1 s)) else if t =? 2 then KReq
  else if t =? 3 then KNotif else KOther.
Definition of_kind (k : kind) : sexp :=
  match k with KRes => Li [At 0] | KErr c => Li [At 1; At c] | KReq => Li [At 2] | KNotif => Li [At 3] | KOther => Li [At 4] end.

Definition sx_msg (s : sexp) : msg :=
  Msg (sx_opt sx_id (sx_nth 0 s)) (sx_kind (sx_nth 1 s)) (sx_Z (sx_nth 2 s)).
Definition of_msg (m : msg) : sexp := Li [of_opt of_id (m_id m); of_kind (m_kind m); At (m_tok m)].

Definition sx_body (s : sexp) : body :=
  let t := sx_Z (sx_nth 0 s) in
  if t =? 0 then BMsg (sx_msg (sx_nth 1 s)) else if t =? 1 then BInvalid else BNotJson.

Definition sx_post (s : sexp) : post_res :=
  if sx_Z (sx_nth 0 s) =? 0 then PStatus (sx_Z (sx_nth 1 s)) (sx_body (sx_nth 2 s)) else PExc.

Definition sx_ev (s : sexp) : ev :=
  let t := sx_Z (sx_nth 0 s) in
  if t =? 0 then ESend (if sx_Z (sx_nth 0 (sx_nth 1 s)) =? 0 then CReq (sx_id (sx_nth 1 (sx_nth 1 s))) else CNotif)
  else if t =? 1 then EPost (sx_post (sx_nth 1 s))
  else if t =? 2 then ETimeout
  else if t =? 3 then EWake
  else ESse (sx_opt sx_msg (sx_nth 1 s)).

Definition of_out (o : out) : sexp :=
  Li [At (match fst o with FromSse => 0 | FromSender => 1 | FromHandoff => 2 end); of_msg (snd o)].

Definition sx_chunk (s : sexp) : Z * str := (sx_Z (sx_nth 0 s), sx_str (sx_nth 1 s)).

Definition sx_est (s : sexp) : est :=
  let t := sx_Z (sx_nth 0 s) in
  if t =? 0 then EstConnError (sx_Z (sx_nth 1 s))
  else if t =? 1 then EstConnHang
  else EstResp (sx_Z (sx_nth 1 s)) (sx_Z (sx_nth 2 s)) (map sx_chunk (sx_list (sx_nth 3 s))) (sx_opt sx_Z (sx_nth 4 s)).

Definition of_enter (r : enter_res) : sexp :=
  match r with Live u t => Li [At 0; of_str u; At t] | Raise t => Li [At 1; At t] end.
Definition sx_enter (s : sexp) : enter_res :=
  if sx_Z (sx_nth 0 s) =? 0 then Live (sx_str (sx_nth 1 s)) (sx_Z (sx_nth 2 s)) else Raise (sx_Z (sx_nth 1 s)).

Definition of_action (a : action) : sexp :=
  match a with AEndpoint u => Li [At 0; of_str u] | AMessage d => Li [At 1; of_str d] end.

Definition sx_lev (s : sexp) : lev :=
  match s with
  | At t =>
      if t =? 0 then LAlloc else if t =? 1 then LStreamOpen else if t =? 2 then LSseEnds else if t =? 3 then LOutEnds
      else if t =? 4 then LPendAdd else if t =? 5 then LPendDone else if t =? 6 then LEnterOk
      else if t =? 7 then LEnterRaise else if t =? 8 then LEnterCancel else LWait
  | Li _ =>
      let k := sx_Z (sx_nth 1 s) in
      LExit (if k =? 0 then XNormal else if k =? 1 then XException else if k =? 2 then XCancelTask else XCancelScope)
  end.

Definition of_sender_idle (s : sstate) : sexp := of_bool (match s_task s with SIdle => true | _ => false end).

Definition dispatch (s : sexp) : sexp :=
  let t := sx_tag s in
  if t =? 0 then of_bool (is_py_space (sx_Z (sx_arg 0 s)))
  else if t =? 1 then          (* run_parser cfg base chunks *)
    let r := run_parser (sx_cfg (sx_arg 0 s)) (sx_str (sx_arg 1 s)) pinit (map sx_str (sx_list (sx_arg 2 s))) in
    Li [of_list of_action (snd r); of_opt of_str (l_url (p_l (fst r))); of_opt of_str (l_event (p_l (fst r)));
        of_str (p_buf (fst r))]
  else if t =? 2 then          (* enter cfg base timeout est *)
    of_enter (enter (sx_cfg (sx_arg 0 s)) (sx_str (sx_arg 1 s)) (sx_Z (sx_arg 2 s)) (sx_est (sx_arg 3 s)))
  else if t =? 3 then          (* run cfg evs *)
    let c := sx_cfg (sx_arg 0 s) in
    let evs := map sx_ev (sx_list (sx_arg 1 s)) in
    Li [of_list of_out (run c sinit evs); of_sender_idle (final c sinit evs)]
  else if t =? 4 then          (* life cfg levs *)
    let l := life (sx_cfg (sx_arg 0 s)) (map sx_lev (sx_list (sx_arg 1 s))) in
    let r := lr l in
    Li [of_bool (match lp l with LClosed => true | _ => false end); of_bool (released r); of_bool (match lp l with LStuck => true | _ => false end);
        Li [of_bool (r_sse_task r); of_bool (r_out_task r); of_bool (r_stream_ctx r); of_bool (r_stream_client r);
            of_bool (r_send_client r); of_bool (r_in_send r); of_bool (r_out_send r); of_nat (r_pending r); of_bool (r_waiting r)]]
  else if t =? 5 then of_str (key (sx_id (sx_arg 0 s)))
  else if t =? 10 then         (* enter_ok timeout announced obs *)
    of_bool (enter_ok (sx_Z (sx_arg 0 s)) (sx_opt sx_Z (sx_arg 1 s)) (sx_enter (sx_arg 2 s)))
  else if t =? 11 then         (* terminal_ok rid delivered *)
    of_bool (terminal_ok (sx_id (sx_arg 0 s)) (map sx_msg (sx_list (sx_arg 1 s))))
  else if t =? 12 then         (* order_ok sent delivered *)
    of_bool (order_ok (map sx_msg (sx_list (sx_arg 0 s))) (map sx_msg (sx_list (sx_arg 1 s))))
  else if t =? 13 then         (* released_ok tasks clients streams mem *)
    of_bool (released_ok (Left (sx_Z (sx_arg 0 s)) (sx_Z (sx_arg 1 s)) (sx_Z (sx_arg 2 s)) (sx_Z (sx_arg 3 s))))
  else if t =? 14 then         (* sched_ok rid evs *)
    of_bool (sched_ok (sx_id (sx_arg 0 s)) (map sx_ev (sx_list (sx_arg 1 s))))
  else if t =? 15 then         (* sched_ok_late rid evs *)
    of_bool (sched_ok_late (sx_id (sx_arg 0 s)) (map sx_ev (sx_list (sx_arg 1 s))))
  else if t =? 16 then         (* stream_due rid evs : what is due on the read stream from the event stream *)
    of_list of_msg (stream_due (sx_id (sx_arg 0 s)) late_init (map sx_ev (sx_list (sx_arg 1 s))))
  else At (-999).

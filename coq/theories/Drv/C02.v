(** Driver entry point for C02: the specification checkers (Spec/C02.v) and the
    executable model (Model/Envelope.v).  The model does not depend on Gen/, so
    one driver serves both.  Extracted to OCaml.

    rid:  (0 z) | (1 str)          kind: 0 request, 1 notification, 2 result, 3 error
    view: (kind (id)? (method)? params result error)
    msg:  (cls jsonrpc (id)? (method)? params result error (kind)?) *)
From Verif.Base Require Import Prelude Sexp Json JsonSexp Envelope.
From Verif.Spec Require Import C02.
From Verif.Model Require Import Envelope.
Open Scope Z_scope.

Definition sx_rid (s : sexp) : rid :=
  match sx_list s with
  | [At 1; t] => IdStr (sx_str t)
  | [At _; z] => IdInt (sx_Z z)
  | _ => IdInt 0
  end.

Definition of_rid (i : rid) : sexp :=
  match i with IdInt z => Li [At 0; At z] | IdStr s => Li [At 1; of_str s] end.

Definition sx_kind (s : sexp) : kind :=
  let z := sx_Z s in
  if z =? 0 then KReq else if z =? 1 then KNotif else if z =? 2 then KRes else KErr.

Definition of_kind (k : kind) : sexp :=
  At (match k with KReq => 0 | KNotif => 1 | KRes => 2 | KErr => 3 end).

Definition sx_view (s : sexp) : view :=
  {| v_kind := sx_kind (sx_nth 0 s);
     v_id := sx_opt sx_rid (sx_nth 1 s);
     v_method := sx_opt sx_str (sx_nth 2 s);
     v_params := js_of_sx (sx_nth 3 s);
     v_result := js_of_sx (sx_nth 4 s);
     v_error := js_of_sx (sx_nth 5 s) |}.

Definition of_view (v : view) : sexp :=
  Li [of_kind (v_kind v); of_opt of_rid (v_id v); of_opt of_str (v_method v);
      sx_of_js (v_params v); sx_of_js (v_result v); sx_of_js (v_error v)].

Definition of_defect (d : defect) : sexp :=
  At (match d with
      | NotAnObject => 0 | BadVersion => 1 | BadMethod => 2 | RequestCarriesResultOrError => 3
      | BadParams => 4 | BadRequestId => 5 | ResponseCarriesParams => 6 | NeitherResultNorError => 7
      | BothResultAndError => 8 | ResponseWithoutId => 9 | BadResponseId => 10 | BadErrorObject => 11
      end).

Definition of_cls (c : cls) : sexp :=
  At (match c with CRequest => 0 | CNotification => 1 | CResponse => 2 | CError => 3 | CUnified => 4 end).

Definition of_msg (e : msg) : sexp :=
  Li [of_cls (m_cls e); of_str (m_jsonrpc e); of_opt of_rid (m_id e); of_opt of_str (m_method e);
      sx_of_js (m_params e); sx_of_js (m_result e); sx_of_js (m_error e); of_opt of_kind (kind_of e)].

Definition sx_params (s : sexp) : option obj :=
  match sx_opt js_of_sx s with
  | Some (JObj m) => Some m
  | Some _ => Some []
  | None => None
  end.

Definition of_built (r : option msg) : sexp :=
  of_opt (fun e => Li [of_msg e; sx_of_js (dump_exclude_none e)]) r.

Definition construct (s : sexp) : sexp :=
  let c := sx_Z (sx_arg 0 s) in
  let a := fun n => sx_arg (S n) s in
  if c =? 0 then of_built (create_request (sx_str (a 0%nat)) (sx_params (a 1%nat)) (sx_rid (a 2%nat)))
  else if c =? 1 then of_built (create_request_progress (sx_str (a 0%nat)) (sx_params (a 1%nat)) (sx_rid (a 2%nat)) (sx_rid (a 3%nat)))
  else if c =? 2 then of_built (create_notification (sx_str (a 0%nat)) (sx_params (a 1%nat)))
  else if c =? 3 then of_built (create_response (sx_bool (a 0%nat)) (sx_rid (a 1%nat)) (js_of_sx (a 2%nat)))
  else if c =? 4 then of_built (create_error_response (sx_rid (a 0%nat)) (sx_Z (a 1%nat)) (sx_str (a 2%nat)) (js_of_sx (a 3%nat)))
  else if c =? 5 then of_built (u_create_request (sx_str (a 0%nat)) (sx_params (a 1%nat)) (sx_rid (a 2%nat)))
  else if c =? 6 then of_built (u_create_notification (sx_str (a 0%nat)) (sx_params (a 1%nat)))
  else if c =? 7 then of_built (u_create_response (sx_rid (a 0%nat)) (js_of_sx (a 1%nat)))
  else if c =? 8 then of_built (u_create_error_response (sx_rid (a 0%nat)) (sx_Z (a 1%nat)) (sx_str (a 2%nat)) (js_of_sx (a 3%nat)))
  else At (-998).

Definition dispatch (s : sexp) : sexp :=
  let t := sx_tag s in
  if t =? 0 then        (* SPEC classify wire *)
    match classify (js_of_sx (sx_arg 0 s)) with
    | inr k => Li [At 0; of_kind k]
    | inl d => Li [At 1; of_defect d]
    end
  else if t =? 1 then   (* SPEC view_of_wire wire *)
    of_opt of_view (view_of_wire (js_of_sx (sx_arg 0 s)))
  else if t =? 2 then   (* SPEC roundtrip_ok wire (parsed view)? *)
    of_bool (roundtrip_ok (js_of_sx (sx_arg 0 s)) (sx_opt sx_view (sx_arg 1 s)))
  else if t =? 3 then   (* SPEC carries_ok intent wire *)
    of_bool (carries_ok (sx_view (sx_arg 0 s)) (js_of_sx (sx_arg 1 s)))
  else if t =? 4 then   (* MODEL parse_message fb wire *)
    let j := js_of_sx (sx_arg 1 s) in
    let r := parse_message (sx_bool (sx_arg 0 s)) j in
    Li [of_bool (in_domain j); of_opt of_msg r;
        of_opt of_view (match r with Some e => view_of_msg e | None => None end)]
  else if t =? 5 then   (* MODEL constructors + dump *)
    construct s
  else if t =? 6 then   (* SPEC exactly_one_of_result_error wire *)
    of_bool (exactly_one_of_result_error (js_of_sx (sx_arg 0 s)))
  else if t =? 7 then   (* MODEL batch_rejection_error (id)? msg data *)
    sx_of_js (batch_rejection_error (sx_opt sx_rid (sx_arg 0 s)) (sx_str (sx_arg 1 s)) (js_of_sx (sx_arg 2 s)))
  else At (-999).

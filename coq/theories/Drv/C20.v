(** Driver entry point for C20: the host model (tags 1-4) and the
    specification checkers (tags 10-14).  The model does not depend on any
    generated file, so one driver serves both.

    Encodings
      json      as Base/JsonSexp.v
      source    (0) missing file | (1) invalid JSON | (2 json)
      env       ((k v) ...)
      launch    (argv env)         proc (launch init)      run_obs ((proc ...) connected)
      dec       (m e)
      load_obs  (0 (command args envopt) decopt) | (1 errcode)     errcode 0 FileNotFound 1 JSONDecode 2 Value 3 other
      refusers  list of commands whose server does not answer initialize *)
From Verif.Base Require Import Prelude Sexp Json JsonSexp Decimal HostTypes.
From Verif.Spec Require Import C20.
From Verif.Model Require Import Config.
Open Scope Z_scope.

Definition sx_source (s : sexp) : source :=
  match sx_Z (sx_nth 0 s) with
  | 0 => SrcMissing
  | 1 => SrcBadJson
  | _ => SrcJson (js_of_sx (sx_nth 1 s))
  end.

Definition sx_env (s : sexp) : envt :=
  map (fun kv => (sx_str (sx_nth 0 kv), sx_str (sx_nth 1 kv))) (sx_list s).
Definition of_env (e : envt) : sexp :=
  of_list (fun kv : str * str => Li [of_str (fst kv); of_str (snd kv)]) e.

Definition sx_strs (s : sexp) : list str := map sx_str (sx_list s).
Definition of_strs (l : list str) : sexp := of_list of_str l.

Definition sx_launch (s : sexp) : launch := Launch (sx_strs (sx_nth 0 s)) (sx_env (sx_nth 1 s)).
Definition of_launch (l : launch) : sexp := Li [of_strs (l_argv l); of_env (l_env l)].

Definition sx_proc (s : sexp) : proc := Proc (sx_launch (sx_nth 0 s)) (sx_bool (sx_nth 1 s)).
Definition of_proc (p : proc) : sexp := Li [of_launch (pr_launch p); of_bool (pr_init p)].

Definition sx_run (s : sexp) : run_obs := RunObs (map sx_proc (sx_list (sx_nth 0 s))) (sx_Z (sx_nth 1 s)).
Definition of_run (o : run_obs) : sexp := Li [of_list of_proc (ro_procs o); At (ro_connected o)].

Definition sx_dec (s : sexp) : dec := Dec (sx_Z (sx_nth 0 s)) (sx_Z (sx_nth 1 s)).
Definition of_dec (d : dec) : sexp := Li [At (d_m d); At (d_e d)].

Definition err_code (e : err) : Z :=
  match e with EFileNotFound => 0 | EJSONDecode => 1 | EValue => 2 | EOther => 3 end.
Definition code_err (z : Z) : err :=
  match z with 0 => EFileNotFound | 1 => EJSONDecode | 2 => EValue | _ => EOther end.

Definition sx_params (s : sexp) : params :=
  Params (sx_str (sx_nth 0 s)) (sx_strs (sx_nth 1 s)) (sx_opt sx_env (sx_nth 2 s)).
Definition of_params (p : params) : sexp :=
  Li [of_str (p_command p); of_strs (p_args p); of_opt of_env (p_env p)].

Definition sx_load_obs (s : sexp) : load_obs :=
  match sx_Z (sx_nth 0 s) with
  | 0 => Loaded (sx_params (sx_nth 1 s)) (sx_opt sx_dec (sx_nth 2 s))
  | _ => Raised (code_err (sx_Z (sx_nth 1 s)))
  end.
Definition of_load_obs (o : load_obs) : sexp :=
  match o with
  | Loaded p t => Li [At 0; of_params p; of_opt of_dec t]
  | Raised e => Li [At 1; At (err_code e)]
  end.

Definition answers_of (refusers : list str) (c : str) : bool := negb (mem_str c refusers).

Definition dispatch (s : sexp) : sexp :=
  let t := sx_tag s in
  (* ---- model ---- *)
  if t =? 1 then        (* load_config src name *)
    of_load_obs (load_obs_of (load_config (sx_source (sx_arg 0 s)) (sx_str (sx_arg 1 s))))
  else if t =? 2 then   (* cli refusers denv src name *)
    of_run (cli (answers_of (sx_strs (sx_arg 0 s))) (sx_env (sx_arg 1 s))
                (sx_source (sx_arg 2 s)) (sx_str (sx_arg 3 s)))
  else if t =? 3 then   (* runner refusers denv src names *)
    of_run (runner (answers_of (sx_strs (sx_arg 0 s))) (sx_env (sx_arg 1 s))
                   (sx_source (sx_arg 2 s)) (sx_strs (sx_arg 3 s)))
  else if t =? 4 then   (* default_env host *)
    of_env (default_env (sx_env (sx_arg 0 s)))
  (* ---- specification ---- *)
  else if t =? 10 then  (* load_ok src name load_obs *)
    of_bool (load_ok (sx_source (sx_arg 0 s)) (sx_str (sx_arg 1 s)) (sx_load_obs (sx_arg 2 s)))
  else if t =? 11 then  (* run_ok refusers denv src names run_obs *)
    of_bool (run_ok (answers_of (sx_strs (sx_arg 0 s))) (sx_env (sx_arg 1 s))
                    (sx_source (sx_arg 2 s)) (sx_strs (sx_arg 3 s)) (sx_run (sx_arg 4 s)))
  else if t =? 12 then  (* valid_config json *)
    of_bool (valid_config (js_of_sx (sx_arg 0 s)))
  else if t =? 13 then  (* proc_ok denv server-json proc *)
    of_bool (proc_ok (sx_env (sx_arg 0 s)) (js_of_sx (sx_arg 1 s)) (sx_proc (sx_arg 2 s)))
  else if t =? 14 then  (* what is configured for a name: () | ((command args env timeoutopt)) *)
    match sx_source (sx_arg 0 s) with
    | SrcJson cfg =>
        of_opt (fun sv => Li [of_str (cfg_command sv); of_strs (cfg_args sv); of_env (cfg_env sv);
                              of_opt of_dec (cfg_timeout sv)])
               (server_of cfg (sx_str (sx_arg 1 s)))
    | _ => Li []
    end
  else At (-999).

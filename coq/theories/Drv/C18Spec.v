(** Spec driver for C18 (imports nothing generated from the code). *)
From Verif.Base Require Import Prelude Sexp AwaitTypes AwaitCodec.
From Verif.Spec Require Import C18.
Open Scope Z_scope.

Definition sx_caller (s : sexp) : caller :=
  {| c_id := sx_rid (sx_nth 0 s); c_deadline := sx_Z (sx_nth 1 s); c_out := sx_outcome (sx_nth 2 s) |}.

Definition dispatch (s : sexp) : sexp :=
  let t := sx_tag s in
  if t =? 1 then   (* no_crosstalk_ok arrivals callers *)
    of_bool (no_crosstalk_ok (map sx_arrival (sx_list (sx_arg 0 s))) (map sx_caller (sx_list (sx_arg 1 s))))
  else if t =? 2 then   (* per-caller not_lost flags *)
    of_list (fun c => of_bool (not_lost (map sx_arrival (sx_list (sx_arg 0 s))) c)) (map sx_caller (sx_list (sx_arg 1 s)))
  else At (-999).

(** Driver entry point for the C17 MODEL functions (reference codec and the
    fast_json wrapper instantiated with the reference codecs).
    Floats travel as their token text(s). *)
From Verif.Base Require Import Prelude Sexp JsonVal.
From Verif.Model Require Import JsonEnc FastJson.
Open Scope Z_scope.

Definition sx_policy (a b : sexp) : policy := {| pol_ascii := sx_bool a; pol_spaced := sx_bool b |}.

(** a float as a pair (orjson's text, stdlib's text) *)
Definition sx_tok2 (s : sexp) : str * str := (sx_str (sx_nth 0 s), sx_str (sx_nth 1 s)).

Definition of_tokjson : json str -> sexp := of_json of_str.

Definition dispatch (s : sexp) : sexp :=
  let t := sx_tag s in
  if t =? 0 then        (* render ascii spaced v  -> code points *)
    of_str (render tok_ftext (sx_policy (sx_arg 0 s) (sx_arg 1 s)) (sx_json sx_str (sx_arg 2 s)))
  else if t =? 1 then   (* ref_encode ascii spaced v -> bytes *)
    of_str (ref_encode tok_ftext (sx_policy (sx_arg 0 s) (sx_arg 1 s)) (sx_json sx_str (sx_arg 2 s)))
  else if t =? 2 then   (* ref_parse code points *)
    of_opt of_tokjson (ref_parse tok_fparse (sx_str (sx_arg 0 s)))
  else if t =? 3 then   (* ref_decode bytes *)
    of_opt of_tokjson (ref_decode tok_fparse (sx_str (sx_arg 0 s)))
  else if t =? 4 then   (* ref_dumps has_orjson compact_separators v  (no indent) -> opt code points *)
    of_opt of_str (ref_dumps (F := str * str) fst snd (sx_bool (sx_arg 0 s))
                     {| kw_indent := None; kw_compact := sx_bool (sx_arg 1 s) |}
                     (sx_json sx_tok2 (sx_arg 2 s)))
  else if t =? 5 then   (* ref_loads has_orjson code points *)
    of_opt of_tokjson (ref_loads tok_fparse (sx_bool (sx_arg 0 s)) (sx_str (sx_arg 1 s)))
  else if t =? 6 then   (* fits64, depth *)
    let v := sx_json sx_str (sx_arg 0 s) in Li [of_bool (fits64 v); of_nat (depth v)]
  else At (-999).

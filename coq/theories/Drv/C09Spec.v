(** Spec-side driver for C09 (Base + Spec only). *)
From Verif.Base Require Import Prelude Sexp Json JsonSexp.
From Verif.Spec Require Import C09.
Open Scope Z_scope.

Definition dispatch (s : sexp) : sexp :=
  let t := sx_tag s in
  if t =? 0 then
    of_bool (agree_ok (sx_bool (sx_arg 2 s)) (js_of_sx (sx_arg 0 s)) (js_of_sx (sx_arg 1 s)))
  else At (-999).

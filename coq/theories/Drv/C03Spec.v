(** Driver entry point for the C03 specification checker (imports nothing
    generated from the code, so it builds even when the model does not). *)
From Verif.Base Require Import Prelude Sexp.
From Verif.Spec Require Import C13 C03.
Open Scope Z_scope.

Definition sx_s_answer (s : sexp) : s_answer :=
  match sx_list s with
  | [] => SOther
  | v :: _ => SVersion (sx_str v)
  end.

(** outcome: [(0 v)] returned v | [(1)] version mismatch | [(2)] any other failure *)
Definition sx_s_outcome (s : sexp) : s_outcome :=
  let t := sx_tag s in
  if t =? 0 then SOk (sx_str (sx_arg 0 s))
  else if t =? 1 then SMismatch
  else SFailed.

(** tracked: [()] untracked | [((ver?) mode)] *)
Definition sx_tracked (s : sexp) : option (option str * bool) :=
  match sx_list s with
  | [] => None
  | p :: _ => Some (sx_opt sx_str (sx_nth 0 p), sx_bool (sx_nth 1 p))
  end.

Definition sx_obs (s : sexp) : obs :=
  {| o_supported := map sx_str (sx_list (sx_arg 0 s));
     o_preferred := sx_opt sx_str (sx_arg 1 s);
     o_answer := sx_s_answer (sx_arg 2 s);
     o_inits := map sx_str (sx_list (sx_arg 3 s));
     o_before := sx_Z (sx_arg 4 s);
     o_between := sx_Z (sx_arg 5 s);
     o_after := sx_Z (sx_arg 6 s);
     o_outcome := sx_s_outcome (sx_arg 7 s);
     o_tracked := sx_tracked (sx_arg 8 s) |}.

Definition dispatch (s : sexp) : sexp :=
  let t := sx_tag s in
  if t =? 20 then     (* c03_ok obs -> (ok failing_clause) *)
    let o := sx_obs s in Li [of_bool (c03_ok o); At (c03_failing_clause o)]
  else At (-999).

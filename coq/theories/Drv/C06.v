(** Driver entry point for C06: the writer model instantiated with serialiser
    RESULTS supplied by the harness (it calls the real serialisers on each
    message in isolation), and the spec checkers. *)
From Verif.Base Require Import Prelude Sexp StdioUtf8.
From Verif.Model Require Import StdioOut.
From Verif.Spec Require Import C06.
Open Scope Z_scope.

(** a message on the wire: (kind text? aux?) ; kinds 0 Typed 1 DumpOnly 2 Dict 3 Other 4 Raw.
    For kinds 0-3 [text?] is the serialiser's result; for Raw [text?] is the string
    itself and [aux?] the result of json.dumps(json.loads(text)). *)
Definition ostr := option str.

Definition sx_msg (s : sexp) : outmsg ostr ostr :=
  let k := sx_Z (sx_nth 0 s) in
  let t := sx_opt sx_str (sx_nth 1 s) in
  if k =? 0 then Typed t
  else if k =? 1 then DumpOnly t
  else if k =? 2 then Dict t
  else if k =? 3 then Other t
  else Raw (match t with Some x => x | None => [] end).

Definition sx_oev (s : sexp) : oev ostr ostr :=
  match sx_list s with
  | [] => Close _ _
  | _ => Send _ _ (sx_msg s)
  end.

Fixpoint raw_table (l : list sexp) : list (str * ostr) :=
  match l with
  | [] => []
  | s :: r =>
      if sx_Z (sx_nth 0 s) =? 4
      then (match sx_opt sx_str (sx_nth 1 s) with Some x => x | None => [] end, sx_opt sx_str (sx_nth 2 s)) :: raw_table r
      else raw_table r
  end.

Fixpoint lookup (tbl : list (str * ostr)) (t : str) : ostr :=
  match tbl with
  | [] => None
  | (k, v) :: r => if str_eqb k t then v else lookup r t
  end.

Definition run_writer (pol : Z) (evs : list sexp) : sexp :=
  let tbl := raw_table evs in
  let p := if pol =? 0 then Verbatim else Recompact in
  let '(ws, closed) :=
    run_out ostr ostr (fun e => e) (fun e => Some e) (fun v => v) (fun t => Some (lookup tbl t)) p
            (map sx_oev evs) in
  Li [of_list of_str ws; of_bool closed].

Definition dispatch (s : sexp) : sexp :=
  let t := sx_tag s in
  if t =? 0 then      (* run_out policy events *)
    run_writer (sx_Z (sx_arg 0 s)) (sx_list (sx_arg 1 s))
  else if t =? 2 then (* stream_ok n out *)
    of_bool (stream_ok (sx_Z (sx_arg 0 s)) (sx_str (sx_arg 1 s)))
  else if t =? 3 then (* stream_lines out *)
    of_opt (of_list of_str) (stream_lines (sx_str (sx_arg 0 s)))
  else At (-999).

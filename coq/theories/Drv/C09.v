(** Driver for C09/C10: runs the executable model of both back ends on a wire
    value against a class of the GENERATED schema table. *)
From Verif.Base Require Import Prelude Sexp Json ValidSchema JsonSexp.
From Verif.Gen Require Import SchemaGen.
From Verif.Model Require Import Validate.
Open Scope Z_scope.

Definition FUEL : nat := 64%nat.

Definition run_case (n : str) (j : json) : sexp :=
  let t := TModel n in
  let r := ref_validate all FUEL t j in
  let fp := fallback_validate all FUEL t j in
  let fh := fallback_validate_head all FUEL t j in
  Li [ of_bool (conforms all FUEL t j);
       of_opt sx_of_value fp;
       of_opt sx_of_value fh;
       sx_of_value r;
       sx_of_js (dump_by_alias all r);
       of_opt (fun v => sx_of_js (dump_by_alias all v)) fp;
       of_opt (fun v => sx_of_js (dump_by_alias all v)) fh;
       of_bool (accepts_pydantic all FUEL t j);
       of_bool (accepts_fallback all FUEL t j);
       sx_of_js (dump all false r) ].

Definition dispatch (s : sexp) : sexp :=
  let t := sx_tag s in
  if t =? 0 then run_case (sx_str (sx_arg 0 s)) (js_of_sx (sx_arg 1 s))
  else if t =? 1 then
    Li [of_bool (wf_schemas all); of_nat (length all); of_nat (length unmodelled);
        of_list (fun s => of_str (s_name s)) all]
  else At (-999).

(** Driver entry point for C15: the Spec's server-side framings (so the harness
    serves exactly what the theorems talk about), the model's receive paths
    with the identity decoder (the texts handed to the JSON decoder), the
    legacy order model, and the transcript judgement. *)
From Verif.Base Require Import Prelude Sexp StdioUtf8 SseVocab Json JsonSexp.
From Verif.Model Require Import Carrier.
From Verif.Model Require SseLegacy.
From Verif.Spec Require C11.
From Verif.Spec Require Import C15.
Open Scope Z_scope.

Definition sx_extra (s : sexp) : C11.extra :=
  let k := sx_Z (sx_nth 0 s) in
  let v := sx_str (sx_nth 1 s) in
  if k =? 0 then C11.XComment v else if k =? 1 then C11.XId v else C11.XRetry v.

(** (before after evpos space crlf blanks) *)
Definition sx_choice (s : sexp) : C11.enc_choice :=
  {| C11.ec_before := map sx_extra (sx_list (sx_nth 0 s));
     C11.ec_after := map sx_extra (sx_list (sx_nth 1 s));
     C11.ec_event := (let z := sx_Z (sx_nth 2 s) in
                      if z =? 0 then C11.EvAbsent else if z =? 1 then C11.EvBefore else C11.EvAfter);
     C11.ec_space := sx_bool (sx_nth 3 s);
     C11.ec_crlf := sx_bool (sx_nth 4 s);
     C11.ec_blanks := Z.to_nat (sx_Z (sx_nth 5 s)) |}.

(** (comments space crlf blanks) *)
Definition sx_lchoice (s : sexp) : lchoice :=
  {| lc_comments := map sx_str (sx_list (sx_nth 0 s));
     lc_space := sx_bool (sx_nth 1 s);
     lc_crlf := sx_bool (sx_nth 2 s);
     lc_blanks := Z.to_nat (sx_Z (sx_nth 3 s)) |}.

Definition sx_id (s : sexp) : id :=
  if sx_Z (sx_nth 0 s) =? 0 then IdInt (sx_Z (sx_nth 1 s)) else IdStr (sx_str (sx_nth 1 s)).

(** abstract message for the order model: (idopt kindcode tok); kind 0 = response, 1 = notification *)
Definition sx_msg (s : sexp) : msg :=
  Msg (sx_opt sx_id (sx_nth 0 s)) (if sx_Z (sx_nth 1 s) =? 0 then KRes else KNotif) (sx_Z (sx_nth 2 s)).

(** (id notifs answer modeopt) *)
Definition sx_cstep (s : sexp) : cstep :=
  {| cs_id := sx_id (sx_nth 0 s);
     cs_notifs := map sx_msg (sx_list (sx_nth 1 s));
     cs_ans := sx_msg (sx_nth 2 s);
     cs_mode := sx_opt (fun x => Z.to_nat (sx_Z x)) (sx_nth 3 s) |}.

Definition ident (t : str) : list str := [t].

Definition dispatch (s : sexp) : sexp :=
  let t := sx_tag s in
  if t =? 1 then        (* stdio_frame ((crlf text) ...) *)
    of_str (stdio_frame (map (fun e => (sx_bool (sx_nth 0 e), sx_str (sx_nth 1 e))) (sx_list (sx_arg 0 s))))
  else if t =? 2 then   (* http_sse_frame ((choice text) ...) *)
    of_str (http_sse_frame (map (fun e => (sx_choice (sx_nth 0 e), sx_str (sx_nth 1 e))) (sx_list (sx_arg 0 s))))
  else if t =? 3 then   (* legacy_frame ((lchoice text) ...) *)
    of_str (legacy_frame (map (fun e => (sx_lchoice (sx_nth 0 e), sx_str (sx_nth 1 e))) (sx_list (sx_arg 0 s))))
  else if t =? 4 then   (* http_json_body notifs answer *)
    of_str (http_json_body {| s_notifs := map sx_str (sx_list (sx_arg 0 s)); s_answer := sx_str (sx_arg 1 s) |})
  else if t =? 5 then   (* msg_ok text *)
    of_bool (msg_ok (sx_str (sx_arg 0 s)))
  else if t =? 10 then  (* rx_stdio chunks *)
    of_list of_str (rx_stdio str ident (map sx_str (sx_list (sx_arg 0 s))))
  else if t =? 11 then  (* rx_http_sse body *)
    of_list of_str (rx_http_sse str ident (sx_str (sx_arg 0 s)))
  else if t =? 12 then  (* rx_legacy base url chunks *)
    of_list of_str (rx_legacy_fast str ident SseLegacy.cfg_patched (sx_str (sx_arg 0 s))
                              (legacy_connected (sx_str (sx_arg 1 s))) (map sx_str (sx_list (sx_arg 2 s))))
  else if t =? 13 then  (* legacy order: steps -> tokens of the delivered messages, in order *)
    of_list (fun o => At (m_tok (snd o)))
            (SseLegacy.run SseLegacy.cfg_patched SseLegacy.sinit (lconv_events (map sx_cstep (sx_list (sx_arg 0 s)))))
  else if t =? 20 then  (* agree_ok canon (obs ...) -> (ok first_differing) *)
    let canon := map js_of_sx (sx_list (sx_arg 0 s)) in
    let obs := map (fun o => map js_of_sx (sx_list o)) (sx_list (sx_arg 1 s)) in
    Li [of_bool (agree_ok canon obs); of_opt of_Z (first_differing canon obs 0)]
  else At (-999).

(** Driver entry point for C08: the executable model AND the specification
    checkers (the model depends on nothing generated, so one driver serves both).
    Extracted to OCaml. *)
From Verif.Base Require Import Prelude Sexp SrvCommon.
From Verif.Spec Require Import C08.
From Verif.Model Require Import Dispatch.
Open Scope Z_scope.

(** id: (0 z) | (1 str) *)
Definition sx_rid (s : sexp) : rid :=
  if sx_Z (sx_nth 0 s) =? 0 then IdInt (sx_Z (sx_nth 1 s)) else IdStr (sx_str (sx_nth 1 s)).
Definition of_rid (i : rid) : sexp :=
  match i with IdInt z => Li [At 0; At z] | IdStr s => Li [At 1; of_str s] end.

(** envelope: (0 id) result | (1 id code) error *)
Definition sx_env (s : sexp) : env :=
  if sx_Z (sx_nth 0 s) =? 0 then EnvResult (sx_rid (sx_nth 1 s))
  else EnvError (sx_rid (sx_nth 1 s)) (sx_Z (sx_nth 2 s)).
Definition of_env (e : env) : sexp :=
  match e with
  | EnvResult i => Li [At 0; of_rid i]
  | EnvError i c => Li [At 1; of_rid i; At c]
  end.

(** outcome: (0) raised | (1) none | (2) junk | (3 env) *)
Definition sx_outcome (s : sexp) : outcome :=
  let t := sx_Z (sx_nth 0 s) in
  if t =? 0 then Raised else if t =? 1 then NoResp else if t =? 2 then Junk
  else Resp (sx_env (sx_nth 1 s)).
Definition of_outcome (o : outcome) : sexp :=
  match o with
  | Raised => Li [At 0] | NoResp => Li [At 1] | Junk => Li [At 2]
  | Resp e => Li [At 3; of_env e]
  end.

(** situation: 0..4 atoms | (5 env) | 6 | 7 *)
Definition sx_situation (s : sexp) : situation :=
  match s with
  | At 0 => SitUnregistered | At 1 => SitUnknownTarget | At 2 => SitRaises | At 3 => SitReturns
  | At 4 => SitMalformedParams | At 6 => SitCustomSilent | At 7 => SitCustomJunk
  | At _ => SitCustomJunk
  | Li _ => SitCustomAnswers (sx_env (sx_nth 1 s))
  end.
Definition of_situation (s : situation) : sexp :=
  match s with
  | SitUnregistered => At 0 | SitUnknownTarget => At 1 | SitRaises => At 2 | SitReturns => At 3
  | SitMalformedParams => At 4 | SitCustomAnswers e => Li [At 5; of_env e]
  | SitCustomSilent => At 6 | SitCustomJunk => At 7
  end.

(** jname: 0 absent | (1 str) | 2 hashable non-str | 3 unhashable *)
Definition sx_jname (s : sexp) : jname :=
  match s with
  | At 0 => NAbsent | At 2 => NHashable | At _ => NUnhashable
  | Li _ => NStr (sx_str (sx_nth 1 s))
  end.
Definition sx_jargs (s : sexp) : jargs :=
  match s with At 0 => AAbsent | At 1 => ADict | _ => ANotMapping end.
(** pshape: 0 absent | 1 falsy | 2 truthy non-dict | (3 name uri args) *)
Definition sx_pshape (s : sexp) : pshape :=
  match s with
  | At 0 => PAbsent | At 1 => PFalsy | At _ => PTruthyNonDict
  | Li _ => PDict (sx_jname (sx_nth 1 s)) (sx_jname (sx_nth 2 s)) (sx_jargs (sx_nth 3 s))
  end.

(** tbeh: 0 returns | (1 d) unrenderable | (2 d) raises *)
Definition sx_tbeh (s : sexp) : tbeh :=
  match s with
  | At _ => TReturns
  | Li _ => if sx_Z (sx_nth 0 s) =? 1 then TUnrenderable (Z.to_nat (sx_Z (sx_nth 1 s)))
            else TRaises (Z.to_nat (sx_Z (sx_nth 1 s)))
  end.
(** handler: 0 initialize 1 initialized 2 ping 3 tools/list 4 tools/call 5 resources/list 6 resources/read
             | (7 0 optenv) custom returns | (7 1 d) custom raises | (7 2) custom junk *)
Definition sx_handler (s : sexp) : handler :=
  match s with
  | At 0 => HInitialize | At 1 => HInitialized | At 2 => HPing | At 3 => HToolsList
  | At 4 => HToolsCall | At 5 => HResourcesList | At _ => HResourcesRead
  | Li _ =>
      let k := sx_Z (sx_nth 1 s) in
      if k =? 0 then HCustom (HReturns (sx_opt sx_env (sx_nth 2 s)))
      else if k =? 1 then HCustom (HRaises (Z.to_nat (sx_Z (sx_nth 2 s))))
      else HCustom HJunk
  end.

Definition sx_pair {A} (f : sexp -> A) (s : sexp) : str * A := (sx_str (sx_nth 0 s), f (sx_nth 1 s)).

(** server: (handlers tools resources); the handler list is given in REGISTRATION
    order (oldest first) and is registered on top of nothing with register_method *)
Definition sx_server (s : sexp) : server :=
  {| handlers := fold_left (fun t kv => register_method (fst kv) (snd kv) t)
                           (map (sx_pair sx_handler) (sx_list (sx_nth 0 s))) [];
     tools := rev (map (sx_pair sx_tbeh) (sx_list (sx_nth 1 s)));
     resources := rev (map (sx_pair sx_tbeh) (sx_list (sx_nth 2 s))) |}.

(** msg: 0 batch | (1 optid optmethod pshape) *)
Definition sx_msg (s : sexp) : msg :=
  match s with
  | At _ => MBatch
  | Li _ => MSingle (sx_opt sx_rid (sx_nth 1 s)) (sx_opt sx_str (sx_nth 2 s)) (sx_pshape (sx_nth 3 s))
  end.

Definition dispatch (s : sexp) : sexp :=
  let t := sx_tag s in
  if t =? 1 then        (* handle server msg -> (outcome situation) *)
    let srv := sx_server (sx_arg 0 s) in
    let m := sx_msg (sx_arg 1 s) in
    Li [of_outcome (handle srv m);
        match m with
        | MSingle _ (Some meth) p => of_situation (situation_of srv meth p)
        | _ => At (-1)
        end]
  else if t =? 2 then   (* request_ok id situation outcome *)
    of_bool (request_ok (sx_rid (sx_arg 0 s)) (sx_situation (sx_arg 1 s)) (sx_outcome (sx_arg 2 s)))
  else if t =? 3 then   (* notification_ok outcome *)
    of_bool (notification_ok (sx_outcome (sx_arg 0 s)))
  else if t =? 4 then   (* never_raises_ok outcome *)
    of_bool (never_raises_ok (sx_outcome (sx_arg 0 s)))
  else if t =? 5 then   (* contract_ok optid situation *)
    of_bool (contract_ok (sx_opt sx_rid (sx_arg 0 s)) (sx_situation (sx_arg 1 s)))
  else if t =? 6 then   (* the MCPServer default table, for the harness to compare with the real registry *)
    of_list (fun kv => of_str (fst kv)) mcp_handlers
  else At (-999).

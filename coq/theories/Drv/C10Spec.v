(** Spec-side driver for C10 (Base + Spec only). *)
From Verif.Base Require Import Prelude Sexp Json JsonSexp.
From Verif.Spec Require Import C10.
Open Scope Z_scope.

Definition members (j : json) : list (str * json) := match j with JObj m => m | _ => [] end.

Definition dispatch (s : sexp) : sexp :=
  let t := sx_tag s in
  if t =? 0 then      (* preserved_ok input output *)
    of_bool (preserved_ok 64%nat (js_of_sx (sx_arg 0 s)) (js_of_sx (sx_arg 1 s)))
  else if t =? 1 then (* added_ok input output defaults *)
    of_bool (added_ok (members (js_of_sx (sx_arg 0 s))) (members (js_of_sx (sx_arg 1 s))) (members (js_of_sx (sx_arg 2 s))))
  else if t =? 2 then (* keys_ok bad output *)
    of_bool (keys_ok (map sx_str (sx_list (sx_arg 0 s))) (js_of_sx (sx_arg 1 s)))
  else if t =? 3 then (* preserved_exact_ok input output *)
    of_bool (preserved_exact_ok 64%nat (js_of_sx (sx_arg 0 s)) (js_of_sx (sx_arg 1 s)))
  else At (-999).

(** Driver entry point for the C19 MODEL: runs a history on the model and
    compares every step with what the harness observed on the real
    InMemorySessionManager / ProtocolHandler.  Extracted to OCaml. *)
From Verif.Base Require Import Prelude Sexp.
From Verif.Gen Require Import VersionsGen.
From Verif.Spec Require Import C19.
From Verif.Model Require Import Sessions.
From Verif.Drv Require Import C19Spec.
Open Scope Z_scope.

Definition fresh_Z (n : nat) : Z := Z.of_nat n.
(** the version policy over the lists regenerated from the code *)
Definition answer_gen : vreq -> str := answer_with SUPPORTED_VERSIONS CURRENT_VERSION.
Definition step_Z := step Z Z.eqb fresh_Z answer_gen.

(** stores are compared as maps (never dict order) *)
Definition store_eqb (a b : list (Z * rec)) : bool :=
  (Nat.eqb (length a) (length b))
  && forallb (fun kv => opt_rec_eqb (l_lookup Z Z.eqb (fst kv) b) (Some (snd kv))) a
  && forallb (fun kv => opt_rec_eqb (l_lookup Z Z.eqb (fst kv) a) (Some (snd kv))) b.

Definition out_eqb (a b : out Z) : bool :=
  match a, b with
  | OutId x, OutId y => x =? y
  | OutRec x, OutRec y => opt_rec_eqb x y
  | OutBool x, OutBool y => Bool.eqb x y
  | OutCount x, OutCount y => x =? y
  | OutListing x, OutListing y => store_eqb x y
  | OutInit v x, OutInit w y => str_eqb v w && (x =? y)
  | OutNone, OutNone => true
  | _, _ => false
  end.

(** observed step: (fresh_id now op res post); returns the index of the first step where the model's
    output or store differs from the observation, or -1 *)
Fixpoint compare_trace (steps : list sexp) (st : state Z) (pre : list (Z * rec)) (i : Z) : Z :=
  match steps with
  | [] => -1
  | s :: rest =>
      let post := obs_post pre (sx_nth 4 s) in
      let '(st', r) := step_Z (sx_Z (sx_nth 1 s)) (sx_op (sx_nth 2 s)) st in
      if out_eqb r (sx_out (sx_nth 3 s)) && store_eqb (store Z st') post
         && (sx_Z (sx_nth 0 s) =? fresh_Z (next Z st))
      then compare_trace rest st' post (i + 1)
      else i
  end.

(** the model's own trace (used to print a disagreement) *)
Fixpoint model_trace (steps : list sexp) (st : state Z) : list sexp :=
  match steps with
  | [] => []
  | s :: rest =>
      let '(st', r) := step_Z (sx_Z (sx_nth 1 s)) (sx_op (sx_nth 2 s)) st in
      Li [of_out r; of_store (store Z st')] :: model_trace rest st'
  end.

Definition dispatch (s : sexp) : sexp :=
  let t := sx_tag s in
  if t =? 0 then        (* compare_trace steps *)
    At (compare_trace (sx_list (sx_arg 0 s)) (init Z) [] 0)
  else if t =? 1 then   (* model_trace steps *)
    Li (model_trace (sx_list (sx_arg 0 s)) (init Z))
  else At (-999).

(** Driver entry point for the C16 specification checkers (imports nothing
    generated from the code, so it builds even when the model does not). *)
From Verif.Base Require Import Prelude Sexp.
From Verif.Spec Require Import C16.
Open Scope Z_scope.

Definition sx_pstate (s : sexp) : pstate :=
  let z := sx_Z s in if z =? 0 then Gone else if z =? 1 then Zombie else Running.

Definition sx_pending_obs (s : sexp) : pending_obs :=
  let t := sx_tag s in
  if t =? 0 then PReturn (sx_Z (sx_arg 0 s)) else if t =? 1 then PError else PTimeout.

Definition dispatch (s : sexp) : sexp :=
  let t := sx_tag s in
  if t =? 0 then        (* exit_ok duration children extra_fds -> (ok late child_left fd_left) *)
    let o := {| eo_duration := sx_Z (sx_arg 0 s);
                eo_children := map sx_pstate (sx_list (sx_arg 1 s));
                eo_extra_fds := sx_Z (sx_arg 2 s) |} in
    Li [of_bool (exit_ok o); of_bool (exit_late o); of_bool (exit_child_left o); of_bool (exit_fd_left o)]
  else if t =? 1 then   (* pending_ok written obs *)
    of_bool (pending_ok (map sx_Z (sx_list (sx_arg 0 s))) (sx_pending_obs (sx_arg 1 s)))
  else if t =? 2 then   (* enter_ok startable entered *)
    of_bool (enter_ok (sx_bool (sx_arg 0 s)) (sx_bool (sx_arg 1 s)))
  else if t =? 3 then   (* pinned constants *)
    Li [At grace1; At grace2; At slack; At bound]
  else At (-999).

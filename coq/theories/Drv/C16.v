(** Driver entry point for the C16 MODEL (Model/Shutdown.v; depends on
    Gen/ShutdownGen.v).  Extracted to OCaml. *)
From Verif.Base Require Import Prelude Sexp AwaitTypes AwaitCodec.
From Verif.Gen Require Import ShutdownGen.
From Verif.Model Require Import Await Shutdown.
Open Scope Z_scope.

Definition sx_variant (s : sexp) : variant :=
  let z := sx_Z s in if z =? 0 then VHead else if z =? 1 then VShield else VShieldClose.

Definition sx_path (s : sexp) : exit_path :=
  let z := sx_Z s in
  if z =? 0 then PNormal else if z =? 1 then PException else if z =? 2 then PCancelScope
  else if z =? 3 then PTimeoutScope else if z =? 4 then PCancelTask else PTimeoutTask.

(** (dead eof? term? kill? floods) *)
Definition sx_child (s : sexp) : child :=
  {| c_dead := sx_bool (sx_nth 0 s);
     c_eof_exit := sx_opt sx_Z (sx_nth 1 s);
     c_term_exit := sx_opt sx_Z (sx_nth 2 s);
     c_kill_exit := sx_opt sx_Z (sx_nth 3 s);
     c_floods := sx_bool (sx_nth 4 s) |}.

Definition of_signal (x : signal) : sexp := match x with SIGTERM => At 15 | SIGKILL => At 9 end.
Definition of_exit_outcome (o : exit_outcome) : sexp :=
  match o with Returned => At 0 | BodyExceptionOut => At 1 | CancelledOut => At 2 end.

Definition of_exit_result (r : exit_result) : sexp :=
  Li [At (x_duration r); of_list of_signal (x_signals r); of_bool (x_reaped r);
      of_bool (x_stdin_open r); of_bool (x_stdout_open r); of_exit_outcome (x_outcome r);
      At (fds_left r)].

Definition sx_spawn (s : sexp) : spawn :=
  let t := sx_tag s in
  if t =? 0 then SpawnOk else if t =? 1 then SpawnEmptyCommand else SpawnOsError (sx_bool (sx_arg 0 s)).

Definition of_enter_result (r : enter_result) : sexp :=
  match r with
  | Entered => Li [At 1; At 0; At 0; At 0]
  | EnterRaised w c t =>
      Li [At 0; At (match w with RValueError => 1 | ROsError => 2 | RGeneratorDidNotYield => 3 end);
          of_nat c; of_nat t]
  end.

Definition dispatch (s : sexp) : sexp :=
  let t := sx_tag s in
  if t =? 0 then        (* aexit variant path child *)
    of_exit_result (aexit (sx_variant (sx_arg 0 s)) (sx_path (sx_arg 1 s)) (sx_child (sx_arg 2 s)))
  else if t =? 1 then   (* enter entry spawn *)
    of_enter_result (enter (if sx_bool (sx_arg 0 s) then EWrapper else EClient) (sx_spawn (sx_arg 1 s)))
  else if t =? 2 then   (* pending poll D me t0 td script : all possible outcomes *)
    of_list (fun r => of_outcome (r_out r))
            (pending (sx_Z (sx_arg 0 s)) (fun _ => false) (sx_Z (sx_arg 1 s)) (sx_rid (sx_arg 2 s))
                     (sx_Z (sx_arg 3 s)) (sx_Z (sx_arg 4 s)) (map sx_arrival (sx_list (sx_arg 5 s))))
  else if t =? 3 then   (* the regenerated constants *)
    Li [At term_grace_ticks; At kill_grace_ticks]
  else At (-999).

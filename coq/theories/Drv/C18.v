(** Model driver for C18. *)
From Verif.Base Require Import Prelude Sexp AwaitTypes AwaitCodec.
From Verif.Gen Require Import ErrorsGen.
From Verif.Model Require Import Concurrent ConcurrentFifo.
Open Scope Z_scope.

Definition sx_delivery (s : sexp) : delivery :=
  Deliver (Z.to_nat (sx_Z (sx_nth 0 s))) (sx_inmsg (sx_nth 1 s)).

Definition dispatch (s : sexp) : sexp :=
  let t := sx_tag s in
  if t =? 0 then   (* replay ids log -> per-waiter outcome (option) *)
    of_list (fun w => of_opt of_outcome (snd w))
            (replay is_retryable_error (map sx_rid (sx_list (sx_arg 0 s))) (map sx_delivery (sx_list (sx_arg 1 s))))
  else if t =? 1 then   (* fifo_log ids arrivals (all callers waiting in request order) -> ((k msg) ...) as (k index-in-arrivals) *)
    let ids := map sx_rid (sx_list (sx_arg 0 s)) in
    of_list (fun d => match d with Deliver k _ => At (Z.of_nat k) end)
            (fifo_log is_retryable_error ids (request_order ids) (map sx_inmsg (sx_list (sx_arg 1 s))))
  else At (-999).

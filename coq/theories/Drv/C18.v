(** Model driver for C18. *)
From Verif.Base Require Import Prelude Sexp AwaitTypes AwaitCodec.
From Verif.Gen Require Import ErrorsGen.
From Verif.Model Require Import Concurrent.
Open Scope Z_scope.

Definition sx_delivery (s : sexp) : delivery :=
  Deliver (Z.to_nat (sx_Z (sx_nth 0 s))) (sx_inmsg (sx_nth 1 s)).

Definition dispatch (s : sexp) : sexp :=
  let t := sx_tag s in
  if t =? 0 then   (* replay ids log -> per-waiter outcome (option) *)
    of_list (fun w => of_opt of_outcome (snd w))
            (replay is_retryable_error (map sx_rid (sx_list (sx_arg 0 s))) (map sx_delivery (sx_list (sx_arg 1 s))))
  else At (-999).

(** Driver entry point for C13: decodes a request, runs the executable model or
    the specification checker, encodes the result.  Extracted to OCaml. *)
From Verif.Base Require Import Prelude Sexp.
From Verif.Model Require Import Batching.
Open Scope Z_scope.

Definition of_cmp (c : option comparison) : sexp :=
  match c with
  | None => At 9                 (* ValueError *)
  | Some Lt => At (-1)
  | Some Eq => At 0
  | Some Gt => At 1
  end.

(** members are booleans (valid / invalid); the model delivers indices *)
Definition run_process (enabled : bool) (valids : list bool) (is_batch : bool) : sexp :=
  let items := combine (map Z.of_nat (seq 0 (length valids))) valids in
  let parse := fun (p : Z * bool) => if snd p then Some (fst p) else None in
  let st := {| bp_version := None; bp_enabled := enabled |} in
  let d := if is_batch then Batch items
           else match items with i :: _ => Single i | [] => Batch [] end in
  let '(del, wr) := process_data parse st d in
  Li [of_list of_Z del; of_nat (length wr)].

Definition dispatch (s : sexp) : sexp :=
  let t := sx_tag s in
  if t =? 0 then      (* supports_batching (opt str) *)
    of_bool (supports_batching (sx_opt sx_str (sx_arg 0 s)))
  else if t =? 1 then (* version_compare a b *)
    of_cmp (version_compare (sx_str (sx_arg 0 s)) (sx_str (sx_arg 1 s)))
  else if t =? 4 then (* process_data enabled valids is_batch *)
    run_process (sx_bool (sx_arg 0 s)) (map sx_bool (sx_list (sx_arg 1 s))) (sx_bool (sx_arg 2 s))
  else if t =? 6 then (* BatchProcessor mode after a history of versions *)
    of_bool (bp_enabled (fold_left bp_update (map (sx_opt sx_str) (sx_list (sx_arg 1 s)))
                                   (bp_init (sx_opt sx_str (sx_arg 0 s)))))
  else At (-999).

(** Driver entry point for C05: model functions and spec checkers (the model
    depends on nothing generated, so one driver serves both). *)
From Verif.Base Require Import Prelude Sexp StdioUtf8.
From Verif.Model Require Import Lines.
From Verif.Spec Require Import C05.
Open Scope Z_scope.

Definition sx_chunk (s : sexp) : chunk :=
  if sx_Z (sx_nth 0 s) =? 0 then CBytes (sx_str (sx_nth 1 s)) else CText (sx_str (sx_nth 1 s)).

(** candidate lines: (raw line, what reaches json.loads) in order, and the final buffer *)
Definition lines_of_run (chunks : list bytes) : sexp :=
  let '(ls, buf) := reader (bytes * option str) (fun raw => [(raw, line_text raw)]) [] chunks in
  Li [of_list (fun p => Li [of_str (fst p); of_opt of_str (snd p)]) ls; of_str buf].

Definition sx_ev (s : sexp) : ev (Z * bool) :=
  match sx_list s with
  | [] => Take _
  | _ => Arrive _ (sx_Z (sx_nth 0 s), sx_bool (sx_nth 1 s))
  end.

Definition route_run (cap : Z) (evs : list (ev (Z * bool))) : sexp :=
  let st := route (Z * bool) snd (Z.to_nat cap) evs in
  Li [of_list (fun p => of_Z (fst p)) (rs_main _ st);
      of_list (fun p => of_Z (fst p)) (rs_recv _ st);
      of_list (fun p => of_Z (fst p)) (rs_queue _ st)].

Definition sx_wline (s : sexp) : wline :=
  match sx_list s with
  | [] => Junk
  | _ => Good (sx_Z (sx_nth 0 s)) (sx_bool (sx_nth 1 s))
  end.

Definition dispatch (s : sexp) : sexp :=
  let t := sx_tag s in
  if t =? 0 then      (* byte chunks -> candidate lines + buffer *)
    lines_of_run (map sx_str (sx_list (sx_arg 0 s)))
  else if t =? 1 then (* route cap events *)
    route_run (sx_Z (sx_arg 0 s)) (map sx_ev (sx_list (sx_arg 1 s)))
  else if t =? 2 then (* utf8_cp for a list of code points *)
    of_list of_str (map utf8_cp (sx_str (sx_arg 0 s)))
  else if t =? 3 then (* py_isspace for a list of code points *)
    of_list of_bool (map py_isspace (sx_str (sx_arg 0 s)))
  else if t =? 4 then (* utf8_decode *)
    of_opt of_str (utf8_decode (sx_str (sx_arg 0 s)))
  else if t =? 5 then (* strip *)
    of_str (strip (sx_str (sx_arg 0 s)))
  else if t =? 6 then (* mixed bytes/str chunks *)
    lines_of_run (seen_chunks (map sx_chunk (sx_list (sx_arg 0 s))))
  else if t =? 7 then (* utf8_encode *)
    of_opt of_str (utf8_encode (sx_str (sx_arg 0 s)))
  else if t =? 10 then (* main_ok labels delivered *)
    of_bool (main_ok (map sx_wline (sx_list (sx_arg 0 s))) (sx_str (sx_arg 1 s)))
  else if t =? 11 then (* notif_ok labels notified *)
    of_bool (notif_ok (map sx_wline (sx_list (sx_arg 0 s))) (sx_str (sx_arg 1 s)))
  else At (-999).

(** Driver entry point for the C04 specification checkers (imports nothing
    generated from the code). *)
From Verif.Base Require Import Prelude Sexp.
From Verif.Spec Require Import C04.
Open Scope Z_scope.

(** requested: [(0)] absent | [(1 str)] | [(2)] non-string *)
Definition sx_s_requested (s : sexp) : s_requested :=
  let t := sx_tag s in
  if t =? 0 then QAbsent else if t =? 1 then QStr (sx_str (sx_arg 0 s)) else QNonStr.

(** value: [()] none | [(0)] non-string | [(1 str)] *)
Definition sx_s_value (s : sexp) : s_value :=
  match sx_list s with
  | [] => VNone
  | t :: r => if sx_Z t =? 0 then VNonStr else VStr (sx_str (nth 0 r (Li [])))
  end.

(** outcome: [(0 v)] | [(1)] mismatch | [(2)] failed *)
Definition sx_h_outcome (s : sexp) : h_outcome :=
  let t := sx_tag s in
  if t =? 0 then HOk (sx_str (sx_arg 0 s)) else if t =? 1 then HMismatch else HFailed.

Definition dispatch (s : sexp) : sexp :=
  let t := sx_tag s in
  if t =? 40 then     (* server_ok supported requested answered session -> (ok clause) *)
    let o := {| so_supported := map sx_str (sx_list (sx_arg 0 s));
                so_requested := sx_s_requested (sx_arg 1 s);
                so_answered := sx_s_value (sx_arg 2 s);
                so_session := sx_s_value (sx_arg 3 s) |} in
    Li [of_bool (server_ok o); At (server_failing_clause o)]
  else if t =? 41 then (* handshake_ok client server outcome session *)
    of_bool (handshake_ok {| h_client := map sx_str (sx_list (sx_arg 0 s));
                             h_server := map sx_str (sx_list (sx_arg 1 s));
                             h_outcome_of := sx_h_outcome (sx_arg 2 s);
                             h_session := sx_s_value (sx_arg 3 s) |})
  else At (-999).

(** Model driver for C01 / C07 / C14: the executable model of send_message
    instantiated with the REGENERATED polling interval and classifier. *)
From Verif.Base Require Import Prelude Sexp AwaitTypes AwaitCodec.
From Verif.Gen Require Import ConstsGen ErrorsGen.
From Verif.Model Require Import Await.
Open Scope Z_scope.

Definition dispatch (s : sexp) : sexp :=
  let t := sx_tag s in
  if t =? 0 then   (* run D me has_cb cancel t0 arrivals -> all possible results *)
    of_list of_result
      (run sub_timeout_ticks is_retryable_error
           (sx_Z (sx_arg 0 s)) (sx_rid (sx_arg 1 s)) (sx_bool (sx_arg 2 s))
           (sx_opt sx_Z (sx_arg 3 s)) (sx_Z (sx_arg 4 s)) (map sx_arrival (sx_list (sx_arg 5 s))))
  else if t =? 1 then of_bool (is_retryable_error (sx_Z (sx_arg 0 s)))
  else if t =? 2 then of_bool (bool_wrapper (sx_outcome (sx_arg 0 s)))
  else if t =? 3 then Li [of_bool (is_server_error (sx_Z (sx_arg 0 s)));
                          of_bool (is_standard_jsonrpc_error (sx_Z (sx_arg 0 s)))]
  else At (-999).

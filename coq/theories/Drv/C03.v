(** Driver entry point for the C03 MODEL (client side of version negotiation).
    Decodes a request, runs the executable model, encodes the result.
    Extracted to OCaml. *)
From Verif.Base Require Import Prelude Sexp.
From Verif.Model Require Import Batching Negotiation.
Open Scope Z_scope.

(** version member: [()] missing | [(0)] non-string | [(1 str)] *)
Definition sx_jver (s : sexp) : option jver :=
  match sx_list s with
  | [] => None
  | t :: r => if sx_Z t =? 0 then Some JNonStr else Some (JStr (sx_str (nth 0 r (Li []))))
  end.

(** answer: [(0 ver rest_ok)] result object | [(1)] result not an object | [(2 code msg)] error *)
Definition sx_answer (s : sexp) : answer :=
  let t := sx_tag s in
  if t =? 0 then AResult (sx_jver (sx_arg 0 s)) (sx_bool (sx_arg 1 s))
  else if t =? 1 then ANotObject
  else AError (sx_Z (sx_arg 0 s)) (sx_str (sx_arg 1 s)).

(** incoming message: [(0)] noise | [(1 answer)] *)
Definition sx_inmsg (s : sexp) : inmsg :=
  if sx_tag s =? 0 then INoise else IAnswer (sx_answer (sx_arg 0 s)).

Definition sx_ending (s : sexp) : ending := if sx_Z s =? 0 then EndSilence else EndClosed.

Definition of_outcome (o : outcome) : sexp :=
  match o with
  | Ok v => Li [At 0; of_str v]
  | VersionMismatch => Li [At 1]
  | Timeout => Li [At 2]
  | Retryable c => Li [At 3; At c]
  | NonRetryable c => Li [At 4; At c]
  | Invalid => Li [At 5]
  | Closed => Li [At 6]
  | NoVersions => Li [At 7]
  end.

Definition of_event (e : event) : sexp :=
  match e with
  | ESend (WInit v) => Li [At 0; of_str v]
  | ESend WInitialized => Li [At 1]
  | ERecv => Li [At 2]
  end.

Definition dispatch (s : sexp) : sexp :=
  let t := sx_tag s in
  if t =? 10 then     (* client_init supported_arg preferred incoming ending notif_ok -> (outcome trace tracked_version tracked_mode) *)
    let r := client_init (sx_opt (fun x => map sx_str (sx_list x)) (sx_arg 0 s))
                         (sx_opt sx_str (sx_arg 1 s))
                         (map sx_inmsg (sx_list (sx_arg 2 s)))
                         (sx_ending (sx_arg 3 s))
                         (sx_bool (sx_arg 4 s)) in
    let st := track (bp_init None) (out r) in
    Li [of_outcome (out r); of_list of_event (trace r); of_opt of_str (bp_version st); of_bool (bp_enabled st)]
  else if t =? 11 then (* propose supported preferred *)
    of_opt of_str (propose (map sx_str (sx_list (sx_arg 0 s))) (sx_opt sx_str (sx_arg 1 s)))
  else if t =? 12 then (* says_protocol_version msg *)
    of_bool (says_protocol_version (sx_str (sx_arg 0 s)))
  else At (-999).

(** Spec driver for C01 / C07 / C14 (imports nothing generated from the code). *)
From Verif.Base Require Import Prelude Sexp AwaitTypes AwaitCodec.
From Verif.Spec Require Import C01 C07 C14.
Open Scope Z_scope.

Definition dispatch (s : sexp) : sexp :=
  let t := sx_tag s in
  if t =? 0 then   (* c01_ok t0 D me arrivals result *)
    of_bool (c01_ok (sx_Z (sx_arg 0 s)) (sx_Z (sx_arg 1 s)) (sx_rid (sx_arg 2 s))
                    (map sx_arrival (sx_list (sx_arg 3 s))) (sx_result (sx_arg 4 s)))
  else if t =? 1 then   (* c14_ok t0 D me has_cb cancel arrivals result *)
    of_bool (c14_ok (sx_Z (sx_arg 0 s)) (sx_Z (sx_arg 1 s)) (sx_rid (sx_arg 2 s)) (sx_bool (sx_arg 3 s))
                    (sx_opt sx_Z (sx_arg 4 s)) (map sx_arrival (sx_list (sx_arg 5 s))) (sx_result (sx_arg 6 s)))
  else if t =? 2 then of_bool (c07_ok (sx_Z (sx_arg 0 s)) (sx_outcome (sx_arg 1 s)))
  else if t =? 3 then of_bool (class_ok (sx_Z (sx_arg 0 s)) (sx_bool (sx_arg 1 s)))
  else if t =? 4 then of_bool (wrapper_ok (sx_outcome (sx_arg 0 s)) (sx_bool (sx_arg 1 s)))
  else At (-999).

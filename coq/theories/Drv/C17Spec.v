(** Driver entry point for the C17 SPEC checkers (Base + Spec only).
    Floats travel as their IEEE-754 bit pattern, so that equality of values is
    Python's [==] refined by the sign of zero. *)
From Verif.Base Require Import Prelude Sexp JsonVal.
From Verif.Spec Require Import C17.
Open Scope Z_scope.

Definition sx_v (s : sexp) : json Z := sx_json sx_Z s.

Definition dispatch (s : sexp) : sexp :=
  let t := sx_tag s in
  if t =? 10 then of_bool (in_domain (sx_v (sx_arg 0 s)))
  else if t =? 11 then   (* roundtrip_ok v (opt decoded) *)
    of_bool (roundtrip_ok Z.eqb (sx_v (sx_arg 0 s)) (sx_opt sx_v (sx_arg 1 s)))
  else if t =? 12 then   (* single_frame_ok bytes *)
    of_bool (single_frame_ok (sx_str (sx_arg 0 s)))
  else if t =? 13 then   (* backend_independent_ok v (list of opt decoded) *)
    of_bool (backend_independent_ok Z.eqb (sx_v (sx_arg 0 s)) (map (sx_opt sx_v) (sx_list (sx_arg 1 s))))
  else At (-999).

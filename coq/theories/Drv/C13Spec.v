(** Driver entry point for the C13 specification checkers (imports nothing
    generated from the code, so it builds even when the model does not). *)
From Verif.Base Require Import Prelude Sexp.
From Verif.Spec Require Import C13.
Open Scope Z_scope.

Definition dispatch (s : sexp) : sexp :=
  let t := sx_tag s in
  if t =? 2 then      (* decision_ok (opt str) observed *)
    of_bool (decision_ok (sx_opt sx_str (sx_arg 0 s)) (sx_bool (sx_arg 1 s)))
  else if t =? 3 then (* demanded *)
    of_opt of_bool (demanded (sx_opt sx_str (sx_arg 0 s)))
  else if t =? 5 then (* batch_ok demanded_enabled valids delivered codes *)
    of_bool (batch_ok {| bo_enabled_demanded := sx_bool (sx_arg 0 s);
                         bo_valid := map sx_bool (sx_list (sx_arg 1 s));
                         bo_delivered := map sx_Z (sx_list (sx_arg 2 s));
                         bo_error_codes := map sx_Z (sx_list (sx_arg 3 s)) |})
  else At (-999).

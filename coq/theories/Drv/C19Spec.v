(** Driver entry point for the C19 specification checker (imports Base + Spec
    only).  Ids are integers on the wire (the harness replaces uuid4 by a counter
    and reads the 32 hex digits back as a number). *)
From Verif.Base Require Import Prelude Sexp.
From Verif.Spec Require Import C19.
Open Scope Z_scope.

(** rec: (client version created last meta) *)
Definition sx_rec (s : sexp) : rec :=
  {| r_client := sx_Z (sx_nth 0 s); r_version := sx_str (sx_nth 1 s); r_created := sx_Z (sx_nth 2 s);
     r_last := sx_Z (sx_nth 3 s); r_meta := sx_Z (sx_nth 4 s) |}.
Definition of_rec (r : rec) : sexp :=
  Li [At (r_client r); of_str (r_version r); At (r_created r); At (r_last r); At (r_meta r)].

Definition sx_store (s : sexp) : list (Z * rec) :=
  map (fun e => (sx_Z (sx_nth 0 e), sx_rec (sx_nth 1 e))) (sx_list s).
Definition of_store (l : list (Z * rec)) : sexp :=
  of_list (fun kv => Li [At (fst kv); of_rec (snd kv)]) l.

Definition sx_vreq (s : sexp) : vreq :=
  match s with At 0 => VAbsent | At _ => VOther | Li _ => VStr (sx_str (sx_nth 1 s)) end.

(** op: (0 client version meta) create | (1 s) get | (2 s) touch | (3 s) delete | (4 age) cleanup | (5) list
        | (6) count | (7) clear | (8 with_id client vreq optsess) initialize | (9 has_method optsess) request *)
Definition sx_op (s : sexp) : op Z :=
  let t := sx_Z (sx_nth 0 s) in
  if t =? 0 then OCreate (sx_Z (sx_nth 1 s)) (sx_str (sx_nth 2 s)) (sx_Z (sx_nth 3 s))
  else if t =? 1 then OGet (sx_Z (sx_nth 1 s))
  else if t =? 2 then OTouch (sx_Z (sx_nth 1 s))
  else if t =? 3 then ODelete (sx_Z (sx_nth 1 s))
  else if t =? 4 then OCleanup (sx_Z (sx_nth 1 s))
  else if t =? 5 then OList
  else if t =? 6 then OCount
  else if t =? 7 then OClear
  else if t =? 8 then OInitialize (sx_bool (sx_nth 1 s)) (sx_Z (sx_nth 2 s)) (sx_vreq (sx_nth 3 s))
                                  (sx_opt sx_Z (sx_nth 4 s))
  else ORequest (sx_bool (sx_nth 1 s)) (sx_opt sx_Z (sx_nth 2 s)).

(** out: (0 s) | (1 optrec) | (2 b) | (3 n) | (4 listing) | (5 version s) | (6) *)
Definition sx_out (s : sexp) : out Z :=
  let t := sx_Z (sx_nth 0 s) in
  if t =? 0 then OutId (sx_Z (sx_nth 1 s))
  else if t =? 1 then OutRec (sx_opt sx_rec (sx_nth 1 s))
  else if t =? 2 then OutBool (sx_bool (sx_nth 1 s))
  else if t =? 3 then OutCount (sx_Z (sx_nth 1 s))
  else if t =? 4 then OutListing (sx_store (sx_nth 1 s))
  else if t =? 5 then OutInit (sx_str (sx_nth 1 s)) (sx_Z (sx_nth 2 s))
  else OutNone.
Definition of_out (o : out Z) : sexp :=
  match o with
  | OutId s => Li [At 0; At s]
  | OutRec r => Li [At 1; of_opt of_rec r]
  | OutBool b => Li [At 2; of_bool b]
  | OutCount n => Li [At 3; At n]
  | OutListing l => Li [At 4; of_store l]
  | OutInit v s => Li [At 5; of_str v; At s]
  | OutNone => Li [At 6]
  end.

(** one observed step: (fresh_id now op res post) where post is a store or the atom 0 = "unchanged" *)
Definition obs_post (pre : list (Z * rec)) (s : sexp) : list (Z * rec) :=
  match s with At _ => pre | Li _ => sx_store s end.

(** index of the first observed step that the specification rejects, or -1 *)
Fixpoint trace_ok (steps : list sexp) (pre : list (Z * rec)) (i : Z) : Z :=
  match steps with
  | [] => -1
  | s :: rest =>
      let post := obs_post pre (sx_nth 4 s) in
      if step_ok Z Z.eqb (sx_Z (sx_nth 0 s)) (sx_Z (sx_nth 1 s)) (sx_op (sx_nth 2 s)) pre post (sx_out (sx_nth 3 s))
      then trace_ok rest post (i + 1)
      else i
  end.

Definition dispatch (s : sexp) : sexp :=
  let t := sx_tag s in
  if t =? 2 then        (* trace_ok steps *)
    At (trace_ok (sx_list (sx_arg 0 s)) [] 0)
  else if t =? 3 then   (* expired now age last *)
    of_bool (expired (sx_Z (sx_arg 0 s)) (sx_Z (sx_arg 1 s))
                     {| r_client := 0; r_version := []; r_created := 0; r_last := sx_Z (sx_arg 2 s); r_meta := 0 |})
  else At (-999).

(** Driver entry point for C11: the executable model (tags 1-3) and the
    specification checkers / the spec's SSE encoder (tags 10-14).  The model does
    not depend on generated files, so one driver serves both.  Extracted to OCaml. *)
From Verif.Base Require Import Prelude Sexp HttpBase.
From Verif.Model Require Import HttpSse HttpDispatch.
From Verif.Spec Require Import C11.
Open Scope Z_scope.

(** The concrete decoded-object type of the correspondence run: a tag naming the
    object plus what the library's validator makes of it (computed by the harness). *)
Record cobj : Type := {
  co_tag : Z; co_valid : bool; co_id : option jid; co_method : bool; co_payload : bool }.

Definition sx_jid (s : sexp) : jid :=
  if sx_Z (sx_nth 0 s) =? 0 then IdInt (sx_Z (sx_nth 1 s)) else IdStr (sx_str (sx_nth 1 s)).
Definition of_jid (i : jid) : sexp :=
  match i with IdInt z => Li [At 0; At z] | IdStr s => Li [At 1; of_str s] end.

(** (0) scalar | (1 tag valid idopt method payload) object | (2 v ...) array *)
Fixpoint sx_jv (s : sexp) : jv cobj :=
  match s with
  | Li (At t :: rest) =>
      if t =? 1 then
        JObj {| co_tag := sx_Z (nth 0 rest (At 0)); co_valid := sx_bool (nth 1 rest (At 0));
                co_id := sx_opt sx_jid (nth 2 rest (Li [])); co_method := sx_bool (nth 3 rest (At 0));
                co_payload := sx_bool (nth 4 rest (At 0)) |}
      else if t =? 2 then JArr (map sx_jv rest)
      else JScalar
  | _ => JScalar
  end.

(** oracle table for json.loads: ((text) (v)) = decodes to v, ((text) ()) = JSONDecodeError; absent = error *)
Definition sx_table (s : sexp) : list (str * jres cobj) :=
  map (fun e => (sx_str (sx_nth 0 e),
                 match sx_opt sx_jv (sx_nth 1 e) with Some v => JOk v | None => JBad end)) (sx_list s).

Fixpoint lookup (t : list (str * jres cobj)) (k : str) : jres cobj :=
  match t with
  | [] => JBad
  | (k', v) :: t' => if str_eqb k k' then v else lookup t' k
  end.

Definition sx_exc (z : Z) : exc_kind :=
  if z =? 0 then ExConnect else if z =? 1 then ExReadTimeout else if z =? 2 then ExProtocol else ExAsyncioTimeout.

(** (0 status ctype body utf8 sessionopt) | (1 kind) *)
Definition sx_answer (s : sexp) : answer :=
  if sx_Z (sx_nth 0 s) =? 0 then
    Resp (sx_Z (sx_nth 1 s)) (sx_str (sx_nth 2 s)) (sx_str (sx_nth 3 s)) (sx_bool (sx_nth 4 s))
         (sx_opt sx_str (sx_nth 5 s))
  else Exc (sx_exc (sx_Z (sx_nth 1 s))).

(** step = (idopt has_method answer) *)
Definition sx_step (s : sexp) : request * answer :=
  ({| rq_id := sx_opt sx_jid (sx_nth 0 s); rq_method := sx_bool (sx_nth 1 s) |}, sx_answer (sx_nth 2 s)).

Definition of_outmsg (m : outmsg cobj) : sexp :=
  match m with
  | Server o => Li [At 0; At (co_tag o)]
  | Synth i k => Li [At 1; of_opt of_jid i; At (match k with SResult => 0 | SError c => c end)]
  end.

Definition run_model (init : option str) (steps : list (request * answer)) (tbl : list (str * jres cobj)) : sexp :=
  let r := run_loop cobj co_valid co_id co_method co_payload (lookup tbl) init steps in
  Li [of_opt of_str (fst r);
      of_list (fun e => Li [of_opt of_str (fst e); of_list of_outmsg (snd e)]) (snd r)].

(* ---- spec side ---- *)
Definition sx_extra (s : sexp) : extra :=
  let k := sx_Z (sx_nth 0 s) in
  let v := sx_str (sx_nth 1 s) in
  if k =? 0 then XComment v else if k =? 1 then XId v else XRetry v.

(** (before after evpos space crlf blanks) *)
Definition sx_choice (s : sexp) : enc_choice :=
  {| ec_before := map sx_extra (sx_list (sx_nth 0 s));
     ec_after := map sx_extra (sx_list (sx_nth 1 s));
     ec_event := (let z := sx_Z (sx_nth 2 s) in if z =? 0 then EvAbsent else if z =? 1 then EvBefore else EvAfter);
     ec_space := sx_bool (sx_nth 3 s);
     ec_crlf := sx_bool (sx_nth 4 s);
     ec_blanks := Z.to_nat (sx_Z (sx_nth 5 s)) |}.

Definition sx_events (s : sexp) : list (enc_choice * str) :=
  map (fun e => (sx_choice (sx_nth 0 e), sx_str (sx_nth 1 e))) (sx_list s).

(** observed message: (0 tag answers_rid) server | (1 idopt terminal) synthesised *)
Definition sx_omsg (s : sexp) : omsg (Z * bool) :=
  if sx_Z (sx_nth 0 s) =? 0 then OServer (sx_Z (sx_nth 1 s), sx_bool (sx_nth 2 s))
  else OSynth (sx_opt sx_jid (sx_nth 1 s)) (sx_bool (sx_nth 2 s)).

Definition dispatch (s : sexp) : sexp :=
  let t := sx_tag s in
  if t =? 1 then        (* the texts the parser hands to json.loads *)
    of_list of_str (sse_messages (sx_str (sx_arg 0 s)))
  else if t =? 2 then   (* sender loop: init-session steps table *)
    run_model (sx_opt sx_str (sx_arg 0 s)) (map sx_step (sx_list (sx_arg 1 s))) (sx_table (sx_arg 2 s))
  else if t =? 10 then  (* terminal_ok ridopt observed *)
    of_bool (terminal_ok (Z * bool) (fun _ m => snd m) (sx_opt sx_jid (sx_arg 0 s))
                         (map sx_omsg (sx_list (sx_arg 1 s))))
  else if t =? 11 then  (* delivery_ok no_loss intent delivered *)
    of_bool (delivery_ok (sx_bool (sx_arg 0 s)) (map sx_Z (sx_list (sx_arg 1 s))) (map sx_Z (sx_list (sx_arg 2 s))))
  else if t =? 12 then  (* session_ok init hist sent *)
    of_bool (session_ok (sx_opt sx_str (sx_arg 0 s)) (map (sx_opt sx_str) (sx_list (sx_arg 1 s)))
                        (sx_opt sx_str (sx_arg 2 s)))
  else if t =? 13 then  (* the spec's encoder *)
    of_str (sse_encode (sx_events (sx_arg 0 s)))
  else if t =? 14 then  (* admissibility of encoder input *)
    of_bool (forallb event_ok (sx_events (sx_arg 0 s)))
  else if t =? 15 then  (* issues status hdr *)
    of_opt of_str (issues (sx_Z (sx_arg 0 s)) (sx_opt sx_str (sx_arg 1 s)))
  else if t =? 17 then  (* the spec's encoder with data-less events: ((noise ...) choice msg) ... ; noise = (0 name) | (1 comment) *)
    of_str (sse_encode_noisy (map (fun e => (map (fun n => if sx_Z (sx_nth 0 n) =? 0 then NTyped (sx_str (sx_nth 1 n))
                                                           else NCommentOnly (sx_str (sx_nth 1 n))) (sx_list (sx_nth 0 e)),
                                             (sx_choice (sx_nth 1 e), sx_str (sx_nth 2 e)))) (sx_list (sx_arg 0 s))))
  else if t =? 18 then
    of_bool (forallb noisy_event_ok (map (fun e => (map (fun n => if sx_Z (sx_nth 0 n) =? 0 then NTyped (sx_str (sx_nth 1 n))
                                                               else NCommentOnly (sx_str (sx_nth 1 n))) (sx_list (sx_nth 0 e)),
                                                 (sx_choice (sx_nth 1 e), sx_str (sx_nth 2 e)))) (sx_list (sx_arg 0 s))))
  else At (-999).

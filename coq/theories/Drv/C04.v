(** Driver entry point for the C04 MODEL (server side of version negotiation
    and the client/server composition).  Extracted to OCaml. *)
From Verif.Base Require Import Prelude Sexp.
From Verif.Model Require Import Batching Negotiation ServerInit.
From Verif.Drv Require C03.
Open Scope Z_scope.

(** requested: [(0)] absent | [(1 str)] a string | [(2)] a non-string *)
Definition sx_requested (s : sexp) : requested :=
  let t := sx_tag s in
  if t =? 0 then RAbsent else if t =? 1 then RStr (sx_str (sx_arg 0 s)) else RNonStr.

(** a version value: [(0)] non-string | [(1 str)] *)
Definition of_value (x : option str) : sexp :=
  match x with None => Li [At 0] | Some v => Li [At 1; of_str v] end.

Definition dispatch (s : sexp) : sexp :=
  let t := sx_tag s in
  if t =? 30 then     (* server: requested -> (answered session) *)
    let r := sx_requested (sx_arg 0 s) in
    Li [of_value (server_answer r); of_value (session_version r)]
  else if t =? 31 then (* handshake: supported_arg preferred -> (proposal outcome trace answered session) *)
    let arg := sx_opt (fun x => map sx_str (sx_list x)) (sx_arg 0 s) in
    let pref := sx_opt sx_str (sx_arg 1 s) in
    match propose (effective_supported arg) pref with
    | None => Li []
    | Some p =>
        let r := client_init arg pref [IAnswer (server_response p)] EndSilence true in
        Li [of_str p; C03.of_outcome (out r); of_list C03.of_event (trace r);
            of_value (server_answer (RStr p)); of_value (session_version (RStr p))]
    end
  else At (-999).

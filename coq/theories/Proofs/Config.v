(** C20 — lemmas: the checkers of Spec/C20.v reflect its predicates, and the
    denv model (Model/Config.v) meets the specification on every valid
    configuration, every name (list), every denv environment and every world. *)
From Coq Require Import Lia.
From Verif.Base Require Import Prelude Json Decimal HostTypes.
From Verif.Spec Require Import C20.
From Verif.Model Require Import Config.
Open Scope Z_scope.

(* ------------------------------------------------------------------ *)
(** * Equality tests *)

Lemma str_eqb_eq : forall a b, str_eqb a b = true <-> a = b.
Proof.
  induction a as [|x a IH]; destruct b as [|y b]; simpl; split; intro H; try discriminate; auto.
  - apply andb_true_iff in H. destruct H as [H1 H2]. apply Z.eqb_eq in H1. apply IH in H2. congruence.
  - inversion H; subst. apply andb_true_iff. split. apply Z.eqb_refl. apply IH. reflexivity.
Qed.

Lemma str_eqb_refl : forall a, str_eqb a a = true.
Proof. intro a. apply str_eqb_eq. reflexivity. Qed.

Lemma str_eq_dec : forall a b : str, {a = b} + {a <> b}.
Proof. apply list_eq_dec. apply Z.eq_dec. Qed.

Lemma list_str_eqb_eq : forall a b, list_eqb str_eqb a b = true <-> a = b.
Proof.
  induction a as [|x a IH]; destruct b as [|y b]; simpl; split; intro H; try discriminate; auto.
  - apply andb_true_iff in H. destruct H as [H1 H2]. apply str_eqb_eq in H1. apply IH in H2. congruence.
  - inversion H; subst. apply andb_true_iff. split. apply str_eqb_refl. apply IH. reflexivity.
Qed.

Lemma ostr_eqb_eq : forall a b : option str, option_eqb str_eqb a b = true <-> a = b.
Proof.
  intros [a|] [b|]; simpl; split; intro H; try discriminate; auto.
  - apply str_eqb_eq in H. congruence.
  - inversion H. apply str_eqb_refl.
Qed.

Lemma dec_eqb_eq : forall a b, dec_eqb a b = true <-> a = b.
Proof.
  intros [m e] [m' e']; unfold dec_eqb; simpl; split; intro H.
  - apply andb_true_iff in H. destruct H as [H1 H2]. apply Z.eqb_eq in H1. apply Z.eqb_eq in H2. congruence.
  - inversion H; subst. rewrite !Z.eqb_refl. reflexivity.
Qed.

Lemma odec_eqb_eq : forall a b, odec_eqb a b = true <-> a = b.
Proof.
  intros [a|] [b|]; unfold odec_eqb; simpl; split; intro H; try discriminate; auto.
  - apply dec_eqb_eq in H. congruence.
  - inversion H. apply dec_eqb_eq. reflexivity.
Qed.

Lemma err_eqb_eq : forall a b, err_eqb a b = true <-> a = b.
Proof. intros [] []; simpl; split; intro H; try discriminate; auto. Qed.

(* ------------------------------------------------------------------ *)
(** * Association lists *)

Lemma assoc_none_notin : forall (A : Type) k (m : list (str * A)),
  ~ In k (map fst m) -> assoc k m = None.
Proof.
  induction m as [|[k' v] m IH]; simpl; intro H; auto.
  destruct (str_eqb k k') eqn:E.
  - apply str_eqb_eq in E. subst. exfalso. apply H. left. reflexivity.
  - apply IH. intro H'. apply H. right. exact H'.
Qed.

Lemma assoc_some_in : forall (A : Type) k (m : list (str * A)) v,
  assoc k m = Some v -> In (k, v) m.
Proof.
  induction m as [|[k' v'] m IH]; simpl; intros v H; try discriminate.
  destruct (str_eqb k k') eqn:E.
  - apply str_eqb_eq in E. inversion H; subst. left. reflexivity.
  - right. apply IH. exact H.
Qed.

(* ------------------------------------------------------------------ *)
(** * Reflection: environments, launches, loader results, runs *)

Lemma env_equivb_iff : forall a b, env_equivb a b = true <-> env_equiv a b.
Proof.
  intros a b. unfold env_equivb, env_equiv. rewrite forallb_forall. split.
  - intros H k.
    destruct (in_dec str_eq_dec k (map fst a ++ map fst b)) as [Hin|Hnin].
    + apply ostr_eqb_eq. apply H. exact Hin.
    + rewrite (assoc_none_notin _ k a), (assoc_none_notin _ k b); auto;
        intro Hc; apply Hnin; apply in_or_app; auto.
  - intros H k _. apply ostr_eqb_eq. apply H.
Qed.

Lemma env_equiv_refl : forall a, env_equiv a a.
Proof. intros a k. reflexivity. Qed.

Lemma launch_ok_iff : forall denv sv l, launch_ok denv sv l = true <-> Spec_launch denv sv l.
Proof.
  intros. unfold launch_ok, Spec_launch.
  rewrite andb_true_iff, list_str_eqb_eq, env_equivb_iff. reflexivity.
Qed.

Lemma proc_ok_iff : forall denv sv p, proc_ok denv sv p = true <-> Spec_proc denv sv p.
Proof.
  intros. unfold proc_ok, Spec_proc. rewrite andb_true_iff, launch_ok_iff. reflexivity.
Qed.

Lemma loaded_ok_iff : forall sv p t, loaded_ok sv p t = true <-> Spec_loaded sv p t.
Proof.
  intros. unfold loaded_ok, Spec_loaded.
  rewrite !andb_true_iff, str_eqb_eq, list_str_eqb_eq, env_equivb_iff, odec_eqb_eq. tauto.
Qed.

Lemma is_raised_iff : forall e o, is_raised e o = true <-> o = Raised e.
Proof.
  intros e [p t|e']; simpl; split; intro H; try discriminate.
  - apply err_eqb_eq in H. congruence.
  - inversion H; subst. apply err_eqb_eq. reflexivity.
Qed.

Lemma load_ok_iff : forall src name o, load_ok src name o = true <-> Spec_load src name o.
Proof.
  intros [| |cfg] name o; simpl.
  - apply is_raised_iff.
  - apply is_raised_iff.
  - destruct (valid_config cfg).
    + destruct (server_of cfg name) as [sv|].
      * destruct o as [p t|e]; split.
        -- intros H _. exists p, t. split; auto. apply loaded_ok_iff. exact H.
        -- intro H. destruct (H eq_refl) as [p' [t' [E S]]]. inversion E; subst. apply loaded_ok_iff. exact S.
        -- discriminate.
        -- intro H. destruct (H eq_refl) as [p' [t' [E _]]]. discriminate.
      * rewrite is_raised_iff. split; auto.
    + split; auto. intros _ H. discriminate.
Qed.

Lemma forall2b_iff : forall (A B : Type) (f : A -> B -> bool) (P : A -> B -> Prop),
  (forall x y, f x y = true <-> P x y) ->
  forall a b, forall2b f a b = true <-> Forall2 P a b.
Proof.
  intros A B f P HfP. induction a as [|x a IH]; destruct b as [|y b]; simpl; split; intro H;
    try discriminate; try constructor; try (inversion H; fail).
  - apply andb_true_iff in H. apply HfP. tauto.
  - apply andb_true_iff in H. apply IH. tauto.
  - inversion H; subst. apply andb_true_iff. split. apply HfP; auto. apply IH; auto.
Qed.

Lemma run_ok_iff : forall answers denv src names o,
  run_ok answers denv src names o = true <-> Spec_run answers denv src names o.
Proof.
  intros. unfold run_ok, Spec_run. destruct (src_valid src).
  - rewrite andb_true_iff, Z.eqb_eq, (forall2b_iff _ _ _ _ (proc_ok_iff denv)). tauto.
  - split; auto. intros _ H. discriminate.
Qed.

(* ------------------------------------------------------------------ *)
(** * The loader on a valid configuration *)

(** What the loader builds for a configured server. *)
Definition loaded_params (sv : json) : params :=
  Params (cfg_command sv) (cfg_args sv)
         (match jfield k_env sv with
          | Some (JObj m) => Some (map (fun kv => (fst kv, jstr (snd kv))) m)
          | _ => None
          end).

Definition timeout_dyn (t : option dec) : dyn :=
  match t with Some d => DNum d | None => DNone end.

Lemma all_jstr_clean : forall l, forallb is_clean_jstr l = true -> all_jstr l = Some (map jstr l).
Proof.
  induction l as [|j l IH]; simpl; intro H; auto.
  apply andb_true_iff in H. destruct H as [H1 H2].
  destruct j; simpl in H1; try discriminate. rewrite (IH H2). reflexivity.
Qed.

Lemma all_jstr_env_clean : forall m,
  forallb (fun kv : str * json => valid_env_key (fst kv) && is_clean_jstr (snd kv)) m = true ->
  all_jstr_env m = Some (map (fun kv => (fst kv, jstr (snd kv))) m).
Proof.
  induction m as [|[k j] m IH]; simpl; intro H; auto.
  apply andb_true_iff in H. destruct H as [H1 H2].
  apply andb_true_iff in H1. destruct H1 as [_ H1].
  destruct j; simpl in H1; try discriminate. rewrite (IH H2). reflexivity.
Qed.

Lemma float_of_json_dec : forall j d, dec_of_json j = Some d -> float_of_json j = FOk d.
Proof.
  intros j d H. destruct j; simpl in *; try discriminate.
  - inversion H. reflexivity.
  - rewrite H. reflexivity.
  - rewrite H. reflexivity.
Qed.

(** A valid server entry is loaded exactly. *)
Lemma load_server_valid : forall top sm name sv,
  assoc k_mcpServers top = Some (JObj sm) ->
  assoc name sm = Some sv ->
  valid_server sv = true ->
  load_config (SrcJson (JObj top)) name =
  Ok (DTuple (DParams (loaded_params sv)) (timeout_dyn (cfg_timeout sv))).
Proof.
  intros top sm name sv Htop Hsm Hv.
  unfold load_config, default. rewrite Htop, Hsm.
  destruct sv as [| | | | | |m]; simpl in Hv; try discriminate.
  apply andb_true_iff in Hv. destruct Hv as [Hv Htm].
  apply andb_true_iff in Hv. destruct Hv as [Hv Henv].
  apply andb_true_iff in Hv. destruct Hv as [Hv Hargs].
  apply andb_true_iff in Hv. destruct Hv as [_ Hcmd].
  unfold loaded_params, cfg_command, cfg_args, cfg_env, cfg_timeout, jfield.
  destruct (assoc k_command m) as [c|] eqn:Ec; try discriminate.
  destruct c as [| | | |cs| |]; try discriminate.
  destruct cs as [|c0 cs]; try discriminate.
  assert (Hf : falsy (JObj m) = false).
  { destruct m; simpl in *; [discriminate|reflexivity]. }
  rewrite Hf.
  (* args *)
  assert (Hargs' : mk_params (JStr (c0 :: cs)) (match assoc k_args m with Some x => x | None => JArr [] end)
                             (match assoc k_env m with Some x => x | None => JNull end)
                   = Some (Params (c0 :: cs)
                                  (match assoc k_args m with Some (JArr l) => map jstr l | _ => [] end)
                                  (match assoc k_env m with
                                   | Some (JObj m0) => Some (map (fun kv => (fst kv, jstr (snd kv))) m0)
                                   | _ => None end))).
  { unfold mk_params.
    destruct (assoc k_args m) as [a|].
    - destruct a; simpl in Hargs; try discriminate. rewrite (all_jstr_clean _ Hargs).
      destruct (assoc k_env m) as [e|]; [|reflexivity].
      destruct e; simpl in Henv; try discriminate; [reflexivity|].
      apply andb_true_iff in Henv. destruct Henv as [_ Henv].
      rewrite (all_jstr_env_clean _ Henv). reflexivity.
    - simpl all_jstr.
      destruct (assoc k_env m) as [e|]; [|reflexivity].
      destruct e; simpl in Henv; try discriminate; [reflexivity|].
      apply andb_true_iff in Henv. destruct Henv as [_ Henv].
      rewrite (all_jstr_env_clean _ Henv). reflexivity. }
  rewrite Hargs'.
  (* timeout *)
  destruct (assoc k_timeout m) as [t|] eqn:Et; simpl in Htm.
  - destruct t as [| | |tk|ts| |]; simpl in Htm |- *; try discriminate; try reflexivity.
    + destruct (dec_of_str tk) eqn:Ed; try discriminate. reflexivity.
    + destruct (dec_of_str ts) eqn:Ed; try discriminate. reflexivity.
  - reflexivity.
Qed.

Lemma valid_config_inv : forall cfg, valid_config cfg = true ->
  exists top sm, cfg = JObj top /\ assoc k_mcpServers top = Some (JObj sm)
                 /\ forallb (fun kv : str * json => valid_server (snd kv)) sm = true.
Proof.
  intros cfg H. destruct cfg as [| | | | | |top]; simpl in H; try discriminate.
  apply andb_true_iff in H. destruct H as [_ H].
  destruct (assoc k_mcpServers top) as [s|] eqn:E; try discriminate.
  destruct s as [| | | | | |sm]; try discriminate.
  apply andb_true_iff in H. destruct H as [_ H].
  exists top, sm. auto.
Qed.

Lemma server_of_valid : forall cfg name sv,
  valid_config cfg = true -> server_of cfg name = Some sv -> valid_server sv = true.
Proof.
  intros cfg name sv Hv Hs. destruct (valid_config_inv _ Hv) as [top [sm [-> [Htop Hall]]]].
  unfold server_of, servers_of, jfield in Hs. rewrite Htop in Hs.
  apply assoc_some_in in Hs. rewrite forallb_forall in Hall. apply (Hall _ Hs).
Qed.

(** The loader on a valid file: a configured name is loaded exactly, as the
    2-tuple (parameters, timeout); any other name is a ValueError. *)
Lemma load_config_valid : forall cfg name,
  valid_config cfg = true ->
  load_config (SrcJson cfg) name =
  match server_of cfg name with
  | Some sv => Ok (DTuple (DParams (loaded_params sv)) (timeout_dyn (cfg_timeout sv)))
  | None => Err EValue
  end.
Proof.
  intros cfg name Hv. destruct (valid_config_inv _ Hv) as [top [sm [-> [Htop Hall]]]].
  destruct (server_of (JObj top) name) as [sv|] eqn:Hs.
  - assert (Hsv : valid_server sv = true) by (eapply server_of_valid; eauto).
    unfold server_of, servers_of, jfield in Hs. rewrite Htop in Hs.
    eapply load_server_valid; eauto.
  - unfold server_of, servers_of, jfield in Hs. rewrite Htop in Hs.
    unfold load_config, default. rewrite Htop, Hs. reflexivity.
Qed.

Lemma loaded_params_spec : forall sv, Spec_loaded sv (loaded_params sv) (cfg_timeout sv).
Proof.
  intro sv. unfold Spec_loaded, loaded_params; simpl. repeat split.
  unfold cfg_env. destruct (jfield k_env sv) as [[]|]; simpl; apply env_equiv_refl.
Qed.

Lemma loader_exact : forall cfg name sv,
  valid_config cfg = true -> server_of cfg name = Some sv ->
  exists p t, load_config (SrcJson cfg) name = Ok (DTuple (DParams p) (timeout_dyn t))
              /\ Spec_loaded sv p t.
Proof.
  intros cfg name sv Hv Hs. exists (loaded_params sv), (cfg_timeout sv).
  rewrite (load_config_valid _ name Hv), Hs. split; [reflexivity|apply loaded_params_spec].
Qed.

Lemma load_obs_of_loaded : forall p t,
  load_obs_of (Ok (DTuple (DParams p) (timeout_dyn t))) = Loaded p t.
Proof. intros p [d|]; reflexivity. Qed.

Lemma load_meets_spec : forall src name, Spec_load src name (load_obs_of (load_config src name)).
Proof.
  intros [| |cfg] name; try reflexivity.
  unfold Spec_load. intro Hv. rewrite (load_config_valid _ name Hv).
  destruct (server_of cfg name) as [sv|].
  - exists (loaded_params sv), (cfg_timeout sv). split. apply load_obs_of_loaded. apply loaded_params_spec.
  - reflexivity.
Qed.

Lemma errors_typed : forall name,
  load_config SrcMissing name = Err EFileNotFound
  /\ load_config SrcBadJson name = Err EJSONDecode
  /\ forall cfg, valid_config cfg = true -> server_of cfg name = None ->
                 load_config (SrcJson cfg) name = Err EValue.
Proof.
  intro name. repeat split. intros cfg Hv Hs. rewrite (load_config_valid _ name Hv), Hs. reflexivity.
Qed.

(* ------------------------------------------------------------------ *)
(** * The launching entry points *)

Section Host.
  Variable answers : str -> bool.
  Variable denv : envt.

  Lemma valid_command_nonempty : forall sv, valid_server sv = true -> cfg_command sv <> [].
  Proof.
    intros sv H. destruct sv as [| | | | | |m]; simpl in H; try discriminate.
    apply andb_true_iff in H. destruct H as [H _]. apply andb_true_iff in H. destruct H as [H _].
    apply andb_true_iff in H. destruct H as [H _]. apply andb_true_iff in H. destruct H as [_ H].
    unfold cfg_command, jfield. destruct (assoc k_command m) as [[| | | |[|c s]| |]|]; try discriminate.
  Qed.

  Lemma spawn_loaded_spec : forall sv, Spec_launch denv sv (spawn denv (loaded_params sv)).
  Proof.
    intro sv. unfold Spec_launch, spawn, loaded_params; simpl. split; [reflexivity|].
    unfold cfg_env. destruct (jfield k_env sv) as [[| | | | | |m]|]; simpl; try apply env_equiv_refl.
    destruct (map (fun kv : str * json => (fst kv, jstr (snd kv))) m); simpl; apply env_equiv_refl.
  Qed.

  Lemma connect_loaded : forall sv, valid_server sv = true ->
    connect answers denv (DParams (loaded_params sv)) =
    ([Proc (spawn denv (loaded_params sv)) true], if answers (cfg_command sv) then 1 else 0).
  Proof.
    intros sv Hv. unfold connect, stdio_client. simpl p_command.
    destruct (cfg_command sv) eqn:E; [exfalso; eapply valid_command_nonempty; eauto|].
    unfold loaded_params; simpl p_command. rewrite E. reflexivity.
  Qed.

  (** one requested name: what the specification expects of it *)
  Definition expect_one (src : source) (name : str) : list json := requested src [name].

  Lemma requested_cons : forall src n ns, requested src (n :: ns) = requested src [n] ++ requested src ns.
  Proof. intros [| |cfg] n ns; simpl; auto. rewrite app_nil_r. reflexivity. Qed.

  Lemma runner_one_spec : forall src name, src_valid src = true ->
    Forall2 (Spec_proc denv) (requested src [name]) (fst (runner_one answers denv src name))
    /\ snd (runner_one answers denv src name) =
       Z.of_nat (length (filter (fun sv => answers (cfg_command sv)) (requested src [name]))).
  Proof.
    intros [| |cfg] name Hv; simpl in *.
    - split; [constructor|reflexivity].
    - split; [constructor|reflexivity].
    - unfold runner_one. rewrite (load_config_valid _ name Hv).
      destruct (server_of cfg name) as [sv|] eqn:Hs; simpl.
      + assert (Hsv : valid_server sv = true) by (eapply server_of_valid; eauto).
        rewrite (connect_loaded _ Hsv). simpl. split.
        * constructor; [|constructor]. split; [apply spawn_loaded_spec|reflexivity].
        * destruct (answers (cfg_command sv)); reflexivity.
      + split; [constructor|reflexivity].
  Qed.

  Lemma cli_is_runner_one : forall src name,
    cli answers denv src name =
    RunObs (fst (runner_one answers denv src name)) (snd (runner_one answers denv src name))
    \/ (exists d, load_config src name = Ok d /\ match d with DTuple _ _ => False | _ => True end).
  Proof.
    intros src name. unfold cli, runner_one.
    destruct (load_config src name) as [d|e]; [|left; reflexivity].
    destruct d; try (right; eexists; split; [reflexivity|exact I]).
    left. destruct (connect answers denv d1). reflexivity.
  Qed.

  Lemma cli_spec : forall src name,
    Spec_run answers denv src [name] (cli answers denv src name).
  Proof.
    intros src name Hv.
    assert (E : cli answers denv src name =
                RunObs (fst (runner_one answers denv src name)) (snd (runner_one answers denv src name))).
    { destruct (cli_is_runner_one src name) as [E|[d [Hd Hshape]]]; [exact E|].
      destruct src as [| |cfg]; [cbv in Hd; discriminate|cbv in Hd; discriminate|].
      rewrite (load_config_valid _ name Hv) in Hd.
      destruct (server_of cfg name); inversion Hd; subst; contradiction. }
    rewrite E. simpl. apply runner_one_spec. exact Hv.
  Qed.

  Lemma runner_spec : forall src names,
    Spec_run answers denv src names (runner answers denv src names).
  Proof.
    intros src names Hv. unfold runner. simpl.
    induction names as [|n ns IH].
    - destruct src; simpl; split; try constructor; reflexivity.
    - rewrite requested_cons. simpl map. simpl flat_map. simpl fold_right.
      destruct (runner_one_spec src n Hv) as [H1 H2]. destruct IH as [IH1 IH2].
      split.
      + apply Forall2_app; assumption.
      + rewrite filter_app, app_length, Nat2Z.inj_add, H2, IH2. reflexivity.
  Qed.

  (** Readable corollary for one configured name: exactly one process, started
      exactly as configured, which receives initialize; success iff it answers. *)
  Lemma cli_exact : forall cfg name sv,
    valid_config cfg = true -> server_of cfg name = Some sv ->
    exists l, cli answers denv (SrcJson cfg) name
              = RunObs [Proc l true] (if answers (cfg_command sv) then 1 else 0)
              /\ l_argv l = cfg_command sv :: cfg_args sv
              /\ env_equiv (l_env l) (effective_env denv (cfg_env sv)).
  Proof.
    intros cfg name sv Hv Hs.
    destruct (cli_spec (SrcJson cfg) name Hv) as [H1 H2].
    simpl requested in H1, H2. rewrite Hs in H1, H2. simpl in H1, H2.
    destruct (cli answers denv (SrcJson cfg) name) as [ps n]; simpl in *.
    inversion H1 as [|sv' p svs ps' [[Ha He] Hi] Hrest]; subst. inversion Hrest; subst.
    destruct p as [l i]; simpl in *; subst. exists l. repeat split; auto.
    destruct (answers (cfg_command sv)); reflexivity.
  Qed.


  (** Configuration errors launch nothing, whatever the entry point. *)
  Lemma run_nothing : forall de src names o,
    Spec_run answers de src names o -> src_valid src = true -> requested src names = [] ->
    o = RunObs [] 0.
  Proof.
    intros de src names o H Hv Hr. destruct (H Hv) as [H1 H2]. rewrite Hr in H1, H2.
    destruct o as [ps n]; simpl in *. inversion H1; subst. reflexivity.
  Qed.

  Lemma errors_launch_nothing : forall src names,
    src_valid src = true -> requested src names = [] ->
    runner answers denv src names = RunObs [] 0
    /\ forall name, In name names -> cli answers denv src name = RunObs [] 0.
  Proof.
    intros src names Hv Hr. split.
    - eapply run_nothing; eauto. apply runner_spec.
    - intros name Hin.
      assert (Hr1 : requested src [name] = []).
      { destruct src as [| |cfg]; simpl in *; auto. rewrite app_nil_r.
        induction names as [|n ns IH]; simpl in *; [contradiction|].
        apply app_eq_nil in Hr. destruct Hr as [Hr1 Hr2]. destruct Hin as [->|Hin]; auto. }
      eapply run_nothing; eauto. apply cli_spec.
  Qed.
End Host.

(** C07: the code's error-code sets (REGENERATED from errors.py into
    Gen/ErrorsGen.v on every run) against the documented sets pinned in
    Spec/C07.v, and the classification of error responses by send_message. *)
From Coq Require Import Lia ZifyBool Sorting.Sorted.
From Verif.Base Require Import Prelude.
From Verif.Gen Require Import ErrorsGen.
From Verif.Model Require Import Await.
From Verif.Spec Require Import C01 C07.
From Verif.Proofs Require Import Await AwaitSpec.
Open Scope Z_scope.

Lemma generated_permanent_is_documented : forall code,
  mem_Z code NON_RETRYABLE_ERRORS = mem_Z code documented_permanent.
Proof. intros code. unfold NON_RETRYABLE_ERRORS, documented_permanent. cbn [mem_Z]. lia. Qed.

Lemma generated_retryable_is_documented : forall code,
  mem_Z code RETRYABLE_ERRORS = mem_Z code documented_retryable.
Proof. intros code. unfold RETRYABLE_ERRORS, documented_retryable. cbn [mem_Z]. lia. Qed.

(** total over Z: retryable exactly for the complement of the documented permanent set *)
Lemma is_retryable_total : forall code,
  is_retryable_error code = negb (mem_Z code documented_permanent).
Proof. intros code. unfold is_retryable_error, documented_permanent. cbn [mem_Z]. lia. Qed.

Lemma sets_disjoint : forall code,
  mem_Z code NON_RETRYABLE_ERRORS && mem_Z code RETRYABLE_ERRORS = false.
Proof. intros code. unfold NON_RETRYABLE_ERRORS, RETRYABLE_ERRORS. cbn [mem_Z]. lia. Qed.

(** every named code of errors.py lies in exactly one of the two sets *)
Lemma named_codes_partitioned :
  forallb (fun c => xorb (mem_Z c NON_RETRYABLE_ERRORS) (mem_Z c RETRYABLE_ERRORS)) named_codes = true.
Proof. vm_compute. reflexivity. Qed.

Lemma named_codes_partitioned_forall : forall c, In c named_codes ->
  xorb (mem_Z c NON_RETRYABLE_ERRORS) (mem_Z c RETRYABLE_ERRORS) = true.
Proof. intros c Hc. exact (proj1 (forallb_forall _ _) named_codes_partitioned c Hc). Qed.

(** every documented code is a named code of the module, and every code with a description is classified *)
Lemma documented_codes_named :
  forallb (fun c => mem_Z c named_codes) (documented_permanent ++ documented_retryable) = true
  /\ forallb (fun c => mem_Z c named_codes) ERROR_MESSAGES_keys = true.
Proof. split; vm_compute; reflexivity. Qed.

(** A matching error response that arrives before the deadline is raised, with
    the server's code and the documented class — it never returns normally. *)
Theorem error_response_classified : forall poll t0 D me has_cb arrivals r a i code,
  0 < poll -> t0 <= D -> StronglySorted le_time arrivals ->
  In r (run poll is_retryable_error D me has_cb None t0 arrivals) ->
  first_answer me arrivals = Some (a, MErr i code) -> Z.max t0 a < D ->
  c07_ok code (r_out r) = true.
Proof.
  intros poll t0 D me has_cb arrivals r a i code Hp Ht0 Hs Hin Hfa Ha.
  pose proof (run_c01 poll is_retryable_error Hp t0 D me has_cb arrivals r Ht0 Hs Hin) as Hok.
  unfold c01_ok in Hok. rewrite Hfa in Hok.
  replace (Z.max t0 a <? D) with true in Hok by lia.
  repeat (apply andb_prop in Hok as [Hok ?]).
  destruct (r_out r) as [tok|b code'| |] eqn:Ho; cbn in *; try discriminate.
  pose proof (run_error_class poll is_retryable_error Hp t0 D me has_cb None arrivals r b code' Ht0 Hs Hin Ho) as Hb.
  subst b. assert (code = code') by lia. subst code'.
  rewrite Z.eqb_refl. cbn. unfold class_ok. rewrite is_retryable_total.
  now destruct (mem_Z code documented_permanent).
Qed.

(** whatever the outcome, an error is never reported as success by the boolean wrappers *)
Lemma bool_wrapper_ok : forall o, wrapper_ok o (bool_wrapper o) = true.
Proof. intros []; reflexivity. Qed.

Lemma bool_wrapper_false_on_error : forall o,
  (forall tok, o <> Return tok) -> bool_wrapper o = false.
Proof. intros [] H; try reflexivity. now destruct (H tok). Qed.

(** Lemmas about Model/SseLegacy.v for property C12. *)
From Coq Require Import Lia ZifyBool.
From Verif.Base Require Import Prelude SseVocab.
From Verif.Spec Require Import C12.
From Verif.Model Require Import SseLegacy.
Open Scope Z_scope.

(* ------------------------------------------------------------------ *)
(** * Small facts                                                      *)
(* ------------------------------------------------------------------ *)
Lemma str_eqb_refl : forall s, str_eqb s s = true.
Proof. induction s; simpl; auto. rewrite Z.eqb_refl. auto. Qed.

Lemma str_eqb_eq : forall a b, str_eqb a b = true -> a = b.
Proof.
  induction a; destruct b; simpl; intros; try discriminate; auto.
  apply andb_prop in H. destruct H. apply Z.eqb_eq in H. subst. f_equal. auto.
Qed.

Lemma id_eqb_eq : forall a b, id_eqb a b = true -> a = b.
Proof.
  destruct a, b; simpl; intros; try discriminate.
  - apply Z.eqb_eq in H. subst. auto.
  - apply str_eqb_eq in H. subst. auto.
Qed.

Lemma id_eqb_refl : forall a, id_eqb a a = true.
Proof. destruct a; simpl. apply Z.eqb_refl. apply str_eqb_refl. Qed.

(** A terminal message for [rid] has a key the transport matches with [rid]. *)
Lemma terminal_same_key : forall rid m, is_terminal rid m = true -> same_key rid m = true.
Proof.
  unfold is_terminal, same_key. intros rid m H. apply andb_prop in H. destruct H as [_ H].
  destruct (m_id m); try discriminate. apply id_eqb_eq in H. subst. apply str_eqb_refl.
Qed.

Lemma terminal_kind : forall rid m, is_terminal rid m = true -> kind_terminal (m_kind m) = true.
Proof. unfold is_terminal. intros. apply andb_prop in H. tauto. Qed.

Lemma count_app : forall rid a b, count_terminals rid (a ++ b) = (count_terminals rid a + count_terminals rid b)%nat.
Proof. intros. unfold count_terminals. rewrite filter_app, app_length. auto. Qed.

(* ------------------------------------------------------------------ *)
(** * (b) parser: chunk independence                                   *)
(* ------------------------------------------------------------------ *)
Definition nonl (s : str) : Prop := forallb (fun c => negb (c =? 10)) s = true.

Lemma nonl_app : forall a b, nonl a -> nonl b -> nonl (a ++ b).
Proof. unfold nonl. intros. rewrite forallb_app. rewrite H, H0. auto. Qed.

Lemma lines_rest_app : forall a cur b,
  lines_rest cur (a ++ b) =
  (fst (lines_rest cur a) ++ fst (lines_rest (snd (lines_rest cur a)) b),
   snd (lines_rest (snd (lines_rest cur a)) b)).
Proof.
  induction a as [|c a IH]; intros cur b; simpl.
  - destruct (lines_rest cur b); auto.
  - destruct (c =? 10) eqn:E.
    + rewrite (IH [] b). simpl. auto.
    + apply IH.
Qed.

Lemma lines_rest_prefix : forall cur p s,
  nonl cur -> lines_rest p (cur ++ s) = lines_rest (p ++ cur) s.
Proof.
  induction cur as [|c cur IH]; intros p s H; simpl.
  - rewrite app_nil_r. auto.
  - unfold nonl in H. simpl in H. apply andb_prop in H. destruct H as [Hc H].
    destruct (c =? 10) eqn:E; simpl in Hc; try discriminate.
    rewrite IH by exact H. rewrite <- app_assoc. auto.
Qed.

Lemma lines_rest_nonl : forall s cur, nonl cur -> nonl (snd (lines_rest cur s)).
Proof.
  induction s as [|c s IH]; intros cur H; simpl; auto.
  destruct (c =? 10) eqn:E; simpl.
  - apply IH. reflexivity.
  - apply IH. apply nonl_app; auto. unfold nonl. simpl. rewrite E. auto.
Qed.

Lemma handle_lines_app : forall c base a st b,
  handle_lines c base st (a ++ b) =
  (fst (handle_lines c base (fst (handle_lines c base st a)) b),
   snd (handle_lines c base st a) ++ snd (handle_lines c base (fst (handle_lines c base st a)) b)).
Proof.
  induction a as [|l a IH]; intros st b; simpl.
  - destruct (handle_lines c base st b); auto.
  - rewrite IH. simpl. rewrite app_assoc. auto.
Qed.

(** What a run computes, independent of the chunking: the complete lines of
    the whole text, handled in order; the unterminated tail stays buffered. *)
Definition parse_text (c : cfg) (base : str) (ps : pstate) (text : str) : pstate * list action :=
  let sp := lines_rest [] (p_buf ps ++ text) in
  let r := handle_lines c base (p_l ps) (fst sp) in
  (PState (snd sp) (fst r), snd r).

Lemma lines_rest_prefix0 : forall cur s, nonl cur -> lines_rest [] (cur ++ s) = lines_rest cur s.
Proof. intros. rewrite lines_rest_prefix by auto. auto. Qed.

Lemma feed_parse_text : forall c base ps ch, nonl (p_buf ps) -> feed c base ps ch = parse_text c base ps ch.
Proof.
  intros c base ps ch H. destruct ch; [|reflexivity].
  unfold feed, parse_text. rewrite app_nil_r.
  assert (E : lines_rest [] (p_buf ps) = ([], p_buf ps)).
  { rewrite <- (app_nil_r (p_buf ps)) at 1. rewrite lines_rest_prefix0 by auto. auto. }
  rewrite E. simpl. destruct ps; auto.
Qed.

Lemma parse_text_nonl : forall c base ps t, nonl (p_buf ps) -> nonl (p_buf (fst (parse_text c base ps t))).
Proof.
  intros. unfold parse_text. simpl. rewrite lines_rest_prefix0 by auto. apply lines_rest_nonl. auto.
Qed.

Lemma parse_text_app : forall c base ps a b,
  nonl (p_buf ps) ->
  parse_text c base ps (a ++ b) =
  (fst (parse_text c base (fst (parse_text c base ps a)) b),
   snd (parse_text c base ps a) ++ snd (parse_text c base (fst (parse_text c base ps a)) b)).
Proof.
  intros c base ps a b H. unfold parse_text. cbn [fst snd p_buf p_l].
  rewrite app_assoc. rewrite (lines_rest_app (p_buf ps ++ a) [] b). cbn [fst snd].
  assert (Hn : nonl (snd (lines_rest [] (p_buf ps ++ a)))).
  { rewrite lines_rest_prefix0 by auto. apply lines_rest_nonl. auto. }
  rewrite (lines_rest_prefix0 _ b Hn).
  rewrite handle_lines_app. cbn [fst snd]. auto.
Qed.

Lemma run_parser_char : forall c base chunks ps,
  nonl (p_buf ps) -> run_parser c base ps chunks = parse_text c base ps (concat chunks).
Proof.
  induction chunks as [|ch rest IH]; intros ps H.
  - simpl. rewrite <- (feed_parse_text c base ps []) by auto. auto.
  - cbn [run_parser concat]. rewrite feed_parse_text by auto.
    rewrite IH by (apply parse_text_nonl; auto).
    rewrite parse_text_app by auto. auto.
Qed.

Lemma chunk_independent : forall c base chunks chunks',
  concat chunks = concat chunks' ->
  run_parser c base pinit chunks = run_parser c base pinit chunks'.
Proof.
  intros. rewrite !run_parser_char by reflexivity. rewrite H. auto.
Qed.

(** CRLF cut between CR and LF, and a cut anywhere inside a line, are instances. *)
Lemma cut_anywhere : forall c base a b,
  run_parser c base pinit [a; b] = run_parser c base pinit [a ++ b].
Proof. intros. apply chunk_independent. simpl. rewrite !app_nil_r. auto. Qed.

(* ------------------------------------------------------------------ *)
(** * (a) establishment                                                *)
(* ------------------------------------------------------------------ *)
(** The server has announced [u] at [ta]: a 200 stream whose chunk at [ta]
    makes the parser see an endpoint event that builds [u]. *)
Definition announced (c : cfg) (base : str) (e : est) (u : str) (ta : Z) : Prop :=
  exists t chunks endt,
    e = EstResp t 200 chunks endt /\
    first_connect c base pinit (filter (before_end endt) chunks) = Some (ta, u).

Lemma enter_live_or_raise : forall c base timeout e,
  0 < timeout ->
  match enter c base timeout e with
  | Live u ta => u <> [] /\ ta < timeout /\ announced c base e u ta
  | Raise t => t <= timeout
  end.
Proof.
  intros c base timeout e Ht. unfold enter, connect_cap.
  destruct e as [t| |t code chunks endt].
  - lia.
  - lia.
  - destruct (Z.min timeout 15000 <=? t) eqn:E1; [lia|].
    destruct (code =? 200) eqn:E2; simpl; [|lia].
    destruct (first_connect c base pinit (filter (before_end endt) chunks)) as [[ta u]|] eqn:E3.
    + destruct (timeout <=? ta) eqn:E4; [lia|].
      destruct u as [|x u]; [lia|].
      split; [discriminate|]. split; [lia|].
      exists t, chunks, endt. apply Z.eqb_eq in E2. subst. auto.
    + destruct endt as [te|]; [|lia]. destruct (te <? timeout) eqn:E5; lia.
Qed.

(** Every spelling the SSE format allows for a field is recognised by the
    patched parser: optional single space after the colon; a trailing CR (CRLF
    line ends) is removed before the field is looked at. *)
Lemma py_strip_space : forall v, py_strip (32 :: v) = py_strip v.
Proof. intros. unfold py_strip. simpl. auto. Qed.

Lemma field_data_forms : forall c v (sp : bool),
  c_opt_space c = true ->
  field c s_data (s_data ++ (if sp then [32] else []) ++ v) = Some (py_strip v).
Proof.
  intros c v sp H. unfold field. rewrite H. destruct sp; simpl; auto;
  try (rewrite py_strip_space; auto).
Qed.

Lemma field_event_forms : forall c v (sp : bool),
  c_opt_space c = true ->
  field c s_event (s_event ++ (if sp then [32] else []) ++ v) = Some (py_strip v).
Proof.
  intros c v sp H. unfold field. rewrite H. destruct sp; simpl; auto;
  try (rewrite py_strip_space; auto).
Qed.

Lemma rstrip_cr_snoc : forall s, rstrip_cr (s ++ [13]) = rstrip_cr s.
Proof. intros. unfold rstrip_cr. rewrite rev_app_distr. simpl. auto. Qed.

(** HEAD's parser does not: the data field without the space is not a field. *)
Lemma starts_with_app_same : forall a p s, starts_with (a ++ p) (a ++ s) = starts_with p s.
Proof. induction a; intros; cbn [app starts_with]; auto. rewrite Z.eqb_refl. simpl. auto. Qed.

Lemma field_head_needs_space : forall v,
  (forall v', v <> 32 :: v') ->
  field cfg_head s_data (s_data ++ v) = None.
Proof.
  intros v H. unfold field. cbn [c_opt_space cfg_head]. rewrite starts_with_app_same.
  destruct v as [|x v]; cbn [starts_with]; auto.
  destruct (32 =? x) eqn:E; cbn [andb]; auto. apply Z.eqb_eq in E. subst. exfalso. eapply H; eauto.
Qed.

(* ------------------------------------------------------------------ *)
(** * (c) exactly one terminal message per request                     *)
(* ------------------------------------------------------------------ *)
(** The sender state that corresponds to a phase of the request's life. *)
Definition rel (rid : id) (ph : phase) (st : sender) : Prop :=
  match ph with
  | PhPosted => st = SPosting rid
  | PhAnswered => exists a, st = SResolved rid a /\ is_terminal rid a = true
  | PhAcked => st = SWaiting rid
  | PhAnsweredAcked => exists a, st = SWoken rid a /\ is_terminal rid a = true
  | PhDone => st = SIdle
  end.

Definition owed (ph : phase) : nat := match ph with PhDone => 0%nat | _ => 1%nat end.

Lemma synth_terminal : forall c rid code,
  c_keep_id c = true -> count_terminals rid [synth c rid code] = 1%nat.
Proof.
  intros. unfold count_terminals, synth, err_id. rewrite H. simpl.
  unfold is_terminal. simpl. rewrite id_eqb_refl. auto.
Qed.

Lemma one_msg_count : forall rid s m, count_terminals rid [(s, m)] = if is_terminal rid m then 1%nat else 0%nat.
Proof. intros. unfold count_terminals. simpl. destruct (is_terminal rid m); auto. Qed.

Lemma post_done_ok : forall c rid fut p ph',
  c_keep_id c = true -> c_other_terminal c = true ->
  post_phase rid p = Some ph' ->
  (forall a, fut = Some a -> is_terminal rid a = true) ->
  let r := post_done c rid fut p in
  (fut = None -> rel rid ph' (fst r) /\ (count_terminals rid (snd r) + owed ph' = 1)%nat) /\
  (fut <> None -> fst r = SIdle /\ count_terminals rid (snd r) = 1%nat).
Proof.
  intros c rid fut p ph' Hk Ho Hp Hf. unfold post_done, post_phase in *.
  destruct p as [code b|].
  2:{ inversion Hp; subst. simpl. rewrite synth_terminal by auto. split; intros; split; simpl; auto. }
  destruct (code =? 202) eqn:E202.
  { assert (code =? 200 = false) by lia. rewrite H. inversion Hp; subst.
    destruct fut as [a|]; simpl.
    - split; intros; try congruence. split; auto. rewrite one_msg_count. rewrite (Hf a); auto.
    - split; intros; try congruence. split; simpl; auto. }
  destruct (code =? 200) eqn:E200.
  { destruct (body_ok_200 rid b) eqn:Eb; inversion Hp; subst.
    destruct b as [m| |]; simpl in Eb; try discriminate; simpl.
    - rewrite one_msg_count, Eb. split; intros; split; simpl; auto.
    - rewrite synth_terminal by auto. split; intros; split; simpl; auto. }
  rewrite Ho.
  destruct (body_ok_other rid b) eqn:Eb; inversion Hp; subst.
  destruct b as [m| |]; simpl in Eb; simpl.
  - unfold is_answer_for. destruct (kind_terminal (m_kind m) && same_key rid m) eqn:Ea; simpl in *.
    + rewrite one_msg_count, Eb. split; intros; split; simpl; auto.
    + rewrite synth_terminal by auto. split; intros; split; simpl; auto.
  - rewrite synth_terminal by auto. split; intros; split; simpl; auto.
  - rewrite synth_terminal by auto. split; intros; split; simpl; auto.
Qed.

Lemma one_terminal_gen : forall c rid,
  c_keep_id c = true -> c_other_terminal c = true ->
  forall evs ph st,
  rel rid ph st ->
  phase_run rid ph evs = Some PhDone ->
  count_terminals rid (run c st evs) = owed ph /\ final c st evs = SIdle.
Proof.
  intros c rid Hk Ho. induction evs as [|e evs IH]; intros ph st Hrel Hrun.
  - simpl in *. inversion Hrun; subst. simpl in Hrel. subst. auto.
  - cbn [phase_run] in Hrun. destruct (phase_step rid ph e) as [ph'|] eqn:Est; try discriminate.
    cbn [run final]. rewrite count_app.
    assert (G : rel rid ph' (fst (step c st e)) /\
                (count_terminals rid (snd (step c st e)) + owed ph' = owed ph)%nat).
    { destruct e as [cm|p| | |om]; simpl in Est.
      - discriminate.
      - (* EPost *)
        destruct ph; try discriminate; simpl in Hrel.
        + subst st. simpl.
          destruct (post_done_ok c rid None p ph' Hk Ho Est) as [A _]; [intros; discriminate|].
          destruct (A eq_refl). split; auto.
        + destruct Hrel as [a [Hs Ha]]. subst st. simpl.
          destruct (post_phase rid p) as [ph''|] eqn:Ep; try discriminate. inversion Est; subst ph'.
          destruct (post_done_ok c rid (Some a) p ph'' Hk Ho Ep) as [_ B].
          { intros a0 E. inversion E; subst. auto. }
          destruct B as [B1 B2]; [discriminate|]. simpl. rewrite B1, B2. auto.
      - (* ETimeout *)
        destruct ph; inversion Est; subst; simpl in Hrel.
        + subst. simpl. auto.
        + destruct Hrel as [a [Hs Ha]]. subst. simpl. split; eauto.
        + subst. simpl. rewrite synth_terminal by auto. auto.
        + destruct Hrel as [a [Hs Ha]]. subst. simpl. rewrite synth_terminal by auto. auto.
        + subst. simpl. auto.
      - (* EWake *)
        destruct ph; inversion Est; subst; simpl in Hrel.
        + subst. simpl. auto.
        + destruct Hrel as [a [Hs Ha]]. subst. simpl. split; eauto.
        + subst. simpl. auto.
        + destruct Hrel as [a [Hs Ha]]. subst. simpl. rewrite one_msg_count, Ha. auto.
        + subst. simpl. auto.
      - (* ESse *)
        destruct om as [m|].
        2:{ inversion Est; subst. simpl. split; auto. }
        destruct (same_key rid m) eqn:Esk.
        + destruct (is_terminal rid m) eqn:Et; try discriminate.
          destruct ph; inversion Est; subst; simpl in Hrel; subst; simpl; rewrite Esk; simpl; split; eauto.
        + inversion Est; subst ph'.
          assert (Hnt : is_terminal rid m = false).
          { destruct (is_terminal rid m) eqn:Et; auto. apply terminal_same_key in Et. congruence. }
          destruct ph; simpl in Hrel.
          * subst. simpl. rewrite Esk. simpl. rewrite one_msg_count, Hnt. auto.
          * destruct Hrel as [a [Hs Ha]]. subst. simpl. rewrite one_msg_count, Hnt. split; eauto.
          * subst. simpl. rewrite Esk. simpl. rewrite one_msg_count, Hnt. auto.
          * destruct Hrel as [a [Hs Ha]]. subst. simpl. rewrite one_msg_count, Hnt. split; eauto.
          * subst. simpl. rewrite one_msg_count, Hnt. auto. }
    destruct G as [G1 G2].
    destruct (IH ph' _ G1 Hrun) as [I1 I2]. rewrite I1. split; auto.
Qed.

Lemma one_terminal : forall c rid evs,
  c_keep_id c = true -> c_other_terminal c = true ->
  sched_ok rid evs = true ->
  count_terminals rid (run c SIdle (ESend (CReq rid) :: evs)) = 1%nat /\
  final c SIdle (ESend (CReq rid) :: evs) = SIdle.
Proof.
  intros c rid evs Hk Ho H. unfold sched_ok in H.
  destruct (phase_run rid PhPosted evs) as [[]|] eqn:E; try discriminate.
  cbn [run final step fst snd app].
  apply (one_terminal_gen c rid Hk Ho evs PhPosted (SPosting rid)); simpl; auto.
Qed.

(** The six modes of the property text are accepted schedules (with any amount
    of unrelated traffic [n1 n2 n3] around them). *)
Definition noise (rid : id) (l : list ev) : Prop :=
  forall e, In e l -> match e with
                      | ESse None => True
                      | ESse (Some m) => same_key rid m = false
                      | _ => False
                      end.

Lemma noise_run : forall rid l ph evs, noise rid l -> phase_run rid ph (l ++ evs) = phase_run rid ph evs.
Proof.
  induction l as [|e l IH]; intros ph evs H; simpl; auto.
  assert (He := H e (or_introl eq_refl)).
  assert (noise rid l) by (intros x Hx; apply H; right; auto).
  destruct e as [| | | |[m|]]; try tauto; simpl; try rewrite He; auto.
Qed.

Lemma modes_accepted : forall rid a n1 n2 n3 code b,
  is_terminal rid a = true -> noise rid n1 -> noise rid n2 -> noise rid n3 ->
  code <> 200 -> code <> 202 -> body_ok_other rid b = true ->
  sched_ok rid (n1 ++ EPost (PStatus 200 (BMsg a)) :: n2) = true /\                          (* 200 body *)
  sched_ok rid (n1 ++ EPost (PStatus 202 BNotJson) :: n2 ++ ESse (Some a) :: EWake :: n3) = true /\   (* 202 then event *)
  sched_ok rid (n1 ++ ESse (Some a) :: n2 ++ EPost (PStatus 202 BNotJson) :: n3) = true /\   (* event then 202 *)
  sched_ok rid (n1 ++ EPost (PStatus 202 BNotJson) :: n2 ++ ETimeout :: n3) = true /\        (* 202 and silence *)
  sched_ok rid (n1 ++ EPost (PStatus code b) :: n2) = true /\                                (* other status *)
  sched_ok rid (n1 ++ EPost PExc :: n2) = true.                                              (* exception *)
Proof.
  intros rid a n1 n2 n3 code b Ha H1 H2 H3 Hc1 Hc2 Hb.
  assert (Hs := terminal_same_key _ _ Ha).
  assert (E200 : code =? 200 = false) by lia. assert (E202 : code =? 202 = false) by lia.
  unfold sched_ok.
  repeat split.
  - rewrite noise_run by auto. simpl. rewrite Ha. rewrite <- (app_nil_r n2), noise_run by auto. auto.
  - rewrite noise_run by auto. simpl. rewrite noise_run by auto. simpl. rewrite Hs, Ha.
    rewrite <- (app_nil_r n3), noise_run by auto. auto.
  - rewrite noise_run by auto. simpl. rewrite Hs, Ha. rewrite noise_run by auto. simpl.
    rewrite <- (app_nil_r n3), noise_run by auto. auto.
  - rewrite noise_run by auto. simpl. rewrite noise_run by auto. simpl.
    rewrite <- (app_nil_r n3), noise_run by auto. auto.
  - rewrite noise_run by auto. simpl. rewrite E202, E200, Hb. rewrite <- (app_nil_r n2), noise_run by auto. auto.
  - rewrite noise_run by auto. simpl. rewrite <- (app_nil_r n2), noise_run by auto. auto.
Qed.

(* ------------------------------------------------------------------ *)
(** * server messages on the stream: once, in order                    *)
(* ------------------------------------------------------------------ *)
Lemma subseq_refl : forall A (l : list A), Subseq l l.
Proof. induction l; [apply SubNil | apply SubTake; auto]. Qed.

Lemma sse_outs_app : forall a b, sse_outs (a ++ b) = sse_outs a ++ sse_outs b.
Proof. intros. unfold sse_outs. rewrite filter_app, map_app. auto. Qed.

Lemma sse_outs_sender : forall c i code, sse_outs [synth c i code] = [].
Proof. auto. Qed.

Lemma post_done_no_sse : forall c i fut p, sse_outs (snd (post_done c i fut p)) = [].
Proof.
  intros. unfold post_done. destruct p as [code b|]; auto.
  destruct (code =? 200). destruct b; auto.
  destruct (code =? 202). destruct fut; auto.
  destruct (c_other_terminal c); destruct b; auto. destruct (is_answer_for i m); auto.
Qed.

(** What the event-stream task itself delivers is always a subsequence of what
    was on the stream: nothing twice, nothing out of order, nothing invented. *)
Lemma sse_outs_subseq : forall c evs st, Subseq (sse_outs (run c st evs)) (stream_msgs evs).
Proof.
  induction evs as [|e evs IH]; intros st; cbn [run stream_msgs].
  - apply SubNil.
  - rewrite sse_outs_app.
    destruct e as [cm|p| | |[m|]].
    + destruct cm; destruct st; simpl; apply IH.
    + destruct st; simpl; try apply IH; rewrite post_done_no_sse; simpl; apply IH.
    + destruct st; simpl; apply IH.
    + destruct st; simpl; apply IH.
    + destruct st; simpl; try (apply SubTake; apply IH).
      * destruct (same_key i m); simpl; [apply SubSkip|apply SubTake]; apply IH.
      * destruct (same_key i m); simpl; [apply SubSkip|apply SubTake]; apply IH.
    + simpl. apply IH.
Qed.

(** Ids the sender has or will have in flight. *)
Definition st_ids (st : sender) : list id :=
  match st with SPosting i | SWaiting i => [i] | _ => [] end.

Fixpoint sent_ids (evs : list ev) : list id :=
  match evs with
  | [] => []
  | ESend (CReq i) :: r => i :: sent_ids r
  | _ :: r => sent_ids r
  end.

Lemma post_done_ids : forall c i fut p j, In j (st_ids (fst (post_done c i fut p))) -> j = i.
Proof.
  intros c i fut p j. unfold post_done. destruct p as [code b|]; simpl; try tauto.
  destruct (code =? 200). destruct b; simpl; tauto.
  destruct (code =? 202). destruct fut; simpl; intuition.
  destruct (c_other_terminal c); destruct b; simpl; try tauto. destruct (is_answer_for i m); simpl; tauto.
Qed.

Lemma post_done_some_idle : forall c i a p, fst (post_done c i (Some a) p) = SIdle.
Proof.
  intros. unfold post_done. destruct p as [code b|]; auto.
  destruct (code =? 200). destruct b; auto.
  destruct (code =? 202); auto.
  destruct (c_other_terminal c); destruct b; auto. destruct (is_answer_for i m); auto.
Qed.

Lemma ids_step : forall c st e evs j,
  In j (st_ids (fst (step c st e)) ++ sent_ids evs) -> In j (st_ids st ++ sent_ids (e :: evs)).
Proof.
  intros c st e evs j H. apply in_app_or in H. apply in_or_app.
  destruct e as [cm|p| | |[m|]].
  - destruct cm as [i|]; destruct st; simpl in *; tauto.
  - destruct st; simpl in *; try tauto.
    + destruct H as [H|H]; auto. apply post_done_ids in H. subst. auto.
    + rewrite post_done_some_idle in H. simpl in H. tauto.
  - destruct st; simpl in *; tauto.
  - destruct st; simpl in *; tauto.
  - destruct st; simpl in *; try tauto.
    + destruct (same_key i m); simpl in *; tauto.
    + destruct (same_key i m); simpl in *; tauto.
  - simpl in *. tauto.
Qed.

Lemma msgs_step : forall e evs m, In m (stream_msgs evs) -> In m (stream_msgs (e :: evs)).
Proof. intros. destruct e as [| | | |[|]]; simpl; auto. Qed.

Lemma step_sse_out : forall c st e evs,
  (forall m i, In m (stream_msgs (e :: evs)) -> In i (st_ids st) -> same_key i m = false) ->
  sse_outs (snd (step c st e)) ++ stream_msgs evs = stream_msgs (e :: evs).
Proof.
  intros c st e evs H.
  destruct e as [cm|p| | |[m|]].
  - destruct cm; destruct st; simpl; auto.
  - destruct st; simpl; auto; rewrite post_done_no_sse; auto.
  - destruct st; simpl; auto.
  - destruct st; simpl; auto.
  - assert (Hin : In m (stream_msgs (ESse (Some m) :: evs))) by (simpl; auto).
    destruct st; simpl; auto.
    + rewrite (H m i Hin) by (simpl; auto). auto.
    + rewrite (H m i Hin) by (simpl; auto). auto.
  - simpl. auto.
Qed.

(** Server-initiated traffic (nothing on the stream carries the key of a
    request of this client): delivered completely, once, in stream order,
    whatever the sender is doing meanwhile. *)
Lemma unrelated_traffic_in_order : forall c evs st,
  (forall m i, In m (stream_msgs evs) -> In i (st_ids st ++ sent_ids evs) -> same_key i m = false) ->
  sse_outs (run c st evs) = stream_msgs evs.
Proof.
  induction evs as [|e evs IH]; intros st H; cbn [run]; auto.
  rewrite sse_outs_app. rewrite IH.
  - apply step_sse_out. intros m i Hm Hi. apply H; auto. apply in_or_app. auto.
  - intros m i Hm Hi. apply H. apply msgs_step; auto. apply ids_step with (c := c); auto.
Qed.

(* ------------------------------------------------------------------ *)
(** * (d) resources                                                    *)
(* ------------------------------------------------------------------ *)
Lemma cleanup_releases_all : forall r, released (cleanup r) = true.
Proof. intros. destruct r. reflexivity. Qed.

Lemma cleanup_idempotent : forall r, cleanup (cleanup r) = cleanup r.
Proof. intros. destruct r as [? ? ? ? ? ? ? ? w]. destruct w; reflexivity. Qed.

Lemma closed_absorbing : forall c s e, lp s = LClosed -> lstep c s e = s.
Proof. intros. unfold lstep. rewrite H. destruct e; auto. Qed.

Lemma stuck_absorbing : forall c s e, lp s = LStuck -> lstep c s e = s.
Proof. intros. unfold lstep. rewrite H. destruct e; auto. Qed.

Lemma lstep_inv : forall c s e,
  c_enter_cancel c = true ->
  (lp s = LClosed -> released (lr s) = true) ->
  (lp (lstep c s e) = LClosed -> released (lr (lstep c s e)) = true).
Proof.
  intros c s e Hc Hinv. destruct (lp s) eqn:Ep.
  4:{ rewrite closed_absorbing by auto. rewrite Ep. auto. }
  4:{ rewrite stuck_absorbing by auto. rewrite Ep. discriminate. }
  all: unfold lstep; rewrite Ep; destruct e; simpl; try discriminate;
    try rewrite Hc; intros; try apply cleanup_releases_all; try discriminate.
  all: try (destruct (r_sse_task (lr s)); simpl in *; rewrite ?Ep in *; discriminate).
  all: try (destruct (r_out_task (lr s)); simpl in *; rewrite ?Ep in *; discriminate).
  all: try (destruct (r_out_task (lr s) && negb (Nat.eqb (r_pending (lr s)) 0)); simpl in *; rewrite ?Ep in *; discriminate).
  all: destruct (exit_stuck c k (lr s)); simpl in *; try discriminate; apply cleanup_releases_all.
Qed.

Lemma life_gen : forall c evs s,
  c_enter_cancel c = true ->
  (lp s = LClosed -> released (lr s) = true) ->
  lp (fold_left (lstep c) evs s) = LClosed -> released (lr (fold_left (lstep c) evs s)) = true.
Proof.
  induction evs as [|e evs IH]; intros s Hc Hinv; simpl; auto.
  apply IH; auto. apply lstep_inv; auto.
Qed.

Lemma life_closed_released : forall c evs,
  c_enter_cancel c = true ->
  lp (life c evs) = LClosed -> released (lr (life c evs)) = true.
Proof. intros. apply life_gen; auto; simpl; discriminate. Qed.

(** Every way of leaving completes: an exit from ANY inside state closes the
    life (it cannot get stuck), failing or cancelled entering closes it. *)
Lemma exits_close : forall c s k, c_reraise_cancel c = true -> lp s = LInside ->
  lp (lstep c s (LExit k)) = LClosed /\ released (lr (lstep c s (LExit k))) = true.
Proof.
  intros. unfold lstep, exit_stuck. rewrite H0, H. simpl. split; auto; apply cleanup_releases_all.
Qed.

Lemma enter_failures_close : forall c s, c_enter_cancel c = true -> lp s = LEntering ->
  (lp (lstep c s LEnterRaise) = LClosed /\ released (lr (lstep c s LEnterRaise)) = true) /\
  (lp (lstep c s LEnterCancel) = LClosed /\ released (lr (lstep c s LEnterCancel)) = true).
Proof. intros. unfold lstep. rewrite H0, H. simpl. repeat split; auto; apply cleanup_releases_all. Qed.

(** A life never gets stuck when the sender re-raises. *)
Lemma never_stuck : forall c evs, c_reraise_cancel c = true -> lp (life c evs) <> LStuck.
Proof.
  intros c evs H. unfold life.
  assert (G : forall evs s, lp s <> LStuck -> lp (fold_left (lstep c) evs s) <> LStuck).
  { induction evs0 as [|e evs0 IH]; intros s Hs; simpl; auto. apply IH.
    unfold lstep, exit_stuck. rewrite H. simpl.
    destruct e; destruct (lp s) eqn:Ep; simpl; try congruence;
      try (destruct (r_sse_task (lr s)); simpl; congruence);
      try (destruct (r_out_task (lr s)); simpl; congruence);
      try (destruct (r_out_task (lr s) && negb (Nat.eqb (r_pending (lr s)) 0)); simpl; congruence);
      try (destruct (c_enter_cancel c); simpl; congruence). }
  apply G. simpl. discriminate.
Qed.

(* ------------------------------------------------------------------ *)
(** * Refutations                                                      *)
(* ------------------------------------------------------------------ *)
Definition w_rid := IdStr [114;49].                      (* "r1" *)
Definition w_ans := Msg (Some w_rid) KRes 7.
Definition w_notif := Msg None KNotif 8.

(** Full-strength exactly-once, late answers included: not met (patched or not). *)
Definition one_terminal_statement (c : cfg) : Prop :=
  forall rid evs, sched_ok_late rid evs = true ->
  count_terminals rid (run c SIdle (ESend (CReq rid) :: evs)) = 1%nat.

Lemma one_terminal_refuted : forall c, ~ one_terminal_statement c.
Proof.
  intros c H.
  specialize (H w_rid [EPost (PStatus 202 BNotJson); ETimeout; ESse (Some w_ans)] eq_refl).
  unfold count_terminals in H. destruct c as [a b c d e]. destruct b; vm_compute in H; discriminate.
Qed.

(** Full-strength ordering: everything that was on the stream reaches the read
    stream in stream order.  Not met: an answer handed to the waiting sender is
    overtaken by the next event. *)
Definition on_stream (evs : list ev) (m : msg) : bool := existsb (msg_eqb m) (stream_msgs evs).

Definition in_order_statement (c : cfg) : Prop :=
  forall evs, filter (on_stream evs) (map snd (run c SIdle evs)) = stream_msgs evs.

Lemma in_order_refuted : forall c, ~ in_order_statement c.
Proof.
  intros c H.
  specialize (H [ESend (CReq w_rid); EPost (PStatus 202 BNotJson); ESse (Some w_ans); ESse (Some w_notif); EWake]).
  vm_compute in H. discriminate.
Qed.

(** HEAD (no patch applied), one witness per open defect. *)
Lemma head_int_id_no_terminal :
  count_terminals (IdInt 1) (run cfg_head SIdle [ESend (CReq (IdInt 1)); EPost (PStatus 202 BNotJson); ETimeout]) = 0%nat
  /\ sched_ok (IdInt 1) [EPost (PStatus 202 BNotJson); ETimeout] = true.
Proof. split; reflexivity. Qed.

Lemma head_other_status_no_terminal :
  count_terminals w_rid (run cfg_head SIdle [ESend (CReq w_rid); EPost (PStatus 500 BInvalid)]) = 0%nat
  /\ sched_ok w_rid [EPost (PStatus 500 BInvalid)] = true.
Proof. split; reflexivity. Qed.

Definition w_base : str := [104;116;116;112;58;47;47;104].      (* "http://h" *)
Definition w_nospace : str := s_event ++ s_endpoint ++ [10] ++ s_data ++ s_messages ++ [120] ++ [10;10].
                                                                   (* "event:endpoint\ndata:/messages/x\n\n" *)
Lemma head_nospace_not_recognised :
  snd (run_parser cfg_head w_base pinit [w_nospace]) = []
  /\ snd (run_parser cfg_patched w_base pinit [w_nospace]) = [AEndpoint (w_base ++ s_messages ++ [120])].
Proof. split; reflexivity. Qed.

Lemma head_exit_after_stream_end_hangs :
  lp (life cfg_head [LAlloc; LStreamOpen; LEnterOk; LPendAdd; LWait; LSseEnds; LExit XNormal]) = LStuck
  /\ r_out_task (lr (life cfg_head [LAlloc; LStreamOpen; LEnterOk; LPendAdd; LWait; LSseEnds; LExit XNormal])) = true.
Proof. split; reflexivity. Qed.

Lemma head_cancel_during_enter_leaks :
  lp (life cfg_head [LAlloc; LStreamOpen; LEnterCancel]) = LClosed
  /\ released (lr (life cfg_head [LAlloc; LStreamOpen; LEnterCancel])) = false.
Proof. split; reflexivity. Qed.

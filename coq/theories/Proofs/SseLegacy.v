(** Lemmas about Model/SseLegacy.v for property C12. *)
From Coq Require Import Lia ZifyBool.
From Verif.Base Require Import Prelude SseVocab.
From Verif.Spec Require Import C12.
From Verif.Model Require Import SseLegacy.
Open Scope Z_scope.

(* ------------------------------------------------------------------ *)
(** * Small facts                                                      *)
(* ------------------------------------------------------------------ *)
Lemma str_eqb_refl : forall s, str_eqb s s = true.
Proof. induction s; simpl; auto. rewrite Z.eqb_refl. auto. Qed.

Lemma str_eqb_eq : forall a b, str_eqb a b = true -> a = b.
Proof.
  induction a; destruct b; simpl; intros; try discriminate; auto.
  apply andb_prop in H. destruct H. apply Z.eqb_eq in H. subst. f_equal. auto.
Qed.

Lemma id_eqb_eq : forall a b, id_eqb a b = true -> a = b.
Proof.
  destruct a, b; simpl; intros; try discriminate.
  - apply Z.eqb_eq in H. subst. auto.
  - apply str_eqb_eq in H. subst. auto.
Qed.

Lemma id_eqb_refl : forall a, id_eqb a a = true.
Proof. destruct a; simpl. apply Z.eqb_refl. apply str_eqb_refl. Qed.

(** A terminal message for [rid] has a key the transport matches with [rid]. *)
Lemma terminal_same_key : forall rid m, is_terminal rid m = true -> same_key rid m = true.
Proof.
  unfold is_terminal, same_key. intros rid m H. apply andb_prop in H. destruct H as [_ H].
  destruct (m_id m); try discriminate. apply id_eqb_eq in H. subst. apply str_eqb_refl.
Qed.

Lemma terminal_kind : forall rid m, is_terminal rid m = true -> kind_terminal (m_kind m) = true.
Proof. unfold is_terminal. intros. apply andb_prop in H. tauto. Qed.

(** [resolves] (Model/SseLegacy.v): inside the theorems' environment - what bears the request's key on the stream is its
    answer - it is [same_key], whatever [c_answers_only] says. *)
Lemma resolves_not_key : forall c i m, same_key i m = false -> resolves c i m = false.
Proof. intros c i m H. unfold resolves. now rewrite H. Qed.

Lemma resolves_terminal : forall c i m, is_terminal i m = true -> resolves c i m = true.
Proof.
  intros c i m H. unfold resolves. rewrite (terminal_same_key _ _ H). apply terminal_kind in H.
  destruct (m_kind m); try discriminate; simpl; now rewrite andb_false_r.
Qed.

Lemma resolves_answer : forall c i m, kind_terminal (m_kind m) = true -> same_key i m = true -> resolves c i m = true.
Proof.
  intros c i m Hk Hs. unfold resolves. rewrite Hs.
  destruct (m_kind m); try discriminate; simpl; now rewrite andb_false_r.
Qed.

Lemma terminal_answer_key : forall rid m, is_terminal rid m = true -> answer_key rid m = true.
Proof.
  intros rid m H. unfold answer_key. rewrite (terminal_same_key _ _ H). apply terminal_kind in H.
  destruct (m_kind m); try discriminate; reflexivity.
Qed.

(** with [c_answers_only] the transport's test is exactly the specification's *)
Lemma resolves_answer_key : forall c i m, c_answers_only c = true -> resolves c i m = answer_key i m.
Proof. intros c i m H. unfold resolves, answer_key. now rewrite H. Qed.

Lemma count_app : forall rid a b, count_terminals rid (a ++ b) = (count_terminals rid a + count_terminals rid b)%nat.
Proof. intros. unfold count_terminals. rewrite filter_app, app_length. auto. Qed.

(* ------------------------------------------------------------------ *)
(** * (b) parser: chunk independence                                   *)
(* ------------------------------------------------------------------ *)
Definition nonl (s : str) : Prop := forallb (fun c => negb (c =? 10)) s = true.

Lemma nonl_app : forall a b, nonl a -> nonl b -> nonl (a ++ b).
Proof. unfold nonl. intros. rewrite forallb_app. rewrite H, H0. auto. Qed.

Lemma lines_rest_app : forall a cur b,
  lines_rest cur (a ++ b) =
  (fst (lines_rest cur a) ++ fst (lines_rest (snd (lines_rest cur a)) b),
   snd (lines_rest (snd (lines_rest cur a)) b)).
Proof.
  induction a as [|c a IH]; intros cur b; simpl.
  - destruct (lines_rest cur b); auto.
  - destruct (c =? 10) eqn:E.
    + rewrite (IH [] b). simpl. auto.
    + apply IH.
Qed.

Lemma lines_rest_prefix : forall cur p s,
  nonl cur -> lines_rest p (cur ++ s) = lines_rest (p ++ cur) s.
Proof.
  induction cur as [|c cur IH]; intros p s H; simpl.
  - rewrite app_nil_r. auto.
  - unfold nonl in H. simpl in H. apply andb_prop in H. destruct H as [Hc H].
    destruct (c =? 10) eqn:E; simpl in Hc; try discriminate.
    rewrite IH by exact H. rewrite <- app_assoc. auto.
Qed.

Lemma lines_rest_nonl : forall s cur, nonl cur -> nonl (snd (lines_rest cur s)).
Proof.
  induction s as [|c s IH]; intros cur H; simpl; auto.
  destruct (c =? 10) eqn:E; simpl.
  - apply IH. reflexivity.
  - apply IH. apply nonl_app; auto. unfold nonl. simpl. rewrite E. auto.
Qed.

Lemma handle_lines_app : forall c base a st b,
  handle_lines c base st (a ++ b) =
  (fst (handle_lines c base (fst (handle_lines c base st a)) b),
   snd (handle_lines c base st a) ++ snd (handle_lines c base (fst (handle_lines c base st a)) b)).
Proof.
  induction a as [|l a IH]; intros st b; simpl.
  - destruct (handle_lines c base st b); auto.
  - rewrite IH. simpl. rewrite app_assoc. auto.
Qed.

(** What a run computes, independent of the chunking: the complete lines of
    the whole text, handled in order; the unterminated tail stays buffered. *)
Definition parse_text (c : cfg) (base : str) (ps : pstate) (text : str) : pstate * list action :=
  let sp := lines_rest [] (p_buf ps ++ text) in
  let r := handle_lines c base (p_l ps) (fst sp) in
  (PState (snd sp) (fst r), snd r).

Lemma lines_rest_prefix0 : forall cur s, nonl cur -> lines_rest [] (cur ++ s) = lines_rest cur s.
Proof. intros. rewrite lines_rest_prefix by auto. auto. Qed.

Lemma feed_parse_text : forall c base ps ch, nonl (p_buf ps) -> feed c base ps ch = parse_text c base ps ch.
Proof.
  intros c base ps ch H. destruct ch; [|reflexivity].
  unfold feed, parse_text. rewrite app_nil_r.
  assert (E : lines_rest [] (p_buf ps) = ([], p_buf ps)).
  { rewrite <- (app_nil_r (p_buf ps)) at 1. rewrite lines_rest_prefix0 by auto. auto. }
  rewrite E. simpl. destruct ps; auto.
Qed.

Lemma parse_text_nonl : forall c base ps t, nonl (p_buf ps) -> nonl (p_buf (fst (parse_text c base ps t))).
Proof.
  intros. unfold parse_text. simpl. rewrite lines_rest_prefix0 by auto. apply lines_rest_nonl. auto.
Qed.

Lemma parse_text_app : forall c base ps a b,
  nonl (p_buf ps) ->
  parse_text c base ps (a ++ b) =
  (fst (parse_text c base (fst (parse_text c base ps a)) b),
   snd (parse_text c base ps a) ++ snd (parse_text c base (fst (parse_text c base ps a)) b)).
Proof.
  intros c base ps a b H. unfold parse_text. cbn [fst snd p_buf p_l].
  rewrite app_assoc. rewrite (lines_rest_app (p_buf ps ++ a) [] b). cbn [fst snd].
  assert (Hn : nonl (snd (lines_rest [] (p_buf ps ++ a)))).
  { rewrite lines_rest_prefix0 by auto. apply lines_rest_nonl. auto. }
  rewrite (lines_rest_prefix0 _ b Hn).
  rewrite handle_lines_app. cbn [fst snd]. auto.
Qed.

Lemma run_parser_char : forall c base chunks ps,
  nonl (p_buf ps) -> run_parser c base ps chunks = parse_text c base ps (concat chunks).
Proof.
  induction chunks as [|ch rest IH]; intros ps H.
  - simpl. rewrite <- (feed_parse_text c base ps []) by auto. auto.
  - cbn [run_parser concat]. rewrite feed_parse_text by auto.
    rewrite IH by (apply parse_text_nonl; auto).
    rewrite parse_text_app by auto. auto.
Qed.

Lemma chunk_independent : forall c base chunks chunks',
  concat chunks = concat chunks' ->
  run_parser c base pinit chunks = run_parser c base pinit chunks'.
Proof.
  intros. rewrite !run_parser_char by reflexivity. rewrite H. auto.
Qed.

(** CRLF cut between CR and LF, and a cut anywhere inside a line, are instances. *)
Lemma cut_anywhere : forall c base a b,
  run_parser c base pinit [a; b] = run_parser c base pinit [a ++ b].
Proof. intros. apply chunk_independent. simpl. rewrite !app_nil_r. auto. Qed.

(* ------------------------------------------------------------------ *)
(** * (a) establishment                                                *)
(* ------------------------------------------------------------------ *)
(** The server has announced [u] at [ta]: a 200 stream whose chunk at [ta]
    makes the parser see an endpoint event that builds [u]. *)
Definition announced (c : cfg) (base : str) (e : est) (u : str) (ta : Z) : Prop :=
  exists t chunks endt,
    e = EstResp t 200 chunks endt /\
    first_connect c base pinit (filter (before_end endt) chunks) = Some (ta, u).

Lemma enter_live_or_raise : forall c base timeout e,
  0 < timeout ->
  match enter c base timeout e with
  | Live u ta => u <> [] /\ ta < timeout /\ announced c base e u ta
  | Raise t => t <= timeout
  end.
Proof.
  intros c base timeout e Ht. unfold enter, connect_cap.
  destruct e as [t| |t code chunks endt].
  - lia.
  - lia.
  - destruct (Z.min timeout 15000 <=? t) eqn:E1; [lia|].
    destruct (code =? 200) eqn:E2; simpl; [|lia].
    destruct (first_connect c base pinit (filter (before_end endt) chunks)) as [[ta u]|] eqn:E3.
    + destruct (timeout <=? ta) eqn:E4; [lia|].
      destruct u as [|x u]; [lia|].
      split; [discriminate|]. split; [lia|].
      exists t, chunks, endt. apply Z.eqb_eq in E2. subst. auto.
    + destruct endt as [te|]; [|lia]. destruct (te <? timeout) eqn:E5; lia.
Qed.

(** Every spelling the SSE format allows for a field is recognised by the
    patched parser: optional single space after the colon; a trailing CR (CRLF
    line ends) is removed before the field is looked at. *)
Lemma py_strip_space : forall v, py_strip (32 :: v) = py_strip v.
Proof. intros. unfold py_strip. simpl. auto. Qed.

Lemma field_data_forms : forall c v (sp : bool),
  c_opt_space c = true ->
  field c s_data (s_data ++ (if sp then [32] else []) ++ v) = Some (py_strip v).
Proof.
  intros c v sp H. unfold field. rewrite H. destruct sp; simpl; auto;
  try (rewrite py_strip_space; auto).
Qed.

Lemma field_event_forms : forall c v (sp : bool),
  c_opt_space c = true ->
  field c s_event (s_event ++ (if sp then [32] else []) ++ v) = Some (py_strip v).
Proof.
  intros c v sp H. unfold field. rewrite H. destruct sp; simpl; auto;
  try (rewrite py_strip_space; auto).
Qed.

Lemma rstrip_cr_snoc : forall s, rstrip_cr (s ++ [13]) = rstrip_cr s.
Proof. intros. unfold rstrip_cr. rewrite rev_app_distr. simpl. auto. Qed.

(** The original parser did not: the data field without the space was not a field. *)
Lemma starts_with_app_same : forall a p s, starts_with (a ++ p) (a ++ s) = starts_with p s.
Proof. induction a; intros; cbn [app starts_with]; auto. rewrite Z.eqb_refl. simpl. auto. Qed.

Lemma field_orig_needs_space : forall v,
  (forall v', v <> 32 :: v') ->
  field cfg_orig s_data (s_data ++ v) = None.
Proof.
  intros v H. unfold field. cbn [c_opt_space cfg_orig]. rewrite starts_with_app_same.
  destruct v as [|x v]; cbn [starts_with]; auto.
  destruct (32 =? x) eqn:E; cbn [andb]; auto. apply Z.eqb_eq in E. subst. exfalso. eapply H; eauto.
Qed.

(* ------------------------------------------------------------------ *)
(** * (c) exactly one terminal message per request                     *)
(* ------------------------------------------------------------------ *)
Lemma str_eqb_neq : forall a b, a <> b -> str_eqb a b = false.
Proof. intros a b H. destruct (str_eqb a b) eqn:E; auto. apply str_eqb_eq in E. contradiction. Qed.

Lemma str_eqb_false_neq : forall a b, str_eqb a b = false -> a <> b.
Proof. intros a b H E. subst. rewrite str_eqb_refl in H. discriminate. Qed.

Lemma has_key_here : forall k l, has_key k (k :: l) = true.
Proof. intros. unfold has_key. simpl. rewrite str_eqb_refl. auto. Qed.

Lemma has_key_drop_other : forall k k' l, k <> k' -> has_key k (drop_key k' l) = has_key k l.
Proof.
  intros k k' l H. unfold has_key, drop_key. induction l as [|x l IH]; simpl; auto.
  destruct (str_eqb k' x) eqn:E; simpl.
  - apply str_eqb_eq in E. subst x. rewrite (str_eqb_neq k k') by auto. simpl. auto.
  - rewrite IH. auto.
Qed.

Lemma has_key_drop_sub : forall k k' l, has_key k (drop_key k' l) = true -> has_key k l = true.
Proof.
  intros k k' l. unfold has_key, drop_key. induction l as [|x l IH]; simpl; auto.
  destruct (str_eqb k' x); simpl; intros H.
  - rewrite IH by auto. apply orb_true_r.
  - apply orb_prop in H. destruct H as [H|H]; [rewrite H; auto|]. rewrite IH by auto. apply orb_true_r.
Qed.

Lemma has_key_in : forall k l, has_key k l = true -> In k l.
Proof.
  intros k l H. unfold has_key in H. apply existsb_exists in H. destruct H as [x [Hx E]].
  apply str_eqb_eq in E. subst. auto.
Qed.

(** The full-strength environment with the late answer switched on or off:
    [allow = false] is exactly the property's environment [sched_ok]. *)
Definition late_step_g (allow : bool) (rid : id) (s : late_state) (e : ev) : option late_state :=
  match e with
  | ESse (Some m) => if answer_key rid m && is_done (fst s) && negb allow then None else late_step rid s e
  | _ => late_step rid s e
  end.

Fixpoint late_run_g (allow : bool) (rid : id) (s : late_state) (evs : list ev) : option late_state :=
  match evs with
  | [] => Some s
  | e :: r => match late_step_g allow rid s e with Some s' => late_run_g allow rid s' r | None => None end
  end.

Lemma late_step_g_true : forall rid s e, late_step_g true rid s e = late_step rid s e.
Proof. intros. unfold late_step_g. destruct e as [| | | |[m|]]; auto. rewrite andb_false_r. auto. Qed.

Lemma late_run_g_true : forall rid evs s, late_run_g true rid s evs = late_run rid s evs.
Proof. induction evs as [|e evs IH]; intros; simpl; auto. rewrite late_step_g_true. destruct (late_step rid s e); auto. Qed.

Lemma late_step_g_weaken : forall rid s e s', late_step_g false rid s e = Some s' -> late_step rid s e = Some s'.
Proof.
  intros rid s e s'. unfold late_step_g. destruct e as [| | | |[m|]]; auto.
  destruct (answer_key rid m && is_done (fst s) && negb false); auto. discriminate.
Qed.

Lemma late_run_g_weaken : forall rid evs s x, late_run_g false rid s evs = Some x -> late_run rid s evs = Some x.
Proof.
  induction evs as [|e evs IH]; intros s x H; simpl in *; auto.
  destruct (late_step_g false rid s e) as [s'|] eqn:E; try discriminate.
  rewrite (late_step_g_weaken _ _ _ _ E). auto.
Qed.

(** The property's environment is the full-strength one without late answers. *)
Definition unanswered (ph : phase) (ans : bool) : Prop :=
  match ph with PhPosted | PhAcked => ans = false | _ => True end.

Lemma strict_step_embeds : forall rid ph ans e ph',
  unanswered ph ans -> phase_step rid ph e = Some ph' ->
  exists ans', late_step_g false rid (ph, ans) e = Some (ph', ans') /\ unanswered ph' ans'.
Proof.
  intros rid ph ans e ph' Hu H. destruct e as [cm|p| | |[m|]]; simpl in H.
  - discriminate.
  - unfold late_step_g, late_step. cbn [fst snd phase_step]. rewrite H.
    eexists; split; eauto.
    destruct ph; try discriminate.
    + unfold post_phase in H. destruct p as [code b|]; [|inversion H; simpl; auto].
      destruct (code =? 202) eqn:E2.
      * inversion H; subst. simpl. simpl in Hu. subst ans. destruct b; simpl; auto. rewrite E2. auto.
      * destruct (code =? 200); [destruct (body_ok_200 rid b)|destruct (body_ok_other rid b)]; inversion H; simpl; auto.
    + destruct (post_phase rid p); inversion H; simpl; auto.
  - unfold late_step_g, late_step. cbn [fst snd phase_step]. exists ans.
    destruct ph; inversion H; subst; simpl; auto.
  - unfold late_step_g, late_step. cbn [fst snd phase_step]. exists ans.
    destruct ph; inversion H; subst; simpl; auto.
  - unfold late_step_g, late_step. cbn [fst snd].
    destruct (answer_key rid m) eqn:Ek.
    + destruct (is_terminal rid m) eqn:Et; try discriminate.
      destruct ph; try discriminate; simpl in Hu; subst ans; inversion H; subst; simpl; eexists; split; eauto; simpl; auto.
    + inversion H; subst. simpl. eauto.
  - inversion H; subst. unfold late_step_g, late_step. simpl. eauto.
Qed.

Lemma strict_embeds : forall rid evs ph ans,
  unanswered ph ans -> phase_run rid ph evs = Some PhDone ->
  exists ans', late_run_g false rid (ph, ans) evs = Some (PhDone, ans').
Proof.
  induction evs as [|e evs IH]; intros ph ans Hu H; simpl in *.
  - inversion H; subst. eauto.
  - destruct (phase_step rid ph e) as [ph'|] eqn:E; try discriminate.
    destruct (strict_step_embeds _ _ _ _ _ Hu E) as [ans' [E' Hu']]. rewrite E'. eauto.
Qed.

Lemma sched_ok_is_late : forall rid evs, sched_ok rid evs = true -> sched_ok_late rid evs = true.
Proof.
  intros rid evs H. unfold sched_ok in H. unfold sched_ok_late.
  destruct (phase_run rid PhPosted evs) as [[]|] eqn:E; try discriminate.
  destruct (strict_embeds rid evs PhPosted false eq_refl E) as [a' Ha].
  unfold late_init. rewrite (late_run_g_weaken _ _ _ _ Ha). auto.
Qed.

(** The transport state that corresponds to a state of the request's life.
    Once the request is done and the server has not answered, the key is
    remembered (members with [c_drop_late]). *)
Definition rel (c : cfg) (rid : id) (s : late_state) (ss : sstate) : Prop :=
  match fst s with
  | PhPosted => s_task ss = SPosting rid
  | PhAnswered => snd s = true /\ exists a, s_task ss = SResolved rid a /\ is_terminal rid a = true
  | PhAcked => s_task ss = SWaiting rid
  | PhAnsweredAcked => snd s = true /\ exists a, s_task ss = SWoken rid a /\ is_terminal rid a = true
  | PhDone => s_task ss = SIdle /\
              (snd s = false -> c_drop_late c = true -> has_key (key rid) (s_late ss) = true)
  end.

(** Terminal messages still to come: with [c_route_in_stream] the answer is
    out as soon as the stream task has handled it. *)
Definition owed (c : cfg) (ph : phase) : nat :=
  match ph with
  | PhDone => 0%nat
  | PhAnswered | PhAnsweredAcked => if c_route_in_stream c then 0%nat else 1%nat
  | _ => 1%nat
  end.

Lemma synth_terminal : forall c rid code,
  c_keep_id c = true -> count_terminals rid [synth c rid code] = 1%nat.
Proof.
  intros. unfold count_terminals, synth, err_id. rewrite H. simpl.
  unfold is_terminal. simpl. rewrite id_eqb_refl. auto.
Qed.

Lemma one_msg_count : forall rid s m, count_terminals rid [(s, m)] = if is_terminal rid m then 1%nat else 0%nat.
Proof. intros. unfold count_terminals. simpl. destruct (is_terminal rid m); auto. Qed.

Lemma fail_ok : forall c rid late code,
  c_keep_id c = true ->
  s_task (fst (fail c rid late code)) = SIdle /\
  count_terminals rid (snd (fail c rid late code)) = 1%nat /\
  (c_drop_late c = true -> has_key (key rid) (s_late (fst (fail c rid late code))) = true).
Proof.
  intros. unfold fail. cbn [fst snd s_task s_late]. rewrite synth_terminal by auto.
  split; auto. split; auto. intros Hd. unfold abandon. rewrite Hd. apply has_key_here.
Qed.

(** Every branch of the POST reply but the 202: the request is over, with one
    terminal message; unless the reply carried the answer, the key is kept. *)
Lemma post_branches_ok : forall c rid late p ph' acked,
  c_keep_id c = true -> c_other_terminal c = true ->
  post_phase rid p = Some ph' ->
  let r := post_branches c rid late p acked in
  (ph' = PhAcked /\ r = acked /\ post_answers rid p = false) \/
  (ph' = PhDone /\ s_task (fst r) = SIdle /\ count_terminals rid (snd r) = 1%nat /\
   (post_answers rid p = false -> c_drop_late c = true -> has_key (key rid) (s_late (fst r)) = true)).
Proof.
  intros c rid late p ph' acked Hk Ho Hp. unfold post_branches, post_phase, post_answers in *.
  destruct p as [code b|].
  2:{ inversion Hp; subst. right. destruct (fail_ok c rid late (-32603) Hk) as [A [B C]]. auto. }
  destruct (code =? 202) eqn:E202.
  { assert (code =? 200 = false) by lia. rewrite H. inversion Hp; subst. left.
    split; auto. split; auto. destruct b; auto. }
  right.
  destruct (code =? 200) eqn:E200.
  { destruct (body_ok_200 rid b) eqn:Eb; inversion Hp; subst.
    destruct b as [m| |]; simpl in Eb; try discriminate.
    - unfold done. cbn [fst snd s_task s_late]. rewrite one_msg_count, Eb. simpl. repeat split; auto. intros; discriminate.
    - destruct (fail_ok c rid late (-32603) Hk) as [A [B C]]. auto. }
  rewrite Ho.
  destruct (body_ok_other rid b) eqn:Eb; inversion Hp; subst.
  destruct b as [m| |]; simpl in Eb.
  - unfold is_answer_for. destruct (kind_terminal (m_kind m) && same_key rid m) eqn:Ea; simpl in Eb.
    + unfold done. cbn [fst snd s_task s_late]. rewrite one_msg_count, Eb. simpl. repeat split; auto. intros; discriminate.
    + destruct (fail_ok c rid late (-32603) Hk) as [A [B C]]. auto.
  - destruct (fail_ok c rid late (-32603) Hk) as [A [B C]]. auto.
  - destruct (fail_ok c rid late (-32603) Hk) as [A [B C]]. auto.
Qed.

(** A message that does not bear the request's key: never a terminal message
    for it, never touches the sender, never forgets the request's key. *)
Lemma not_pending_other : forall c rid ss m,
  answer_key rid m = false ->
  s_task (fst (not_pending c ss m)) = s_task ss /\
  count_terminals rid (snd (not_pending c ss m)) = 0%nat /\
  has_key (key rid) (s_late (fst (not_pending c ss m))) = has_key (key rid) (s_late ss).
Proof.
  intros c rid ss m Hk.
  assert (Hnt : is_terminal rid m = false).
  { destruct (is_terminal rid m) eqn:Et; auto. apply terminal_answer_key in Et. congruence. }
  unfold not_pending. destruct (late_hit c (s_late ss) m) eqn:Eh; cbn [fst snd s_task s_late].
  - unfold answer_key in Hk. apply andb_false_iff in Hk. destruct Hk as [Hk|Hk].
    + split; auto. split; auto. unfold forget. unfold same_key in Hk. destruct (m_id m) as [i|]; auto.
      apply has_key_drop_other. apply str_eqb_false_neq in Hk. congruence.
    + exfalso. unfold late_hit in Eh. destruct (m_kind m); simpl in Hk; try discriminate;
        cbn [kind_terminal] in Eh; rewrite andb_false_r in Eh; discriminate.
  - rewrite one_msg_count, Hnt. auto.
Qed.

Ltac fin := repeat split; eauto; try (intros; discriminate); try lia.

Lemma step_sim : forall c rid allow,
  c_keep_id c = true -> c_other_terminal c = true -> (allow = true -> c_drop_late c = true) -> c_answers_only c = true ->
  forall s ss e s',
  rel c rid s ss -> late_step_g allow rid s e = Some s' ->
  rel c rid s' (fst (step c ss e)) /\
  (count_terminals rid (snd (step c ss e)) + owed c (fst s') = owed c (fst s))%nat.
Proof.
  intros c rid allow Hk Ho Ha Hao [ph ans] [task late] e s' Hrel Hst.
  unfold rel in Hrel. cbn [fst snd s_task s_late] in Hrel.
  destruct e as [cm|p| | |[m|]].
  - discriminate.
  - (* EPost *)
    unfold late_step_g, late_step in Hst. cbn [fst snd phase_step] in Hst.
    destruct ph; try discriminate.
    + subst task.
      destruct (post_phase rid p) as [ph'|] eqn:Ep; try discriminate. inversion Hst; subst s'. clear Hst.
      cbn [step s_task s_late]. unfold post_done.
      destruct (post_branches_ok c rid late p ph' (SS (SWaiting rid) late, []) Hk Ho Ep)
        as [[E1 [E2 E3]]|[E1 [E2 [E3 E4]]]].
      * rewrite E2. subst ph'. unfold rel. simpl. auto.
      * subst ph'. unfold rel. cbn [fst snd]. split; [split; auto|].
        -- intros Hans. apply orb_false_iff in Hans. destruct Hans. auto.
        -- simpl. lia.
    + destruct Hrel as [Hans [a [Ht Hta]]]. subst task. simpl in Hans. subst ans.
      destruct (post_phase rid p) as [ph'|] eqn:Ep; try discriminate. inversion Hst; subst s'. clear Hst.
      cbn [step s_task s_late]. unfold post_done.
      destruct (c_route_in_stream c) eqn:Eb.
      * unfold done, rel. cbn [fst snd s_task s_late owed]. rewrite Eb. fin.
      * destruct (post_branches_ok c rid late p ph' (done late [(FromHandoff, a)]) Hk Ho Ep)
          as [[E1 [E2 E3]]|[E1 [E2 [E3 E4]]]].
        -- rewrite E2. unfold done, rel. cbn [fst snd s_task s_late owed]. rewrite Eb, one_msg_count, Hta.
           fin.
        -- unfold rel. cbn [fst snd owed]. rewrite Eb. fin.
  - (* ETimeout *)
    unfold late_step_g, late_step in Hst. cbn [fst snd phase_step] in Hst.
    destruct ph; inversion Hst; subst s'; clear Hst; cbn [step s_task s_late].
    + subst task. unfold rel. simpl. auto.
    + destruct Hrel as [Hans [a [Ht Hta]]]. subst task. unfold rel. simpl. split; eauto.
    + subst task. destruct (fail_ok c rid late (-32000) Hk) as [A [B C]].
      unfold rel. cbn [fst snd owed]. rewrite B. fin.
    + destruct Hrel as [Hans [a [Ht Hta]]]. subst task. simpl in Hans. subst ans.
      destruct (c_route_in_stream c) eqn:Eb.
      * unfold done, rel. cbn [fst snd s_task s_late owed]. rewrite Eb. fin.
      * destruct (fail_ok c rid late (-32000) Hk) as [A [B C]].
        unfold rel. cbn [fst snd owed]. rewrite B, Eb. fin.
    + destruct Hrel as [Ht Hl]. subst task. unfold rel. simpl. auto.
  - (* EWake *)
    unfold late_step_g, late_step in Hst. cbn [fst snd phase_step] in Hst.
    destruct ph; inversion Hst; subst s'; clear Hst; cbn [step s_task s_late].
    + subst task. unfold rel. simpl. auto.
    + destruct Hrel as [Hans [a [Ht Hta]]]. subst task. unfold rel. simpl. split; eauto.
    + subst task. unfold rel. simpl. auto.
    + destruct Hrel as [Hans [a [Ht Hta]]]. subst task. simpl in Hans. subst ans.
      unfold done, rel. cbn [fst snd s_task s_late owed].
      destruct (c_route_in_stream c); [|rewrite one_msg_count, Hta]; fin.
    + destruct Hrel as [Ht Hl]. subst task. unfold rel. simpl. auto.
  - (* ESse (Some m) *)
    unfold late_step_g in Hst. cbn [fst snd] in Hst.
    destruct (answer_key rid m) eqn:Esk.
    + (* the answer *)
      destruct (is_done ph && negb allow) eqn:Eda; [simpl in Hst; rewrite Eda in Hst; discriminate|].
      simpl in Hst. rewrite Eda in Hst. unfold late_step in Hst. cbn [fst snd] in Hst. rewrite Esk in Hst.
      destruct (is_terminal rid m) eqn:Et; [|discriminate].
      destruct ans; [discriminate|]. simpl in Hst.
      destruct ph; inversion Hst; subst s'; clear Hst; cbn [step s_task s_late].
      * subst task. rewrite (resolves_terminal c _ _ Et). unfold rel, resolved_out. cbn [fst snd s_task owed].
        split; [split; eauto|]. destruct (c_route_in_stream c); [rewrite one_msg_count, Et|]; auto.
      * subst task. rewrite (resolves_terminal c _ _ Et). unfold rel, resolved_out. cbn [fst snd s_task owed].
        split; [split; eauto|]. destruct (c_route_in_stream c); [rewrite one_msg_count, Et|]; auto.
      * (* late: dropped *)
        destruct Hrel as [Ht Hl]. subst task.
        assert (allow = true) by (destruct allow; auto; discriminate).
        assert (Hd := Ha H). specialize (Hl eq_refl Hd).
        assert (Hhit : late_hit c late m = true).
        { unfold late_hit. rewrite Hd, (terminal_kind _ _ Et). simpl.
          unfold is_terminal in Et. apply andb_prop in Et. destruct Et as [_ Ei].
          destruct (m_id m) as [i|]; try discriminate. apply id_eqb_eq in Ei. subst i. auto. }
        unfold not_pending. cbn [s_late s_task]. rewrite Hhit. unfold rel. cbn [fst snd s_task].
        fin.
    + (* unrelated *)
      simpl in Hst. unfold late_step in Hst. cbn [fst snd] in Hst. rewrite Esk in Hst. inversion Hst; subst s'. clear Hst.
      destruct (not_pending_other c rid (SS task late) m Esk) as [N1 [N2 N3]].
      assert (G : fst (step c (SS task late) (ESse (Some m))) = fst (not_pending c (SS task late) m) /\
                  snd (step c (SS task late) (ESse (Some m))) = snd (not_pending c (SS task late) m)).
      { cbn [step s_task s_late]. destruct ph; cbn [fst] in Hrel.
        - subst task. rewrite (resolves_answer_key c _ _ Hao), Esk. auto.
        - destruct Hrel as [_ [a [Ht _]]]. subst task. auto.
        - subst task. rewrite (resolves_answer_key c _ _ Hao), Esk. auto.
        - destruct Hrel as [_ [a [Ht _]]]. subst task. auto.
        - destruct Hrel as [Ht _]. subst task. auto. }
      destruct G as [G1 G2]. rewrite G1, G2, N2. split; [|lia].
      unfold rel. cbn [fst snd]. rewrite N1, N3. cbn [s_task s_late]. exact Hrel.
  - (* ESse None *)
    unfold late_step_g, late_step in Hst. cbn [fst snd phase_step] in Hst. inversion Hst; subst s'.
    cbn [step fst snd]. split; auto.
Qed.

Lemma sim_gen : forall c rid allow,
  c_keep_id c = true -> c_other_terminal c = true -> (allow = true -> c_drop_late c = true) -> c_answers_only c = true ->
  forall evs s ss ans',
  rel c rid s ss ->
  late_run_g allow rid s evs = Some (PhDone, ans') ->
  count_terminals rid (run c ss evs) = owed c (fst s) /\ s_task (final c ss evs) = SIdle.
Proof.
  intros c rid allow Hk Ho Ha Hao. induction evs as [|e evs IH]; intros s ss ans' Hrel Hrun.
  - simpl in *. inversion Hrun; subst. unfold rel in Hrel. simpl in Hrel. destruct Hrel. auto.
  - cbn [late_run_g] in Hrun. destruct (late_step_g allow rid s e) as [s'|] eqn:Est; try discriminate.
    cbn [run final]. rewrite count_app.
    destruct (step_sim c rid allow Hk Ho Ha Hao s ss e s' Hrel Est) as [G1 G2].
    destruct (IH s' _ ans' G1 Hrun) as [I1 I2]. rewrite I1. split; auto.
Qed.

Lemma first_step : forall c rid late evs,
  run c (SS SIdle late) (ESend (CReq rid) :: evs) = run c (SS (SPosting rid) (unabandon c rid late)) evs /\
  final c (SS SIdle late) (ESend (CReq rid) :: evs) = final c (SS (SPosting rid) (unabandon c rid late)) evs.
Proof. intros. split; reflexivity. Qed.

(** The property's environment: every member with [keep_id] and
    [other_terminal] — with or without the two proposed patches. *)
Lemma one_terminal : forall c rid evs late,
  c_keep_id c = true -> c_other_terminal c = true -> c_answers_only c = true ->
  sched_ok rid evs = true ->
  count_terminals rid (run c (SS SIdle late) (ESend (CReq rid) :: evs)) = 1%nat /\
  s_task (final c (SS SIdle late) (ESend (CReq rid) :: evs)) = SIdle.
Proof.
  intros c rid evs late Hk Ho Hao H. unfold sched_ok in H.
  destruct (phase_run rid PhPosted evs) as [[]|] eqn:E; try discriminate.
  destruct (strict_embeds rid evs PhPosted false eq_refl E) as [a' Ha'].
  destruct (first_step c rid late evs) as [R F]. rewrite R, F.
  apply (sim_gen c rid false Hk Ho (fun H => False_ind _ (Bool.diff_false_true H)) Hao evs (PhPosted, false) _ a'); auto.
  reflexivity.
Qed.

(** Full strength: the server's one answer may also come after the request
    has had its synthesised terminal message. *)
Definition one_terminal_statement (c : cfg) : Prop :=
  forall rid evs late, sched_ok_late rid evs = true ->
  count_terminals rid (run c (SS SIdle late) (ESend (CReq rid) :: evs)) = 1%nat /\
  s_task (final c (SS SIdle late) (ESend (CReq rid) :: evs)) = SIdle.

Lemma one_terminal_full : forall c,
  c_keep_id c = true -> c_other_terminal c = true -> c_drop_late c = true -> c_answers_only c = true ->
  one_terminal_statement c.
Proof.
  intros c Hk Ho Hd Hao rid evs late H. unfold sched_ok_late in H.
  destruct (late_run rid late_init evs) as [[[] a']|] eqn:E; try discriminate.
  destruct (first_step c rid late evs) as [R F]. rewrite R, F.
  apply (sim_gen c rid true Hk Ho (fun _ => Hd) Hao evs late_init _ a'); auto.
  - reflexivity.
  - rewrite late_run_g_true. auto.
Qed.

(** The six modes of the property text are accepted schedules (with any amount
    of unrelated traffic [n1 n2 n3] around them). *)
Definition noise (rid : id) (l : list ev) : Prop :=
  forall e, In e l -> match e with
                      | ESse None => True
                      | ESse (Some m) => answer_key rid m = false
                      | _ => False
                      end.

Lemma noise_run : forall rid l ph evs, noise rid l -> phase_run rid ph (l ++ evs) = phase_run rid ph evs.
Proof.
  induction l as [|e l IH]; intros ph evs H; simpl; auto.
  assert (He := H e (or_introl eq_refl)).
  assert (noise rid l) by (intros x Hx; apply H; right; auto).
  destruct e as [| | | |[m|]]; try tauto; simpl; try rewrite He; auto.
Qed.

Lemma modes_accepted : forall rid a n1 n2 n3 code b,
  is_terminal rid a = true -> noise rid n1 -> noise rid n2 -> noise rid n3 ->
  code <> 200 -> code <> 202 -> body_ok_other rid b = true ->
  sched_ok rid (n1 ++ EPost (PStatus 200 (BMsg a)) :: n2) = true /\                          (* 200 body *)
  sched_ok rid (n1 ++ EPost (PStatus 202 BNotJson) :: n2 ++ ESse (Some a) :: EWake :: n3) = true /\   (* 202 then event *)
  sched_ok rid (n1 ++ ESse (Some a) :: n2 ++ EPost (PStatus 202 BNotJson) :: n3) = true /\   (* event then 202 *)
  sched_ok rid (n1 ++ EPost (PStatus 202 BNotJson) :: n2 ++ ETimeout :: n3) = true /\        (* 202 and silence *)
  sched_ok rid (n1 ++ EPost (PStatus code b) :: n2) = true /\                                (* other status *)
  sched_ok rid (n1 ++ EPost PExc :: n2) = true.                                              (* exception *)
Proof.
  intros rid a n1 n2 n3 code b Ha H1 H2 H3 Hc1 Hc2 Hb.
  assert (Hs := terminal_answer_key _ _ Ha).
  assert (E200 : code =? 200 = false) by lia. assert (E202 : code =? 202 = false) by lia.
  unfold sched_ok.
  repeat split.
  - rewrite noise_run by auto. simpl. rewrite Ha. rewrite <- (app_nil_r n2), noise_run by auto. auto.
  - rewrite noise_run by auto. simpl. rewrite noise_run by auto. simpl. rewrite Hs, Ha.
    rewrite <- (app_nil_r n3), noise_run by auto. auto.
  - rewrite noise_run by auto. simpl. rewrite Hs, Ha. rewrite noise_run by auto. simpl.
    rewrite <- (app_nil_r n3), noise_run by auto. auto.
  - rewrite noise_run by auto. simpl. rewrite noise_run by auto. simpl.
    rewrite <- (app_nil_r n3), noise_run by auto. auto.
  - rewrite noise_run by auto. simpl. rewrite E202, E200, Hb. rewrite <- (app_nil_r n2), noise_run by auto. auto.
  - rewrite noise_run by auto. simpl. rewrite <- (app_nil_r n2), noise_run by auto. auto.
Qed.

(** The late modes: the answer arrives after the synthesised timeout error,
    after a failed POST, after an unexpected status — accepted by the
    full-strength environment, with unrelated traffic around. *)
Lemma noise_late_run : forall rid l s evs, noise rid l -> late_run rid s (l ++ evs) = late_run rid s evs.
Proof.
  induction l as [|e l IH]; intros s evs H; simpl; auto.
  assert (He := H e (or_introl eq_refl)).
  assert (noise rid l) by (intros x Hx; apply H; right; auto).
  destruct e as [| | | |[m|]]; try tauto.
  - unfold late_step. rewrite He. auto.
  - unfold late_step. simpl. destruct s. simpl. auto.
Qed.

Lemma late_modes_accepted : forall rid a n1 n2 n3,
  is_terminal rid a = true -> noise rid n1 -> noise rid n2 -> noise rid n3 ->
  sched_ok_late rid (n1 ++ EPost (PStatus 202 BNotJson) :: n2 ++ ETimeout :: n3 ++ [ESse (Some a)]) = true /\
  sched_ok_late rid (n1 ++ EPost PExc :: n2 ++ [ESse (Some a)]) = true /\
  sched_ok_late rid (n1 ++ EPost (PStatus 500 BNotJson) :: n2 ++ [ESse (Some a)]) = true.
Proof.
  intros rid a n1 n2 n3 Ha H1 H2 H3.
  assert (Hs := terminal_answer_key _ _ Ha).
  unfold sched_ok_late, late_init. repeat split.
  - rewrite noise_late_run by auto. simpl. rewrite noise_late_run by auto. simpl.
    rewrite noise_late_run by auto. simpl. unfold late_step. simpl. rewrite Hs, Ha. auto.
  - rewrite noise_late_run by auto. simpl. rewrite noise_late_run by auto. simpl.
    unfold late_step. simpl. rewrite Hs, Ha. auto.
  - rewrite noise_late_run by auto. simpl. rewrite noise_late_run by auto. simpl.
    unfold late_step. simpl. rewrite Hs, Ha. auto.
Qed.

(* ------------------------------------------------------------------ *)
(** * server messages on the stream: once, in order                    *)
(* ------------------------------------------------------------------ *)
Lemma subseq_refl : forall A (l : list A), Subseq l l.
Proof. induction l; [apply SubNil | apply SubTake; auto]. Qed.

Lemma sse_outs_app : forall a b, sse_outs (a ++ b) = sse_outs a ++ sse_outs b.
Proof. intros. unfold sse_outs. rewrite filter_app, map_app. auto. Qed.

Lemma stream_part_app : forall a b, stream_part (a ++ b) = stream_part a ++ stream_part b.
Proof. intros. unfold stream_part. rewrite filter_app, map_app. auto. Qed.

Lemma post_branches_no_sse : forall c i late p acked,
  sse_outs (snd acked) = [] -> sse_outs (snd (post_branches c i late p acked)) = [].
Proof.
  intros. unfold post_branches. destruct p as [code b|]; auto.
  destruct (code =? 200). destruct b; auto.
  destruct (code =? 202); auto.
  destruct (c_other_terminal c); destruct b; auto. destruct (is_answer_for i m); auto.
Qed.

Lemma post_done_no_sse : forall c i fut late p, sse_outs (snd (post_done c i fut late p)) = [].
Proof.
  intros. unfold post_done. destruct fut as [a|].
  - destruct (c_route_in_stream c); auto. apply post_branches_no_sse. auto.
  - apply post_branches_no_sse. auto.
Qed.

Lemma not_pending_subseq : forall c ss m l r,
  Subseq l r -> Subseq (sse_outs (snd (not_pending c ss m)) ++ l) (m :: r).
Proof.
  intros. unfold not_pending. destruct (late_hit c (s_late ss) m); simpl; [apply SubSkip|apply SubTake]; auto.
Qed.

(** What the event-stream task itself delivers is always a subsequence of what
    was on the stream: nothing twice, nothing out of order, nothing invented. *)
Lemma sse_outs_subseq : forall c evs st, Subseq (sse_outs (run c st evs)) (stream_msgs evs).
Proof.
  induction evs as [|e evs IH]; intros st; cbn [run stream_msgs].
  - apply SubNil.
  - rewrite sse_outs_app. destruct st as [task late].
    destruct e as [cm|p| | |[m|]]; cbn [step s_task s_late].
    + destruct cm; destruct task; simpl; apply IH.
    + destruct task; try (simpl; apply IH); rewrite post_done_no_sse; simpl; apply IH.
    + destruct task; simpl; try apply IH; destruct (c_route_in_stream c); simpl; apply IH.
    + destruct task; simpl; try apply IH; destruct (c_route_in_stream c); simpl; apply IH.
    + destruct task; try (apply not_pending_subseq; apply IH).
      * destruct (resolves c i m); [|apply not_pending_subseq; apply IH].
        unfold resolved_out. destruct (c_route_in_stream c); simpl; [apply SubTake|apply SubSkip]; apply IH.
      * destruct (resolves c i m); [|apply not_pending_subseq; apply IH].
        unfold resolved_out. destruct (c_route_in_stream c); simpl; [apply SubTake|apply SubSkip]; apply IH.
    + simpl. apply IH.
Qed.

(** Keys the transport has or will have a reason to match: the request in
    flight, the abandoned ones, the requests still to be sent. *)
Definition msg_has_key (k : str) (m : msg) : bool :=
  match m_id m with Some i => str_eqb (key i) k | None => false end.

Definition st_ids (st : sender) : list id :=
  match st with SPosting i | SWaiting i | SResolved i _ | SWoken i _ => [i] | _ => [] end.

Definition st_keys (ss : sstate) : list str := map key (st_ids (s_task ss)) ++ s_late ss.

Fixpoint sent_ids (evs : list ev) : list id :=
  match evs with
  | [] => []
  | ESend (CReq i) :: r => i :: sent_ids r
  | _ :: r => sent_ids r
  end.

Definition sent_keys (evs : list ev) : list str := map key (sent_ids evs).

Lemma drop_key_in : forall k k' l, In k (drop_key k' l) -> In k l.
Proof. intros k k' l H. unfold drop_key in H. apply filter_In in H. tauto. Qed.

Lemma post_branches_keys : forall c i late p acked k,
  (In k (st_keys (fst acked)) -> k = key i \/ In k late) ->
  In k (st_keys (fst (post_branches c i late p acked))) -> k = key i \/ In k late.
Proof.
  intros c i late p acked k Hacked. unfold post_branches, fail, done, abandon, st_keys.
  destruct p as [code b|]; cbn [fst s_task s_late st_ids map app].
  2:{ destruct (c_drop_late c); simpl; intuition. }
  destruct (code =? 200).
  { destruct b; cbn [fst s_task s_late st_ids map app]; destruct (c_drop_late c); simpl; intuition. }
  destruct (code =? 202); [exact Hacked|].
  destruct (c_other_terminal c); destruct b; try destruct (is_answer_for i m);
    cbn [fst s_task s_late st_ids map app]; destruct (c_drop_late c); simpl; intuition.
Qed.

Lemma post_done_keys : forall c i fut late p k,
  In k (st_keys (fst (post_done c i fut late p))) -> k = key i \/ In k late.
Proof.
  intros c i fut late p k. unfold post_done. destruct fut as [a|].
  - destruct (c_route_in_stream c); [unfold done, st_keys; simpl; auto|].
    apply post_branches_keys. unfold done, st_keys; simpl; auto.
  - apply post_branches_keys. unfold st_keys; simpl. intuition.
Qed.

Lemma not_pending_keys : forall c ss m k,
  In k (st_keys (fst (not_pending c ss m))) -> In k (st_keys ss).
Proof.
  intros c ss m k. unfold not_pending. destruct (late_hit c (s_late ss) m); auto.
  unfold st_keys. cbn [fst s_task s_late]. intros H. apply in_app_or in H. apply in_or_app.
  destruct H as [H|H]; auto. right. unfold forget in H. destruct (m_id m); auto. eapply drop_key_in; eauto.
Qed.

Ltac keys_fin H :=
  first [ exact H
        | apply post_done_keys in H; unfold st_keys; simpl; intuition; fail
        | eapply not_pending_keys; eauto; fail
        | unfold fail, done, abandon, st_keys in *; cbn [fst s_task s_late st_ids map app] in *;
          try destruct (c_drop_late _); simpl in *; intuition; fail ].

Lemma step_keys : forall c ss e k,
  In k (st_keys (fst (step c ss e))) ->
  In k (st_keys ss) \/ (exists i, e = ESend (CReq i) /\ k = key i).
Proof.
  intros c [task late] e k H.
  destruct e as [[i|]|p| | |[m|]]; cbn [step s_task s_late] in H.
  - destruct task; try (left; exact H).
    unfold st_keys in H. cbn [fst s_task s_late st_ids map app] in H. destruct H as [H|H]; [right; eauto|].
    left. unfold st_keys. simpl. unfold unabandon in H. destruct (c_drop_late c); auto. eapply drop_key_in; eauto.
  - left. destruct task; keys_fin H.
  - left. destruct task; keys_fin H.
  - left. destruct task; try destruct (c_route_in_stream c); keys_fin H.
  - left. destruct task; keys_fin H.
  - left. destruct task; try destruct (resolves c i m); keys_fin H.
  - left. exact H.
Qed.

Lemma keys_step : forall c ss e evs k,
  In k (st_keys (fst (step c ss e)) ++ sent_keys evs) -> In k (st_keys ss ++ sent_keys (e :: evs)).
Proof.
  intros c ss e evs k H. apply in_app_or in H. apply in_or_app.
  destruct H as [H|H].
  - apply step_keys in H. destruct H as [H|[i [E1 E2]]]; auto. subst. right. unfold sent_keys. simpl. auto.
  - right. unfold sent_keys in *. destruct e as [[i|]| | | |]; simpl; auto.
Qed.

Lemma msgs_step : forall e evs m, In m (stream_msgs evs) -> In m (stream_msgs (e :: evs)).
Proof. intros. destruct e as [| | | |[|]]; simpl; auto. Qed.

Lemma late_hit_key : forall c late m, late_hit c late m = true -> exists k, In k late /\ msg_has_key k m = true.
Proof.
  intros c late m H. unfold late_hit in H. apply andb_prop in H. destruct H as [_ H].
  unfold msg_has_key. destruct (m_id m) as [i|]; try discriminate.
  unfold has_key in H. apply existsb_exists in H. destruct H as [k [Hk E]]. eauto.
Qed.

Lemma not_pending_routes : forall c ss m,
  (forall k, In k (st_keys ss) -> msg_has_key k m = false) ->
  sse_outs (snd (not_pending c ss m)) = [m].
Proof.
  intros c ss m H. unfold not_pending. destruct (late_hit c (s_late ss) m) eqn:E; auto.
  apply late_hit_key in E. destruct E as [k [Hk Hm]].
  rewrite H in Hm; [discriminate|]. unfold st_keys. apply in_or_app. auto.
Qed.

Lemma step_sse_out : forall c ss e evs,
  (forall m k, In m (stream_msgs (e :: evs)) -> In k (st_keys ss) -> msg_has_key k m = false) ->
  sse_outs (snd (step c ss e)) ++ stream_msgs evs = stream_msgs (e :: evs).
Proof.
  intros c [task late] e evs H.
  destruct e as [cm|p| | |[m|]]; cbn [step s_task s_late].
  - destruct cm; destruct task; simpl; auto.
  - destruct task; try (simpl; auto; fail); rewrite post_done_no_sse; auto.
  - destruct task; simpl; auto. destruct (c_route_in_stream c); auto.
  - destruct task; simpl; auto. destruct (c_route_in_stream c); auto.
  - assert (Hin : In m (stream_msgs (ESse (Some m) :: evs))) by (simpl; auto).
    assert (Hnp : sse_outs (snd (not_pending c (SS task late) m)) = [m]).
    { apply not_pending_routes. intros k Hk. apply (H m k Hin Hk). }
    destruct task; try (rewrite Hnp; reflexivity).
    + assert (E : same_key i m = false) by (apply (H m (key i) Hin); unfold st_keys; simpl; auto).
      rewrite (resolves_not_key c _ _ E), Hnp. reflexivity.
    + assert (E : same_key i m = false) by (apply (H m (key i) Hin); unfold st_keys; simpl; auto).
      rewrite (resolves_not_key c _ _ E), Hnp. reflexivity.
  - simpl. auto.
Qed.

(** Server-initiated traffic (nothing on the stream carries the key of a
    request of this client — in flight, abandoned or still to be sent):
    delivered completely, once, in stream order, whatever the sender is doing
    meanwhile. *)
Lemma unrelated_traffic_in_order : forall c evs ss,
  (forall m k, In m (stream_msgs evs) -> In k (st_keys ss ++ sent_keys evs) -> msg_has_key k m = false) ->
  sse_outs (run c ss evs) = stream_msgs evs.
Proof.
  induction evs as [|e evs IH]; intros ss H; cbn [run]; auto.
  rewrite sse_outs_app. rewrite IH.
  - apply step_sse_out. intros m k Hm Hk. apply H; auto. apply in_or_app. auto.
  - intros m k Hm Hk. apply H. apply msgs_step; auto. apply keys_step with (c := c); auto.
Qed.

(** Full-strength ordering (members with both proposed patches): in every
    life of a request — late answer included — what reaches the read stream
    from the event stream is exactly what is due, in stream order: every
    message, the answer at its own place, the late answer not at all. *)
Definition only_key (rid : id) (late : list str) : Prop := forall k, In k late -> k = key rid.

Lemma only_key_drop : forall rid k late, only_key rid late -> only_key rid (drop_key k late).
Proof. intros rid k late H x Hx. apply H. eapply drop_key_in; eauto. Qed.

Lemma post_branches_stream : forall c i late p acked,
  stream_part (snd (post_branches c i late p acked)) = stream_part (snd acked) \/
  stream_part (snd (post_branches c i late p acked)) = [].
Proof.
  intros. unfold post_branches. destruct p as [code b|]; auto.
  destruct (code =? 200). destruct b; auto.
  destruct (code =? 202); auto.
  destruct (c_other_terminal c); destruct b; auto. destruct (is_answer_for i m); auto.
Qed.

Lemma post_branches_late : forall c rid late p acked,
  only_key rid late -> only_key rid (s_late (fst acked)) ->
  only_key rid (s_late (fst (post_branches c rid late p acked))).
Proof.
  intros c rid late p acked Hl Ha.
  assert (F : forall code, only_key rid (s_late (fst (fail c rid late code)))).
  { intros code k Hk. unfold fail, abandon in Hk. cbn [fst s_late] in Hk.
    destruct (c_drop_late c); simpl in Hk; intuition. }
  unfold post_branches. destruct p as [code b|]; auto.
  destruct (code =? 200). destruct b; auto.
  destruct (code =? 202); auto.
  destruct (c_other_terminal c); destruct b; auto. destruct (is_answer_for rid m); auto.
Qed.

Lemma step_due : forall c rid,
  c_other_terminal c = true -> c_keep_id c = true -> c_drop_late c = true -> c_route_in_stream c = true -> c_answers_only c = true ->
  forall s ss e s',
  rel c rid s ss -> only_key rid (s_late ss) -> late_step rid s e = Some s' ->
  only_key rid (s_late (fst (step c ss e))) /\
  stream_part (snd (step c ss e)) =
    match e with
    | ESse (Some m) => if answer_key rid m && is_done (fst s) then [] else [m]
    | _ => []
    end.
Proof.
  intros c rid Ho Hk Hd Hb Hao [ph ans] [task late] e s' Hrel Hl Hst.
  unfold rel in Hrel. cbn [fst snd s_task s_late] in *.
  destruct e as [cm|p| | |[m|]].
  - discriminate.
  - unfold late_step in Hst. cbn [fst snd phase_step] in Hst. cbn [step s_task s_late].
    destruct ph; try discriminate.
    + subst task. unfold post_done. split.
      * apply post_branches_late; auto.
      * destruct (post_branches_stream c rid late p (SS (SWaiting rid) late, [])) as [E|E]; rewrite E; auto.
    + destruct Hrel as [_ [a [Ht _]]]. subst task. unfold post_done. rewrite Hb. auto.
  - cbn [step s_task s_late].
    assert (F : only_key rid (s_late (fst (fail c rid late (-32000))))).
    { intros k Hkk. unfold fail, abandon in Hkk. cbn [fst s_late] in Hkk. rewrite Hd in Hkk. simpl in Hkk. intuition. }
    destruct ph; cbn [fst] in Hrel.
    + subst task. auto.
    + destruct Hrel as [_ [a [Ht _]]]. subst task. auto.
    + subst task. auto.
    + destruct Hrel as [_ [a [Ht _]]]. subst task. rewrite Hb. auto.
    + destruct Hrel as [Ht _]. subst task. auto.
  - cbn [step s_task s_late].
    destruct ph; cbn [fst] in Hrel.
    + subst task. auto.
    + destruct Hrel as [_ [a [Ht _]]]. subst task. auto.
    + subst task. auto.
    + destruct Hrel as [_ [a [Ht _]]]. subst task. rewrite Hb. auto.
    + destruct Hrel as [Ht _]. subst task. auto.
  - unfold late_step in Hst. cbn [fst snd] in Hst.
    destruct (answer_key rid m) eqn:Esk.
    + destruct (is_terminal rid m) eqn:Et; [|discriminate]. destruct ans; [discriminate|]. simpl in Hst.
      cbn [step s_task s_late].
      destruct ph; try discriminate; cbn [fst] in Hrel; cbn [andb is_done].
      * subst task. rewrite (resolves_terminal c _ _ Et). unfold resolved_out. rewrite Hb. auto.
      * subst task. rewrite (resolves_terminal c _ _ Et). unfold resolved_out. rewrite Hb. auto.
      * destruct Hrel as [Ht Hh]. subst task. specialize (Hh eq_refl Hd).
        assert (Hhit : late_hit c late m = true).
        { unfold late_hit. rewrite Hd, (terminal_kind _ _ Et). simpl.
          unfold is_terminal in Et. apply andb_prop in Et. destruct Et as [_ Ei].
          destruct (m_id m) as [i|]; try discriminate. apply id_eqb_eq in Ei. subst i. auto. }
        unfold not_pending. cbn [s_late s_task]. rewrite Hhit. cbn [fst snd s_late]. split; auto.
        unfold forget. destruct (m_id m); auto. apply only_key_drop. auto.
    + cbn [andb].
      assert (Hmiss : late_hit c late m = false).
      { destruct (late_hit c late m) eqn:E; auto.
        assert (Ekt : kind_terminal (m_kind m) = true).
        { unfold late_hit in E. destruct (kind_terminal (m_kind m)); auto. rewrite andb_false_r in E. simpl in E. discriminate. }
        apply late_hit_key in E. destruct E as [k [Hkk Hm]].
        apply Hl in Hkk. subst k. unfold msg_has_key in Hm.
        unfold answer_key in Esk. apply andb_false_iff in Esk. destruct Esk as [Esk|Esk].
        - unfold same_key in Esk. congruence.
        - destruct (m_kind m); simpl in *; discriminate. }
      assert (G : step c (SS task late) (ESse (Some m)) = (SS task late, [(FromSse, m)])).
      { cbn [step s_task s_late]. unfold not_pending. cbn [s_late]. rewrite Hmiss.
        destruct ph; cbn [fst] in Hrel.
        - subst task. rewrite (resolves_answer_key c _ _ Hao), Esk. auto.
        - destruct Hrel as [_ [a [Ht _]]]. subst task. auto.
        - subst task. rewrite (resolves_answer_key c _ _ Hao), Esk. auto.
        - destruct Hrel as [_ [a [Ht _]]]. subst task. auto.
        - destruct Hrel as [Ht _]. subst task. auto. }
      rewrite G. auto.
  - cbn [step fst snd s_late]. auto.
Qed.

Lemma due_gen : forall c rid,
  c_other_terminal c = true -> c_keep_id c = true -> c_drop_late c = true -> c_route_in_stream c = true -> c_answers_only c = true ->
  forall evs s ss s_end,
  rel c rid s ss -> only_key rid (s_late ss) -> late_run rid s evs = Some s_end ->
  stream_part (run c ss evs) = stream_due rid s evs.
Proof.
  intros c rid Ho Hk Hd Hb Hao. induction evs as [|e evs IH]; intros s ss s_end Hrel Hl Hrun; auto.
  cbn [late_run] in Hrun. destruct (late_step rid s e) as [s'|] eqn:Est; try discriminate.
  cbn [run stream_due]. rewrite Est, stream_part_app.
  destruct (step_due c rid Ho Hk Hd Hb Hao s ss e s' Hrel Hl Est) as [L1 L2].
  assert (Ha : true = true -> c_drop_late c = true) by auto.
  rewrite <- late_step_g_true in Est.
  destruct (step_sim c rid true Hk Ho Ha Hao s ss e s' Hrel Est) as [R1 _].
  rewrite L2. f_equal. eapply IH; eauto.
Qed.

Definition in_order_statement (c : cfg) : Prop :=
  forall rid evs, sched_ok_late rid evs = true ->
  stream_part (run c sinit (ESend (CReq rid) :: evs)) = stream_due rid late_init evs.

Lemma in_order_full : forall c,
  c_keep_id c = true -> c_other_terminal c = true -> c_drop_late c = true -> c_route_in_stream c = true -> c_answers_only c = true ->
  in_order_statement c.
Proof.
  intros c Hk Ho Hd Hb Hao rid evs H. unfold sched_ok_late in H.
  destruct (late_run rid late_init evs) as [s_end|] eqn:E; try discriminate.
  unfold sinit. destruct (first_step c rid [] evs) as [R _]. rewrite R.
  eapply due_gen; eauto.
  - reflexivity.
  - intros k Hkk. cbn [s_late] in Hkk. unfold unabandon in Hkk. destruct (c_drop_late c); simpl in Hkk; tauto.
Qed.

(** In the property's own environment (no late answer) "what is due" is simply
    everything that was on the stream. *)
Lemma stream_due_strict : forall rid evs ph ans s_end,
  late_run_g false rid (ph, ans) evs = Some s_end ->
  stream_due rid (ph, ans) evs = stream_msgs evs.
Proof.
  intros rid. induction evs as [|e evs IH]; intros ph ans s_end H; auto.
  cbn [late_run_g] in H. destruct (late_step_g false rid (ph, ans) e) as [[ph' ans']|] eqn:E; try discriminate.
  cbn [stream_due stream_msgs]. rewrite (late_step_g_weaken _ _ _ _ E).
  destruct e as [| | | |[m|]]; simpl; try (eapply IH; eauto).
  unfold late_step_g in E. cbn [fst] in E.
  destruct (answer_key rid m && is_done ph) eqn:Ed; [simpl in E; discriminate|].
  simpl. f_equal. eapply IH; eauto.
Qed.

Lemma in_order_strict : forall c rid evs,
  c_keep_id c = true -> c_other_terminal c = true -> c_drop_late c = true -> c_route_in_stream c = true -> c_answers_only c = true ->
  sched_ok rid evs = true ->
  stream_part (run c sinit (ESend (CReq rid) :: evs)) = stream_msgs evs.
Proof.
  intros c rid evs Hk Ho Hd Hb Hao H.
  rewrite (in_order_full c Hk Ho Hd Hb Hao rid evs (sched_ok_is_late _ _ H)).
  unfold sched_ok in H. destruct (phase_run rid PhPosted evs) as [[]|] eqn:E; try discriminate.
  destruct (strict_embeds rid evs PhPosted false eq_refl E) as [a' Ha'].
  eapply stream_due_strict; eauto.
Qed.

Lemma in_order_full_both : forall c,
  c_keep_id c = true -> c_other_terminal c = true -> c_drop_late c = true -> c_route_in_stream c = true -> c_answers_only c = true ->
  (forall rid evs, sched_ok_late rid evs = true ->
     stream_part (run c sinit (ESend (CReq rid) :: evs)) = stream_due rid late_init evs) /\
  (forall rid evs, sched_ok rid evs = true ->
     stream_part (run c sinit (ESend (CReq rid) :: evs)) = stream_msgs evs).
Proof. intros c Hk Ho Hd Hb Hao. split. exact (in_order_full c Hk Ho Hd Hb Hao). intros; apply in_order_strict; auto. Qed.

(* ------------------------------------------------------------------ *)
(** * (d) resources                                                    *)
(* ------------------------------------------------------------------ *)
Lemma cleanup_releases_all : forall r, released (cleanup r) = true.
Proof. intros. destruct r. reflexivity. Qed.

Lemma cleanup_idempotent : forall r, cleanup (cleanup r) = cleanup r.
Proof. intros. destruct r as [? ? ? ? ? ? ? ? w]. destruct w; reflexivity. Qed.

Lemma closed_absorbing : forall c s e, lp s = LClosed -> lstep c s e = s.
Proof. intros. unfold lstep. rewrite H. destruct e; auto. Qed.

Lemma stuck_absorbing : forall c s e, lp s = LStuck -> lstep c s e = s.
Proof. intros. unfold lstep. rewrite H. destruct e; auto. Qed.

Lemma lstep_inv : forall c s e,
  c_enter_cancel c = true ->
  (lp s = LClosed -> released (lr s) = true) ->
  (lp (lstep c s e) = LClosed -> released (lr (lstep c s e)) = true).
Proof.
  intros c s e Hc Hinv. destruct (lp s) eqn:Ep.
  4:{ rewrite closed_absorbing by auto. rewrite Ep. auto. }
  4:{ rewrite stuck_absorbing by auto. rewrite Ep. discriminate. }
  all: unfold lstep; rewrite Ep; destruct e; simpl; try discriminate;
    try rewrite Hc; intros; try apply cleanup_releases_all; try discriminate.
  all: try (destruct (r_sse_task (lr s)); simpl in *; rewrite ?Ep in *; discriminate).
  all: try (destruct (r_out_task (lr s)); simpl in *; rewrite ?Ep in *; discriminate).
  all: try (destruct (r_out_task (lr s) && negb (Nat.eqb (r_pending (lr s)) 0)); simpl in *; rewrite ?Ep in *; discriminate).
  all: destruct (exit_stuck c k (lr s)); simpl in *; try discriminate; apply cleanup_releases_all.
Qed.

Lemma life_gen : forall c evs s,
  c_enter_cancel c = true ->
  (lp s = LClosed -> released (lr s) = true) ->
  lp (fold_left (lstep c) evs s) = LClosed -> released (lr (fold_left (lstep c) evs s)) = true.
Proof.
  induction evs as [|e evs IH]; intros s Hc Hinv; simpl; auto.
  apply IH; auto. apply lstep_inv; auto.
Qed.

Lemma life_closed_released : forall c evs,
  c_enter_cancel c = true ->
  lp (life c evs) = LClosed -> released (lr (life c evs)) = true.
Proof. intros. apply life_gen; auto; simpl; discriminate. Qed.

(** Every way of leaving completes: an exit from ANY inside state closes the
    life (it cannot get stuck), failing or cancelled entering closes it. *)
Lemma exits_close : forall c s k, c_reraise_cancel c = true -> lp s = LInside ->
  lp (lstep c s (LExit k)) = LClosed /\ released (lr (lstep c s (LExit k))) = true.
Proof.
  intros. unfold lstep, exit_stuck. rewrite H0, H. simpl. split; auto; apply cleanup_releases_all.
Qed.

Lemma enter_failures_close : forall c s, c_enter_cancel c = true -> lp s = LEntering ->
  (lp (lstep c s LEnterRaise) = LClosed /\ released (lr (lstep c s LEnterRaise)) = true) /\
  (lp (lstep c s LEnterCancel) = LClosed /\ released (lr (lstep c s LEnterCancel)) = true).
Proof. intros. unfold lstep. rewrite H0, H. simpl. repeat split; auto; apply cleanup_releases_all. Qed.

(** A life never gets stuck when the sender re-raises. *)
Lemma never_stuck : forall c evs, c_reraise_cancel c = true -> lp (life c evs) <> LStuck.
Proof.
  intros c evs H. unfold life.
  assert (G : forall evs s, lp s <> LStuck -> lp (fold_left (lstep c) evs s) <> LStuck).
  { induction evs0 as [|e evs0 IH]; intros s Hs; simpl; auto. apply IH.
    unfold lstep, exit_stuck. rewrite H. simpl.
    destruct e; destruct (lp s) eqn:Ep; simpl; try congruence;
      try (destruct (r_sse_task (lr s)); simpl; congruence);
      try (destruct (r_out_task (lr s)); simpl; congruence);
      try (destruct (r_out_task (lr s) && negb (Nat.eqb (r_pending (lr s)) 0)); simpl; congruence);
      try (destruct (c_enter_cancel c); simpl; congruence). }
  apply G. simpl. discriminate.
Qed.

(* ------------------------------------------------------------------ *)
(** * Requests of the server's own (ecb7629)                           *)
(* ------------------------------------------------------------------ *)
(** With [c_answers_only], a message that has a method - a request or a
    notification of the server - is routed to the read stream at its place and
    leaves the request state exactly as it was, WHATEVER id it bears and
    whatever the sender is doing: it is never taken for an answer and never
    dropped as a late one. *)
Lemma server_call_untouched : forall c st m,
  c_answers_only c = true -> kind_call (m_kind m) = true ->
  step c st (ESse (Some m)) = (st, [(FromSse, m)]).
Proof.
  intros c [task late] m Ha Hk. cbn [step s_task s_late].
  assert (R : forall i, resolves c i m = false).
  { intros i. unfold resolves. rewrite Ha, Hk. now rewrite andb_false_r. }
  assert (N : not_pending c (SS task late) m = (SS task late, [(FromSse, m)])).
  { unfold not_pending, late_hit. cbn [s_late].
    destruct (m_kind m); try discriminate; cbn [kind_terminal]; now rewrite andb_false_r. }
  destruct task; try rewrite R; exact N.
Qed.

(** ... and such a message is unrelated traffic of the property's environment, whatever id it bears *)
Lemma server_call_is_noise : forall rid m, kind_call (m_kind m) = true -> noise rid [ESse (Some m)].
Proof.
  intros rid m Hk e [<-|[]]. unfold answer_key. rewrite Hk. apply andb_false_r.
Qed.

(* ------------------------------------------------------------------ *)
(** * Refutations                                                      *)
(* ------------------------------------------------------------------ *)
Definition w_rid := IdStr [114;49].                      (* "r1" *)
Definition w_ans := Msg (Some w_rid) KRes 7.
Definition w_notif := Msg None KNotif 8.

(** 202, the timeout error is synthesised, then the answer arrives. *)
Definition w_late : list ev := [EPost (PStatus 202 BNotJson); ETimeout; ESse (Some w_ans)].
(** 202, then the answer and at once another event; the sender runs afterwards. *)
Definition w_overtaken : list ev := [EPost (PStatus 202 BNotJson); ESse (Some w_ans); ESse (Some w_notif); EWake].

(** Full-strength exactly-once, late answers included: not met by any member
    that does not remember the requests it has answered itself. *)
Lemma one_terminal_refuted : forall c, c_drop_late c = false -> ~ one_terminal_statement c.
Proof.
  intros c Hd H. destruct (H w_rid w_late [] eq_refl) as [H1 _]. clear H.
  destruct c as [f1 f2 f3 f4 f5 f6 f7 f8]. simpl in Hd. subst f6.
  unfold count_terminals in H1.
  destruct f1, f2, f3, f4, f5, f7, f8; vm_compute in H1; discriminate.
Qed.

(** Full-strength ordering: not met by any member that hands the answer to the
    sender task (it is overtaken by the next event) ... *)
Lemma in_order_refuted : forall c, c_route_in_stream c = false -> ~ in_order_statement c.
Proof.
  intros c Hb H. specialize (H w_rid w_overtaken eq_refl).
  destruct c as [f1 f2 f3 f4 f5 f6 f7 f8]. simpl in Hb. subst f7.
  destruct f1, f2, f3, f4, f5, f6, f8; vm_compute in H; discriminate.
Qed.

(** ... nor by one that delivers the late answer. *)
Lemma in_order_refuted_late : forall c, c_drop_late c = false -> ~ in_order_statement c.
Proof.
  intros c Hd H. specialize (H w_rid w_late eq_refl).
  destruct c as [f1 f2 f3 f4 f5 f6 f7 f8]. simpl in Hd. subst f6.
  destruct f1, f2, f3, f4, f5, f7, f8; vm_compute in H; discriminate.
Qed.

(** /repo HEAD (the five earlier repairs in, the two proposed ones not): the
    two open defects, and what the proposed patches make of the same inputs. *)
Lemma head_late_answer_second_terminal :
  sched_ok_late w_rid w_late = true /\
  map snd (run cfg_head sinit (ESend (CReq w_rid) :: w_late)) = [Msg (Some w_rid) (KErr (-32000)) 0; w_ans] /\
  map snd (run cfg_patched sinit (ESend (CReq w_rid) :: w_late)) = [Msg (Some w_rid) (KErr (-32000)) 0].
Proof. repeat split; reflexivity. Qed.

Lemma head_answer_overtaken :
  sched_ok w_rid w_overtaken = true /\
  stream_msgs w_overtaken = [w_ans; w_notif] /\
  map snd (run cfg_head sinit (ESend (CReq w_rid) :: w_overtaken)) = [w_notif; w_ans] /\
  map snd (run cfg_patched sinit (ESend (CReq w_rid) :: w_overtaken)) = [w_ans; w_notif].
Proof. repeat split; reflexivity. Qed.

(** The code before the five earlier repairs ([cfg_orig]), one witness each. *)
Lemma orig_int_id_no_terminal :
  count_terminals (IdInt 1) (run cfg_orig sinit [ESend (CReq (IdInt 1)); EPost (PStatus 202 BNotJson); ETimeout]) = 0%nat
  /\ sched_ok (IdInt 1) [EPost (PStatus 202 BNotJson); ETimeout] = true.
Proof. split; reflexivity. Qed.

Lemma orig_other_status_no_terminal :
  count_terminals w_rid (run cfg_orig sinit [ESend (CReq w_rid); EPost (PStatus 500 BInvalid)]) = 0%nat
  /\ sched_ok w_rid [EPost (PStatus 500 BInvalid)] = true.
Proof. split; reflexivity. Qed.

Definition w_base : str := [104;116;116;112;58;47;47;104].      (* "http://h" *)
Definition w_nospace : str := s_event ++ s_endpoint ++ [10] ++ s_data ++ s_messages ++ [120] ++ [10;10].
                                                                   (* "event:endpoint\ndata:/messages/x\n\n" *)
Lemma orig_nospace_not_recognised :
  snd (run_parser cfg_orig w_base pinit [w_nospace]) = []
  /\ snd (run_parser cfg_head w_base pinit [w_nospace]) = [AEndpoint (w_base ++ s_messages ++ [120])].
Proof. split; reflexivity. Qed.

Lemma orig_exit_after_stream_end_hangs :
  lp (life cfg_orig [LAlloc; LStreamOpen; LEnterOk; LPendAdd; LWait; LSseEnds; LExit XNormal]) = LStuck
  /\ r_out_task (lr (life cfg_orig [LAlloc; LStreamOpen; LEnterOk; LPendAdd; LWait; LSseEnds; LExit XNormal])) = true.
Proof. split; reflexivity. Qed.

Lemma orig_cancel_during_enter_leaks :
  lp (life cfg_orig [LAlloc; LStreamOpen; LEnterCancel]) = LClosed
  /\ released (lr (life cfg_orig [LAlloc; LStreamOpen; LEnterCancel])) = false.
Proof. split; reflexivity. Qed.

(** C18 under the FIFO wake-up discipline: answers that come in the order in
    which the waiters queue are never lost; the refuting schedule of
    Proofs/Concurrent.v IS a FIFO schedule. *)
From Coq Require Import Lia.
From Verif.Base Require Import Prelude AwaitTypes.
From Verif.Model Require Import Concurrent ConcurrentFifo.
From Verif.Proofs Require Import Concurrent.
Open Scope Z_scope.

Section Fifo.
  Variable retryable : Z -> bool.
  Notation decide := (decide retryable).
  Notation fifo_log := (fifo_log retryable).
  Notation requeue := (requeue retryable).

  (** an answer [m] addressed to waiter [k]: the waiter's own filter accepts it *)
  Definition addressed (ids : list rid) (a : nat * inmsg) : Prop :=
    exists i o, nth_error ids (fst a) = Some i /\ decide i (snd a) = Some o.

  (** Answers arriving in the order of the queue's head: every one is dequeued
      by its addressee, whatever else waits behind. *)
  Lemma fifo_in_order_log : forall ids ans queue,
    Forall (addressed ids) ans ->
    map fst ans = firstn (length ans) queue ->
    fifo_log ids queue (map snd ans) = map (fun a => Deliver (fst a) (snd a)) ans.
  Proof.
    intros ids ans. induction ans as [|[k m] ans IH]; intros queue Hall Hq; cbn; [reflexivity|].
    destruct queue as [|k' q]; cbn in Hq; [discriminate|].
    injection Hq as <- Hq.
    inversion Hall as [|a l (i & o & Hi & Hd) Hall' E]; subst. cbn in Hi, Hd.
    f_equal. unfold ConcurrentFifo.requeue. rewrite Hi, Hd. now apply IH.
  Qed.

  Lemma first_own_skip : forall k i l,
    ~ In k (map fst l) ->
    first_own retryable k i (map (fun a : nat * inmsg => Deliver (fst a) (snd a)) l) = None.
  Proof.
    intros k i l. induction l as [|[j m] l IH]; intros Hn; cbn; [reflexivity|].
    destruct (Nat.eqb j k) eqn:E.
    - apply PeanoNat.Nat.eqb_eq in E. subst. exfalso. apply Hn. now left.
    - apply IH. intros H. apply Hn. now right.
  Qed.

  Lemma first_own_in_order : forall ids ans k m i,
    NoDup (map fst ans) -> In (k, m) ans -> nth_error ids k = Some i ->
    first_own retryable k i (map (fun a : nat * inmsg => Deliver (fst a) (snd a)) ans) =
    match decide i m with Some o => Some o | None => None end.
  Proof.
    intros ids ans k m i. induction ans as [|[j m'] ans IH]; intros Hnd Hin Hi; [contradiction|].
    cbn in Hnd. inversion Hnd as [|x l Hnot Hnd']; subst.
    destruct Hin as [E|Hin].
    - injection E as -> ->. cbn. rewrite PeanoNat.Nat.eqb_refl.
      destruct (decide i m) as [o|]; [reflexivity|]. now apply first_own_skip.
    - cbn. destruct (Nat.eqb j k) eqn:E.
      + apply PeanoNat.Nat.eqb_eq in E. subst j. exfalso. apply Hnot.
        change k with (fst (k, m)). now apply in_map.
      + now apply IH.
  Qed.

  (** THE statement: callers waiting in [queue] (no index twice), answers
      addressed to the first [length ans] of them, in that order, nothing else
      on the connection: every one of those callers completes with ITS answer. *)
  Theorem fifo_in_order_nothing_lost : forall ids ans queue k m i,
    NoDup queue ->
    Forall (addressed ids) ans ->
    map fst ans = firstn (length ans) queue ->
    In (k, m) ans -> nth_error ids k = Some i ->
    outcome_of (replay retryable ids (fifo_log ids queue (map snd ans))) k = decide i m.
  Proof.
    intros ids ans queue k m i Hnd Hall Hq Hin Hi.
    rewrite (fifo_in_order_log ids ans queue Hall Hq).
    unfold replay.
    rewrite (no_lost_response_partial retryable _ (init ids) k i).
    - rewrite (first_own_in_order ids ans k m i); [now destruct (decide i m)| |exact Hin|exact Hi].
      rewrite Hq. clear -Hnd. revert queue Hnd. generalize (length ans) as n.
      induction n as [|n IH]; intros [|x q] H; cbn; try constructor.
      + inversion H as [|y l Hx Hq]; subst. intros Hc. apply Hx.
        clear -Hc. revert n Hc. induction q as [|z q IHq]; intros [|n] Hc; cbn in *; try contradiction.
        destruct Hc as [->|Hc]; [now left|right; eapply IHq; exact Hc].
      + inversion H; subst. now apply IH.
    - unfold init. rewrite nth_error_map, Hi. reflexivity.
  Qed.

  (** in particular: ALL callers of a burst, answered in request order *)
  Corollary request_order_nothing_lost : forall ids ans k m i,
    Forall (addressed ids) ans ->
    map fst ans = firstn (length ans) (request_order ids) ->
    In (k, m) ans -> nth_error ids k = Some i ->
    outcome_of (replay retryable ids (fifo_log ids (request_order ids) (map snd ans))) k = decide i m.
  Proof.
    intros ids ans k m i. apply fifo_in_order_nothing_lost. apply seq_NoDup.
  Qed.
End Fifo.

(** Lemmas about Base/StdioUtf8.v. *)
From Coq Require Import Lia ZifyBool.
From Verif.Base Require Import Prelude StdioUtf8.
Open Scope Z_scope.

Ltac zdm := Z.div_mod_to_equations; lia.

(** An ASCII byte occurs in the encoding of a code point only as that code
    point itself: lead bytes are >= 0xC0 and continuation bytes >= 0x80. *)
Lemma utf8_cp_ascii : forall c b,
  0 <= c -> 0 <= b < 128 -> In b (utf8_cp c) -> c = b.
Proof.
  intros c b Hc Hb. unfold utf8_cp.
  destruct (c <? 128) eqn:E1.
  { simpl. intros [H | []]. exact H. }
  destruct (c <? 2048) eqn:E2.
  { cbn [In]. intros [H | [H | []]]; exfalso; zdm. }
  destruct (c <? 65536) eqn:E3.
  { cbn [In]. intros [H | [H | [H | []]]]; exfalso; zdm. }
  cbn [In]. intros [H | [H | [H | [H | []]]]]; exfalso; zdm.
Qed.

Lemma utf8_cp_no_lf : forall c, 0 <= c -> c <> 10 -> ~ In 10 (utf8_cp c).
Proof. intros c Hc Hn H. apply Hn. apply utf8_cp_ascii with (b := 10); auto; lia. Qed.

Lemma utf8_enc_cons : forall c s, utf8_enc (c :: s) = utf8_cp c ++ utf8_enc s.
Proof. reflexivity. Qed.

Lemma utf8_enc_app : forall a b, utf8_enc (a ++ b) = utf8_enc a ++ utf8_enc b.
Proof. intros; unfold utf8_enc; apply flat_map_app. Qed.

Lemma utf8_enc_ascii : forall s b,
  Forall (fun c => 0 <= c) s -> 0 <= b < 128 -> In b (utf8_enc s) -> In b s.
Proof.
  induction s as [|c s IH]; intros b Hs Hb Hin.
  { exact Hin. }
  inversion Hs; subst. rewrite utf8_enc_cons in Hin. apply in_app_or in Hin. destruct Hin as [H | H].
  - left. apply utf8_cp_ascii with (b := b); auto.
  - right. apply IH; auto.
Qed.

Lemma is_scalar_nonneg : forall c, is_scalar c = true -> 0 <= c.
Proof. unfold is_scalar; intros; lia. Qed.

Lemma forallb_scalar_nonneg : forall s, forallb is_scalar s = true -> Forall (fun c => 0 <= c) s.
Proof.
  intros s H. apply Forall_forall. intros x Hx.
  apply is_scalar_nonneg. rewrite forallb_forall in H. auto.
Qed.

(** A successful [str.encode] puts a byte 10 / 13 on the wire only where the
    text has the code point 10 / 13. *)
Lemma utf8_encode_ascii : forall s bs b,
  utf8_encode s = Some bs -> 0 <= b < 128 -> In b bs -> In b s.
Proof.
  unfold utf8_encode. intros s bs b H Hb Hin.
  destruct (forallb is_scalar s) eqn:E; [|discriminate]. inversion H; subst.
  apply utf8_enc_ascii; auto. apply forallb_scalar_nonneg; auto.
Qed.

(** ---- decoder ---------------------------------------------------------- *)

(** A trailing CR decodes to a trailing CR (and never completes or breaks a
    multi-byte sequence). *)
Lemma decode_from_cr : forall l s,
  decode_from s (l ++ [13]) =
  match decode_from s l with Some t => Some (t ++ [13]) | None => None end.
Proof.
  induction l as [|b r IH]; intros s.
  - destruct s; reflexivity.
  - simpl. destruct (dstep s b) as [[s' out]|]; [|reflexivity].
    rewrite IH. destruct (decode_from s' r); [|reflexivity].
    rewrite app_assoc. reflexivity.
Qed.

Lemma strip_cr : forall t, strip (t ++ [13]) = strip t.
Proof. intros. unfold strip, rstrip. rewrite rev_app_distr. reflexivity. Qed.

(** Round trip: decoding the encoding of a scalar value gives it back. *)
Lemma decode_cons : forall s b r,
  decode_from s (b :: r) =
  match dstep s b with
  | None => None
  | Some (s', out) => match decode_from s' r with None => None | Some t => Some (out ++ t) end
  end.
Proof. reflexivity. Qed.

Ltac split_ifs :=
  repeat match goal with
         | |- context [if ?c then _ else _] => let E := fresh "E" in destruct c eqn:E; try lia
         end.

Lemma lead1 : forall b, 0 <= b <= 127 -> dstep Idle b = Some (Idle, [b]).
Proof. intros. unfold dstep, between. split_ifs; reflexivity. Qed.
Lemma lead2 : forall b, 194 <= b <= 223 -> dstep Idle b = Some (Pend 1 (b - 192) 128 191, []).
Proof. intros. unfold dstep, between. split_ifs; reflexivity. Qed.
Lemma lead3 : forall b, 225 <= b <= 239 -> b <> 237 -> dstep Idle b = Some (Pend 2 (b - 224) 128 191, []).
Proof. intros. unfold dstep, between. split_ifs; reflexivity. Qed.
Lemma lead4 : forall b, 241 <= b <= 243 -> dstep Idle b = Some (Pend 3 (b - 240) 128 191, []).
Proof. intros. unfold dstep, between. split_ifs; reflexivity. Qed.
Lemma cont_last : forall acc lo hi b, 128 <= b <= 191 -> lo <= b <= hi ->
  dstep (Pend 1 acc lo hi) b = Some (Idle, [acc * 64 + (b - 128)]).
Proof. intros. unfold dstep, between. split_ifs; reflexivity. Qed.
Lemma cont_more : forall n acc lo hi b, 128 <= b <= 191 -> lo <= b <= hi ->
  dstep (Pend (S (S n)) acc lo hi) b = Some (Pend (S n) (acc * 64 + (b - 128)) 128 191, []).
Proof. intros. unfold dstep, between. split_ifs; reflexivity. Qed.

Lemma decode_cp : forall c r,
  is_scalar c = true ->
  decode_from Idle (utf8_cp c ++ r) =
  match decode_from Idle r with Some t => Some (c :: t) | None => None end.
Proof.
  intros c r Hc. unfold is_scalar in Hc. unfold utf8_cp.
  destruct (c <? 128) eqn:E1.
  { cbn [app]. cbv beta iota; rewrite decode_cons, lead1 by lia. destruct (decode_from Idle r); reflexivity. }
  assert (C0 : 128 <= 128 + c mod 64 <= 191) by zdm.
  destruct (c <? 2048) eqn:E2.
  { cbn [app].
    assert (B0 : 194 <= 192 + c / 64 <= 223) by zdm.
    assert (V : (192 + c / 64 - 192) * 64 + (128 + c mod 64 - 128) = c) by zdm.
    cbv beta iota; rewrite decode_cons, (lead2 _ B0). cbv beta iota; rewrite decode_cons, cont_last by lia. cbv beta iota; rewrite V.
    destruct (decode_from Idle r); reflexivity. }
  assert (C1 : 128 <= 128 + (c / 64) mod 64 <= 191) by zdm.
  destruct (c <? 65536) eqn:E3.
  { cbn [app]. cbv beta iota; rewrite decode_cons.
    assert (B0 : 224 <= 224 + c / 4096 <= 239) by zdm.
    destruct (Z.eq_dec (c / 4096) 0) as [Q|Q].
    { rewrite Q. change (224 + 0) with 224. change (dstep Idle 224) with (Some (Pend 2 0 160 191, @nil Z)).
      assert (L : 160 <= 128 + (c / 64) mod 64 <= 191) by zdm.
      assert (V : (0 * 64 + (128 + (c / 64) mod 64 - 128)) * 64 + (128 + c mod 64 - 128) = c) by zdm.
      cbv beta iota; rewrite decode_cons, cont_more by lia. cbv beta iota; rewrite decode_cons, cont_last by lia. cbv beta iota; rewrite V.
      destruct (decode_from Idle r); reflexivity. }
    destruct (Z.eq_dec (c / 4096) 13) as [Q2|Q2].
    { rewrite Q2. change (224 + 13) with 237. change (dstep Idle 237) with (Some (Pend 2 13 128 159, @nil Z)).
      assert (L : 128 <= 128 + (c / 64) mod 64 <= 159) by zdm.
      assert (V : (13 * 64 + (128 + (c / 64) mod 64 - 128)) * 64 + (128 + c mod 64 - 128) = c) by zdm.
      cbv beta iota; rewrite decode_cons, cont_more by lia. cbv beta iota; rewrite decode_cons, cont_last by lia. cbv beta iota; rewrite V.
      destruct (decode_from Idle r); reflexivity. }
    rewrite lead3 by lia.
    assert (V : ((224 + c / 4096 - 224) * 64 + (128 + (c / 64) mod 64 - 128)) * 64 + (128 + c mod 64 - 128) = c) by zdm.
    cbv beta iota; rewrite decode_cons, cont_more by lia. cbv beta iota; rewrite decode_cons, cont_last by lia. cbv beta iota; rewrite V.
    destruct (decode_from Idle r); reflexivity. }
  assert (C2 : 128 <= 128 + (c / 4096) mod 64 <= 191) by zdm.
  cbn [app]. cbv beta iota; rewrite decode_cons.
  assert (B0 : 240 <= 240 + c / 262144 <= 244) by zdm.
  destruct (Z.eq_dec (c / 262144) 0) as [Q|Q].
  { rewrite Q. change (240 + 0) with 240. change (dstep Idle 240) with (Some (Pend 3 0 144 191, @nil Z)).
    assert (L : 144 <= 128 + (c / 4096) mod 64 <= 191) by zdm.
    assert (V : ((0 * 64 + (128 + (c / 4096) mod 64 - 128)) * 64 + (128 + (c / 64) mod 64 - 128)) * 64
                + (128 + c mod 64 - 128) = c) by zdm.
    cbv beta iota; rewrite decode_cons, cont_more by lia. cbv beta iota; rewrite decode_cons, cont_more by lia.
    cbv beta iota; rewrite decode_cons, cont_last by lia. cbv beta iota; rewrite V.
    destruct (decode_from Idle r); reflexivity. }
  destruct (Z.eq_dec (c / 262144) 4) as [Q2|Q2].
  { rewrite Q2. change (240 + 4) with 244. change (dstep Idle 244) with (Some (Pend 3 4 128 143, @nil Z)).
    assert (L : 128 <= 128 + (c / 4096) mod 64 <= 143) by zdm.
    assert (V : ((4 * 64 + (128 + (c / 4096) mod 64 - 128)) * 64 + (128 + (c / 64) mod 64 - 128)) * 64
                + (128 + c mod 64 - 128) = c) by zdm.
    cbv beta iota; rewrite decode_cons, cont_more by lia. cbv beta iota; rewrite decode_cons, cont_more by lia.
    cbv beta iota; rewrite decode_cons, cont_last by lia. cbv beta iota; rewrite V.
    destruct (decode_from Idle r); reflexivity. }
  rewrite lead4 by lia.
  assert (V : (((240 + c / 262144 - 240) * 64 + (128 + (c / 4096) mod 64 - 128)) * 64
               + (128 + (c / 64) mod 64 - 128)) * 64 + (128 + c mod 64 - 128) = c) by zdm.
  cbv beta iota; rewrite decode_cons, cont_more by lia. cbv beta iota; rewrite decode_cons, cont_more by lia.
  cbv beta iota; rewrite decode_cons, cont_last by lia. cbv beta iota; rewrite V.
  destruct (decode_from Idle r); reflexivity.
Qed.

Lemma decode_enc : forall s, forallb is_scalar s = true -> utf8_decode (utf8_enc s) = Some s.
Proof.
  unfold utf8_decode. induction s as [|c s IH]; intros H; simpl in *.
  - reflexivity.
  - apply andb_true_iff in H. destruct H as [Hc Hs].
    change (flat_map utf8_cp s) with (utf8_enc s).
    rewrite decode_cp by exact Hc. rewrite IH by exact Hs. reflexivity.
Qed.

Lemma decode_encode : forall s bs, utf8_encode s = Some bs -> utf8_decode bs = Some s.
Proof.
  unfold utf8_encode. intros s bs H. destruct (forallb is_scalar s) eqn:E; [|discriminate].
  inversion H; subst. apply decode_enc; auto.
Qed.

(** Lemmas about the SSE text parser: round trip through the specification's
    encoder.  The core is generic in the per-line classifier and the dispatch
    condition, so that the same proof serves the patched parser (Model/HttpSse.v,
    all encoding choices) and the pre-fix parser (History/C11_prefix.v, only the
    choices it understands). *)
From Coq Require Import Lia.
From Verif.Base Require Import Prelude HttpBase.
From Verif.Model Require Import HttpSse.
From Verif.Spec Require Import C11.
Open Scope Z_scope.

(* ------------------------------------------------------------------ *)
(** * Strings                                                          *)
(* ------------------------------------------------------------------ *)

Lemma line_safe_app : forall a b, line_safe (a ++ b) = line_safe a && line_safe b.
Proof. intros. unfold line_safe. apply forallb_app. Qed.

Lemma line_safe_no_lf : forall l, line_safe l = true -> forallb (fun c => negb (c =? 10)) l = true.
Proof.
  induction l as [|a l IH]; simpl; intros H; auto.
  apply andb_true_iff in H as [H1 H2]. apply andb_true_iff in H1 as [H1 _].
  rewrite H1. simpl. auto.
Qed.

Lemma line_safe_no_cr : forall l, line_safe l = true -> forallb (fun c => negb (c =? 13)) l = true.
Proof.
  induction l as [|a l IH]; simpl; intros H; auto.
  apply andb_true_iff in H as [H1 H2]. apply andb_true_iff in H1 as [_ H1].
  rewrite H1. simpl. auto.
Qed.

Lemma split_on_line : forall l rest,
  forallb (fun c => negb (c =? 10)) l = true ->
  split_on 10 (l ++ 10 :: rest) = l :: split_on 10 rest.
Proof.
  induction l as [|a l IH]; intros rest H.
  - reflexivity.
  - simpl in H. apply andb_true_iff in H as [Ha Hl].
    change ((a :: l) ++ 10 :: rest) with (a :: (l ++ 10 :: rest)).
    cbn [split_on]. rewrite (IH rest Hl).
    destruct (a =? 10); [discriminate | reflexivity].
Qed.

Lemma rstrip_cr_app_cr : forall l, rstrip_cr (l ++ [13]) = rstrip_cr l.
Proof.
  induction l as [|a l IH].
  - reflexivity.
  - change ((a :: l) ++ [13]) with (a :: (l ++ [13])). cbn [rstrip_cr]. rewrite IH. reflexivity.
Qed.

Lemma rstrip_cr_safe : forall l, forallb (fun c => negb (c =? 13)) l = true -> rstrip_cr l = l.
Proof.
  induction l as [|a l IH]; intros H.
  - reflexivity.
  - simpl in H. apply andb_true_iff in H as [Ha Hl].
    cbn [rstrip_cr]. rewrite (IH Hl). destruct l.
    + destruct (a =? 13); [discriminate | reflexivity].
    + reflexivity.
Qed.

Lemma rstrip_keeps : forall s,
  s <> [] -> is_py_space (last s 0) = false -> rstrip s = s.
Proof.
  induction s as [|a s IH]; intros Hne Hl.
  - congruence.
  - destruct s as [|b s'].
    + cbn [rstrip]. cbn [last] in Hl. rewrite Hl. reflexivity.
    + change (last (a :: b :: s') 0) with (last (b :: s') 0) in Hl.
      cbn [rstrip]. cbn [rstrip] in IH. rewrite IH; [reflexivity | discriminate | exact Hl].
Qed.

(* ------------------------------------------------------------------ *)
(** * Lines of an encoded body                                          *)
(* ------------------------------------------------------------------ *)

Lemma sse_lines_one : forall (crlf : bool) l rest,
  line_safe l = true ->
  sse_lines (l ++ (if crlf then [13;10] else [10]) ++ rest) = l :: sse_lines rest.
Proof.
  intros crlf l rest H. unfold sse_lines. destruct crlf.
  - change (l ++ [13;10] ++ rest) with (l ++ [13] ++ 10 :: rest).
    rewrite app_assoc. rewrite split_on_line.
    + cbn [map]. rewrite rstrip_cr_app_cr. rewrite rstrip_cr_safe by (apply line_safe_no_cr; exact H). reflexivity.
    + rewrite forallb_app. rewrite (line_safe_no_lf _ H). reflexivity.
  - change (l ++ [10] ++ rest) with (l ++ 10 :: rest).
    rewrite split_on_line by (apply line_safe_no_lf; exact H).
    cbn [map]. rewrite rstrip_cr_safe by (apply line_safe_no_cr; exact H). reflexivity.
Qed.

Lemma sse_lines_many : forall c ls rest,
  forallb line_safe ls = true ->
  sse_lines (flat_map (fun l => l ++ eol c) ls ++ rest) = ls ++ sse_lines rest.
Proof.
  intros c. induction ls as [|l ls IH]; intros rest H.
  - reflexivity.
  - simpl in H. apply andb_true_iff in H as [Hl Hls].
    cbn [flat_map]. rewrite <- !app_assoc. unfold eol at 1.
    rewrite sse_lines_one by exact Hl. rewrite IH by exact Hls. reflexivity.
Qed.

Lemma extra_line_safe : forall c x, extra_ok x = true -> line_safe (extra_line c x) = true.
Proof.
  intros c x H. unfold extra_line, sp, k_id, k_retry.
  destruct x; cbn [extra_ok] in H; unfold line_safe in *; destruct (ec_space c); cbn [app forallb]; rewrite H; reflexivity.
Qed.

Lemma msg_ok_safe : forall m, msg_ok m = true -> line_safe m = true.
Proof.
  intros m H. unfold msg_ok in H. destruct m; [discriminate|].
  apply andb_true_iff in H as [H _]. apply andb_true_iff in H as [_ H]. exact H.
Qed.

Lemma msg_ok_shape : forall m, msg_ok m = true -> exists t, m = 123 :: t.
Proof.
  intros m H. unfold msg_ok in H. destruct m as [|a t]; [discriminate|].
  apply andb_true_iff in H as [H _]. apply andb_true_iff in H as [H _].
  apply Z.eqb_eq in H. subst. eauto.
Qed.

Lemma msg_ok_last : forall m, msg_ok m = true -> last m 0 = 125.
Proof.
  intros m H. unfold msg_ok in H. destruct m; [discriminate|].
  apply andb_true_iff in H as [_ H]. apply Z.eqb_eq in H. exact H.
Qed.

Lemma forallb_map_safe : forall c xs,
  forallb extra_ok xs = true -> forallb line_safe (map (extra_line c) xs) = true.
Proof.
  induction xs as [|x xs IH]; simpl; intros H; auto.
  apply andb_true_iff in H as [H1 H2]. rewrite extra_line_safe by exact H1. simpl. auto.
Qed.

Lemma forallb_repeat_nil : forall n, forallb line_safe (repeat ([] : str) n) = true.
Proof. induction n; simpl; auto. Qed.

Lemma event_lines_safe : forall c m,
  event_ok (c, m) = true -> forallb line_safe (event_lines c m) = true.
Proof.
  intros c m H. unfold event_ok in H. cbn [fst snd] in H.
  apply andb_true_iff in H as [Hc Hm]. unfold choice_ok in Hc. apply andb_true_iff in Hc as [Hb Ha].
  pose proof (msg_ok_safe _ Hm) as Hs.
  assert (He : line_safe (event_line c) = true) by (unfold event_line, sp; destruct (ec_space c); reflexivity).
  assert (Hd : line_safe (data_line c m) = true).
  { unfold data_line, sp, k_data, line_safe in *. destruct (ec_space c); cbn [app forallb]; rewrite Hs; reflexivity. }
  unfold event_lines. rewrite !forallb_app.
  rewrite (forallb_map_safe c _ Hb), (forallb_map_safe c _ Ha).
  cbn [forallb]. rewrite Hd, forallb_repeat_nil.
  destruct (ec_event c); cbn [forallb]; rewrite ?He; reflexivity.
Qed.

Lemma sse_lines_encode : forall l,
  forallb event_ok l = true ->
  sse_lines (sse_encode l) = flat_map (fun cm => event_lines (fst cm) (snd cm)) l ++ [[]].
Proof.
  induction l as [|[c m] l IH]; intros H.
  - reflexivity.
  - simpl in H. apply andb_true_iff in H as [H1 H2].
    unfold sse_encode. cbn [flat_map fst snd]. fold (sse_encode l).
    unfold encode_event. rewrite sse_lines_many by (apply event_lines_safe; exact H1).
    rewrite IH by exact H2. rewrite app_assoc. reflexivity.
Qed.

(* ------------------------------------------------------------------ *)
(** * The loop on the lines of one encoded event (generic)              *)
(* ------------------------------------------------------------------ *)

Definition cur_of (c : enc_choice) : option str :=
  match ec_event c with EvAbsent => None | _ => Some v_message end.

Section Generic.
  Variable classify : str -> line_class.
  Variable dispatchable : option str -> list str -> bool.
  Variable payload : sse_event -> option str.
  Variable adm : enc_choice -> bool.          (* the encoding choices this parser is claimed to understand *)

  Hypothesis H_nodata : forall cur, dispatchable cur [] = false.
  Hypothesis H_extra : forall c x, adm c = true -> classify (extra_line c x) = LSkip.
  Hypothesis H_event : forall c, adm c = true -> ec_event c <> EvAbsent -> classify (event_line c) = LEvent v_message.
  Hypothesis H_data : forall c m, adm c = true -> msg_ok m = true -> classify (data_line c m) = LData m.
  Hypothesis H_disp : forall c m, adm c = true -> dispatchable (cur_of c) [m] = true.
  Hypothesis H_payload : forall c m, adm c = true -> msg_ok m = true -> payload (cur_of c, [m]) = Some m.

  Notation run := (sse_run classify dispatchable).

  Lemma extra_line_cons : forall c x, exists a t, extra_line c x = a :: t.
  Proof. intros c x. destruct x; cbn; eauto. Qed.

  Lemma run_skip : forall c xs cur data rest,
    adm c = true ->
    run cur data (map (extra_line c) xs ++ rest) = run cur data rest.
  Proof.
    intros c xs cur data rest Hc. induction xs as [|x xs IH].
    - reflexivity.
    - cbn [map app]. destruct (extra_line_cons c x) as (a & t & E).
      cbn [sse_run]. rewrite E. rewrite <- E. rewrite (H_extra c x Hc). exact IH.
  Qed.

  Lemma run_blanks : forall n rest,
    run None [] (repeat [] n ++ rest) = run None [] rest.
  Proof.
    induction n as [|n IH]; intros rest.
    - reflexivity.
    - cbn [repeat app sse_run]. unfold sse_flush. rewrite H_nodata. exact (IH rest).
  Qed.

  Lemma run_event_line : forall c cur data rest,
    adm c = true -> ec_event c <> EvAbsent ->
    run cur data (event_line c :: rest) = run (Some v_message) data rest.
  Proof.
    intros c cur data rest Hc Hne. pose proof (H_event c Hc Hne) as E.
    unfold event_line, k_event in *. cbn [app] in *. cbn [sse_run]. rewrite E. reflexivity.
  Qed.

  Lemma run_data_line : forall c m cur data rest,
    adm c = true -> msg_ok m = true ->
    run cur data (data_line c m :: rest) = run cur (data ++ [m]) rest.
  Proof.
    intros c m cur data rest Hc Hm. pose proof (H_data c m Hc Hm) as E.
    unfold data_line, k_data in *. cbn [app] in *. cbn [sse_run]. rewrite E. reflexivity.
  Qed.

  Lemma run_event : forall c m rest,
    adm c = true -> msg_ok m = true ->
    run None [] (event_lines c m ++ rest) = (cur_of c, [m]) :: run None [] rest.
  Proof.
    intros c m rest Hc Hm. unfold event_lines. rewrite <- !app_assoc.
    rewrite run_skip by exact Hc.
    pose proof (H_disp c m Hc) as Hd. unfold cur_of in *.
    destruct (ec_event c) eqn:Ev.
    - cbn [app]. rewrite (run_data_line c m) by assumption. cbn [app].
      rewrite run_skip by exact Hc.
      cbn [app sse_run]. unfold sse_flush. rewrite Hd. cbn [app]. rewrite run_blanks. reflexivity.
    - cbn [app]. rewrite (run_event_line c) by (try assumption; rewrite Ev; discriminate).
      rewrite (run_data_line c m) by assumption. cbn [app].
      rewrite run_skip by exact Hc.
      cbn [app sse_run]. unfold sse_flush. rewrite Hd. cbn [app]. rewrite run_blanks. reflexivity.
    - cbn [app]. rewrite (run_data_line c m) by assumption. cbn [app].
      rewrite (run_event_line c) by (try assumption; rewrite Ev; discriminate).
      rewrite run_skip by exact Hc.
      cbn [app sse_run]. unfold sse_flush. rewrite Hd. cbn [app]. rewrite run_blanks. reflexivity.
  Qed.

  Lemma run_all : forall l,
    forallb (fun cm => adm (fst cm) && msg_ok (snd cm)) l = true ->
    run None [] (flat_map (fun cm => event_lines (fst cm) (snd cm)) l ++ [[]])
    = map (fun cm => (cur_of (fst cm), [snd cm])) l.
  Proof.
    induction l as [|[c m] l IH]; intros H.
    - cbn [flat_map app map sse_run]. unfold sse_flush. rewrite H_nodata. reflexivity.
    - simpl in H. apply andb_true_iff in H as [H1 H2]. apply andb_true_iff in H1 as [Hc Hm].
      cbn [flat_map fst snd map]. rewrite <- app_assoc. rewrite run_event by assumption.
      rewrite IH by exact H2. reflexivity.
  Qed.

  Lemma payloads_all : forall l,
    forallb (fun cm => adm (fst cm) && msg_ok (snd cm)) l = true ->
    flat_map (fun e => opt_list (payload e)) (map (fun cm => (cur_of (fst cm), [snd cm])) l) = map snd l.
  Proof.
    induction l as [|[c m] l IH]; intros H.
    - reflexivity.
    - simpl in H. apply andb_true_iff in H as [H1 H2]. apply andb_true_iff in H1 as [Hc Hm].
      cbn [map flat_map fst snd]. rewrite (H_payload c m Hc Hm). cbn [opt_list app]. rewrite IH by exact H2. reflexivity.
  Qed.

  (** Round trip for any parser built on the loop skeleton that understands the choices [adm]. *)
  Theorem generic_roundtrip : forall l,
    forallb event_ok l = true ->
    forallb (fun cm => adm (fst cm)) l = true ->
    flat_map (fun e => opt_list (payload e)) (run None [] (sse_lines (sse_encode l))) = map snd l.
  Proof.
    intros l Hok Hadm.
    assert (H : forallb (fun cm => adm (fst cm) && msg_ok (snd cm)) l = true).
    { clear -Hok Hadm. induction l as [|cm l IH]; simpl in *; auto.
      apply andb_true_iff in Hok as [H1 H2]. apply andb_true_iff in Hadm as [H3 H4].
      unfold event_ok in H1. apply andb_true_iff in H1 as [_ H1]. rewrite H3, H1. simpl. auto. }
    rewrite sse_lines_encode by exact Hok. rewrite run_all by exact H. apply payloads_all. exact H.
  Qed.
End Generic.

(* ------------------------------------------------------------------ *)
(** * The patched parser understands every choice                       *)
(* ------------------------------------------------------------------ *)

Lemma classify_extra : forall c x, classify_line (extra_line c x) = LSkip.
Proof. intros c x. unfold extra_line, sp. destruct x; destruct (ec_space c); reflexivity. Qed.

Lemma classify_event : forall c, classify_line (event_line c) = LEvent v_message.
Proof. intros c. unfold event_line, sp. destruct (ec_space c); reflexivity. Qed.

Lemma classify_data : forall c m, msg_ok m = true -> classify_line (data_line c m) = LData m.
Proof.
  intros c m Hm. destruct (msg_ok_shape _ Hm) as [t ->].
  unfold data_line, sp. destruct (ec_space c); reflexivity.
Qed.

Lemma py_strip_msg : forall m, msg_ok m = true -> py_strip m = m.
Proof.
  intros m Hm. pose proof (msg_ok_last _ Hm) as Hl. destruct (msg_ok_shape _ Hm) as [t ->].
  unfold py_strip. cbn [lstrip]. change (is_py_space 123) with false. cbv iota.
  apply rstrip_keeps; [discriminate | rewrite Hl; reflexivity].
Qed.

Lemma payload_of_event : forall c m, msg_ok m = true -> event_payload (cur_of c, [m]) = Some m.
Proof.
  intros c m Hm. unfold event_payload, cur_of.
  assert (Et : type_accepted (event_type (match ec_event c with EvAbsent => None | _ => Some v_message end)) = true)
    by (destruct (ec_event c); reflexivity).
  rewrite Et. unfold join_lf. cbn [flat_map]. rewrite app_nil_r. rewrite (py_strip_msg _ Hm).
  destruct (msg_ok_shape _ Hm) as [t ->]. reflexivity.
Qed.

Theorem sse_roundtrip : forall l,
  forallb event_ok l = true -> sse_messages (sse_encode l) = map snd l.
Proof.
  intros l H. unfold sse_messages, sse_events.
  apply (generic_roundtrip classify_line dispatchable_data event_payload (fun _ => true)); auto.
  - intros. apply classify_extra.
  - intros. apply classify_event.
  - intros. apply classify_data. assumption.
  - intros. apply payload_of_event. assumption.
  - clear. induction l; simpl; auto.
Qed.

(** The events themselves: one per message, nothing else. *)
Theorem sse_events_encode : forall l,
  forallb event_ok l = true ->
  sse_events (sse_encode l) = map (fun cm => (cur_of (fst cm), [snd cm])) l.
Proof.
  intros l H. unfold sse_events. rewrite sse_lines_encode by exact H.
  apply (run_all classify_line dispatchable_data (fun _ => true)); auto.
  - intros. apply classify_extra.
  - intros. apply classify_event.
  - intros. apply classify_data. assumption.
  - clear -H. induction l as [|cm l IH]; simpl in *; auto.
    apply andb_true_iff in H as [H1 H2]. unfold event_ok in H1. apply andb_true_iff in H1 as [_ H1].
    rewrite H1. auto.
Qed.

(* ------------------------------------------------------------------ *)
(** * Events without data between the messages                          *)
(* ------------------------------------------------------------------ *)
Lemma noise_lines_safe : forall c n, noise_ok n = true -> forallb line_safe (noise_lines c n) = true.
Proof.
  intros c n H. destruct n as [name|s]; cbn [noise_lines noise_ok forallb] in *.
  - unfold sp, k_event, line_safe in *. destruct (ec_space c); cbn [app forallb]; rewrite H; reflexivity.
  - unfold line_safe in *. cbn [forallb]. rewrite H. reflexivity.
Qed.

Lemma classify_typed_noise : forall c name,
  exists v, classify_line (k_event ++ sp c ++ name) = LEvent v.
Proof.
  intros c name. unfold classify_line, parse_sse_line, k_event, sp.
  destruct (ec_space c); cbn [app starts_with]; cbn; eauto.
Qed.

Lemma run_noise : forall c n rest,
  sse_run classify_line dispatchable_data None [] (noise_lines c n ++ rest)
  = sse_run classify_line dispatchable_data None [] rest.
Proof.
  intros c n rest. destruct n as [name|s]; cbn [noise_lines app].
  - destruct (classify_typed_noise c name) as [v E].
    assert (Hne : exists a t, k_event ++ sp c ++ name = a :: t) by (unfold k_event; cbn; eauto).
    destruct Hne as (a & t & Ea). cbn [sse_run]. rewrite Ea. rewrite <- Ea. rewrite E.
    cbn [sse_run]. unfold sse_flush, dispatchable_data. reflexivity.
  - cbn [sse_run]. change (classify_line (58 :: s)) with LSkip.
    cbn [sse_run]. unfold sse_flush, dispatchable_data. reflexivity.
Qed.

Lemma run_noises : forall c ns rest,
  sse_run classify_line dispatchable_data None [] (flat_map (noise_lines c) ns ++ rest)
  = sse_run classify_line dispatchable_data None [] rest.
Proof.
  intros c ns rest. induction ns as [|n ns IH]; [reflexivity|].
  cbn [flat_map]. rewrite <- app_assoc. rewrite run_noise. exact IH.
Qed.

Lemma noisy_lines_safe : forall ns c m,
  forallb noise_ok ns = true -> event_ok (c, m) = true ->
  forallb line_safe (flat_map (noise_lines c) ns ++ event_lines c m) = true.
Proof.
  intros ns c m Hn He. rewrite forallb_app. rewrite (event_lines_safe c m He), andb_true_r.
  induction ns as [|n ns IH]; [reflexivity|].
  cbn [flat_map forallb] in *. apply andb_true_iff in Hn as [H1 H2].
  rewrite forallb_app, (noise_lines_safe c n H1). cbn [andb]. auto.
Qed.

Lemma sse_lines_encode_noisy : forall l,
  forallb noisy_event_ok l = true ->
  sse_lines (sse_encode_noisy l)
  = flat_map (fun x => flat_map (noise_lines (fst (snd x))) (fst x) ++ event_lines (fst (snd x)) (snd (snd x))) l ++ [[]].
Proof.
  induction l as [|[ns [c m]] l IH]; intros H.
  - reflexivity.
  - simpl in H. apply andb_true_iff in H as [H1 H2]. unfold noisy_event_ok in H1. cbn [fst snd] in H1.
    apply andb_true_iff in H1 as [Hn He].
    unfold sse_encode_noisy. cbn [flat_map fst snd]. fold (sse_encode_noisy l).
    unfold encode_noisy_event. rewrite sse_lines_many by (apply noisy_lines_safe; assumption).
    rewrite IH by exact H2. rewrite <- !app_assoc. reflexivity.
Qed.

(** Data-less events change nothing: the parser hands json.loads exactly the messages, in order - whatever typed
    keep-alives and comment-only blocks sit between them, and whatever event type those name. *)
Theorem sse_roundtrip_noisy : forall l,
  forallb noisy_event_ok l = true -> sse_messages (sse_encode_noisy l) = map (fun x => snd (snd x)) l.
Proof.
  intros l H. unfold sse_messages, sse_events. rewrite sse_lines_encode_noisy by exact H.
  induction l as [|[ns [c m]] l IH].
  - reflexivity.
  - simpl in H. apply andb_true_iff in H as [H1 H2]. unfold noisy_event_ok in H1. cbn [fst snd] in H1.
    apply andb_true_iff in H1 as [Hn He].
    cbn [flat_map fst snd map]. rewrite <- !app_assoc. rewrite run_noises.
    assert (Hm : msg_ok m = true) by (unfold event_ok in He; cbn [fst snd] in He; apply andb_true_iff in He as [_ He]; exact He).
    rewrite (run_event classify_line dispatchable_data (fun _ => true)); auto.
    + cbn [flat_map]. rewrite (payload_of_event c m Hm). cbn [opt_list app]. f_equal. apply IH. exact H2.
    + intros. apply classify_extra.
    + intros. apply classify_event.
    + intros. apply classify_data. assumption.
Qed.

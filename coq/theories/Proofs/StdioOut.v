(** Lemmas about Model/StdioOut.v (C06). *)
From Coq Require Import Lia ZifyBool.
From Verif.Base Require Import Prelude StdioUtf8.
From Verif.Model Require Import StdioOut Lines.
From Verif.Spec Require Import C05 C06.
From Verif.Proofs Require Import StdioUtf8 Lines.
Open Scope Z_scope.

Lemma memZ_iff : forall x l, mem_Z x l = true <-> In x l.
Proof.
  induction l as [|y l IH]; simpl; [split; [discriminate | intros []]|].
  rewrite orb_true_iff, IH, Z.eqb_eq. split; intros [H | H]; auto.
Qed.

Lemma has_break_false : forall t, has_break t = false <-> ~ In 10 t /\ ~ In 13 t.
Proof.
  intros. unfold has_break. rewrite orb_false_iff. split.
  - intros [A B]. split; intro H; apply memZ_iff in H; congruence.
  - intros [A B]. split; apply not_true_is_false; intro H; apply memZ_iff in H; contradiction.
Qed.

Lemma utf8_encode_app_lf : forall t,
  utf8_encode (t ++ [10]) = match utf8_encode t with Some b => Some (b ++ [10]) | None => None end.
Proof.
  intros. unfold utf8_encode. rewrite forallb_app. simpl. rewrite andb_true_r.
  destruct (forallb is_scalar t); [|reflexivity]. rewrite utf8_enc_app. reflexivity.
Qed.

Lemma utf8_encode_no_break : forall t b,
  utf8_encode t = Some b -> has_break t = false -> no_break b.
Proof.
  intros t b H Hb. apply has_break_false in Hb. destruct Hb as [A B].
  split; intro Hin; [apply A | apply B]; eapply utf8_encode_ascii; eauto; lia.
Qed.

Lemma frame_split_lines : forall s, frame s = split_lines s.
Proof.
  induction s as [|c s IH]; [reflexivity|]. cbn [frame split_lines]. rewrite IH. reflexivity.
Qed.

Lemma framed_terminated : forall ls, framed ls = terminated ls.
Proof. reflexivity. Qed.

Lemma in_framed : forall x ls, In x (framed ls) -> x = 10 \/ exists l, In l ls /\ In x l.
Proof.
  induction ls as [|l ls IH]; simpl; [intros []|].
  intros H. apply in_app_or in H. destruct H as [H | H].
  - apply in_app_or in H. destruct H as [H | [H | []]]; [right; exists l; auto | left; auto].
  - destruct (IH H) as [E | (l' & A & B)]; [left; auto | right; exists l'; auto].
Qed.

Lemma in_framed_intro : forall x l ls, In l ls -> In x l -> In x (framed ls).
Proof.
  induction ls as [|l' ls IH]; simpl; [intros []|].
  intros [-> | H] Hx; apply in_or_app; [left; apply in_or_app; left; assumption | right; auto].
Qed.

(** The oracle is the specification. *)
Lemma stream_lines_spec : forall out ls, stream_lines out = Some ls <-> Spec_stream ls out.
Proof.
  intros out ls. unfold stream_lines, Spec_stream. rewrite frame_split_lines. split.
  - pose proof (split_lines_spec out) as (E & L & R).
    destruct (split_lines out) as [ls' r]. simpl in *.
    destruct r; [|discriminate]. destruct (mem_Z 13 out) eqn:M; [discriminate|].
    intros H. inversion H; subst ls'. rewrite app_nil_r in E. split; [exact E|].
    apply Forall_forall. intros l Hl. rewrite Forall_forall in L. split; [exact (L l Hl)|].
    intros H13. assert (In 13 out) as X by (rewrite E; eapply in_framed_intro; eauto).
    apply memZ_iff in X. congruence.
  - intros [E F].
    assert (S : Spec_lines out ls []).
    { split; [rewrite app_nil_r; exact E|]. split; [|intros []].
      apply Forall_forall. intros l Hl. rewrite Forall_forall in F. exact (proj1 (F l Hl)). }
    apply spec_lines_split in S. rewrite S.
    destruct (mem_Z 13 out) eqn:M; [|reflexivity].
    exfalso. apply memZ_iff in M. rewrite E in M. apply in_framed in M.
    destruct M as [M | (l & A & B)]; [lia|]. rewrite Forall_forall in F. exact (proj2 (F l A) B).
Qed.

Lemma stream_ok_spec : forall n out,
  stream_ok n out = true <-> exists ls, Spec_stream ls out /\ Z.of_nat (length ls) = n.
Proof.
  intros. unfold stream_ok. split.
  - destruct (stream_lines out) as [ls|] eqn:E; [|discriminate].
    intros H. exists ls. split; [apply stream_lines_spec; exact E | lia].
  - intros (ls & S & L). apply stream_lines_spec in S. rewrite S. lia.
Qed.

Section WriterFacts.
  Variables model value : Type.
  Variable dump_json : model -> option str.
  Variable model_dump : model -> option value.
  Variable dumps : value -> option str.
  Variable loads : str -> option value.

  Notation text_of := (text_of model value dump_json model_dump dumps loads).
  Notation write_of := (write_of model value dump_json model_dump dumps loads).
  Notation body_of := (body_of model value dump_json model_dump dumps loads).
  Notation writes := (writes model value dump_json model_dump dumps loads).
  Notation bodies := (bodies model value dump_json model_dump dumps loads).
  Notation run_out := (run_out model value dump_json model_dump dumps loads).

  (** structure: every write is the body plus one LF; one per serialisable message, in order *)
  Lemma write_is_body_lf : forall p m,
    write_of p m = match body_of p m with Some b => Some (b ++ [10]) | None => None end.
  Proof.
    intros. unfold write_of, body_of. destruct (text_of p m); [|reflexivity]. apply utf8_encode_app_lf.
  Qed.

  Lemma writes_are_bodies : forall p msgs, writes p msgs = map (fun b => b ++ [10]) (bodies p msgs).
  Proof.
    induction msgs as [|m ms IH]; [reflexivity|].
    unfold writes, bodies in *. simpl. rewrite IH, write_is_body_lf.
    destruct (body_of p m); reflexivity.
  Qed.

  Lemma stream_is_framed_bodies : forall p msgs, concat (writes p msgs) = framed (bodies p msgs).
  Proof.
    intros. rewrite writes_are_bodies. unfold framed. rewrite flat_map_concat_map. reflexivity.
  Qed.

  Lemma writes_app : forall p a b, writes p (a ++ b) = writes p a ++ writes p b.
  Proof. intros. unfold writes. apply flat_map_app. Qed.

  Lemma unserialisable_dropped_alone : forall p a m b,
    write_of p m = None -> writes p (a ++ m :: b) = writes p (a ++ b).
  Proof.
    intros * H. rewrite !writes_app. f_equal. unfold writes. simpl. rewrite H. reflexivity.
  Qed.

  Lemma serialisable_written_once : forall p a m b w,
    write_of p m = Some w -> writes p (a ++ m :: b) = writes p a ++ w :: writes p b.
  Proof.
    intros * H. rewrite writes_app. f_equal. unfold writes. simpl. rewrite H. reflexivity.
  Qed.

  (** ---- line breaks ------------------------------------------------------ *)
  Hypothesis dumps_single_line : forall v t, dumps v = Some t -> has_break t = false.
  Hypothesis dump_json_single_line : forall e t, dump_json e = Some t -> has_break t = false.

  Definition is_raw (m : outmsg model value) : bool := match m with Raw _ => true | _ => false end.

  Lemma structured_text_single_line : forall p m t,
    is_raw m = false -> text_of p m = Some t -> has_break t = false.
  Proof.
    intros p m t R H. destruct m; simpl in *; try discriminate.
    - eapply dump_json_single_line; eauto.
    - destruct (model_dump m); [eapply dumps_single_line; eauto | discriminate].
    - eapply dumps_single_line; eauto.
    - eapply dumps_single_line; eauto.
  Qed.

  Lemma recompact_text_single_line : forall m t,
    text_of Recompact m = Some t -> has_break t = false.
  Proof.
    intros m t H. destruct (is_raw m) eqn:R; [|eapply structured_text_single_line; eauto].
    destruct m; try discriminate. simpl in H.
    destruct (has_break t0) eqn:B.
    - unfold recompact in H. destruct (loads t0); [eapply dumps_single_line; eauto | discriminate].
    - inversion H; subst. exact B.
  Qed.

  Lemma one_line_of_text : forall p m t w,
    text_of p m = Some t -> has_break t = false -> write_of p m = Some w -> Spec_one_line w.
  Proof.
    intros * T B W. rewrite write_is_body_lf in W. unfold body_of in W. rewrite T in W.
    destruct (utf8_encode t) as [b|] eqn:E; [|discriminate]. inversion W; subst.
    exists b. split; [reflexivity|]. eapply utf8_encode_no_break; eauto.
  Qed.

  Lemma structured_write_one_line : forall p m w,
    is_raw m = false -> write_of p m = Some w -> Spec_one_line w.
  Proof.
    intros * R W. destruct (text_of p m) as [t|] eqn:T.
    - eapply one_line_of_text; eauto. eapply structured_text_single_line; eauto.
    - unfold write_of in W. rewrite T in W. discriminate.
  Qed.

  Lemma recompact_write_one_line : forall m w,
    write_of Recompact m = Some w -> Spec_one_line w.
  Proof.
    intros * W. destruct (text_of Recompact m) as [t|] eqn:T.
    - eapply one_line_of_text; eauto. eapply recompact_text_single_line; eauto.
    - unfold write_of in W. rewrite T in W. discriminate.
  Qed.

  Lemma verbatim_raw_partial : forall t w,
    has_break t = false -> write_of Verbatim (Raw t) = Some w -> Spec_one_line w.
  Proof. intros * B W. eapply one_line_of_text; eauto. reflexivity. Qed.

  Lemma body_no_break : forall p m b,
    (forall t, text_of p m = Some t -> has_break t = false) ->
    body_of p m = Some b -> no_break b.
  Proof.
    intros * H B. unfold body_of in B. destruct (text_of p m) as [t|]; [|discriminate].
    eapply utf8_encode_no_break; eauto.
  Qed.

  Lemma recompact_bodies_no_break : forall msgs, Forall no_break (bodies Recompact msgs).
  Proof.
    induction msgs as [|m ms IH]; [constructor|].
    unfold bodies in *. simpl. destruct (body_of Recompact m) as [b|] eqn:B; simpl; [|exact IH].
    constructor; [|exact IH]. eapply body_no_break; eauto.
    intros. eapply recompact_text_single_line; eauto.
  Qed.

  (** full statement for the patched writer *)
  Lemma recompact_stream : forall msgs,
    Spec_stream (bodies Recompact msgs) (concat (writes Recompact msgs)).
  Proof. intros. split; [apply stream_is_framed_bodies | apply recompact_bodies_no_break]. Qed.

  (** the same for the code at HEAD as long as no pre-serialised string
      carries a line break *)
  Lemma verbatim_stream_partial : forall msgs,
    Forall (fun m => match m with Raw t => has_break t = false | _ => True end) msgs ->
    Spec_stream (bodies Verbatim msgs) (concat (writes Verbatim msgs)).
  Proof.
    intros msgs H. split; [apply stream_is_framed_bodies|].
    induction msgs as [|m ms IH]; [constructor|]. inversion H; subst.
    unfold bodies in *. simpl. destruct (body_of Verbatim m) as [b|] eqn:B; simpl; [|auto].
    constructor; [|auto]. eapply body_no_break; eauto.
    intros t T. destruct (is_raw m) eqn:R; [|eapply structured_text_single_line; eauto].
    destruct m; try discriminate. simpl in T. inversion T; subst. assumption.
  Qed.

  (** ---- content ----------------------------------------------------------- *)
  Lemma body_decodes_to_text : forall p m b,
    body_of p m = Some b -> exists t, text_of p m = Some t /\ utf8_decode b = Some t.
  Proof.
    intros * B. unfold body_of in B. destruct (text_of p m) as [t|]; [|discriminate].
    exists t. split; [reflexivity|]. eapply decode_encode; eauto.
  Qed.

  Hypothesis loads_dumps : forall v t, dumps v = Some t -> loads t = Some v.
  Hypothesis loads_dump_json : forall e t, dump_json e = Some t -> loads t = model_dump e.

  (** the value a message denotes *)
  Definition denotes (m : outmsg model value) : option value :=
    match m with
    | Typed e | DumpOnly e => model_dump e
    | Dict v | Other v => Some v
    | Raw t => loads t
    end.

  Lemma decoded_equals_message : forall m b,
    body_of Recompact m = Some b ->
    exists t, utf8_decode b = Some t /\ loads t = denotes m.
  Proof.
    intros m b B. destruct (body_decodes_to_text _ _ _ B) as (t & T & D).
    exists t. split; [exact D|]. destruct m; simpl in *.
    - apply loads_dump_json; assumption.
    - destruct (model_dump m); [apply loads_dumps; assumption | discriminate].
    - apply loads_dumps; assumption.
    - apply loads_dumps; assumption.
    - destruct (has_break t0).
      + unfold recompact in T. destruct (loads t0) as [v|]; [|discriminate].
        apply loads_dumps; assumption.
      + inversion T; subst. reflexivity.
  Qed.

  (** ---- closing ------------------------------------------------------------ *)
  Lemma closed_iff_close : forall p evs,
    snd (run_out p evs) = true <-> In (Close model value) evs.
  Proof.
    intros p evs. unfold run_out.
    induction evs as [|e evs IH]; simpl; [split; [discriminate | intros []]|].
    destruct e as [m|]; simpl.
    - destruct (sent_before_close model value evs) as [ms c]. simpl in *.
      rewrite IH. split; [auto | intros [H | H]; [discriminate | exact H]].
    - split; auto.
  Qed.

  Lemma close_after_sends : forall p ms rest,
    run_out p (map (Send model value) ms ++ Close model value :: rest) = (writes p ms, true).
  Proof.
    intros. unfold run_out.
    assert (E : sent_before_close model value (map (Send model value) ms ++ Close model value :: rest) = (ms, true)).
    { induction ms as [|m ms IH]; [reflexivity|]. simpl. rewrite IH. reflexivity. }
    rewrite E. reflexivity.
  Qed.

  Lemma open_while_sending : forall p ms,
    run_out p (map (Send model value) ms) = (writes p ms, false).
  Proof.
    intros. unfold run_out.
    assert (E : sent_before_close model value (map (Send model value) ms) = (ms, false)).
    { induction ms as [|m ms IH]; [reflexivity|]. simpl. rewrite IH. reflexivity. }
    rewrite E. reflexivity.
  Qed.
End WriterFacts.

(** ---- the statement at full strength, per raw-string policy -------------- *)

Definition every_write_one_line (p : raw_policy) : Prop :=
  forall (model value : Type) (dump_json : model -> option str) (model_dump : model -> option value)
         (dumps : value -> option str) (loads : str -> option value),
    (forall v t, dumps v = Some t -> has_break t = false) ->
    (forall e t, dump_json e = Some t -> has_break t = false) ->
    forall m w, write_of model value dump_json model_dump dumps loads p m = Some w -> Spec_one_line w.

Lemma every_write_one_line_recompact : every_write_one_line Recompact.
Proof.
  intros model value dj md ds ls H1 H2 m w W.
  exact (recompact_write_one_line model value dj md ds ls H1 H2 m w W).
Qed.

Lemma every_write_one_line_verbatim_refuted : ~ every_write_one_line Verbatim.
Proof.
  intros H.
  specialize (H unit unit (fun _ => None) (fun _ => None) (fun _ => None) (fun _ => None)).
  assert (S : Spec_one_line [123; 10; 125; 10]).
  { apply (H ltac:(discriminate) ltac:(discriminate) (Raw [123; 10; 125])). reflexivity. }
  destruct S as (body & E & (N & _)).
  change [123; 10; 125; 10] with ([123; 10; 125] ++ [10]) in E.
  apply app_inj_tail in E. destruct E as [<- _]. apply N. simpl. auto.
Qed.

(** ---- a toy instance for the non-vacuity example -------------------------- *)
Definition toy_dumps (v : str) : option str := Some (filter (fun c => negb (is_break c)) v).

Lemma toy_dumps_single_line : forall v t, toy_dumps v = Some t -> has_break t = false.
Proof.
  unfold toy_dumps. intros v t H. inversion H; subst. apply has_break_false.
  split; intro X; apply filter_In in X; destruct X as [_ X]; discriminate X.
Qed.

(** Lemmas for C02: reflection of the specification checkers, and the facts
    about the envelope model (Model/Envelope.v) the property theorems are
    closed by. *)
From Coq Require Import Lia.
From Verif.Base Require Import Prelude Json Envelope.
From Verif.Spec Require Import C02.
From Verif.Model Require Import Envelope.
From Verif.Proofs Require Import JsonFacts.
Open Scope Z_scope.

(** * Decidable equalities *)

Lemma rid_eqb_eq : forall a b, rid_eqb a b = true <-> a = b.
Proof.
  intros [x|x] [y|y]; simpl; split; intro H; try discriminate.
  - apply Z.eqb_eq in H. congruence.
  - inversion H. apply Z.eqb_refl.
  - apply str_eqb_eq in H. congruence.
  - inversion H. apply str_eqb_refl.
Qed.

Lemma kind_eqb_eq : forall a b, kind_eqb a b = true <-> a = b.
Proof. intros [] []; simpl; split; intro H; congruence. Qed.

Lemma option_eqb_eq : forall (A : Type) (eqb : A -> A -> bool),
  (forall a b, eqb a b = true <-> a = b) ->
  forall a b, option_eqb eqb a b = true <-> a = b.
Proof.
  intros A eqb H [x|] [y|]; simpl; split; intro E; try discriminate; try reflexivity.
  - apply H in E. congruence.
  - inversion E. apply H. reflexivity.
Qed.

Lemma view_eqb_eq : forall a b, view_eqb a b = true <-> a = b.
Proof.
  intros [k1 i1 m1 p1 r1 e1] [k2 i2 m2 p2 r2 e2]. unfold view_eqb. simpl. split; intro H.
  - repeat (apply andb_true_iff in H; destruct H as [H ?]).
    apply kind_eqb_eq in H.
    apply (option_eqb_eq _ _ rid_eqb_eq) in H4.
    apply (option_eqb_eq _ _ str_eqb_eq) in H3.
    apply json_eqb_eq in H2. apply json_eqb_eq in H1. apply json_eqb_eq in H0.
    congruence.
  - inversion H; subst.
    repeat (apply andb_true_iff; split);
      try (apply kind_eqb_eq; reflexivity);
      try (apply (option_eqb_eq _ _ rid_eqb_eq); reflexivity);
      try (apply (option_eqb_eq _ _ str_eqb_eq); reflexivity);
      apply json_eqb_eq; reflexivity.
Qed.

(** * Small facts about [assoc] / [field] / [has_key] *)

Lemma has_key_false : forall (k : str) (m : list (str * json)), has_key k m = false -> assoc k m = None.
Proof. intros k m. unfold has_key. destruct (assoc k m); [discriminate|reflexivity]. Qed.

Lemma has_key_true : forall (k : str) (m : list (str * json)), has_key k m = true -> exists v, assoc k m = Some v.
Proof. intros k m. unfold has_key. destruct (assoc k m); [eauto|discriminate]. Qed.

Lemma has_key_assoc : forall (k : str) (m : list (str * json)) v, assoc k m = Some v -> has_key k m = true.
Proof. intros k m v H. unfold has_key. rewrite H. reflexivity. Qed.

Lemma has_key_none : forall (k : str) (m : list (str * json)), assoc k m = None -> has_key k m = false.
Proof. intros k m H. unfold has_key. rewrite H. reflexivity. Qed.

Lemma field_version : forall m, json_eqb (field k_jsonrpc m) (JStr v2) = true -> assoc k_jsonrpc m = Some (JStr v2).
Proof.
  intros m H. apply json_eqb_eq in H. unfold field in H.
  destruct (assoc k_jsonrpc m); [congruence|discriminate].
Qed.

Lemma is_rid_inv : forall j, is_rid j = true -> exists r, j = json_of_rid r /\ rid_of_json j = Some r.
Proof.
  intros j H. unfold is_rid in H. destruct j; simpl in H; try discriminate.
  - exists (IdInt z). split; reflexivity.
  - exists (IdStr s). split; reflexivity.
Qed.

Lemma rid_of_json_of_rid : forall r, rid_of_json (json_of_rid r) = Some r.
Proof. intros []; reflexivity. Qed.

Lemma is_rid_of_rid : forall r, is_rid (json_of_rid r) = true.
Proof. intros []; reflexivity. Qed.

Lemma json_of_rid_not_null : forall r, is_null (json_of_rid r) = false.
Proof. intros []; reflexivity. Qed.

(** * The recursive serialiser keeps every payload, nested nulls included *)

Lemma serialize_value_id : forall j, serialize_value j = j.
Proof.
  induction j using json_ind'; simpl; try reflexivity.
  - f_equal. induction H as [|x l Hx Hl IH]; simpl; [reflexivity|]. rewrite Hx, IH. reflexivity.
  - f_equal. induction H as [|[k x] m Hx Hm IH]; simpl; [reflexivity|]. simpl in Hx. rewrite Hx, IH. reflexivity.
Qed.

Lemma serialize_members_id : forall m : obj,
  map (fun kv : str * json => match kv with (k, v) => (k, serialize_value v) end) m = m.
Proof.
  induction m as [|[k v] m IH]; simpl; [reflexivity|]. rewrite serialize_value_id, IH. reflexivity.
Qed.

Lemma dump_is_filter : forall e,
  dump_exclude_none e = JObj (filter (fun kv => negb (is_null (snd kv))) (attributes e)).
Proof. intro e. unfold dump_exclude_none. rewrite serialize_members_id. reflexivity. Qed.

(** * Reflection: the grammar checker decides the declarative grammar *)

Lemma error_ok_inv : forall e, error_ok e = true ->
  exists em code msg, e = JObj em /\ assoc k_code em = Some (JInt code) /\ assoc k_message em = Some (JStr msg).
Proof.
  intros e H. destruct e; simpl in H; try discriminate.
  destruct (assoc k_code m) as [[]|] eqn:Hc; try discriminate.
  destruct (assoc k_message m) as [[]|] eqn:Hm; try discriminate.
  eauto 6.
Qed.

Lemma params_ok_of_check : forall m,
  has_key k_params m && negb (is_obj (field k_params m)) = false -> params_ok m.
Proof.
  intros m H. unfold params_ok, has_key, field in *.
  destruct (assoc k_params m) as [p|]; [|left; reflexivity].
  right. destruct p; simpl in H; try discriminate. eauto.
Qed.

Lemma params_check_of_ok : forall m,
  params_ok m -> has_key k_params m && negb (is_obj (field k_params m)) = false.
Proof.
  intros m [H|[p H]]; unfold has_key, field; rewrite H; reflexivity.
Qed.

Lemma classify_sound : forall j k, classify j = inr k -> Spec_valid j k.
Proof.
  intros j k H. destruct j as [| | | | | |m]; simpl in H; try discriminate.
  destruct (json_eqb (field k_jsonrpc m) (JStr v2)) eqn:Hv; simpl in H; [|discriminate].
  apply field_version in Hv.
  destruct (assoc k_method m) as [meth|] eqn:Hm.
  - destruct meth; try discriminate.
    destruct (has_key k_result m || has_key k_error m) eqn:Hre; [discriminate|].
    apply orb_false_iff in Hre. destruct Hre as [Hr He].
    apply has_key_false in Hr. apply has_key_false in He.
    destruct (has_key k_params m && negb (is_obj (field k_params m))) eqn:Hp; [discriminate|].
    apply params_ok_of_check in Hp.
    destruct (assoc k_id m) as [i|] eqn:Hi.
    + destruct (is_rid i) eqn:Hrid; inversion H; subst.
      apply is_rid_inv in Hrid. destruct Hrid as [r [-> _]].
      eapply SV_request; eauto.
    + inversion H; subst. eapply SV_notification; eauto.
  - destruct (has_key k_params m) eqn:Hp; [discriminate|]. apply has_key_false in Hp.
    destruct (assoc k_result m) as [r|] eqn:Hr; destruct (assoc k_error m) as [e|] eqn:He; try discriminate.
    + destruct (assoc k_id m) as [i|] eqn:Hi; [|discriminate].
      destruct (is_rid i) eqn:Hrid; inversion H; subst.
      apply is_rid_inv in Hrid. destruct Hrid as [r' [-> _]].
      eapply SV_result; eauto.
    + destruct (assoc k_id m) as [i|] eqn:Hi; [|discriminate].
      destruct (is_rid i || is_null i) eqn:Hrid; [|discriminate].
      destruct (error_ok e) eqn:Hok; inversion H; subst.
      apply error_ok_inv in Hok. destruct Hok as [em [code [msg [-> [Hc Hmsg]]]]].
      eapply SV_error with (i := i); eauto.
      apply orb_true_iff in Hrid. destruct Hrid as [Hrid|Hn].
      * right. apply is_rid_inv in Hrid. destruct Hrid as [r' [-> _]]. eauto.
      * left. destruct i; try discriminate. reflexivity.
Qed.

Lemma version_check : forall m, assoc k_jsonrpc m = Some (JStr v2) ->
  json_eqb (field k_jsonrpc m) (JStr v2) = true.
Proof. intros m H. unfold field. rewrite H. apply json_eqb_eq. reflexivity. Qed.

Lemma classify_complete : forall j k, Spec_valid j k -> classify j = inr k.
Proof.
  intros j k H. destruct H; unfold version_ok in *; unfold classify; rewrite (version_check _ H); simpl negb; cbv iota.
  - rewrite H0. rewrite (has_key_none _ _ H3), (has_key_none _ _ H4). simpl.
    rewrite (params_check_of_ok _ H2). rewrite H1. rewrite is_rid_of_rid. reflexivity.
  - rewrite H0. rewrite (has_key_none _ _ H3), (has_key_none _ _ H4). simpl.
    rewrite (params_check_of_ok _ H2). rewrite H1. reflexivity.
  - rewrite H0. rewrite (has_key_none _ _ H1). rewrite H3, H4, H2. rewrite is_rid_of_rid. reflexivity.
  - rewrite H0. rewrite (has_key_none _ _ H1). rewrite H4, H5, H3.
    assert (is_rid i || is_null i = true) as ->.
    { destruct H2 as [->|[r ->]]; [reflexivity|]. rewrite is_rid_of_rid. reflexivity. }
    simpl. rewrite H6, H7. reflexivity.
Qed.

Lemma classify_spec : forall j k, classify j = inr k <-> Spec_valid j k.
Proof. intros; split; [apply classify_sound|apply classify_complete]. Qed.

Lemma valid_jsonrpc_spec : forall j, valid_jsonrpc j = true <-> exists k, Spec_valid j k.
Proof.
  intro j. unfold valid_jsonrpc. split.
  - destruct (classify j) as [d|k] eqn:E; [discriminate|]. intros _. exists k. apply classify_sound. exact E.
  - intros [k H]. apply classify_complete in H. rewrite H. reflexivity.
Qed.

Lemma roundtrip_ok_spec : forall w p, roundtrip_ok w p = true <-> Spec_roundtrip w p.
Proof.
  intros w p. unfold roundtrip_ok, Spec_roundtrip. split.
  - destruct (view_of_wire w) as [v|]; [|discriminate]. destruct p as [q|]; [|discriminate].
    intro H. apply view_eqb_eq in H. subst. eauto.
  - intros [v [-> ->]]. apply view_eqb_eq. reflexivity.
Qed.

Lemma carries_ok_spec : forall i w, carries_ok i w = true <-> Spec_carries i w.
Proof.
  intros i w. unfold carries_ok, Spec_carries. split.
  - destruct (view_of_wire w) as [v|]; [|discriminate]. intro H. apply view_eqb_eq in H. congruence.
  - intros ->. apply view_eqb_eq. reflexivity.
Qed.

(** a valid response has exactly one of result / error *)
Lemma valid_exactly_one : forall j k, classify j = inr k -> (k = KRes \/ k = KErr) ->
  exactly_one_of_result_error j = true.
Proof.
  intros j k H Hk. apply classify_sound in H.
  destruct H; destruct Hk as [Hk|Hk]; try discriminate; simpl;
    unfold has_key.
  - rewrite H3, H4. reflexivity.
  - rewrite H4, H5. reflexivity.
Qed.

(** * The parser on valid wire forms *)

(** Every valid message - except, under the fallback back end only, a result
    response whose result is null - is accepted by [parse_message], and the
    parsed object has exactly the view of the wire form: same kind, id with its
    JSON type (or no id), method, params, result, error.  Payloads are arbitrary
    [json] terms. *)
Lemma val_opt_id_rid : forall i, val_opt_id (json_of_rid i) = Some (Some i).
Proof. intros []; reflexivity. Qed.

Lemma val_id_rid : forall i, val_id (json_of_rid i) = Some i.
Proof. intros []; reflexivity. Qed.

Lemma parse_valid : forall fb m k,
  classify (JObj m) = inr k ->
  (fb = true -> k = KRes -> field k_result m <> JNull) ->
  exists e, parse_message fb (JObj m) = Some e /\ view_of_msg e = view_of_wire (JObj m).
Proof.
  intros fb m k Hc Hnullres.
  unfold view_of_wire. rewrite Hc.
  apply classify_sound in Hc.
  inversion Hc as [m0 meth i Hver Hmeth Hid Hpar Hres Herr
                  |m0 meth Hver Hmeth Hid Hpar Hres Herr
                  |m0 i r Hver Hmeth Hpar Hid Hres Herr
                  |m0 i em code msg Hver Hmeth Hpar Hi Hid Hres Herr Hcode Hmsg]; subst; unfold version_ok in *.
  - (* request *)
    unfold parse_message, unified_validate, unified_init, field.
    rewrite Hver, Hmeth, Hid, Hres, Herr.
    rewrite val_opt_id_rid, rid_of_json_of_rid. simpl.
    destruct Hpar as [Hp|[p Hp]]; rewrite Hp; simpl; eexists; split; reflexivity.
  - (* notification *)
    unfold parse_message, unified_validate, unified_init, field.
    rewrite Hver, Hmeth, Hid, Hres, Herr. simpl.
    destruct Hpar as [Hp|[p Hp]]; rewrite Hp; simpl; eexists; split; reflexivity.
  - (* result *)
    assert (Hfb : fb && is_null r = false).
    { destruct fb; [|reflexivity]. simpl. destruct r; try reflexivity.
      exfalso. apply (Hnullres eq_refl eq_refl). unfold field. rewrite Hres. reflexivity. }
    unfold parse_message, unified_validate, unified_init, field.
    rewrite Hver, Hmeth, Hid, Hres, Herr, Hpar.
    rewrite val_opt_id_rid, rid_of_json_of_rid. simpl.
    destruct r as [| | | | | |rm]; simpl;
      try (eexists; split; reflexivity);
      unfold has_key; rewrite Hmeth, Hid, Hres, Herr; simpl;
      unfold new_response, val_literal_version, field; rewrite Hver, Hid, Hres; simpl;
      rewrite val_id_rid; simpl in Hfb; try rewrite Hfb; try rewrite andb_false_r;
      eexists; split; reflexivity.
  - (* error *)
    unfold parse_message, unified_validate, unified_init, field.
    rewrite Hver, Hmeth, Hid, Hres, Herr, Hpar. simpl.
    unfold has_key. rewrite Hcode, Hmsg. simpl.
    destruct Hi as [->|[r ->]].
    + simpl. eexists; split; reflexivity.
    + rewrite val_opt_id_rid, rid_of_json_of_rid. simpl. eexists; split; reflexivity.
Qed.

(** * Constructors *)

Definition intent_request (i : rid) (meth : str) (params : json) : view :=
  {| v_kind := KReq; v_id := Some i; v_method := Some meth; v_params := params; v_result := JNull; v_error := JNull |}.
Definition intent_notification (meth : str) (params : json) : view :=
  {| v_kind := KNotif; v_id := None; v_method := Some meth; v_params := params; v_result := JNull; v_error := JNull |}.
Definition intent_result (i : rid) (result : json) : view :=
  {| v_kind := KRes; v_id := Some i; v_method := None; v_params := JNull; v_result := result; v_error := JNull |}.
Definition intent_error (i : rid) (error : json) : view :=
  {| v_kind := KErr; v_id := Some i; v_method := None; v_params := JNull; v_result := JNull; v_error := error |}.

(** Everything the property demands of one emitted object [e] that was built
    for [intent]: its wire form is valid JSON-RPC 2.0, says what was asked for,
    carries exactly one of result/error when it is a response, and the parser
    (back end [fb]) gives back a message with the same view. *)
Definition emitted_ok (fb : bool) (e : msg) (intent : view) : Prop :=
  valid_jsonrpc (dump_exclude_none e) = true
  /\ Spec_carries intent (dump_exclude_none e)
  /\ (exists e', parse_message fb (dump_exclude_none e) = Some e'
                 /\ Spec_roundtrip (dump_exclude_none e) (view_of_msg e')
                 /\ view_of_msg e' = Some intent)
  /\ (v_kind intent = KRes \/ v_kind intent = KErr -> exactly_one_of_result_error (dump_exclude_none e) = true).

(** [P] holds of the output of EVERY constructor, for all arguments: the four
    module-level helpers (plus the progress-token variant of create_request) and
    the four JSONRPCMessage classmethods.  A constructor that can raise
    (progress token over a non-dict "_meta"; the unified create_response with a
    truthy non-dict result) is quantified over its successful calls. *)
Definition for_every_constructor (fb : bool) (P : msg -> view -> Prop) : Prop :=
  (forall meth params i,
      exists e, create_request meth params i = Some e /\ P e (intent_request i meth (params_json params)))
  /\ (forall meth params i tok e, create_request_progress meth params i tok = Some e ->
      exists p, with_progress_token params tok = Some p /\ P e (intent_request i meth (params_json p)))
  /\ (forall meth params,
      exists e, create_notification meth params = Some e /\ P e (intent_notification meth (params_json params)))
  /\ (forall i result,
      exists e, create_response fb i result = Some e
                /\ P e (intent_result i (if is_null result then JObj [] else result)))
  /\ (forall i code message data,
      exists e, create_error_response i code message data = Some e
                /\ P e (intent_error i (error_dict code message data)))
  /\ (forall meth params i,
      exists e, u_create_request meth params i = Some e /\ P e (intent_request i meth (params_json params)))
  /\ (forall meth params,
      exists e, u_create_notification meth params = Some e /\ P e (intent_notification meth (params_json params)))
  /\ (forall i result e, u_create_response i result = Some e ->
      P e (intent_result i (if truthy result then result else JObj [])))
  /\ (forall i (rm : obj), exists e, u_create_response i (JObj rm) = Some e)
  /\ (forall i code message data,
      exists e, u_create_error_response i code message data = Some e
                /\ P e (intent_error i (error_dict code message data))).

Lemma for_every_constructor_impl : forall fb (P Q : msg -> view -> Prop),
  (forall e v, P e v -> Q e v) -> for_every_constructor fb P -> for_every_constructor fb Q.
Proof.
  intros fb P Q HPQ (H1 & H2 & H3 & H4 & H5 & H6 & H7 & H8 & H9 & H10).
  repeat split.
  - intros. destruct (H1 meth params i) as [e [? ?]]. eauto.
  - intros. destruct (H2 _ _ _ _ _ H) as [p [? ?]]. eauto.
  - intros. destruct (H3 meth params) as [e [? ?]]. eauto.
  - intros. destruct (H4 i result) as [e [? ?]]. eauto.
  - intros. destruct (H5 i code message data) as [e [? ?]]. eauto.
  - intros. destruct (H6 meth params i) as [e [? ?]]. eauto.
  - intros. destruct (H7 meth params) as [e [? ?]]. eauto.
  - intros. eauto.
  - exact H9.
  - intros. destruct (H10 i code message data) as [e [? ?]]. eauto.
Qed.

(** From a computed wire form to [emitted_ok]. *)
Lemma emitted_ok_of_wire : forall fb e intent w,
  dump_exclude_none e = JObj w ->
  classify (JObj w) = inr (v_kind intent) ->
  view_of_wire (JObj w) = Some intent ->
  (fb = true -> v_kind intent = KRes -> field k_result w <> JNull) ->
  emitted_ok fb e intent.
Proof.
  intros fb e intent w Hd Hc Hv Hres. unfold emitted_ok. rewrite Hd.
  split; [unfold valid_jsonrpc; rewrite Hc; reflexivity|].
  split; [exact Hv|].
  split.
  - destruct (parse_valid fb w (v_kind intent) Hc Hres) as [e' [Hp Hvw]].
    exists e'. split; [exact Hp|]. split.
    + exists intent. split; [exact Hv|]. rewrite Hvw. exact Hv.
    + rewrite Hvw. exact Hv.
  - intro Hk. eapply valid_exactly_one; eauto.
Qed.

Ltac rid_cases i := destruct i as [?z|?s].

Ltac close_emitted :=
  eapply emitted_ok_of_wire;
  [ rewrite dump_is_filter; reflexivity
  | reflexivity
  | reflexivity
  | simpl; try discriminate; intros; discriminate ].

Lemma create_request_ok : forall fb meth params i,
  exists e, create_request meth params i = Some e /\ emitted_ok fb e (intent_request i meth (params_json params)).
Proof.
  intros fb meth params i. unfold create_request, new_request.
  destruct params as [p|]; rid_cases i; simpl; eexists; (split; [reflexivity|]); close_emitted.
Qed.

Lemma create_notification_ok : forall fb meth params,
  exists e, create_notification meth params = Some e /\ emitted_ok fb e (intent_notification meth (params_json params)).
Proof.
  intros fb meth params. unfold create_notification, new_notification.
  destruct params as [p|]; simpl; eexists; (split; [reflexivity|]); close_emitted.
Qed.

Lemma create_response_ok : forall fb i result,
  exists e, create_response fb i result = Some e
            /\ emitted_ok fb e (intent_result i (if is_null result then JObj [] else result)).
Proof.
  intros fb i result. unfold create_response, new_response.
  destruct result; rid_cases i; simpl; rewrite ?andb_false_r; eexists; (split; [reflexivity|]); close_emitted.
Qed.

Lemma create_error_response_ok : forall fb i code message data,
  exists e, create_error_response i code message data = Some e
            /\ emitted_ok fb e (intent_error i (error_dict code message data)).
Proof.
  intros fb i code message data. unfold create_error_response, new_error, error_dict.
  destruct data; rid_cases i; simpl; eexists; (split; [reflexivity|]); close_emitted.
Qed.

Lemma u_create_request_ok : forall fb meth params i,
  exists e, u_create_request meth params i = Some e /\ emitted_ok fb e (intent_request i meth (params_json params)).
Proof.
  intros fb meth params i. unfold u_create_request, unified_init.
  destruct params as [p|]; rid_cases i; simpl; eexists; (split; [reflexivity|]); close_emitted.
Qed.

Lemma u_create_notification_ok : forall fb meth params,
  exists e, u_create_notification meth params = Some e /\ emitted_ok fb e (intent_notification meth (params_json params)).
Proof.
  intros fb meth params. unfold u_create_notification, unified_init.
  destruct params as [p|]; simpl; eexists; (split; [reflexivity|]); close_emitted.
Qed.

Lemma u_create_response_ok : forall fb i result e,
  u_create_response i result = Some e ->
  emitted_ok fb e (intent_result i (if truthy result then result else JObj [])).
Proof.
  intros fb i result e H. unfold u_create_response, unified_init in H.
  destruct result as [|b|z|t|s|l|rm]; unfold truthy in *; simpl in H.
  - rid_cases i; simpl in H; inversion H; subst; close_emitted.
  - destruct b; rid_cases i; simpl in H; inversion H; subst; close_emitted.
  - destruct (z =? 0); rid_cases i; simpl in H; inversion H; subst; close_emitted.
  - rid_cases i; simpl in H; discriminate.
  - destruct s; rid_cases i; simpl in H; inversion H; subst; close_emitted.
  - destruct l; rid_cases i; simpl in H; inversion H; subst; close_emitted.
  - destruct rm; rid_cases i; simpl in H; inversion H; subst; close_emitted.
Qed.

Lemma u_create_response_total_on_dicts : forall i (rm : obj), exists e, u_create_response i (JObj rm) = Some e.
Proof.
  intros i rm. unfold u_create_response, unified_init.
  destruct rm; rid_cases i; simpl; eexists; reflexivity.
Qed.

Lemma u_create_error_response_ok : forall fb i code message data,
  exists e, u_create_error_response i code message data = Some e
            /\ emitted_ok fb e (intent_error i (error_dict code message data)).
Proof.
  intros fb i code message data. unfold u_create_error_response, unified_init, error_dict.
  destruct data; rid_cases i; simpl; eexists; (split; [reflexivity|]); close_emitted.
Qed.

Lemma create_request_progress_ok : forall fb meth params i tok e,
  create_request_progress meth params i tok = Some e ->
  exists p, with_progress_token params tok = Some p /\ emitted_ok fb e (intent_request i meth (params_json p)).
Proof.
  intros fb meth params i tok e H. unfold create_request_progress in H.
  destruct (with_progress_token params tok) as [p|]; [|discriminate].
  exists p. split; [reflexivity|].
  destruct (create_request_ok fb meth p i) as [e' [He' Hok]]. congruence.
Qed.

Lemma every_constructor_ok : forall fb, for_every_constructor fb (emitted_ok fb).
Proof.
  intro fb. unfold for_every_constructor.
  split; [apply create_request_ok|].
  split; [apply create_request_progress_ok|].
  split; [apply create_notification_ok|].
  split; [apply create_response_ok|].
  split; [apply create_error_response_ok|].
  split; [apply u_create_request_ok|].
  split; [apply u_create_notification_ok|].
  split; [apply u_create_response_ok|].
  split; [apply u_create_response_total_on_dicts|].
  apply u_create_error_response_ok.
Qed.

(** * The progress token lands where the caller of create_request asked *)

Lemma assoc_dict_set_same : forall k v (m : obj), assoc k (dict_set k v m) = Some v.
Proof.
  intros k v m. induction m as [|[k' v'] m IH]; simpl.
  - rewrite str_eqb_refl. reflexivity.
  - destruct (str_eqb k k') eqn:E; simpl; rewrite E; [reflexivity|exact IH].
Qed.

Lemma assoc_dict_set_other : forall k k' v (m : obj), str_eqb k' k = false -> assoc k' (dict_set k v m) = assoc k' m.
Proof.
  intros k k' v m Hne. induction m as [|[k0 v0] m IH]; simpl.
  - rewrite Hne. reflexivity.
  - destruct (str_eqb k k0) eqn:E; simpl.
    + apply str_eqb_eq in E. subst k0. rewrite Hne. reflexivity.
    + destruct (str_eqb k' k0); [reflexivity|exact IH].
Qed.

Lemma progress_token_carried : forall params tok p,
  with_progress_token params tok = Some p ->
  exists p' mm, p = Some p' /\ assoc k_meta p' = Some (JObj mm)
                /\ assoc k_progressToken mm = Some (json_of_rid tok)
                /\ (forall k, str_eqb k k_meta = false ->
                     assoc k p' = assoc k (match params with Some m => m | None => [] end)).
Proof.
  intros params tok p H. unfold with_progress_token in H.
  set (p0 := match params with Some m => m | None => [] end) in *.
  destruct (has_key k_meta p0) eqn:Hk.
  - destruct (assoc k_meta p0) as [[| | | | | |mm]|] eqn:Hm; try discriminate.
    inversion H; subst. eexists; eexists. split; [reflexivity|].
    split; [apply assoc_dict_set_same|]. split; [apply assoc_dict_set_same|].
    intros k Hne. apply assoc_dict_set_other. exact Hne.
  - rewrite assoc_dict_set_same in H. inversion H; subst. eexists; eexists. split; [reflexivity|].
    split; [apply assoc_dict_set_same|]. split; [reflexivity|].
    intros k Hne. rewrite assoc_dict_set_other by exact Hne. apply assoc_dict_set_other. exact Hne.
Qed.

(** * The batch-rejection error of features/batching.py *)

Lemma batch_rejection_valid : forall i msg data,
  classify (batch_rejection_error i msg data) = inr KErr.
Proof. intros [[z|s]|] msg data; reflexivity. Qed.

(** it round-trips with AND without an id (the default, and what the stdio
    client sends, is a null id) *)
Lemma batch_rejection_roundtrip : forall fb i msg data,
  exists e, parse_message fb (batch_rejection_error i msg data) = Some e
            /\ Spec_roundtrip (batch_rejection_error i msg data) (view_of_msg e).
Proof.
  intros fb i msg data. unfold batch_rejection_error.
  match goal with |- context [parse_message fb (JObj ?w)] =>
    destruct (parse_valid fb w KErr) as [e [Hp Hv]] end.
  - destruct i as [[z|s]|]; reflexivity.
  - intros _ H. discriminate.
  - exists e. split; [exact Hp|]. rewrite Hv. destruct i as [[z|s]|]; eexists; split; reflexivity.
Qed.

(** * The facets of [every_constructor_ok], one per sentence of the property *)

Lemma constructors_valid : forall fb,
  for_every_constructor fb (fun e _ => valid_jsonrpc (dump_exclude_none e) = true).
Proof.
  intro fb. eapply for_every_constructor_impl; [|apply every_constructor_ok].
  intros e v H. apply H.
Qed.

Lemma constructors_carry : forall fb,
  for_every_constructor fb (fun e intent => Spec_carries intent (dump_exclude_none e)).
Proof.
  intro fb. eapply for_every_constructor_impl; [|apply every_constructor_ok].
  intros e v H. apply H.
Qed.

Lemma constructors_roundtrip : forall fb,
  for_every_constructor fb (fun e intent =>
    exists e', parse_message fb (dump_exclude_none e) = Some e'
               /\ Spec_roundtrip (dump_exclude_none e) (view_of_msg e')
               /\ view_of_msg e' = Some intent).
Proof.
  intro fb. eapply for_every_constructor_impl; [|apply every_constructor_ok].
  intros e v H. apply H.
Qed.

Lemma constructors_exactly_one : forall fb,
  for_every_constructor fb (fun e intent =>
    v_kind intent = KRes \/ v_kind intent = KErr -> exactly_one_of_result_error (dump_exclude_none e) = true).
Proof.
  intro fb. eapply for_every_constructor_impl; [|apply every_constructor_ok].
  intros e v H. apply H.
Qed.

(** * Full-strength parser statement, its refutation and the true restrictions *)

Definition parser_roundtrips_every_valid_message : Prop :=
  forall fb m k, classify (JObj m) = inr k ->
  exists e, parse_message fb (JObj m) = Some e /\ view_of_msg e = view_of_wire (JObj m).

(** the fallback back end refuses a response whose result is null (valid
    JSON-RPC; never built by the constructors) *)
Lemma parser_roundtrips_every_valid_message_refuted : ~ parser_roundtrips_every_valid_message.
Proof.
  intro H.
  destruct (H true [(k_jsonrpc, JStr v2); (k_id, JInt 1); (k_result, JNull)] KRes eq_refl) as [e [Hp _]].
  vm_compute in Hp. discriminate.
Qed.

Lemma parse_valid_pydantic : forall m k,
  classify (JObj m) = inr k ->
  exists e, parse_message false (JObj m) = Some e /\ view_of_msg e = view_of_wire (JObj m).
Proof. intros m k H. apply (parse_valid false m k H). intro; discriminate. Qed.

(** Lemmas about the dispatcher model (C08). *)
From Coq Require Import Lia.
From Verif.Base Require Import Prelude SrvCommon.
From Verif.Spec Require Import C08.
From Verif.Model Require Import Dispatch.
Open Scope Z_scope.

(** ---- equality tests ---- *)

Lemma str_eqb_eq : forall a b, str_eqb a b = true <-> a = b.
Proof.
  induction a as [|x a IH]; destruct b as [|y b]; simpl; split; intro H; try discriminate; auto.
  - apply andb_true_iff in H as [H1 H2]. apply Z.eqb_eq in H1. apply IH in H2. congruence.
  - inversion H; subst. apply andb_true_iff. split; [apply Z.eqb_refl | apply IH; reflexivity].
Qed.

Lemma rid_eqb_eq : forall a b, rid_eqb a b = true <-> a = b.
Proof.
  destruct a, b; simpl; split; intro H; try discriminate.
  - apply Z.eqb_eq in H. congruence.
  - inversion H. apply Z.eqb_refl.
  - apply str_eqb_eq in H. congruence.
  - inversion H. apply str_eqb_eq. reflexivity.
Qed.

Lemma rid_eqb_refl : forall a, rid_eqb a a = true.
Proof. intro a. apply rid_eqb_eq. reflexivity. Qed.

Lemma env_eqb_eq : forall a b, env_eqb a b = true <-> a = b.
Proof.
  destruct a, b; simpl; split; intro H; try discriminate.
  - apply rid_eqb_eq in H. congruence.
  - inversion H. apply rid_eqb_refl.
  - apply andb_true_iff in H as [H1 H2]. apply rid_eqb_eq in H1. apply Z.eqb_eq in H2. congruence.
  - inversion H. rewrite rid_eqb_refl, Z.eqb_refl. reflexivity.
Qed.

Lemma outcome_eqb_eq : forall a b, outcome_eqb a b = true <-> a = b.
Proof.
  destruct a, b; simpl; split; intro H; try discriminate; auto.
  - apply env_eqb_eq in H. congruence.
  - inversion H. apply env_eqb_eq. reflexivity.
Qed.

(** ---- reflection: the extracted checkers decide the declarative spec ---- *)

Lemma request_ok_iff : forall i s o, request_ok i s o = true <-> Spec_request i s o.
Proof.
  intros i s o. destruct s; simpl; try apply outcome_eqb_eq.
  - split.
    + destruct o; try discriminate. intro H. apply rid_eqb_eq in H. eauto.
    + intros [e [-> <-]]. apply rid_eqb_refl.
  - rewrite andb_true_iff, outcome_eqb_eq, rid_eqb_eq. tauto.
  - split; [discriminate | tauto].
  - split; [discriminate | tauto].
Qed.

Lemma notification_ok_iff : forall o, notification_ok o = true <-> Spec_notification o.
Proof. destruct o; simpl; unfold Spec_notification; split; intro H; try discriminate; auto. Qed.

Lemma never_raises_ok_iff : forall o, never_raises_ok o = true <-> Spec_never_raises o.
Proof.
  destruct o; simpl; unfold Spec_never_raises; split; intro H; try discriminate; auto.
  all: try (exfalso; apply H; reflexivity).
Qed.

(** ---- printable exceptions ---- *)

Definition srv_printable (srv : server) : bool :=
  forallb (fun kv => handler_printable (snd kv)) (handlers srv)
  && forallb (fun kv => tbeh_printable (snd kv)) (tools srv)
  && forallb (fun kv => tbeh_printable (snd kv)) (resources srv).

Lemma assoc_forallb : forall A (P : A -> bool) k (l : list (str * A)) v,
  forallb (fun kv => P (snd kv)) l = true -> assoc k l = Some v -> P v = true.
Proof.
  induction l as [|[k' v'] l IH]; simpl; intros v H Hl; [discriminate|].
  apply andb_true_iff in H as [H1 H2].
  destruct (str_eqb k k'); [inversion Hl; subst; exact H1 | eauto].
Qed.

Lemma find_target_printable : forall n reg b,
  forallb (fun kv => tbeh_printable (snd kv)) reg = true ->
  find_target n reg = Some b -> tbeh_printable b = true.
Proof.
  intros n reg b H F. destruct n; simpl in F; try discriminate.
  eapply assoc_forallb; eauto.
Qed.

(** "either the outer except block is safe, or every exception in the scenario is printable" *)
Definition tame (sd : bool) (srv : server) : Prop := sd = true \/ srv_printable srv = true.

Lemma tame_handler : forall sd srv meth h,
  tame sd srv -> assoc meth (handlers srv) = Some h -> sd = true \/ handler_printable h = true.
Proof.
  intros sd srv meth h [H|H] A; [left; exact H | right].
  unfold srv_printable in H. apply andb_true_iff in H as [H _]. apply andb_true_iff in H as [H _].
  eapply assoc_forallb; eauto.
Qed.

Lemma tame_tool : forall sd srv n b,
  tame sd srv -> find_target n (tools srv) = Some b -> sd = true \/ tbeh_printable b = true.
Proof.
  intros sd srv n b [H|H] A; [left; exact H | right].
  unfold srv_printable in H. apply andb_true_iff in H as [H _]. apply andb_true_iff in H as [_ H].
  eapply find_target_printable; eauto.
Qed.

Lemma tame_resource : forall sd srv n b,
  tame sd srv -> find_target n (resources srv) = Some b -> sd = true \/ tbeh_printable b = true.
Proof.
  intros sd srv n b [H|H] A; [left; exact H | right].
  unfold srv_printable in H. apply andb_true_iff in H as [_ H].
  eapply find_target_printable; eauto.
Qed.

(** ---- the handler bodies, case by case ---- *)

(** What one dispatch does once the handler is known: the outcome of
    [handle_gen] after the lookup succeeded. *)
Definition after_lookup (sd : bool) (srv : server) (h : handler) (i : option rid) (p : pshape) : outcome :=
  match run_handler srv h i p with
  | Ok (RPair (Some e)) => Resp e
  | Ok (RPair None) => NoResp
  | Ok RJunk => Junk
  | Exn d => outer_catch sd i d
  end.

Lemma handle_gen_unfold : forall sd srv i meth p,
  handle_gen sd srv (MSingle i (Some meth) p) =
  match assoc meth (handlers srv) with
  | None => error_path i (-32601)
  | Some h => after_lookup sd srv h i p
  end.
Proof. reflexivity. Qed.

Ltac crush_depth :=
  repeat match goal with
  | d : nat |- _ => destruct d
  | H : _ \/ _ |- _ => destruct H
  | H : true = false |- _ => discriminate H
  | H : false = true |- _ => discriminate H
  | H : Nat.leb (S (S _)) 1 = true |- _ => discriminate H
  | H : Nat.eqb (S _) 0 = true |- _ => discriminate H
  | sd : bool |- _ => destruct sd
  end.

(** run_target on a request: always an envelope with the id; a result iff all goes well *)
Lemma run_target_request : forall sd i ok b,
  (sd = true \/ tbeh_printable b = true) ->
  match run_target (Some i) ok b with
  | Ok (RPair (Some e)) =>
      e = match ok, b with true, TReturns => EnvResult i | _, _ => EnvError i (-32603) end
  | Ok _ => False
  | Exn d => outer_catch sd (Some i) d = Resp (EnvError i (-32603))
  end.
Proof.
  intros sd i ok b H.
  destruct ok; [|reflexivity].
  destruct b as [|d|d]; [reflexivity| |];
    (destruct d as [|[|d]]; [reflexivity | reflexivity |]);
    (destruct H as [->|H]; [reflexivity | discriminate H]).
Qed.

(** run_target on a notification: never an answer; whatever escapes is caught outside *)
Lemma run_target_notification : forall sd ok b,
  (sd = true \/ tbeh_printable b = true) ->
  match run_target None ok b with
  | Ok _ => False
  | Exn d => outer_catch sd None d = NoResp
  end.
Proof.
  intros sd ok b H.
  destruct ok; [|reflexivity].
  destruct b as [|d|d]; [reflexivity| |];
    (destruct d as [|[|d]]; [reflexivity | reflexivity |]);
    (destruct H as [->|H]; [reflexivity | discriminate H]).
Qed.

(** ---- requests ---- *)

Definition finish (sd : bool) (i : option rid) (r : res hres) : outcome :=
  match r with
  | Ok (RPair (Some e)) => Resp e
  | Ok (RPair None) => NoResp
  | Ok RJunk => Junk
  | Exn d => outer_catch sd i d
  end.

Definition target_body (i : option rid) (n : jname) (reg : list (str * tbeh)) (ok : bool) : res hres :=
  match find_target n reg with
  | None => answer (mk_error i (-32602))
  | Some b => run_target i ok b
  end.

Lemma target_request : forall sd i n reg ok,
  (forall b, find_target n reg = Some b -> sd = true \/ tbeh_printable b = true) ->
  Spec_request i (target_situation n reg ok) (finish sd (Some i) (target_body (Some i) n reg ok)).
Proof.
  intros sd i n reg ok H. unfold target_situation, target_body.
  destruct (find_target n reg) as [b|] eqn:F; [|reflexivity].
  pose proof (run_target_request sd i ok b (H _ eq_refl)) as R.
  destruct (run_target (Some i) ok b) as [[[e|]|]|d] eqn:E; try contradiction; simpl.
  - subst e. destruct ok, b; reflexivity.
  - rewrite R. destruct ok, b; simpl in E; try discriminate E; reflexivity.
Qed.

Lemma after_lookup_request : forall sd srv h i p,
  (sd = true \/ handler_printable h = true) ->
  (forall n b, find_target n (tools srv) = Some b -> sd = true \/ tbeh_printable b = true) ->
  (forall n b, find_target n (resources srv) = Some b -> sd = true \/ tbeh_printable b = true) ->
  contract_ok (Some i) (handler_situation srv h p) = true ->
  Spec_request i (handler_situation srv h p) (after_lookup sd srv h (Some i) p).
Proof.
  intros sd srv h i p Hh Ht Hr Hc. unfold after_lookup. fold (finish sd (Some i) (run_handler srv h (Some i) p)).
  destruct h as [| | | | | | |[r|d|]]; simpl in *.
  - (* initialize *) destruct p; simpl; try reflexivity.
    exists (EnvError i (-32603)). split; reflexivity.
  - reflexivity.
  - reflexivity.
  - reflexivity.
  - (* tools/call *)
    destruct p as [| | |n u a]; simpl; try reflexivity.
    + exists (EnvError i (-32602)). split; reflexivity.
    + exists (EnvError i (-32603)). split; reflexivity.
    + apply (target_request sd i n (tools srv) (args_mapping a)). intros b F. eapply Ht; eauto.
  - reflexivity.
  - (* resources/read *)
    destruct p as [| | |n u a]; simpl; try reflexivity.
    + exists (EnvError i (-32602)). split; reflexivity.
    + exists (EnvError i (-32603)). split; reflexivity.
    + apply (target_request sd i u (resources srv) true). intros b F. eapply Hr; eauto.
  - (* custom returns *)
    destruct r as [e|]; simpl in *; [|discriminate].
    apply rid_eqb_eq in Hc. split; [reflexivity | exact Hc].
  - (* custom raises *)
    destruct d; simpl; [reflexivity|].
    destruct Hh as [->|Hh]; [reflexivity | discriminate].
  - discriminate.
Qed.

Lemma request_spec : forall sd srv i meth p,
  tame sd srv ->
  contract_ok (Some i) (situation_of srv meth p) = true ->
  Spec_request i (situation_of srv meth p) (handle_gen sd srv (MSingle (Some i) (Some meth) p)).
Proof.
  intros sd srv i meth p T C. rewrite handle_gen_unfold. unfold situation_of in *.
  destruct (assoc meth (handlers srv)) as [h|] eqn:A; [|reflexivity].
  apply after_lookup_request; auto.
  - eapply tame_handler; eauto.
  - intros; eapply tame_tool; eauto.
  - intros; eapply tame_resource; eauto.
Qed.

(** ---- notifications ---- *)

Lemma target_notification : forall sd n reg ok,
  (forall b, find_target n reg = Some b -> sd = true \/ tbeh_printable b = true) ->
  finish sd None (target_body None n reg ok) = NoResp.
Proof.
  intros sd n reg ok H. unfold target_body.
  destruct (find_target n reg) as [b|] eqn:F; [|reflexivity].
  pose proof (run_target_notification sd ok b (H _ eq_refl)) as R.
  destruct (run_target None ok b) as [x|d]; [contradiction | exact R].
Qed.

Lemma after_lookup_notification : forall sd srv h p,
  (sd = true \/ handler_printable h = true) ->
  (forall n b, find_target n (tools srv) = Some b -> sd = true \/ tbeh_printable b = true) ->
  (forall n b, find_target n (resources srv) = Some b -> sd = true \/ tbeh_printable b = true) ->
  contract_ok None (handler_situation srv h p) = true ->
  after_lookup sd srv h None p = NoResp.
Proof.
  intros sd srv h p Hh Ht Hr Hc. unfold after_lookup. fold (finish sd None (run_handler srv h None p)).
  destruct h as [| | | | | | |[r|d|]]; simpl in *; try reflexivity.
  - destruct p; reflexivity.
  - destruct p as [| | |n u a]; simpl; try reflexivity.
    apply (target_notification sd n (tools srv) (args_mapping a)). intros b F. eapply Ht; eauto.
  - destruct p as [| | |n u a]; simpl; try reflexivity.
    apply (target_notification sd u (resources srv) true). intros b F. eapply Hr; eauto.
  - destruct r; [discriminate | reflexivity].
  - destruct d; simpl; [reflexivity|]. destruct Hh as [->|Hh]; [reflexivity | discriminate].
  - discriminate.
Qed.

Lemma notification_spec : forall sd srv meth p,
  tame sd srv ->
  contract_ok None (situation_of srv meth p) = true ->
  Spec_notification (handle_gen sd srv (MSingle None (Some meth) p)).
Proof.
  intros sd srv meth p T C. unfold Spec_notification. rewrite handle_gen_unfold. unfold situation_of in *.
  destruct (assoc meth (handlers srv)) as [h|] eqn:A; [|reflexivity].
  apply after_lookup_notification; auto.
  - eapply tame_handler; eauto.
  - intros; eapply tame_tool; eauto.
  - intros; eapply tame_resource; eauto.
Qed.

(** id-less messages without a method (and batches) are not answered either *)
Lemma methodless_idless_silent : forall sd srv p, handle_gen sd srv (MSingle None None p) = NoResp.
Proof. reflexivity. Qed.

Lemma batch_silent : forall sd srv, handle_gen sd srv MBatch = NoResp.
Proof. reflexivity. Qed.

(** ---- never raises: NO contract needed, any application code ---- *)

Lemma run_target_never_escapes : forall sd i ok b,
  (sd = true \/ tbeh_printable b = true) ->
  match run_target i ok b with
  | Ok _ => True
  | Exn d => outer_catch sd i d <> Raised
  end.
Proof.
  intros sd i ok b H.
  destruct i as [i|].
  - pose proof (run_target_request sd i ok b H) as R.
    destruct (run_target (Some i) ok b) as [x|d]; [exact I | rewrite R; discriminate].
  - pose proof (run_target_notification sd ok b H) as R.
    destruct (run_target None ok b) as [x|d]; [exact I | rewrite R; discriminate].
Qed.

Lemma error_path_not_raised : forall i c, error_path i c <> Raised.
Proof. destruct i; simpl; discriminate. Qed.

Lemma target_never_raises : forall sd i n reg ok,
  (forall b, find_target n reg = Some b -> sd = true \/ tbeh_printable b = true) ->
  finish sd i (target_body i n reg ok) <> Raised.
Proof.
  intros sd i n reg ok H. unfold target_body.
  destruct (find_target n reg) as [b|] eqn:F; [|destruct i; simpl; discriminate].
  pose proof (run_target_never_escapes sd i ok b (H _ eq_refl)) as R.
  destruct (run_target i ok b) as [[[e|]|]|d]; simpl; try discriminate; exact R.
Qed.

Lemma after_lookup_never_raises : forall sd srv h i p,
  (sd = true \/ handler_printable h = true) ->
  (forall n b, find_target n (tools srv) = Some b -> sd = true \/ tbeh_printable b = true) ->
  (forall n b, find_target n (resources srv) = Some b -> sd = true \/ tbeh_printable b = true) ->
  after_lookup sd srv h i p <> Raised.
Proof.
  intros sd srv h i p Hh Ht Hr. unfold after_lookup. fold (finish sd i (run_handler srv h i p)).
  destruct h as [| | | | | | |[r|d|]]; simpl.
  - destruct p, i; simpl; discriminate.
  - destruct i; simpl; discriminate.
  - destruct i; simpl; discriminate.
  - destruct i; simpl; discriminate.
  - destruct p as [| | |n u a]; simpl; try (destruct i; simpl; discriminate).
    apply (target_never_raises sd i n (tools srv) (args_mapping a)). intros b F. eapply Ht; eauto.
  - destruct i; simpl; discriminate.
  - destruct p as [| | |n u a]; simpl; try (destruct i; simpl; discriminate).
    apply (target_never_raises sd i u (resources srv) true). intros b F. eapply Hr; eauto.
  - destruct r; discriminate.
  - destruct d; simpl; [apply error_path_not_raised|].
    destruct Hh as [->|Hh]; [apply error_path_not_raised | discriminate].
  - discriminate.
Qed.

Lemma never_raises_tame : forall sd srv m, tame sd srv -> handle_gen sd srv m <> Raised.
Proof.
  intros sd srv m T. destruct m as [|i [meth|] p]; simpl; try discriminate.
  - change (handle_gen sd srv (MSingle i (Some meth) p) <> Raised). rewrite handle_gen_unfold.
    destruct (assoc meth (handlers srv)) as [h|] eqn:A; [|apply error_path_not_raised].
    apply after_lookup_never_raises.
    + eapply tame_handler; eauto.
    + intros; eapply tame_tool; eauto.
    + intros; eapply tame_resource; eauto.
  - apply error_path_not_raised.
Qed.

(** ---- the MCPServer table: no application method handlers, so no contract ---- *)

Definition library_handler (h : handler) : Prop :=
  match h with HCustom _ => False | _ => True end.

Lemma target_contract : forall i n reg ok, contract_ok i (target_situation n reg ok) = true.
Proof.
  intros. unfold target_situation. destruct (find_target n reg) as [[| |]|]; destruct ok, i; reflexivity.
Qed.

Lemma library_contract : forall srv h p i,
  library_handler h -> contract_ok i (handler_situation srv h p) = true.
Proof.
  intros srv h p i L. destruct h; simpl in *; try contradiction;
    destruct p; simpl; try apply target_contract; destruct i; reflexivity.
Qed.

Lemma mcp_assoc_library : forall meth h, assoc meth mcp_handlers = Some h -> library_handler h.
Proof.
  intros meth h A. unfold mcp_handlers, register_method, core_handlers in A. simpl in A.
  repeat match type of A with
  | (if ?c then _ else _) = _ => destruct c; [inversion A; subst; exact I|]
  end.
  discriminate A.
Qed.

Lemma mcp_contract : forall srv i meth p,
  handlers srv = mcp_handlers -> contract_ok i (situation_of srv meth p) = true.
Proof.
  intros srv i meth p H. unfold situation_of. rewrite H.
  destruct (assoc meth mcp_handlers) as [h|] eqn:A; [|destruct i; reflexivity].
  apply library_contract. eapply mcp_assoc_library; eauto.
Qed.

Lemma mcp_handler_printable : forall srv,
  handlers srv = mcp_handlers ->
  forallb (fun kv => handler_printable (snd kv)) (handlers srv) = true.
Proof. intros srv ->. reflexivity. Qed.

(** ---- readable corollaries (the property's code table, row by row) ---- *)

Lemma spec_request_carries_id : forall i s o,
  Spec_request i s o -> exists e, o = Resp e /\ env_id e = i.
Proof.
  intros i s o H. destruct s; simpl in H; try contradiction; try (subst o; eexists; split; reflexivity).
  - exact H.
  - destruct H as [-> H]. eauto.
Qed.

Lemma unregistered_32601 : forall sd srv i meth p,
  assoc meth (handlers srv) = None ->
  handle_gen sd srv (MSingle (Some i) (Some meth) p) = Resp (EnvError i (-32601)).
Proof. intros. rewrite handle_gen_unfold, H. reflexivity. Qed.

Lemma unknown_tool_32602 : forall sd srv i meth n u a,
  assoc meth (handlers srv) = Some HToolsCall ->
  find_target n (tools srv) = None ->
  handle_gen sd srv (MSingle (Some i) (Some meth) (PDict n u a)) = Resp (EnvError i (-32602)).
Proof.
  intros. rewrite handle_gen_unfold, H. unfold after_lookup. simpl. unfold run_tools_call. simpl.
  rewrite H0. reflexivity.
Qed.

Lemma unknown_resource_32602 : forall sd srv i meth n u a,
  assoc meth (handlers srv) = Some HResourcesRead ->
  find_target u (resources srv) = None ->
  handle_gen sd srv (MSingle (Some i) (Some meth) (PDict n u a)) = Resp (EnvError i (-32602)).
Proof.
  intros. rewrite handle_gen_unfold, H. unfold after_lookup. simpl. unfold run_resources_read. simpl.
  rewrite H0. reflexivity.
Qed.

Lemma method_handler_raises_32603 : forall srv i meth p d,
  assoc meth (handlers srv) = Some (HCustom (HRaises d)) ->
  handle_gen true srv (MSingle (Some i) (Some meth) p) = Resp (EnvError i (-32603)).
Proof.
  intros. rewrite handle_gen_unfold, H. unfold after_lookup. simpl. destruct d; reflexivity.
Qed.

Lemma tool_raises_32603 : forall srv i meth s u a d,
  assoc meth (handlers srv) = Some HToolsCall ->
  assoc s (tools srv) = Some (TRaises d) ->
  handle_gen true srv (MSingle (Some i) (Some meth) (PDict (NStr s) u a)) = Resp (EnvError i (-32603)).
Proof.
  intros. rewrite handle_gen_unfold, H. unfold after_lookup. simpl. unfold run_tools_call. simpl.
  rewrite H0. unfold run_target. destruct (args_mapping a); [|reflexivity].
  destruct d as [|[|d]]; reflexivity.
Qed.

Lemma resource_raises_32603 : forall srv i meth n s a d,
  assoc meth (handlers srv) = Some HResourcesRead ->
  assoc s (resources srv) = Some (TRaises d) ->
  handle_gen true srv (MSingle (Some i) (Some meth) (PDict n (NStr s) a)) = Resp (EnvError i (-32603)).
Proof.
  intros. rewrite handle_gen_unfold, H. unfold after_lookup. simpl. unfold run_resources_read. simpl.
  rewrite H0. unfold run_target. destruct d as [|[|d]]; reflexivity.
Qed.

Lemma tame_true : forall srv, tame true srv.
Proof. intro. left. reflexivity. Qed.

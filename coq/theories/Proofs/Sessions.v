(** Lemmas about the session store model (C19): refinement to the simple map. *)
From Coq Require Import Lia ZifyBool.
From Verif.Base Require Import Prelude.
From Verif.Spec Require Import C19.
From Verif.Model Require Import Sessions.
From Verif.Gen Require SessionsGen.
Open Scope Z_scope.

(** The expiry test of the source (regenerated) is the specification's:
    idle time STRICTLY greater than the limit, for ALL integers. *)
Lemma expired_src_is_spec : forall now last created max_age,
  SessionsGen.expired_src now last created max_age = (now - last >? max_age).
Proof. intros. unfold SessionsGen.expired_src. lia. Qed.

Lemma expired_m_spec : forall now age r, expired_m now age r = expired now age r.
Proof. intros. unfold expired_m, expired. apply expired_src_is_spec. Qed.

Section Proofs.
  Variable sid : Type.
  Variable sid_eqb : sid -> sid -> bool.
  Variable fresh : nat -> sid.
  Variable answer : vreq -> str.
  Hypothesis sid_eqb_spec : forall a b, sid_eqb a b = true <-> a = b.
  (** the uuid4 assumption: the id supply never repeats *)
  Hypothesis fresh_inj : forall a b, fresh a = fresh b -> a = b.

  Notation lookup := (lookup sid sid_eqb).
  Notation upsert := (upsert sid sid_eqb).
  Notation remove := (remove sid sid_eqb).
  Notation touch := (touch sid sid_eqb).
  Notation touch_opt := (touch_opt sid sid_eqb).
  Notation cleanup := (cleanup sid).
  Notation expired_entries := (expired_entries sid).
  Notation step := (step sid sid_eqb fresh answer).
  Notation run := (run sid sid_eqb fresh answer).
  Notation abs := (abs sid sid_eqb).
  Notation state := (state sid).
  Notation keys l := (map fst l).

  Lemma eqb_refl : forall k, sid_eqb k k = true.
  Proof. intro. apply sid_eqb_spec. reflexivity. Qed.

  Lemma eqb_neq : forall a b, a <> b -> sid_eqb a b = false.
  Proof. intros a b H. destruct (sid_eqb a b) eqn:E; [apply sid_eqb_spec in E; contradiction | reflexivity]. Qed.

  Lemma eqb_false_neq : forall a b, sid_eqb a b = false -> a <> b.
  Proof. intros a b H E. subst. rewrite eqb_refl in H. discriminate. Qed.

  Lemma eqb_sym : forall a b, sid_eqb a b = sid_eqb b a.
  Proof.
    intros a b. destruct (sid_eqb a b) eqn:E.
    - apply sid_eqb_spec in E. subst. symmetry. apply eqb_refl.
    - symmetry. apply eqb_neq. intro H. subst. rewrite eqb_refl in E. discriminate.
  Qed.

  Ltac eqb k k' :=
    let E := fresh "E" in
    let NE := fresh "NE" in
    destruct (sid_eqb k k') eqn:E;
    [apply sid_eqb_spec in E; try subst | pose proof (eqb_false_neq _ _ E) as NE].

  (** ---- lookup ---- *)

  Lemma lookup_notin : forall k (l : list (sid * rec)), ~ In k (keys l) -> lookup k l = None.
  Proof.
    induction l as [|[k' r] l IH]; simpl; intro H; [reflexivity|].
    unfold Sessions.lookup in *. simpl. eqb k k'.
    - exfalso. apply H. left. reflexivity.
    - apply IH. intro. apply H. right. assumption.
  Qed.

  Lemma lookup_in_keys : forall k (l : list (sid * rec)) r, lookup k l = Some r -> In k (keys l).
  Proof.
    induction l as [|[k' r'] l IH]; unfold Sessions.lookup in *; simpl; intros r H; [discriminate|].
    eqb k k'; [left; reflexivity | right; eauto].
  Qed.

  Lemma lookup_in : forall k (l : list (sid * rec)) r, lookup k l = Some r -> In (k, r) l.
  Proof.
    induction l as [|[k' r'] l IH]; unfold Sessions.lookup in *; simpl; intros r H; [discriminate|].
    eqb k k'; [inversion H; left; reflexivity | right; eauto].
  Qed.

  Lemma in_lookup : forall k r (l : list (sid * rec)), NoDup (keys l) -> In (k, r) l -> lookup k l = Some r.
  Proof.
    induction l as [|[k' r'] l IH]; simpl; intros ND H; [contradiction|].
    inversion ND; subst. unfold Sessions.lookup in *. simpl.
    destruct H as [H|H].
    - inversion H; subst. rewrite eqb_refl. reflexivity.
    - eqb k k'.
      + exfalso. apply H2. change k' with (fst (k', r)). apply in_map. assumption.
      + apply IH; assumption.
  Qed.

  (** ---- upsert ---- *)

  Lemma lookup_upsert : forall k' k r l,
    lookup k' (upsert k r l) = if sid_eqb k' k then Some r else lookup k' l.
  Proof.
    induction l as [|[k0 r0] l IH]; unfold Sessions.lookup in *; simpl.
    - destruct (sid_eqb k' k); reflexivity.
    - eqb k k0; simpl.
      + destruct (sid_eqb k' k0); reflexivity.
      + eqb k' k0.
        * rewrite eqb_neq; [reflexivity | congruence].
        * apply IH.
  Qed.

  Lemma keys_upsert : forall x k r l, In x (keys (upsert k r l)) <-> x = k \/ In x (keys l).
  Proof.
    induction l as [|[k0 r0] l IH]; simpl.
    - split; intros [H|H]; auto; contradiction.
    - eqb k k0; simpl.
      + split; intros [H|H]; auto.
      + rewrite IH. split; intros [H|[H|H]]; auto.
  Qed.

  Lemma nodup_upsert : forall k r l, NoDup (keys l) -> NoDup (keys (upsert k r l)).
  Proof.
    induction l as [|[k0 r0] l IH]; simpl; intro ND.
    - constructor; [intros [] | constructor].
    - inversion ND; subst. eqb k k0; simpl.
      + constructor; assumption.
      + constructor; [|apply IH; assumption].
        rewrite keys_upsert. intros [E'|E']; [congruence | contradiction].
  Qed.

  (** ---- filter-based operations ---- *)

  Lemma keys_filter_in : forall (f : sid * rec -> bool) x l, In x (keys (filter f l)) -> In x (keys l).
  Proof.
    intros f x l H. apply in_map_iff in H as [[k r] [E H]]. apply filter_In in H as [H _].
    simpl in E. subst x. change k with (fst (k, r)). apply in_map. assumption.
  Qed.

  Lemma nodup_filter : forall (f : sid * rec -> bool) l, NoDup (keys l) -> NoDup (keys (filter f l)).
  Proof.
    induction l as [|[k r] l IH]; simpl; intro ND; [constructor|].
    inversion ND; subst. destruct (f (k, r)); simpl; [constructor|]; auto.
    intro H. apply H1. eapply keys_filter_in; eauto.
  Qed.

  Lemma lookup_remove : forall k' k l,
    lookup k' (remove k l) = if sid_eqb k' k then None else lookup k' l.
  Proof.
    induction l as [|[k0 r0] l IH]; unfold Sessions.lookup, Sessions.remove in *; simpl.
    - destruct (sid_eqb k' k); reflexivity.
    - eqb k0 k; simpl.
      + rewrite IH. eqb k' k; reflexivity.
      + eqb k' k0.
        * rewrite eqb_neq; [reflexivity | congruence].
        * apply IH.
  Qed.

  Lemma lookup_filter_val : forall (P : rec -> bool) k l,
    NoDup (keys l) ->
    lookup k (filter (fun kv => P (snd kv)) l) =
    match lookup k l with Some r => if P r then Some r else None | None => None end.
  Proof.
    induction l as [|[k0 r0] l IH]; unfold Sessions.lookup in *; simpl; intro ND; [reflexivity|].
    inversion ND; subst. specialize (IH H2).
    destruct (P r0) eqn:EP; simpl.
    - eqb k k0; [rewrite EP; reflexivity | apply IH].
    - eqb k k0.
      + rewrite EP. apply lookup_notin. intro H. apply H1. eapply keys_filter_in; eauto.
      + apply IH.
  Qed.

  (** ---- touch ---- *)

  Lemma keys_touch : forall now k l, keys (touch now k l) = keys l.
  Proof.
    intros. unfold Sessions.touch. rewrite map_map. apply map_ext. intros [k0 r0]. simpl.
    destruct (sid_eqb k0 k); reflexivity.
  Qed.

  Lemma lookup_touch : forall now k' k l,
    lookup k' (touch now k l) = if sid_eqb k' k then option_map (set_last now) (lookup k' l) else lookup k' l.
  Proof.
    induction l as [|[k0 r0] l IH]; unfold Sessions.lookup, Sessions.touch in *; simpl.
    - destruct (sid_eqb k' k); reflexivity.
    - eqb k0 k; simpl.
      + eqb k' k; [reflexivity|]. apply IH.
      + eqb k' k0.
        * rewrite eqb_neq; [reflexivity | congruence].
        * apply IH.
  Qed.

  Lemma keys_touch_opt : forall now s l, keys (touch_opt now s l) = keys l.
  Proof. intros now [s|] l; simpl; [apply keys_touch | reflexivity]. Qed.

  Lemma lookup_touch_opt : forall now s l k,
    lookup k (touch_opt now s l) = a_touch_opt sid sid_eqb now (fun k => lookup k l) s k.
  Proof. intros now [s|] l k; simpl; [apply lookup_touch | reflexivity]. Qed.

  (** ---- counting ---- *)

  Lemma counts_filter : forall (P : rec -> bool) l,
    NoDup (keys l) ->
    counts sid (fun k => exists r, lookup k l = Some r /\ P r = true)
           (Z.of_nat (length (filter (fun kv => P (snd kv)) l))).
  Proof.
    intros P l ND. exists (keys (filter (fun kv => P (snd kv)) l)). repeat split.
    - apply nodup_filter. assumption.
    - intro H. apply in_map_iff in H as [[k0 r0] [E H]]. simpl in E. subst k0.
      apply filter_In in H as [H HP]. exists r0. split; [apply in_lookup; assumption | exact HP].
    - intros [r [H HP]]. apply lookup_in in H. change k with (fst (k, r)). apply in_map.
      apply filter_In. split; assumption.
    - rewrite map_length. reflexivity.
  Qed.

  Lemma counts_all : forall l,
    NoDup (keys l) -> counts sid (fun k => lookup k l <> None) (Z.of_nat (length l)).
  Proof.
    intros l ND. exists (keys l). repeat split; [assumption | | | rewrite map_length; reflexivity].
    - intros H E. apply in_map_iff in H as [[k0 r0] [E' H]]. simpl in E'. subst k0.
      rewrite (in_lookup _ _ _ ND H) in E. discriminate.
    - intro H. destruct (lookup k l) eqn:E; [eapply lookup_in_keys; eauto | contradiction].
  Qed.

  (** ---- invariant of every reachable state ---- *)

  Definition Inv (st : state) : Prop :=
    NoDup (keys (store sid st))
    /\ forall k, In k (keys (store sid st)) -> exists n, (n < next sid st)%nat /\ k = fresh n.

  Lemma inv_init : Inv (init sid).
  Proof. split; [constructor | intros k []]. Qed.

  Lemma fresh_unused : forall st, Inv st -> lookup (fresh (next sid st)) (store sid st) = None.
  Proof.
    intros st [_ H]. apply lookup_notin. intro HI. apply H in HI as [n [Hn E]].
    apply fresh_inj in E. lia.
  Qed.

  Lemma is_some_eq : forall o : option rec, is_some' o = is_some o.
  Proof. destruct o; reflexivity. Qed.

  (** ---- every operation refines the simple map and keeps the invariant ---- *)

  Lemma create_refines : forall now c v meta l n,
    NoDup (keys l) ->
    (forall k, In k (keys l) -> exists j, (j < n)%nat /\ k = fresh j) ->
    Inv {| store := upsert (fresh n) (new_rec c v now meta) l; next := S n |}.
  Proof.
    intros now c v meta l n ND H. split; simpl.
    - apply nodup_upsert. assumption.
    - intros k HI. apply keys_upsert in HI as [->|HI].
      + exists n. split; [lia | reflexivity].
      + apply H in HI as [j [Hj E]]. exists j. split; [lia | exact E].
  Qed.

  Theorem step_refines : forall now o st st' r,
    Inv st ->
    step now o st = (st', r) ->
    Spec_step sid sid_eqb (fresh (next sid st)) now o (abs st) (abs st') r /\ Inv st'.
  Proof.
    intros now o st st' r I S. pose proof I as [ND B]. pose proof (fresh_unused st I) as FU.
    destruct o; simpl in S; inversion S; subst; clear S; unfold Sessions.abs; simpl.
    - (* create *) split; [|apply create_refines; assumption].
      repeat split; [exact FU|]. intro k. apply lookup_upsert.
    - (* get *) split; [split; reflexivity | exact I].
    - (* touch *) split.
      + split; [intro k; apply lookup_touch | rewrite is_some_eq; reflexivity].
      + split; simpl; rewrite keys_touch; assumption.
    - (* delete *) split.
      + split; [intro k; apply lookup_remove | rewrite is_some_eq; reflexivity].
      + split; simpl; [apply nodup_filter; assumption|].
        intros k H. apply B. eapply keys_filter_in; eauto.
    - (* cleanup *) split.
      + split.
        * intro k. unfold Sessions.cleanup, a_expire.
          rewrite (filter_ext _ (fun kv => negb (expired now max_age (snd kv))))
            by (intros; rewrite expired_m_spec; reflexivity).
          rewrite (lookup_filter_val (fun r => negb (expired now max_age r))); [|assumption].
          destruct (lookup k (store sid st)) as [r0|]; [|reflexivity].
          destruct (expired now max_age r0); reflexivity.
        * eexists. split; [reflexivity|]. unfold Sessions.expired_entries.
          rewrite (filter_ext _ (fun kv => expired now max_age (snd kv)))
            by (intros; rewrite expired_m_spec; reflexivity).
          apply (counts_filter (expired now max_age)). assumption.
      + split; simpl; [apply nodup_filter; assumption|].
        intros k H. apply B. eapply keys_filter_in; eauto.
    - (* list *) split; [|exact I].
      split; [reflexivity|]. eexists. split; [reflexivity|]. split; [assumption | reflexivity].
    - (* count *) split; [|exact I].
      split; [reflexivity|]. eexists. split; [reflexivity|]. apply counts_all. assumption.
    - (* clear *) split.
      + split; [reflexivity|]. eexists. split; [reflexivity|]. apply counts_all. assumption.
      + split; simpl; [constructor | intros k []].
    - (* initialize *) split.
      + split; [exact FU|]. exists (answer v). split.
        * intro k. rewrite lookup_upsert. unfold a_set. destruct (sid_eqb k (fresh (next sid st))); [reflexivity|].
          apply lookup_touch_opt.
        * reflexivity.
      + apply create_refines; rewrite keys_touch_opt; assumption.
    - (* request *) split.
      + split; [|reflexivity]. intro k. destruct has_method; [apply lookup_touch_opt | reflexivity].
      + split; simpl; destruct has_method; try rewrite keys_touch_opt; assumption.
  Qed.

  Lemma step_next : forall now o st,
    next sid (fst (step now o st)) =
    match o with OCreate _ _ _ | OInitialize _ _ _ _ => S (next sid st) | _ => next sid st end.
  Proof. intros now o st. destruct o; reflexivity. Qed.

  (** ---- histories ---- *)

  Theorem run_inv : forall h st, Inv st -> Inv (fst (run h st)).
  Proof.
    induction h as [|[now o] h IH]; intros st I; simpl; [exact I|].
    destruct (step now o st) as [st1 r] eqn:S.
    destruct (step_refines now o st st1 r I S) as [_ I1].
    specialize (IH st1 I1). destruct (run h st1) as [st2 rs]. exact IH.
  Qed.

  Theorem reachable_ids_unique : forall h, NoDup (keys (store sid (fst (run h (init sid))))).
  Proof. intro h. apply (run_inv h (init sid) inv_init). Qed.

  (** every step of a history, started anywhere reachable, refines the map *)
  Theorem run_refines_stepwise : forall h1 now o,
    let st := fst (run h1 (init sid)) in
    let '(st', r) := step now o st in
    Spec_step sid sid_eqb (fresh (next sid st)) now o (abs st) (abs st') r.
  Proof.
    intros h1 now o st. destruct (step now o st) as [st' r] eqn:S.
    apply (step_refines now o st st' r); [apply run_inv, inv_init | exact S].
  Qed.

  (** ids handed out (returned by create_session / initialize) along a history *)
  Definition ids_of (rs : list (out sid)) : list sid :=
    flat_map (fun r => match r with OutId s => [s] | OutInit _ s => [s] | _ => [] end) rs.

  Lemma run_ids : forall h st,
    let '(st', rs) := run h st in
    (next sid st <= next sid st')%nat
    /\ NoDup (ids_of rs)
    /\ forall x, In x (ids_of rs) -> exists n, (next sid st <= n < next sid st')%nat /\ x = fresh n.
  Proof.
    induction h as [|[now o] h IH]; intro st; simpl.
    - repeat split; [lia | constructor | intros x []].
    - destruct (step now o st) as [st1 r] eqn:St. specialize (IH st1).
      destruct (run h st1) as [st2 rs]. destruct IH as [L [ND B]].
      pose proof (step_next now o st) as N. rewrite St in N. simpl in N.
      assert (Hr : match r with
                   | OutId s | OutInit _ s => s = fresh (next sid st) /\ next sid st1 = S (next sid st)
                   | _ => True end).
      { destruct o; simpl in St; inversion St; subst; simpl; auto. destruct with_id; simpl; auto. }
      assert (L1 : (next sid st <= next sid st1)%nat) by (destruct o; lia).
      split; [lia|].
      assert (Tail : forall x, In x (ids_of rs) -> exists n, (next sid st <= n < next sid st2)%nat /\ x = fresh n).
      { intros x H. apply B in H as [n [Hn E]]. exists n. split; [lia | exact E]. }
      destruct r; simpl; try (split; [exact ND | exact Tail]).
      + destruct Hr as [-> Hn]. split.
        * constructor; [|exact ND]. intro H. apply B in H as [n [Hn' E]]. apply fresh_inj in E. lia.
        * intros x [<-|H]; [exists (next sid st); split; [lia | reflexivity] | apply Tail; exact H].
      + destruct Hr as [-> Hn]. split.
        * constructor; [|exact ND]. intro H. apply B in H as [n [Hn' E]]. apply fresh_inj in E. lia.
        * intros x [<-|H]; [exists (next sid st); split; [lia | reflexivity] | apply Tail; exact H].
  Qed.

  Theorem handed_out_ids_distinct : forall h, NoDup (ids_of (snd (run h (init sid)))).
  Proof.
    intro h. pose proof (run_ids h (init sid)) as H. destruct (run h (init sid)) as [st rs].
    simpl. tauto.
  Qed.

  (** ---- the property's individual clauses, as corollaries ---- *)

  (** expiry: removed iff idle STRICTLY longer than the limit; everything else is untouched *)
  Theorem cleanup_exact : forall now age st,
    Inv st ->
    let st' := fst (step now (OCleanup age) st) in
    forall k,
      abs st' k = match abs st k with
                  | Some r => if now - r_last r >? age then None else Some r
                  | None => None
                  end.
  Proof.
    intros now age st I st' k.
    destruct (step_refines now (OCleanup age) st st' (snd (step now (OCleanup age) st)) I) as [[H _] _].
    - subst st'. destruct (step now (OCleanup age) st); reflexivity.
    - apply H.
  Qed.

  Lemma boundary_stays : forall now age r, now - r_last r = age -> expired now age r = false.
  Proof. intros. unfold expired. rewrite H. rewrite Z.gtb_ltb. apply Z.ltb_irrefl. Qed.

  (** listing: the store is literally unchanged and the returned value lists the map *)
  Theorem list_is_copy : forall now st,
    Inv st ->
    fst (step now OList st) = st
    /\ exists l, snd (step now OList st) = OutListing l /\ lists sid sid_eqb l (abs st).
  Proof.
    intros now st [ND _]. split; [reflexivity|]. eexists. split; [reflexivity|].
    split; [assumption | reflexivity].
  Qed.

  (** initialize: exactly one session appears (the fresh id), it records the client's info and
      the version that is in the response; no other id appears or disappears *)
  Theorem initialize_creates_exactly_one : forall now c v sess st,
    Inv st ->
    let k := fresh (next sid st) in
    let '(st', r) := step now (OInitialize true c v sess) st in
    exists ver,
      r = OutInit ver k
      /\ abs st k = None
      /\ abs st' k = Some (new_rec c ver now 0)
      /\ forall k', k' <> k -> is_some (abs st' k') = is_some (abs st k').
  Proof.
    intros now c v sess st I k. destruct (step now (OInitialize true c v sess) st) as [st' r] eqn:S.
    destruct (step_refines _ _ _ _ _ I S) as [[FU [ver [M R]]] _].
    exists ver. repeat split; [exact R | exact FU | |].
    - rewrite M. unfold a_set. fold k. rewrite eqb_refl. reflexivity.
    - intros k' NE. rewrite M. unfold a_set. fold k. rewrite (eqb_neq _ _ NE).
      destruct sess as [s|]; simpl; [|reflexivity]. unfold a_touch.
      destruct (sid_eqb k' s); [|reflexivity]. destruct (abs st k'); reflexivity.
  Qed.
End Proofs.

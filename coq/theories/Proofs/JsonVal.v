(** Induction principle for the nested inductive [json]. *)
From Verif.Base Require Import Prelude JsonVal.

Section JsonInd.
  Variable F : Type.
  Variable P : json F -> Prop.
  Hypothesis Hnull : P JNull.
  Hypothesis Hbool : forall b, P (JBool b).
  Hypothesis Hint : forall z, P (JInt z).
  Hypothesis Hfloat : forall f, P (JFloat f).
  Hypothesis Hstr : forall s, P (JStr s).
  Hypothesis Harr : forall l, Forall P l -> P (JArr l).
  Hypothesis Hobj : forall m, Forall (fun kv => P (snd kv)) m -> P (JObj m).

  Fixpoint json_ind' (v : json F) : P v :=
    match v with
    | JNull => Hnull
    | JBool b => Hbool b
    | JInt z => Hint z
    | JFloat f => Hfloat f
    | JStr s => Hstr s
    | JArr l =>
        Harr l ((fix go (l : list (json F)) : Forall P l :=
                   match l with
                   | [] => Forall_nil _
                   | x :: l' => Forall_cons x (json_ind' x) (go l')
                   end) l)
    | JObj m =>
        Hobj m ((fix go (m : list (str * json F)) : Forall (fun kv => P (snd kv)) m :=
                   match m with
                   | [] => Forall_nil _
                   | kv :: m' => Forall_cons kv (json_ind' (snd kv)) (go m')
                   end) m)
    end.
End JsonInd.

Lemma Forall_flat_map_intro {A B} (Q : B -> Prop) (f : A -> list B) (l : list A) :
  Forall (fun x => Forall Q (f x)) l -> Forall Q (flat_map f l).
Proof.
  induction 1; simpl; [constructor|]. apply Forall_app; split; assumption.
Qed.

(** Soundness of the extracted step checker of Spec/C19.v: whenever [step_ok]
    accepts an observed step of the implementation, that step satisfies the
    declarative specification [Spec_step] over the simple map. *)
From Coq Require Import Lia.
From Verif.Base Require Import Prelude.
From Verif.Spec Require Import C19.
From Verif.Model Require Import Sessions.
From Verif.Proofs Require Import Sessions.
Open Scope Z_scope.

Lemma str_eqb_true : forall a b, str_eqb a b = true -> a = b.
Proof.
  induction a as [|x a IH]; destruct b as [|y b]; simpl; intro H; try discriminate; auto.
  apply andb_true_iff in H as [H1 H2]. apply Z.eqb_eq in H1. apply IH in H2. congruence.
Qed.

Lemma rec_eqb_true : forall a b, rec_eqb a b = true -> a = b.
Proof.
  intros [a1 a2 a3 a4 a5] [b1 b2 b3 b4 b5]. unfold rec_eqb. simpl. intro H.
  repeat (apply andb_true_iff in H as [H ?]).
  apply Z.eqb_eq in H. apply str_eqb_true in H3. apply Z.eqb_eq in H2, H1, H0. congruence.
Qed.

Section Sound.
  Variable sid : Type.
  Variable sid_eqb : sid -> sid -> bool.
  Hypothesis sid_eqb_spec : forall a b, sid_eqb a b = true <-> a = b.

  Notation lk := (l_lookup sid sid_eqb).
  Notation keys l := (map fst l).

  Lemma opt_rec_eqb_true : forall a b, opt_rec_eqb a b = true -> a = b.
  Proof.
    intros [a|] [b|]; unfold opt_rec_eqb; simpl; intro H; try discriminate; auto.
    apply rec_eqb_true in H. congruence.
  Qed.

  Lemma memb_In : forall k l, memb sid sid_eqb k l = true <-> In k l.
  Proof.
    induction l as [|x l IH]; simpl; [split; [discriminate | tauto]|].
    rewrite orb_true_iff, IH, sid_eqb_spec. split; intros [H|H]; auto.
  Qed.

  Lemma nodupb_NoDup : forall l, nodupb sid sid_eqb l = true -> NoDup l.
  Proof.
    induction l as [|x l IH]; simpl; intro H; [constructor|].
    apply andb_true_iff in H as [H1 H2]. constructor; [|auto].
    intro HI. apply memb_In in HI. rewrite HI in H1. discriminate.
  Qed.

  Lemma lk_notin : forall k (l : list (sid * rec)), ~ In k (keys l) -> lk k l = None.
  Proof. exact (lookup_notin sid sid_eqb sid_eqb_spec). Qed.

  Lemma agree_on_In : forall ks post expect k,
    agree_on sid sid_eqb ks post expect = true -> In k ks -> lk k post = expect k.
  Proof.
    intros ks post expect k H HI. unfold agree_on in H. rewrite forallb_forall in H.
    apply opt_rec_eqb_true. apply H. exact HI.
  Qed.

  (** agreement on a key set that covers the listing, plus "nothing outside", is pointwise equality *)
  Lemma agree_total : forall ks post (expect : amap sid),
    (forall k, In k (keys post) -> In k ks) ->
    (forall k, ~ In k ks -> expect k = None) ->
    agree_on sid sid_eqb ks post expect = true ->
    forall k, lk k post = expect k.
  Proof.
    intros ks post expect Cover Out H k.
    destruct (memb sid sid_eqb k ks) eqn:M.
    - apply memb_In in M. eapply agree_on_In; eauto.
    - assert (NI : ~ In k ks) by (intro HI; apply memb_In in HI; congruence).
      rewrite (Out k NI). apply lk_notin. intro HI. apply NI, Cover, HI.
  Qed.

  Lemma neq_eqb : forall a b, a <> b -> sid_eqb a b = false.
  Proof. exact (eqb_neq sid sid_eqb sid_eqb_spec). Qed.

  Section Step.
    Variables (fresh_id : sid) (now : Z) (o : op sid) (pre post : list (sid * rec)).
    Let m : amap sid := fun k => lk k pre.
    Let ks := fresh_id :: op_keys sid o ++ keys pre ++ keys post.

    Lemma cover : forall k, In k (keys post) -> In k ks.
    Proof. intros k H. right. apply in_or_app. right. apply in_or_app. right. exact H. Qed.

    Lemma outside : forall k, ~ In k ks -> k <> fresh_id /\ m k = None.
    Proof.
      intros k H. split.
      - intro E. apply H. left. symmetry. exact E.
      - apply lk_notin. intro HI. apply H. right. apply in_or_app. right. apply in_or_app. left. exact HI.
    Qed.

    Lemma out_set : forall (m1 : amap sid) r,
      (forall k, ~ In k ks -> m1 k = None) -> forall k, ~ In k ks -> a_set sid sid_eqb m1 fresh_id r k = None.
    Proof.
      intros m1 r H k NI. unfold a_set. destruct (outside k NI) as [NE _]. rewrite (neq_eqb _ _ NE). auto.
    Qed.

    Lemma out_m : forall k, ~ In k ks -> m k = None.
    Proof. intros k NI. apply (outside k NI). Qed.

    Lemma out_touch : forall s k, ~ In k ks -> a_touch sid sid_eqb now m s k = None.
    Proof. intros s k NI. unfold a_touch. rewrite (out_m k NI). destruct (sid_eqb k s); reflexivity. Qed.

    Lemma out_touch_opt : forall s k, ~ In k ks -> a_touch_opt sid sid_eqb now m s k = None.
    Proof. intros [s|] k NI; simpl; [apply out_touch | apply out_m]; exact NI. Qed.

    Lemma out_del : forall s k, ~ In k ks -> a_del sid sid_eqb m s k = None.
    Proof. intros s k NI. unfold a_del. rewrite (out_m k NI). destruct (sid_eqb k s); reflexivity. Qed.

    Lemma out_expire : forall age k, ~ In k ks -> a_expire sid now age m k = None.
    Proof. intros age k NI. unfold a_expire. rewrite (out_m k NI). reflexivity. Qed.
  End Step.

  Lemma is_some_false : forall (x : option rec), negb (is_some x) = true -> x = None.
  Proof. destruct x; simpl; [discriminate | reflexivity]. Qed.

  Lemma listing_sound : forall l pre,
    listing_ok sid sid_eqb l pre = true -> lists sid sid_eqb l (fun k => lk k pre).
  Proof.
    intros l pre H. unfold listing_ok in H. apply andb_true_iff in H as [H1 H2].
    split; [apply nodupb_NoDup; exact H1|].
    intro k. rewrite forallb_forall in H2.
    destruct (memb sid sid_eqb k (keys l ++ keys pre)) eqn:M.
    - apply memb_In in M. apply opt_rec_eqb_true. apply H2. exact M.
    - assert (NI : ~ In k (keys l ++ keys pre)) by (intro HI; apply memb_In in HI; congruence).
      assert (A : lk k l = None) by (apply lk_notin; intro HI; apply NI; apply in_or_app; auto).
      assert (B : lk k pre = None) by (apply lk_notin; intro HI; apply NI; apply in_or_app; auto).
      rewrite A, B. reflexivity.
  Qed.

  Theorem step_ok_sound : forall fresh_id now o pre post res,
    NoDup (keys pre) ->
    step_ok sid sid_eqb fresh_id now o pre post res = true ->
    NoDup (keys post)
    /\ Spec_step sid sid_eqb fresh_id now o (fun k => lk k pre) (fun k => lk k post) res.
  Proof.
    intros fresh_id now o pre post res ND H. unfold step_ok in H.
    apply andb_true_iff in H as [HN H]. split; [apply nodupb_NoDup; exact HN|].
    pose proof (cover fresh_id o pre post) as Cover.
    pose proof (out_m fresh_id o pre post) as Om.
    destruct o; destruct res; try discriminate H; try (destruct with_id; discriminate H); simpl.
    - (* create *)
      apply andb_true_iff in H as [H H3]. apply andb_true_iff in H as [H1 H2].
      apply sid_eqb_spec in H1. subst s. apply is_some_false in H2.
      split; [exact H2 | split; [|reflexivity]].
      apply (agree_total _ _ _ Cover); [|exact H3]. apply out_set. exact Om.
    - (* get *)
      apply andb_true_iff in H as [H1 H2]. apply opt_rec_eqb_true in H2. subst r.
      split; [|reflexivity]. apply (agree_total _ _ _ Cover Om H1).
    - (* touch *)
      apply andb_true_iff in H as [H1 H2]. apply eqb_prop in H2. subst b.
      split; [|reflexivity]. apply (agree_total _ _ _ Cover); [|exact H1]. apply out_touch.
    - (* delete *)
      apply andb_true_iff in H as [H1 H2]. apply eqb_prop in H2. subst b.
      split; [|reflexivity]. apply (agree_total _ _ _ Cover); [|exact H1]. apply out_del.
    - (* cleanup *)
      apply andb_true_iff in H as [H1 H2]. apply Z.eqb_eq in H2. subst n.
      split; [apply (agree_total _ _ _ Cover); [apply out_expire | exact H1]|].
      eexists. split; [reflexivity|].
      apply (counts_filter sid sid_eqb sid_eqb_spec (expired now max_age) pre ND).
    - (* list *)
      apply andb_true_iff in H as [H1 H2]. split; [apply (agree_total _ _ _ Cover Om H1)|].
      eexists. split; [reflexivity | apply listing_sound; exact H2].
    - (* count *)
      apply andb_true_iff in H as [H1 H2]. apply Z.eqb_eq in H2. subst n.
      split; [apply (agree_total _ _ _ Cover Om H1)|].
      eexists. split; [reflexivity|]. apply (counts_all sid sid_eqb sid_eqb_spec pre ND).
    - (* clear *)
      apply andb_true_iff in H as [H1 H2]. apply Z.eqb_eq in H2. subst n.
      split; [apply (agree_total _ _ _ Cover); [reflexivity | exact H1]|].
      eexists. split; [reflexivity|]. apply (counts_all sid sid_eqb sid_eqb_spec pre ND).
    - (* initialize, answered *)
      destruct with_id; [|discriminate H].
      apply andb_true_iff in H as [H H3]. apply andb_true_iff in H as [H1 H2].
      apply sid_eqb_spec in H1. subst s. apply is_some_false in H2.
      split; [exact H2|]. exists version. split; [|reflexivity].
      apply (agree_total _ _ _ Cover); [|exact H3]. apply out_set. apply out_touch_opt.
    - (* initialize, id-less *)
      destruct with_id; [discriminate H|].
      apply andb_true_iff in H as [H2 H3]. apply is_some_false in H2.
      split; [exact H2|].
      destruct (lk fresh_id post) as [r|] eqn:L; [|discriminate H3].
      exists (r_version r). split; [|reflexivity].
      apply (agree_total _ _ _ Cover); [|exact H3]. apply out_set. apply out_touch_opt.
    - (* request *)
      split; [|reflexivity].
      apply (agree_total _ _ _ Cover); [|exact H].
      destruct has_method; [apply out_touch_opt | exact Om].
  Qed.
End Sound.

(** Readable consequences of the checker theorems, stated without the
    boolean checkers (generic in the polling interval and the classifier). *)
From Coq Require Import Lia ZifyBool Sorting.Sorted.
From Verif.Base Require Import Prelude.
From Verif.Model Require Import Await.
From Verif.Spec Require Import C01 C14.
From Verif.Proofs Require Import Await AwaitSpec.
Open Scope Z_scope.

Lemma first_answer_in : forall me l a m,
  first_answer me l = Some (a, m) -> In (a, m) l /\ is_answer me m = true.
Proof.
  induction l as [|[a0 m0] l IH]; cbn; intros a m H; [discriminate|].
  destruct (is_answer me m0) eqn:Ha.
  - injection H as -> ->. split; [now left | exact Ha].
  - destruct (IH a m H). split; [now right | assumption].
Qed.

Section Readable.
  Variable poll : Z.
  Variable retryable : Z -> bool.
  Hypothesis poll_pos : 0 < poll.
  Hypothesis poll_spec_ok : poll <= poll_spec.

  Theorem never_foreign : forall t0 D me has_cb arrivals r tok,
    t0 <= D -> StronglySorted le_time arrivals ->
    In r (run poll retryable D me has_cb None t0 arrivals) ->
    r_out r = Return tok ->
    exists a i, In (a, MRes i tok) arrivals /\ rid_eqb i me = true /\
                first_answer me arrivals = Some (a, MRes i tok).
  Proof.
    intros t0 D me has_cb arrivals r tok Ht0 Hs Hin Ho.
    pose proof (run_c01 poll retryable poll_pos t0 D me has_cb arrivals r Ht0 Hs Hin) as Hok.
    unfold c01_ok in Hok. rewrite Ho in Hok.
    destruct (first_answer me arrivals) as [[a m]|] eqn:Hfa.
    - assert (Hm : out_matches m (Return tok) = true).
      { repeat (apply andb_prop in Hok as [Hok ?]).
        destruct (Z.max t0 a <? D); [assumption|].
        destruct (Z.max t0 a =? D); cbn in *; [|discriminate].
        now rewrite orb_false_r in *. }
      destruct (first_answer_in _ _ _ _ Hfa) as [Hin' Hans].
      destruct m as [i tok'|i code|i| |b v|]; cbn in Hm; try discriminate.
      apply Z.eqb_eq in Hm. subst tok'.
      exists a, i. repeat split; auto.
    - repeat (apply andb_prop in Hok as [Hok ?]). cbn in *. discriminate.
  Qed.

  Theorem no_response_times_out : forall t0 D me has_cb arrivals r,
    t0 <= D -> StronglySorted le_time arrivals ->
    first_answer me arrivals = None ->
    In r (run poll retryable D me has_cb None t0 arrivals) ->
    r_out r = Timeout /\ r_end r = D /\ r_req_written r = true.
  Proof.
    intros t0 D me has_cb arrivals r Ht0 Hs Hfa Hin.
    pose proof (run_c01 poll retryable poll_pos t0 D me has_cb arrivals r Ht0 Hs Hin) as Hok.
    unfold c01_ok in Hok. rewrite Hfa in Hok.
    repeat (apply andb_prop in Hok as [Hok ?]).
    destruct (r_out r); cbn in *; try discriminate.
    repeat split; auto. now apply Z.eqb_eq.
  Qed.

  Theorem ends_by_deadline : forall t0 D me has_cb cancel arrivals r,
    t0 <= D -> StronglySorted le_time arrivals ->
    In r (run poll retryable D me has_cb cancel t0 arrivals) ->
    r_end r <= D.
  Proof.
    intros t0 D me has_cb cancel arrivals r Ht0 Hs Hin.
    pose proof (run_c14 poll retryable poll_pos t0 D me has_cb cancel arrivals r poll_spec_ok Ht0 Hs Hin) as H.
    unfold c14_ok in H. repeat (apply andb_prop in H as [H ?]). now apply Z.leb_le.
  Qed.

  (** with a token triggered at [c]: done within one polling interval of
      max(t0, c); Cancelled comes with exactly one notification, anything else
      with none *)
  Theorem cancel_latency : forall t0 D me has_cb c arrivals r,
    t0 <= D -> StronglySorted le_time arrivals ->
    In r (run poll retryable D me has_cb (Some c) t0 arrivals) ->
    r_end r <= Z.max t0 c + poll_spec /\
    (r_out r = Cancelled -> r_cancel_notifs r = 1 /\ c <= r_end r) /\
    (r_out r <> Cancelled -> r_cancel_notifs r = 0 /\ r_req_written r = true).
  Proof.
    intros t0 D me has_cb c arrivals r Ht0 Hs Hin.
    pose proof (run_c14 poll retryable poll_pos t0 D me has_cb (Some c) arrivals r poll_spec_ok Ht0 Hs Hin) as H.
    unfold c14_ok in H.
    destruct (r_req_written r) eqn:Hw;
      repeat match goal with Hx : _ && _ = true |- _ => apply andb_prop in Hx as [? ?] end.
    - remember (r_out r) as o eqn:Ho. destruct o; cbn in *;
        repeat split; intros; try congruence; try lia.
    - (* never sent: it ended at the call itself *)
      assert (Hend : r_end r = t0 /\ c <= t0).
      { unfold run in Hin. destruct (c <? t0) eqn:Hlt.
        + destruct Hin as [<- | []]. cbn. lia.
        + apply in_app_or in Hin as [Hin | Hin].
          * destruct (c =? t0) eqn:Heq; [|contradiction]. destruct Hin as [<- | []]. cbn. lia.
          * exfalso.
            assert (Hcok : cancel_ok poll (Some c) t0) by (intros c' Hc'; injection Hc' as <-; lia).
            pose proof (loop_explained poll retryable D me has_cb (Some c) poll_pos _ _ _ _
                          (clamp_sorted t0 arrivals Hs) (clamp_ge t0 arrivals) Ht0 Hcok Hin) as He.
            destruct He as (l1 & l2 & _ & _ & _ & _ & Hw' & _). congruence. }
      remember (r_out r) as o eqn:Ho. destruct o; cbn in *; try discriminate.
      unfold poll_spec. repeat split; intros; try congruence; try lia.
  Qed.
End Readable.

(** The master lemma about Model/Await.v: every possible result of the wait
    loop is EXPLAINED by a split of the arrival history into a processed,
    non-decisive prefix and an unprocessed suffix.  All C01 / C07 / C14
    theorems are corollaries. *)
From Coq Require Import Lia ZifyBool Sorting.Sorted.
From Verif.Base Require Import Prelude.
From Verif.Model Require Import Await.
Open Scope Z_scope.

Ltac Zify.zify_post_hook ::= Z.div_mod_to_equations.

Definition le_time (x y : Z * inmsg) : Prop := fst x <= fst y.

Section AwaitFacts.
  Variable poll : Z.
  Variable retryable : Z -> bool.
  Variable D : Z.
  Variable me : rid.
  Variable has_cb : bool.
  Variable cancel : option Z.
  Hypothesis poll_pos : 0 < poll.

  Notation classify := (classify me has_cb).
  Notation loop := (loop poll retryable D me has_cb cancel).
  Notation fin := Await.fin.

  Definition quiet (m : inmsg) : Prop :=
    classify m = ASkip \/ exists v, classify m = ACallback v.

  Definition cbvals (l : list (Z * inmsg)) : list Z :=
    flat_map (fun x => match classify (snd x) with ACallback v => [v] | _ => [] end) l.

  (** [explains l h log r]: result [r], produced from a head at [h] with
      arrivals [l] and callback log [log], is accounted for by the history. *)
  Definition explains (l : list (Z * inmsg)) (h : Z) (log : list Z) (r : result) : Prop :=
    exists l1 l2,
      l = l1 ++ l2 /\
      Forall (fun x => quiet (snd x) /\ fst x <= r_end r) l1 /\
      r_cb r = rev log ++ cbvals l1 /\
      h <= r_end r <= D /\
      r_req_written r = true /\
      (forall c, cancel = Some c -> r_end r <= c + poll) /\
      Forall (fun x => r_end r <= fst x) l2 /\
      match r_out r with
      | Return tok =>
          exists a m l2', l2 = (a, m) :: l2' /\ classify m = AReturn tok /\
                          r_end r = a /\ r_cancel_notifs r = 0
      | RaiseErr b code =>
          exists a m l2', l2 = (a, m) :: l2' /\ classify m = ARaise code /\
                          b = retryable code /\ r_end r = a /\ r_cancel_notifs r = 0
      | Timeout =>
          r_end r = D /\ Forall (fun x => D <= fst x) l2 /\ r_cancel_notifs r = 0
      | Cancelled =>
          exists c, cancel = Some c /\ c <= r_end r <= c + poll /\
                    r_cancel_notifs r = 1 /\ Forall (fun x => r_end r <= fst x) l2
      end.

  Definition cancel_ok (h : Z) : Prop :=
    forall c, cancel = Some c -> h <= c + poll.

  Ltac solve_cok :=
    unfold cancel_ok;
    let c' := fresh "c'" in let Hc' := fresh "Hc'" in
    intros c' Hc';
    match goal with
    | Hcancel : cancel = _ |- _ =>
        rewrite Hcancel in Hc'; first [discriminate | injection Hc' as <-; lia]
    end.

  Lemma first_head_bounds : forall h c, h < c ->
    c <= first_head_from poll h c < c + poll.
  Proof. intros h c Hc. unfold first_head_from. nia. Qed.

  Lemma cancel_heads_some : forall h c hc,
    cancel = Some c -> h <= c -> In hc (cancel_heads poll cancel h) ->
    exists t, hc = Some t /\ c <= t <= c + poll /\ h < t.
  Proof.
    intros h c hc Hc Hh Hin. unfold cancel_heads in Hin. rewrite Hc in Hin.
    destruct (h <? c) eqn:Hlt.
    - pose proof (first_head_bounds h c ltac:(lia)) as Hb.
      destruct (first_head_from poll h c =? c) eqn:Hf.
      + destruct Hin as [<- | [<- | []]]; eexists; (split; [reflexivity|]); lia.
      + destruct Hin as [<- | []]. eexists; (split; [reflexivity|]); lia.
    - destruct Hin as [<- | []]. eexists; (split; [reflexivity|]); lia.
  Qed.

  Lemma cancel_heads_none : forall h hc,
    cancel = None -> In hc (cancel_heads poll cancel h) -> hc = None.
  Proof.
    intros h hc Hc Hin. unfold cancel_heads in Hin. rewrite Hc in Hin.
    destruct Hin as [<- | []]. reflexivity.
  Qed.

  Lemma explains_cons_quiet : forall a m l h log r,
    quiet m -> h <= a ->
    (forall v, classify m = ACallback v -> explains l a (v :: log) r) ->
    (classify m = ASkip -> explains l a log r) ->
    explains ((a, m) :: l) h log r.
  Proof.
    intros a m l h log r Hq Hha Hcb Hskip.
    destruct Hq as [Hs | [v Hv]].
    - destruct (Hskip Hs) as (l1 & l2 & -> & Hl1 & Hcbs & Hend & Hw & Hlat & Hrest & Hout).
      exists ((a, m) :: l1), l2. repeat split; auto; try lia.
      + constructor; [|exact Hl1]. cbn. split; [now left | lia].
      + rewrite Hcbs. unfold cbvals. cbn. now rewrite Hs.
    - destruct (Hcb v Hv) as (l1 & l2 & -> & Hl1 & Hcbs & Hend & Hw & Hlat & Hrest & Hout).
      exists ((a, m) :: l1), l2. repeat split; auto; try lia.
      + constructor; [|exact Hl1]. cbn. split; [right; now exists v | lia].
      + rewrite Hcbs. unfold cbvals. cbn. rewrite Hv. cbn. now rewrite <- app_assoc.
  Qed.

  (** Results that stop right here, with nothing more processed. *)
  Lemma explains_timeout_here : forall l h log,
    h <= D -> cancel_ok D -> Forall (fun x => D <= fst x) l ->
    explains l h log (fin Timeout D 0 log).
  Proof.
    intros l h log Hh Hc Hl. exists [], l. cbn. repeat split; auto; try lia.
    now rewrite app_nil_r.
  Qed.

  Lemma explains_cancel_here : forall l h log c t,
    cancel = Some c -> h <= t <= D -> c <= t <= c + poll ->
    Forall (fun x => t <= fst x) l ->
    explains l h log (fin Cancelled t 1 log).
  Proof.
    intros l h log c t Hc Ht Hct Hl. exists [], l. cbn. repeat split; auto; try lia.
    - now rewrite app_nil_r.
    - intros c' Hc'. rewrite Hc in Hc'. injection Hc' as <-. lia.
    - exists c. repeat split; auto; lia.
  Qed.

  Lemma Forall_le_trans : forall (l : list (Z * inmsg)) a b,
    b <= a -> Forall (fun x => a <= fst x) l -> Forall (fun x => b <= fst x) l.
  Proof. intros l a b Hab H. eapply Forall_impl; [|exact H]. cbn. intros. lia. Qed.

  (** The processing step of one message at time [t] (a head at [t]). *)
  Lemma step_explained : forall a m l h log r,
    h <= a <= D -> cancel_ok a -> Forall (fun x => a <= fst x) l ->
    (forall log', forall r', In r' (loop l a log') -> explains l a log' r') ->
    In r (match classify m with
          | ASkip => loop l a log
          | ACallback v => loop l a (v :: log)
          | AReturn tok => [fin (Return tok) a 0 log]
          | ARaise code => [fin (RaiseErr (retryable code) code) a 0 log]
          end) ->
    explains ((a, m) :: l) h log r.
  Proof.
    intros a m l h log r Ha Hcok Hal IH Hin.
    destruct (classify m) as [|v|tok|code] eqn:Hc.
    - apply explains_cons_quiet; [now left | lia | congruence | intros _; now apply IH].
    - apply explains_cons_quiet; [right; now exists v | lia | | congruence].
      intros v' Hv'. assert (v' = v) by congruence. subst. now apply IH.
    - destruct Hin as [<- | []]. exists [], ((a, m) :: l). cbn. repeat split; auto; try lia.
      + now rewrite app_nil_r.
      + constructor; [cbn; lia | exact Hal].
      + exists a, m, l. auto.
    - destruct Hin as [<- | []]. exists [], ((a, m) :: l). cbn. repeat split; auto; try lia.
      + now rewrite app_nil_r.
      + constructor; [cbn; lia | exact Hal].
      + exists a, m, l. auto.
  Qed.

  Theorem loop_explained : forall l h log r,
    StronglySorted le_time l ->
    Forall (fun x => h <= fst x) l ->
    h <= D -> cancel_ok h ->
    In r (loop l h log) -> explains l h log r.
  Proof.
    induction l as [|[a m] l IH]; intros h log r Hsort Hge HhD Hcan Hin.
    - (* no more arrivals *)
      cbn [Await.loop] in Hin.
      destruct cancel as [c|] eqn:Hcancel.
      + specialize (Hcan c Hcancel).
        destruct (c <? h) eqn:Hdef.
        * apply in_app_or in Hin as [Hin | Hin].
          -- destruct (h =? D) eqn:HD; [|contradiction]. destruct Hin as [<- | []].
             apply explains_timeout_here; auto; try solve_cok.
          -- destruct Hin as [<- | []].
             eapply explains_cancel_here; eauto; lia.
        * apply in_app_or in Hin as [Hin | Hin].
          { destruct (c =? h) eqn:Hmay; [|contradiction]. destruct Hin as [<- | []].
            eapply explains_cancel_here; eauto; lia. }
          apply in_app_or in Hin as [Hin | Hin].
          { destruct (h =? D) eqn:HD; [|contradiction]. destruct Hin as [<- | []].
            apply explains_timeout_here; auto; try solve_cok. }
          apply in_flat_map in Hin. destruct Hin as (hc0 & Hhc0 & Hin).
          rewrite <- Hcancel in Hhc0.
          destruct (cancel_heads_some h c hc0 Hcancel ltac:(lia) Hhc0) as (hc & -> & Hhcb & Hhhc).
          cbn [min_opt is_time] in Hin.
          apply in_app_or in Hin as [Hin | Hin].
          -- match type of Hin with In _ (if ?b then _ else _) => destruct b eqn:He end;
               [|contradiction]. destruct Hin as [<- | []].
             eapply explains_cancel_here; eauto; lia.
          -- match type of Hin with In _ (if ?b then _ else _) => destruct b eqn:He end;
               [|contradiction]. destruct Hin as [<- | []].
             apply explains_timeout_here; auto; try solve_cok.
      + cbn in Hin. rewrite app_nil_r in Hin.
        apply in_app_or in Hin as [Hin | Hin].
        { destruct (h =? D) eqn:HD; [|contradiction]. destruct Hin as [<- | []].
          apply explains_timeout_here; auto; try solve_cok. }
        rewrite Z.eqb_refl in Hin. destruct Hin as [<- | []].
        apply explains_timeout_here; auto; try solve_cok.
    - (* next arrival (a, m) *)
      inversion Hsort as [|? ? Hsort' Hall]; subst.
      inversion Hge as [|? ? Hha Hge']; subst. cbn [fst] in Hha.
      assert (Hall' : Forall (fun x => a <= fst x) l).
      { eapply Forall_impl; [|exact Hall]. intros x Hx. exact Hx. }
      assert (IHa : forall a', h <= a' -> a' <= a -> a' <= D -> cancel_ok a' ->
                    forall log' r', In r' (loop l a' log') -> explains l a' log' r').
      { intros a' H1 H2 H3 H4 log' r' Hr'. apply IH; auto.
        eapply Forall_le_trans; [|exact Hall']. lia. }
      cbn [Await.loop] in Hin.
      destruct cancel as [c|] eqn:Hcancel.
      + specialize (Hcan c Hcancel).
        destruct (c <? h) eqn:Hdef.
        * apply in_app_or in Hin as [Hin | Hin].
          -- destruct (h =? D) eqn:HD; [|contradiction]. destruct Hin as [<- | []].
             apply explains_timeout_here; auto; try solve_cok.
             all: try (constructor; [cbn; lia|]; eapply Forall_le_trans; [|exact Hall']; lia).
          -- destruct Hin as [<- | []].
             eapply explains_cancel_here; eauto; try lia.
             all: try (constructor; [cbn; lia|]; eapply Forall_le_trans; [|exact Hall']; lia).
        * apply in_app_or in Hin as [Hin | Hin].
          { destruct (c =? h) eqn:Hmay; [|contradiction]. destruct Hin as [<- | []].
            eapply explains_cancel_here; eauto; try lia.
            all: try (constructor; [cbn; lia|]; eapply Forall_le_trans; [|exact Hall']; lia). }
          apply in_app_or in Hin as [Hin | Hin].
          { destruct (h =? D) eqn:HD; [|contradiction]. destruct Hin as [<- | []].
            apply explains_timeout_here; auto; try solve_cok.
            all: try (constructor; [cbn; lia|]; eapply Forall_le_trans; [|exact Hall']; lia). }
          destruct (a <=? h) eqn:Hah.
          -- (* already queued: processed at this head *)
             assert (a = h) by lia. subst a.
             rewrite <- Hcancel in Hin, IHa. eapply step_explained; [lia | solve_cok | first [exact Hall' | exact Hge'] | | exact Hin].
             intros log' r' Hr'. apply (IHa h); auto; try lia.
             all: try (intros c' Hc'; rewrite Hcancel in Hc'; injection Hc' as <-; lia).
          -- apply in_flat_map in Hin. destruct Hin as (hc0 & Hhc0 & Hin).
             rewrite <- Hcancel in Hhc0.
             destruct (cancel_heads_some h c hc0 Hcancel ltac:(lia) Hhc0) as (hc & -> & Hhcb & Hhhc).
             cbn [min_opt is_time] in Hin.
             apply in_app_or in Hin as [Hin | Hin].
             ++ match type of Hin with In _ (if ?b then _ else _) => destruct b eqn:He end;
                  [|contradiction].
                rewrite <- Hcancel in Hin, IHa. eapply step_explained; [lia | solve_cok | first [exact Hall' | exact Hge'] | | exact Hin].
                intros log' r' Hr'. apply (IHa a); auto; try lia.
                all: try (intros c' Hc'; rewrite Hcancel in Hc'; injection Hc' as <-; lia).
             ++ apply in_app_or in Hin as [Hin | Hin].
                ** match type of Hin with In _ (if ?b then _ else _) => destruct b eqn:He end;
                     [|contradiction]. destruct Hin as [<- | []].
                   eapply explains_cancel_here; eauto; try lia.
                   all: try (constructor; [cbn; lia|]; eapply Forall_le_trans; [|exact Hall']; lia).
                ** match type of Hin with In _ (if ?b then _ else _) => destruct b eqn:He end;
                     [|contradiction]. destruct Hin as [<- | []].
                   apply explains_timeout_here; auto; try solve_cok.
                   all: try (constructor; [cbn; lia|]; eapply Forall_le_trans; [|exact Hall']; lia).
      + cbn in Hin.
        apply in_app_or in Hin as [Hin | Hin].
        { destruct (h =? D) eqn:HD; [|contradiction]. destruct Hin as [<- | []].
          apply explains_timeout_here; auto; try solve_cok.
          all: try (constructor; [cbn; lia|]; eapply Forall_le_trans; [|exact Hall']; lia). }
        destruct (a <=? h) eqn:Hah.
        * assert (a = h) by lia. subst a.
          rewrite <- Hcancel in Hin, IHa. eapply step_explained; [lia | solve_cok | first [exact Hall' | exact Hge'] | | exact Hin].
          intros log' r' Hr'. apply (IHa h); auto; try lia. all: try (intros c' Hc'; rewrite Hcancel in Hc'; discriminate).
        * rewrite app_nil_r in Hin. apply in_app_or in Hin as [Hin | Hin].
          -- match type of Hin with In _ (if ?b then _ else _) => destruct b eqn:He end;
               [|contradiction].
             rewrite <- Hcancel in Hin, IHa. eapply step_explained; [lia | solve_cok | first [exact Hall' | exact Hge'] | | exact Hin].
             intros log' r' Hr'. apply (IHa a); auto; try lia. all: try (intros c' Hc'; rewrite Hcancel in Hc'; discriminate).
          -- match type of Hin with In _ (if ?b then _ else _) => destruct b eqn:He end;
               [|contradiction]. destruct Hin as [<- | []].
             apply explains_timeout_here; auto; try solve_cok.
             all: try (constructor; [cbn; lia|]; eapply Forall_le_trans; [|exact Hall']; lia).
  Qed.
End AwaitFacts.

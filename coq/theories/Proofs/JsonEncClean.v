(** The reference encoder never emits a control character / control byte
    (C17 single frame, C06 no raw line break).  Holds for EVERY value — no
    well-formedness of strings is needed — and every policy. *)
From Coq Require Import Lia ZifyBool.
From Verif.Base Require Import Prelude JsonVal.
From Verif.Model Require Import JsonEnc.
From Verif.Proofs Require Import JsonVal.
Open Scope Z_scope.

Definition clean (s : list Z) : Prop := Forall (fun c => 32 <= c) s.

Lemma clean_app a b : clean a -> clean b -> clean (a ++ b).
Proof. intros; apply Forall_app; split; assumption. Qed.

Lemma clean_cons c s : 32 <= c -> clean s -> clean (c :: s).
Proof. intros; constructor; assumption. Qed.

Lemma hexd_ge n : 48 <= hexd n.
Proof.
  unfold hexd. pose proof (Z.mod_pos_bound n 16 ltac:(lia)).
  destruct (n mod 16 <? 10); lia.
Qed.

Lemma hexd_le n : hexd n <= 102.
Proof.
  unfold hexd. pose proof (Z.mod_pos_bound n 16 ltac:(lia)).
  destruct (n mod 16 <? 10) eqn:E; lia.
Qed.

Lemma uesc_clean u : clean (uesc u).
Proof.
  unfold uesc, hex4.
  repeat (apply clean_cons; [first [lia | pose proof (hexd_ge (u / 4096)); pose proof (hexd_ge (u / 256));
                                          pose proof (hexd_ge (u / 16)); pose proof (hexd_ge u); lia]|]).
  constructor.
Qed.

Lemma esc_char_clean a c : clean (esc_char a c).
Proof.
  unfold esc_char.
  repeat match goal with
         | |- context [if ?b then _ else _] => destruct b eqn:?
         end;
    try apply uesc_clean;
    try (apply clean_app; apply uesc_clean);
    repeat (apply clean_cons; [lia|]); try constructor.
Qed.

Lemma esc_str_clean a s : clean (esc_str a s).
Proof.
  unfold esc_str. apply Forall_flat_map_intro.
  induction s; constructor; [apply esc_char_clean | assumption].
Qed.

Lemma render_string_clean a s : clean (render_string a s).
Proof.
  unfold render_string. apply clean_cons; [lia|].
  apply clean_app; [apply esc_str_clean | repeat constructor; lia].
Qed.

(** digits *)
Lemma digits_fuel_clean f : forall n acc, clean acc -> clean (digits_fuel f n acc).
Proof.
  induction f; intros n acc H; cbn [digits_fuel]; [assumption|].
  pose proof (Z.mod_pos_bound n 10 ltac:(lia)).
  destruct (n <? 10).
  - apply clean_cons; [lia | assumption].
  - apply IHf. apply clean_cons; [lia | assumption].
Qed.

Lemma int_chars_clean z : clean (int_chars z).
Proof.
  unfold int_chars, nat_chars. destruct (z <? 0).
  - apply clean_cons; [lia|]. apply digits_fuel_clean. constructor.
  - apply digits_fuel_clean. constructor.
Qed.

Lemma item_sep_clean p : clean (item_sep p).
Proof. unfold item_sep; destruct (pol_spaced p); repeat constructor; lia. Qed.

Lemma key_sep_clean p : clean (key_sep p).
Proof. unfold key_sep; destruct (pol_spaced p); repeat constructor; lia. Qed.

Local Opaque render_string int_chars.

Section Clean.
  Variable F : Type.
  Variable ftext : F -> str.

  Lemma render_clean p : forall v : json F, float_texts_clean ftext v -> clean (render ftext p v).
  Proof.
    induction v using json_ind'; intros Hf; simpl.
    - repeat constructor; lia.
    - destruct b; repeat constructor; lia.
    - apply int_chars_clean.
    - exact Hf.
    - apply render_string_clean.
    - destruct l as [|v0 l']; [repeat constructor; lia|].
      simpl in Hf. destruct Hf as [Hf0 Hfl]. inversion H as [|? ? H0 Hl]; subst.
      apply clean_cons; [lia|]. apply clean_app; [auto|].
      apply clean_app; [|repeat constructor; lia].
      apply Forall_flat_map_intro.
      clear H H0 Hf0 v0. induction l' as [|x l' IH]; [constructor|].
      simpl in Hfl. destruct Hfl. inversion Hl; subst.
      constructor; [apply clean_app; [apply item_sep_clean | auto] | auto].
    - destruct m as [|[k0 v0] m']; [repeat constructor; lia|].
      simpl in Hf. destruct Hf as [Hf0 Hfl]. inversion H as [|? ? H0 Hl]; subst. simpl in H0.
      apply clean_cons; [lia|].
      apply clean_app; [apply render_string_clean|].
      apply clean_app; [apply key_sep_clean|].
      apply clean_app; [auto|].
      apply clean_app; [|repeat constructor; lia].
      apply Forall_flat_map_intro.
      clear H H0 Hf0 v0 k0. induction m' as [|[k x] m' IH]; [constructor|].
      simpl in Hfl. destruct Hfl. inversion Hl; subst. simpl in *.
      constructor; [|auto].
      apply clean_app; [apply item_sep_clean|].
      apply clean_app; [apply render_string_clean|].
      apply clean_app; [apply key_sep_clean | auto].
  Qed.
End Clean.

(** UTF-8: a byte below 0x80 only ever encodes itself *)
Lemma utf8_high_bytes c : 128 <= c -> Forall (fun b => 128 <= b) (utf8 c).
Proof.
  intros Hc. unfold utf8.
  pose proof (Z.mod_pos_bound c 64 ltac:(lia)).
  pose proof (Z.mod_pos_bound (c / 64) 64 ltac:(lia)).
  pose proof (Z.mod_pos_bound (c / 4096) 64 ltac:(lia)).
  assert (0 <= c / 64) by (apply Z.div_pos; lia).
  assert (0 <= c / 4096) by (apply Z.div_pos; lia).
  assert (0 <= c / 262144) by (apply Z.div_pos; lia).
  destruct (c <? 128) eqn:?; [lia|].
  destruct (c <? 2048); [repeat constructor; lia|].
  destruct (c <? 65536); repeat constructor; lia.
Qed.

Lemma utf8_low c b : In b (utf8 c) -> b < 128 -> c < 128 /\ b = c.
Proof.
  intros Hin Hb. destruct (Z.ltb_spec c 128) as [Hc|Hc].
  - unfold utf8 in Hin. destruct (c <? 128) eqn:E; [|lia]. simpl in Hin. intuition lia.
  - pose proof (utf8_high_bytes c Hc) as H. rewrite Forall_forall in H. specialize (H b Hin). lia.
Qed.

Lemma utf8_clean c : 32 <= c -> clean (utf8 c).
Proof.
  intros Hc. destruct (Z.ltb_spec c 128) as [H|H].
  - unfold utf8. destruct (c <? 128) eqn:E; [|lia]. repeat constructor; lia.
  - eapply Forall_impl; [|apply utf8_high_bytes; assumption]. simpl; intros; lia.
Qed.

Lemma utf8_str_clean s : clean s -> clean (utf8_str s).
Proof.
  intros H. unfold utf8_str. apply Forall_flat_map_intro.
  eapply Forall_impl; [|exact H]. apply utf8_clean.
Qed.

Theorem ref_encode_no_control_byte :
  forall (F : Type) (ftext : F -> str) (p : policy) (v : json F),
    float_texts_clean ftext v ->
    Forall (fun b => 32 <= b) (ref_encode ftext p v).
Proof.
  intros. unfold ref_encode. apply utf8_str_clean. apply render_clean. assumption.
Qed.

Corollary ref_encode_single_frame :
  forall (F : Type) (ftext : F -> str) (p : policy) (v : json F),
    float_texts_clean ftext v ->
    ~ In 10 (ref_encode ftext p v) /\ ~ In 13 (ref_encode ftext p v).
Proof.
  intros F ftext p v H. pose proof (ref_encode_no_control_byte F ftext p v H) as Hc.
  rewrite Forall_forall in Hc. split; intros Hin; apply Hc in Hin; lia.
Qed.

(** Facts about Base/Prelude.v's string equality and membership, shared by the
    negotiation proofs (C03, C04). *)
From Coq Require Import Lia.
From Verif.Base Require Import Prelude.
Open Scope Z_scope.

Lemma str_eqb_eq : forall a b, str_eqb a b = true <-> a = b.
Proof.
  induction a as [|x a IH]; destruct b as [|y b]; cbn; split; intro H;
    try reflexivity; try discriminate.
  - apply andb_true_iff in H. destruct H as [H1 H2].
    apply Z.eqb_eq in H1. apply IH in H2. subst. reflexivity.
  - inversion H; subst. apply andb_true_iff. split.
    + apply Z.eqb_refl.
    + apply IH. reflexivity.
Qed.

Lemma str_eqb_refl : forall a, str_eqb a a = true.
Proof. intro a. apply str_eqb_eq. reflexivity. Qed.

Lemma str_eqb_neq : forall a b, str_eqb a b = false <-> a <> b.
Proof.
  intros a b. split; intro H.
  - intro E. apply str_eqb_eq in E. congruence.
  - destruct (str_eqb a b) eqn:E; [apply str_eqb_eq in E; contradiction | reflexivity].
Qed.

Lemma mem_str_In : forall x l, mem_str x l = true <-> In x l.
Proof.
  intros x l. induction l as [|y l IH]; cbn.
  - split; [discriminate | contradiction].
  - rewrite orb_true_iff, IH, str_eqb_eq. split; intros [H|H]; auto.
Qed.

Lemma mem_str_not_In : forall x l, mem_str x l = false <-> ~ In x l.
Proof.
  intros x l. split; intro H.
  - intro HI. apply mem_str_In in HI. congruence.
  - destruct (mem_str x l) eqn:E; [apply mem_str_In in E; contradiction | reflexivity].
Qed.

Lemma hd_error_In : forall (A : Type) (l : list A) x, hd_error l = Some x -> In x l.
Proof. intros A [|y l] x H; cbn in *; [discriminate | inversion H; auto]. Qed.

Lemma hd_error_nonempty : forall (A : Type) (l : list A), l <> [] -> exists x, hd_error l = Some x.
Proof. intros A [|y l] H; [contradiction | eexists; reflexivity]. Qed.

Lemma option_str_eqb_eq : forall a b : option str, option_eqb str_eqb a b = true <-> a = b.
Proof.
  intros [a|] [b|]; cbn; split; intro H; try reflexivity; try discriminate.
  - apply str_eqb_eq in H. congruence.
  - inversion H. apply str_eqb_refl.
Qed.

(** Reference codec round trip, part 1: strict UTF-8.
    [utf8_dec (utf8_str s) = Some s] for every list of Unicode scalar values. *)
From Coq Require Import Lia ZifyBool.
From Verif.Base Require Import Prelude JsonVal.
From Verif.Model Require Import JsonEnc.
Open Scope Z_scope.

Ltac Zify.zify_post_hook ::= Z.div_mod_to_equations.

Lemma is_scalar_range c :
  is_scalar c = true -> (0 <= c < 55296) \/ (57344 <= c <= 1114111).
Proof. unfold is_scalar, is_surrogate. lia. Qed.

(** one code point, any continuation *)
Lemma utf8_dec_utf8 c r :
  is_scalar c = true -> utf8_dec (utf8 c ++ r) = ocons1 c (utf8_dec r).
Proof.
  intros Hs. apply is_scalar_range in Hs.
  unfold utf8.
  destruct (c <? 128) eqn:E1.
  { cbn [app utf8_dec].
    replace (c <? 0) with false by lia. rewrite E1. reflexivity. }
  destruct (c <? 2048) eqn:E2.
  { cbn [app utf8_dec].
    replace (192 + c / 64 <? 0) with false by lia.
    replace (192 + c / 64 <? 128) with false by lia.
    replace (192 + c / 64 <? 192) with false by lia.
    replace (192 + c / 64 <? 224) with true by lia.
    replace ((192 + c / 64 - 192) * 64 + (128 + c mod 64 - 128)) with c by lia.
    replace (is_cont (128 + c mod 64)) with true by (unfold is_cont; lia).
    replace (128 <=? c) with true by lia. reflexivity. }
  destruct (c <? 65536) eqn:E3.
  { cbn [app utf8_dec].
    replace (224 + c / 4096 <? 0) with false by lia.
    replace (224 + c / 4096 <? 128) with false by lia.
    replace (224 + c / 4096 <? 192) with false by lia.
    replace (224 + c / 4096 <? 224) with false by lia.
    replace (224 + c / 4096 <? 240) with true by lia.
    replace ((224 + c / 4096 - 224) * 4096 + (128 + (c / 64) mod 64 - 128) * 64 + (128 + c mod 64 - 128))
      with c by lia.
    replace (is_cont (128 + (c / 64) mod 64)) with true by (unfold is_cont; lia).
    replace (is_cont (128 + c mod 64)) with true by (unfold is_cont; lia).
    replace (2048 <=? c) with true by lia.
    replace (is_surrogate c) with false by (unfold is_surrogate; lia).
    reflexivity. }
  cbn [app utf8_dec].
  replace (240 + c / 262144 <? 0) with false by lia.
  replace (240 + c / 262144 <? 128) with false by lia.
  replace (240 + c / 262144 <? 192) with false by lia.
  replace (240 + c / 262144 <? 224) with false by lia.
  replace (240 + c / 262144 <? 240) with false by lia.
  replace (240 + c / 262144 <? 248) with true by lia.
  replace ((240 + c / 262144 - 240) * 262144 + (128 + (c / 4096) mod 64 - 128) * 4096
           + (128 + (c / 64) mod 64 - 128) * 64 + (128 + c mod 64 - 128)) with c by lia.
  replace (is_cont (128 + (c / 4096) mod 64)) with true by (unfold is_cont; lia).
  replace (is_cont (128 + (c / 64) mod 64)) with true by (unfold is_cont; lia).
  replace (is_cont (128 + c mod 64)) with true by (unfold is_cont; lia).
  replace (65536 <=? c) with true by lia.
  replace (c <=? 1114111) with true by lia.
  reflexivity.
Qed.

Lemma utf8_dec_app s : forall r,
  Forall (fun c => is_scalar c = true) s ->
  utf8_dec (utf8_str s ++ r) = match utf8_dec r with Some x => Some (s ++ x) | None => None end.
Proof.
  induction s as [|c s IH]; intros r H.
  - simpl. destruct (utf8_dec r); reflexivity.
  - inversion H; subst. unfold utf8_str in *. cbn [flat_map].
    rewrite <- app_assoc, utf8_dec_utf8 by assumption.
    rewrite IH by assumption. destruct (utf8_dec r); reflexivity.
Qed.

Theorem utf8_roundtrip s :
  Forall (fun c => is_scalar c = true) s -> utf8_dec (utf8_str s) = Some s.
Proof.
  intros H. rewrite <- (app_nil_r (utf8_str s)), utf8_dec_app by assumption.
  simpl. rewrite app_nil_r. reflexivity.
Qed.

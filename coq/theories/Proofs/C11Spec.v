(** Reflection lemmas: the boolean checkers the harness runs on the
    IMPLEMENTATION's observations decide exactly the declarative predicates of
    Spec/C11.v that the theorems are stated with. *)
From Coq Require Import Lia.
From Verif.Base Require Import Prelude HttpBase.
From Verif.Spec Require Import C11.
Open Scope Z_scope.

Lemma str_eqb_eq : forall a b, str_eqb a b = true <-> a = b.
Proof.
  induction a as [|x a IH]; destruct b as [|y b]; simpl; split; intros H; try discriminate; auto.
  - apply andb_true_iff in H as [H1 H2]. apply Z.eqb_eq in H1. apply IH in H2. subst. reflexivity.
  - injection H as -> ->. rewrite Z.eqb_refl. apply IH. reflexivity.
Qed.

Lemma jid_eqb_eq : forall a b, jid_eqb a b = true <-> a = b.
Proof.
  destruct a as [x|x], b as [y|y]; simpl; split; intros H; try discriminate.
  - apply Z.eqb_eq in H. subst. reflexivity.
  - injection H as ->. apply Z.eqb_refl.
  - apply str_eqb_eq in H. subst. reflexivity.
  - injection H as ->. apply str_eqb_eq. reflexivity.
Qed.

Lemma is_nil_eq : forall A (l : list A), is_nil l = true <-> l = [].
Proof. destruct l; simpl; split; intros H; try discriminate; auto. Qed.

Section Reflect.
  Variable M : Type.
  Variable answers : jid -> M -> bool.

  Theorem terminal_ok_spec : forall rid out,
    terminal_ok M answers rid out = true <-> Spec_terminal M answers rid out.
  Proof.
    intros rid out. unfold terminal_ok, Spec_terminal. destruct rid as [r|].
    - destruct (existsb (answers r) (servers M out)) eqn:E.
      + rewrite is_nil_eq. split.
        * intros H. left. auto.
        * intros [[_ H] | [H _]]; [exact H | discriminate].
      + split.
        * intros H. right. split; [reflexivity|].
          destruct (synths M out) as [|s [|s' t]]; try discriminate.
          unfold synth_is in H. destruct s as [[i|] [|]]; try discriminate.
          apply jid_eqb_eq in H. subst. reflexivity.
        * intros [[H _] | [_ H]]; [discriminate|]. rewrite H. unfold synth_is.
          apply jid_eqb_eq. reflexivity.
    - rewrite andb_true_iff, Nat.leb_le, forallb_forall. split.
      + intros [H1 H2]. split; [exact H1|]. intros s Hs. specialize (H2 s Hs). destruct (fst s); [discriminate | reflexivity].
      + intros [H1 H2]. split; [exact H1|]. intros s Hs. rewrite (H2 s Hs). reflexivity.
  Qed.
End Reflect.

Theorem session_ok_spec : forall init hist sent,
  session_ok init hist sent = true <-> sent = demanded_header init hist.
Proof.
  intros init hist sent. unfold session_ok.
  destruct sent as [a|], (demanded_header init hist) as [b|]; simpl; split; intros H; try discriminate; auto.
  - apply str_eqb_eq in H. subst. reflexivity.
  - injection H as ->. apply str_eqb_eq. reflexivity.
Qed.

(** [most_recent] is the LAST issued id of the history. *)
Theorem most_recent_last : forall pre s post,
  Forall (fun x => x = None) post -> most_recent (pre ++ Some s :: post) = Some s.
Proof.
  induction pre as [|x pre IH]; intros s post H.
  - cbn [app most_recent]. assert (E : most_recent post = None).
    { induction H as [|y post Hy _ IHp]; [reflexivity|]. cbn [most_recent]. rewrite IHp. exact Hy. }
    rewrite E. reflexivity.
  - cbn [app most_recent]. rewrite (IH s post H). reflexivity.
Qed.

Theorem most_recent_none : forall h, Forall (fun x => x = None) h -> most_recent h = None.
Proof.
  induction 1 as [|y h Hy _ IH]; [reflexivity|]. cbn [most_recent]. rewrite IH. exact Hy.
Qed.

(** C15 — proofs: every carrier's receive path hands the common decoder exactly
    the server's message texts, in order, whatever the framing choices and the
    chunking; and the legacy carrier's sender / event-stream race preserves the
    order of a sequential conversation. *)
From Coq Require Import Lia.
From Verif.Base Require Import Prelude StdioUtf8 SseVocab Json.
From Verif.Base Require HttpBase.
From Verif.Model Require Import Carrier.
From Verif.Model Require Lines HttpSse SseLegacy.
From Verif.Spec Require C05 C11.
From Verif.Spec Require Import C15.
From Verif.Proofs Require StdioUtf8 Lines HttpSse SseLegacy JsonFacts.
Open Scope Z_scope.

(* ------------------------------------------------------------------ *)
(** * Admissible messages                                               *)
(* ------------------------------------------------------------------ *)
Lemma msg_ok_c11 : forall m, msg_ok m = true -> C11.msg_ok m = true.
Proof. unfold msg_ok. intros m H. apply andb_prop in H. tauto. Qed.

Lemma msg_ok_scalar : forall m, msg_ok m = true -> forallb is_scalar m = true.
Proof. unfold msg_ok. intros m H. apply andb_prop in H. tauto. Qed.

Lemma msg_ok_head : forall m, msg_ok m = true -> exists t, m = 123 :: t.
Proof. intros. apply HttpSse.msg_ok_shape. apply msg_ok_c11. assumption. Qed.

Lemma msg_ok_last : forall m, msg_ok m = true -> last m 0 = 125.
Proof. intros. apply HttpSse.msg_ok_last. apply msg_ok_c11. assumption. Qed.

Lemma msg_ok_safe : forall m, msg_ok m = true -> HttpBase.line_safe m = true.
Proof. intros. apply HttpSse.msg_ok_safe. apply msg_ok_c11. assumption. Qed.

Lemma line_safe_not_in : forall m, HttpBase.line_safe m = true -> ~ In 10 m /\ ~ In 13 m.
Proof.
  induction m as [|c m IH]; simpl; intros H; [tauto|].
  apply andb_prop in H. destruct H as [Hc H]. apply andb_prop in Hc. destruct Hc as [H10 H13].
  destruct (IH H). split; intros [E|E]; try tauto; subst c; discriminate.
Qed.

Lemma rev_last_head : forall (m : str) d, m <> [] -> exists t, rev m = last m d :: t.
Proof.
  intros m d H. destruct (exists_last H) as (m' & x & ->).
  rewrite rev_app_distr, last_last. simpl. eauto.
Qed.

(* ------------------------------------------------------------------ *)
(** * stdio                                                             *)
(* ------------------------------------------------------------------ *)
Definition wire_text (cm : bool * str) : str := snd cm ++ (if fst cm then [13] else []).

Lemma stdio_frame_terminated : forall l,
  stdio_frame l = C05.terminated (map utf8_enc (map wire_text l)).
Proof.
  induction l as [|[b m] l IH]; [reflexivity|].
  unfold stdio_frame, C05.terminated in *. cbn [flat_map map]. rewrite IH.
  unfold stdio_line, wire_text. cbn [fst snd]. rewrite StdioUtf8.utf8_enc_app.
  destruct b; cbn; rewrite <- ?app_assoc; reflexivity.
Qed.

Lemma strip_msg : forall m, msg_ok m = true -> strip m = m.
Proof.
  intros m H. destruct (msg_ok_head m H) as (t & E).
  unfold strip, rstrip.
  destruct (rev_last_head m 0) as (r & Hr); [subst; discriminate|].
  rewrite (msg_ok_last _ H) in Hr. rewrite Hr.
  change (StdioUtf8.lstrip (125 :: r)) with (125 :: r).
  rewrite <- Hr, rev_involutive. subst m. reflexivity.
Qed.

Lemma strip_wire_text : forall cm, msg_ok (snd cm) = true -> strip (wire_text cm) = snd cm.
Proof.
  intros [b m] H. unfold wire_text. cbn [fst snd] in *.
  destruct b; [rewrite StdioUtf8.strip_cr|rewrite app_nil_r]; apply strip_msg; assumption.
Qed.

Lemma wire_text_ok : forall cm, msg_ok (snd cm) = true ->
  forallb is_scalar (wire_text cm) = true /\ ~ In 10 (wire_text cm).
Proof.
  intros [b m] H. unfold wire_text. cbn [fst snd] in *.
  pose proof (msg_ok_scalar m H) as Hs. destruct (line_safe_not_in m (msg_ok_safe m H)) as [H10 _].
  split.
  - rewrite forallb_app, Hs. destruct b; reflexivity.
  - intros Hin. apply in_app_or in Hin. destruct Hin as [Hin|Hin]; [tauto|].
    destruct b; simpl in Hin; [destruct Hin as [E|[]]; discriminate | tauto].
Qed.

Lemma stdio_transcript : forall (T : Type) (parse : str -> list T) l chunks,
  forallb (fun cm => msg_ok (snd cm)) l = true ->
  concat chunks = stdio_frame l ->
  rx_stdio T parse chunks = flat_map parse (map snd l).
Proof.
  intros T parse l chunks Hok Hc. unfold rx_stdio.
  rewrite (Lines.text_lines_delivered T parse (map wire_text l) chunks).
  - clear Hc. induction l as [|cm l IH]; [reflexivity|].
    cbn [forallb] in Hok. apply andb_prop in Hok. destruct Hok as [Hm Hok].
    cbn [map flat_map]. rewrite IH by assumption.
    rewrite strip_wire_text by assumption.
    destruct (msg_ok_head _ Hm) as (t & ->). reflexivity.
  - apply Forall_forall. intros t Ht. apply in_map_iff in Ht. destruct Ht as (cm & <- & Hin).
    apply wire_text_ok. rewrite forallb_forall in Hok. apply (Hok cm Hin).
  - rewrite Hc. apply stdio_frame_terminated.
Qed.

(* ------------------------------------------------------------------ *)
(** * Streamable HTTP, SSE body                                         *)
(* ------------------------------------------------------------------ *)
Lemma http_sse_transcript : forall (T : Type) (parse : str -> list T) (l : list (C11.enc_choice * str)),
  forallb C11.event_ok l = true ->
  rx_http_sse T parse (http_sse_frame l) = flat_map parse (map snd l).
Proof.
  intros. unfold rx_http_sse, http_sse_frame. rewrite HttpSse.sse_roundtrip by assumption. reflexivity.
Qed.

(* ------------------------------------------------------------------ *)
(** * Legacy SSE: the stream parser                                     *)
(* ------------------------------------------------------------------ *)
Import Verif.Model.SseLegacy.

Lemma nonl_of_safe : forall s, HttpBase.line_safe s = true -> SseLegacy.nonl s.
Proof.
  unfold SseLegacy.nonl. induction s as [|c s IH]; simpl; intros H; [reflexivity|].
  apply andb_prop in H. destruct H as [Hc H]. apply andb_prop in Hc. destruct Hc as [H10 _].
  rewrite H10, IH by assumption. reflexivity.
Qed.

Lemma lines_rest_one : forall l s, SseLegacy.nonl l ->
  lines_rest [] (l ++ 10 :: s) = (l :: fst (lines_rest [] s), snd (lines_rest [] s)).
Proof.
  intros l s H. rewrite SseLegacy.lines_rest_prefix0 by assumption. simpl. reflexivity.
Qed.

(** The physical lines of a text built from logical lines [ls], each followed by [eol]. *)
Lemma lines_rest_lines : forall (crlf : bool) ls rest,
  Forall (fun l => HttpBase.line_safe l = true) ls ->
  lines_rest [] (flat_map (fun l => l ++ (if crlf then [13; 10] else [10])) ls ++ rest)
  = (map (fun l => l ++ (if crlf then [13] else [])) ls ++ fst (lines_rest [] rest), snd (lines_rest [] rest)).
Proof.
  intros crlf ls rest H. induction H as [|l ls Hl _ IH]; [cbn [flat_map map app]; destruct (lines_rest [] rest); reflexivity|].
  cbn [flat_map map app]. rewrite <- app_assoc.
  replace ((l ++ (if crlf then [13; 10] else [10])) ++ flat_map (fun l0 => l0 ++ (if crlf then [13; 10] else [10])) ls ++ rest)
    with ((l ++ (if crlf then [13] else [])) ++ 10 :: flat_map (fun l0 => l0 ++ (if crlf then [13; 10] else [10])) ls ++ rest)
    by (destruct crlf; rewrite <- !app_assoc; reflexivity).
  rewrite lines_rest_one.
  - rewrite IH. reflexivity.
  - apply SseLegacy.nonl_app; [apply nonl_of_safe; assumption|destruct crlf; reflexivity].
Qed.

Lemma drop_cr_safe_rev : forall l, ~ In 13 l -> SseLegacy.rstrip_cr l = l.
Proof.
  intros l H. unfold SseLegacy.rstrip_cr.
  assert (E : forall r, ~ In 13 r -> drop_cr r = r).
  { intros r Hr. destruct r as [|c r]; [reflexivity|]. simpl.
    destruct (c =? 13) eqn:Ec; [|reflexivity]. exfalso. apply Hr. left. lia. }
  rewrite E; [apply rev_involutive|]. intros Hin. apply H. apply in_rev. assumption.
Qed.

Lemma rstrip_cr_wire : forall (crlf : bool) l, HttpBase.line_safe l = true ->
  SseLegacy.rstrip_cr (l ++ (if crlf then [13] else [])) = l.
Proof.
  intros crlf l H. destruct (line_safe_not_in l H) as [_ H13].
  destruct crlf; [rewrite SseLegacy.rstrip_cr_snoc|rewrite app_nil_r]; apply drop_cr_safe_rev; assumption.
Qed.

Lemma py_strip_msg : forall m, msg_ok m = true -> SseVocab.py_strip m = m.
Proof.
  intros m H. destruct (msg_ok_head m H) as (t & E). unfold SseVocab.py_strip.
  assert (E1 : SseVocab.lstrip m = m) by (subst m; reflexivity).
  rewrite E1.
  destruct (rev_last_head m 0) as (r & Hr); [subst; discriminate|].
  rewrite (msg_ok_last _ H) in Hr. rewrite Hr.
  change (SseVocab.lstrip (125 :: r)) with (125 :: r).
  rewrite <- Hr. apply rev_involutive.
Qed.

Section LegacyLines.
  Variable c : cfg.
  Hypothesis Hsp : c_opt_space c = true.
  Variable base url : str.
  Hypothesis Hurl : url <> [].

  Let st0 := LState None (Some url).
  Let st1 := LState (Some SseLegacy.s_message) (Some url).

  Lemma handle_comment : forall (crlf : bool) st s, HttpBase.line_safe s = true ->
    handle_line c base st ((58 :: s) ++ (if crlf then [13] else [])) = (st, []).
  Proof.
    intros crlf st s H. unfold handle_line.
    rewrite (rstrip_cr_wire crlf (58 :: s)) by (unfold HttpBase.line_safe in *; cbn [forallb]; rewrite H; reflexivity).
    unfold field. rewrite Hsp. reflexivity.
  Qed.

  Lemma handle_blank : forall (crlf : bool) st,
    handle_line c base st (if crlf then [13] else []) = (LState None (l_url st), []).
  Proof. intros [|] st; reflexivity. Qed.

  Lemma handle_event : forall (crlf : bool) (sp : bool) st,
    handle_line c base st ((C11.k_event ++ (if sp then [32] else []) ++ C11.v_message) ++ (if crlf then [13] else []))
    = (LState (Some SseLegacy.s_message) (l_url st), []).
  Proof.
    intros crlf sp st. unfold handle_line.
    rewrite (rstrip_cr_wire crlf) by (destruct sp; reflexivity).
    pose proof (SseLegacy.field_event_forms c C11.v_message sp Hsp) as E.
    change C11.k_event with SseLegacy.s_event.
    destruct sp; cbn [app] in *; cbn [app]; rewrite E; reflexivity.
  Qed.

  Lemma field_event_data : forall (sp : bool) m,
    field c SseLegacy.s_event (C11.k_data ++ (if sp then [32] else []) ++ m) = None.
  Proof. intros. unfold field. rewrite Hsp. reflexivity. Qed.

  Lemma handle_data : forall (crlf : bool) (sp : bool) m, msg_ok m = true ->
    handle_line c base st1 ((C11.k_data ++ (if sp then [32] else []) ++ m) ++ (if crlf then [13] else []))
    = (st1, [AMessage m]).
  Proof.
    intros crlf sp m H. unfold handle_line.
    rewrite (rstrip_cr_wire crlf).
    2:{ rewrite !HttpSse.line_safe_app, (msg_ok_safe m H). destruct sp; reflexivity. }
    assert (Hne : exists x y, C11.k_data ++ (if sp then [32] else []) ++ m = x :: y) by (cbn; eauto).
    destruct Hne as (x & y & Hxy). rewrite Hxy. rewrite <- Hxy.
    rewrite field_event_data.
    pose proof (SseLegacy.field_data_forms c m sp Hsp) as E.
    change C11.k_data with SseLegacy.s_data. rewrite E, py_strip_msg by assumption.
    reflexivity.
  Qed.

  (** One event, whatever precedes it on the stream: from the connected idle
      state back to it, emitting exactly the message. *)
  Lemma handle_event_lines : forall ch m, lchoice_ok ch = true -> msg_ok m = true ->
    handle_lines c base st0 (map (fun l => l ++ (if lc_crlf ch then [13] else [])) (levent_lines ch m))
    = (st0, [AMessage m]).
  Proof.
    intros ch m Hch Hm. unfold levent_lines. rewrite !map_app.
    rewrite SseLegacy.handle_lines_app.
    assert (Hcom : forall st, handle_lines c base st
              (map (fun l => l ++ (if lc_crlf ch then [13] else [])) (map (fun s => 58 :: s) (lc_comments ch))) = (st, [])).
    { unfold lchoice_ok in Hch. induction (lc_comments ch) as [|s r IH]; intros st; [reflexivity|].
      cbn [forallb] in Hch. apply andb_prop in Hch. destruct Hch as [Hs Hr].
      cbn [map handle_lines]. rewrite handle_comment by assumption. cbn [fst snd].
      rewrite IH by assumption. reflexivity. }
    rewrite Hcom. cbn [fst snd app map].
    cbn [handle_lines]. unfold lsp.
    rewrite handle_event. cbn [fst snd l_url]. fold st1.
    rewrite handle_data by assumption. cbn [fst snd].
    assert (Hbl : forall n st, handle_lines c base st
              (map (fun l => l ++ (if lc_crlf ch then [13] else [])) (repeat [] n)) = (match n with O => st | S _ => LState None (l_url st) end, [])).
    { induction n as [|n IH]; intros st; [reflexivity|].
      cbn [repeat map handle_lines app]. rewrite handle_blank. cbn [fst snd]. rewrite IH.
      destruct n; reflexivity. }
    rewrite handle_blank. cbn [fst snd l_url].
    rewrite Hbl. destruct (lc_blanks ch); reflexivity.
  Qed.

  Lemma levent_lines_safe : forall ch m, lchoice_ok ch = true -> msg_ok m = true ->
    Forall (fun l => HttpBase.line_safe l = true) (levent_lines ch m).
  Proof.
    intros ch m Hch Hm. unfold levent_lines. apply Forall_app. split; [|apply Forall_app; split].
    - unfold lchoice_ok in Hch. rewrite forallb_forall in Hch. apply Forall_forall.
      intros l Hl. apply in_map_iff in Hl. destruct Hl as (s & <- & Hs). specialize (Hch s Hs). unfold HttpBase.line_safe in *. cbn [forallb]. rewrite Hch. reflexivity.
    - repeat constructor.
      + unfold lsp. destruct (lc_space ch); reflexivity.
      + rewrite !HttpSse.line_safe_app, (msg_ok_safe m Hm). unfold lsp. destruct (lc_space ch); reflexivity.
    - apply Forall_forall. intros l Hl. apply repeat_spec in Hl. subst l. reflexivity.
  Qed.

  Lemma parse_legacy_frame : forall l,
    forallb (fun cm => lchoice_ok (fst cm) && msg_ok (snd cm)) l = true ->
    SseLegacy.parse_text c base (legacy_connected url) (legacy_frame l)
    = (legacy_connected url, map (fun cm => AMessage (snd cm)) l).
  Proof.
    unfold SseLegacy.parse_text, legacy_connected. cbn [p_buf p_l app].
    induction l as [|[ch m] l IH]; intros Hok; [reflexivity|].
    cbn [forallb fst snd] in Hok. apply andb_prop in Hok. destruct Hok as [Hcm Hok].
    apply andb_prop in Hcm. destruct Hcm as [Hch Hm].
    unfold legacy_frame. cbn [flat_map fst snd]. fold (legacy_frame l).
    unfold legacy_event, leol.
    rewrite (lines_rest_lines (lc_crlf ch)) by (apply levent_lines_safe; assumption).
    cbn [fst snd]. rewrite SseLegacy.handle_lines_app.
    fold st0. rewrite handle_event_lines by assumption. cbn [fst snd].
    specialize (IH Hok). fold st0 in IH.
    injection IH as E1 E2 E3. rewrite E1, E2. cbn [map fst snd app].
    f_equal. f_equal. assumption.
  Qed.
End LegacyLines.

Lemma legacy_texts_messages : forall (l : list (lchoice * str)),
  legacy_texts (map (fun cm => AMessage (snd cm)) l) = map snd l.
Proof. induction l as [|cm l IH]; [reflexivity|]. cbn. rewrite IH. reflexivity. Qed.

Lemma legacy_transcript : forall (T : Type) (parse : str -> list T) c base url l chunks,
  c_opt_space c = true -> url <> [] ->
  forallb (fun cm => lchoice_ok (fst cm) && msg_ok (snd cm)) l = true ->
  concat chunks = legacy_frame l ->
  rx_legacy T parse c base (legacy_connected url) chunks = flat_map parse (map snd l)
  /\ fst (run_parser c base (legacy_connected url) chunks) = legacy_connected url.
Proof.
  intros T parse c base url l chunks Hsp Hurl Hok Hc. unfold rx_legacy.
  rewrite SseLegacy.run_parser_char by reflexivity.
  rewrite Hc, (parse_legacy_frame c Hsp base url l Hok). cbn [fst snd].
  rewrite legacy_texts_messages. split; reflexivity.
Qed.

(* ------------------------------------------------------------------ *)
(** * Legacy SSE: order through the sender / event-stream race           *)
(* ------------------------------------------------------------------ *)
Lemma run_app : forall c a st b, run c st (a ++ b) = run c st a ++ run c (final c st a) b.
Proof.
  induction a as [|e a IH]; intros st b; [reflexivity|].
  cbn [app run final]. rewrite IH, app_assoc. reflexivity.
Qed.

Lemma final_app : forall c a st b, final c st (a ++ b) = final c (final c st a) b.
Proof. induction a as [|e a IH]; intros st b; [reflexivity|]. cbn [app final]. apply IH. Qed.

Definition quiet (i : id) (ms : list msg) : Prop := Forall (fun m => same_key i m = false) ms.

(** No request of a sequential conversation is ever answered by the transport itself, so the set of abandoned
    requests stays empty: nothing is dropped as "late". *)
Lemma late_hit_nil : forall c m, late_hit c [] m = false.
Proof.
  intros c m. unfold late_hit. destruct (m_id m); cbn [has_key existsb]; rewrite andb_false_r; reflexivity.
Qed.

Lemma unabandon_nil : forall c i, unabandon c i [] = [].
Proof. intros c i. unfold unabandon. destruct (c_drop_late c); reflexivity. Qed.

Lemma not_pending_nil : forall c t m, not_pending c (SS t []) m = (SS t [], [(FromSse, m)]).
Proof. intros c t m. unfold not_pending. cbn [s_late]. rewrite late_hit_nil. reflexivity. Qed.

(** Unrelated stream traffic passes straight through while the sender is
    posting or waiting for [i]. *)
Lemma run_quiet : forall c i ms t, quiet i ms ->
  t = SPosting i \/ t = SWaiting i ->
  run c (SS t []) (map (fun m => ESse (Some m)) ms) = map (fun m => (FromSse, m)) ms
  /\ final c (SS t []) (map (fun m => ESse (Some m)) ms) = SS t [].
Proof.
  intros c i ms t H Ht. induction H as [|m ms Hm _ IH]; [split; reflexivity|].
  cbn [map run final]. destruct Ht as [-> | ->]; cbn [step s_task s_late]; rewrite (Verif.Proofs.SseLegacy.resolves_not_key c _ _ Hm), not_pending_nil; cbn [fst snd app];
    destruct IH as [IH1 IH2]; rewrite IH1, IH2; split; reflexivity.
Qed.

Lemma firstn_map_sse : forall p (ms : list msg),
  firstn p (map (fun m => ESse (Some m)) ms) = map (fun m => ESse (Some m)) (firstn p ms).
Proof. intros. apply firstn_map. Qed.

Lemma skipn_map_sse : forall p (ms : list msg),
  skipn p (map (fun m => ESse (Some m)) ms) = map (fun m => ESse (Some m)) (skipn p ms).
Proof. intros. apply skipn_map. Qed.

Lemma legacy_step_202 : forall c i notifs ans p,
  quiet i notifs -> same_key i ans = true -> kind_terminal (m_kind ans) = true ->
  map snd (run c sinit (legacy_step_events i notifs ans p)) = notifs ++ [ans]
  /\ final c sinit (legacy_step_events i notifs ans p) = sinit.
Proof.
  intros c i notifs ans p Hq Ha0 Hterm. assert (Ha := Verif.Proofs.SseLegacy.resolves_answer c i ans Hterm Ha0). unfold legacy_step_events, sinit.
  cbn [run final step s_task s_late fst snd app]. rewrite unabandon_nil.
  rewrite firstn_map_sse, skipn_map_sse.
  destruct (Nat.leb_spec p (length notifs)) as [Hp|Hp].
  - (* acknowledged before the answer was handled *)
    rewrite firstn_app, skipn_app.
    replace (p - length notifs)%nat with 0%nat by lia. cbn [firstn skipn]. rewrite app_nil_r.
    assert (Hq12 : quiet i (firstn p notifs) /\ quiet i (skipn p notifs)).
    { unfold quiet in *. apply Forall_app. rewrite firstn_skipn. assumption. }
    destruct Hq12 as [Hq1 Hq2].
    destruct (run_quiet c i _ (SPosting i) Hq1 (or_introl eq_refl)) as [R1 F1].
    rewrite run_app, final_app, R1, F1. cbn [run final step s_task s_late post_done post_branches fst snd app].
    change (202 =? 200) with false. change (202 =? 202) with true. cbv iota. cbn [fst snd app].
    rewrite (map_app (fun m : msg => ESse (Some m))). rewrite !run_app, !final_app.
    destruct (run_quiet c i _ (SWaiting i) Hq2 (or_intror eq_refl)) as [R2 F2].
    rewrite R2, F2. cbn [map run final step s_task s_late fst snd app]. rewrite Ha.
    cbn [run final step s_task s_late fst snd app]. unfold resolved_out, done.
    destruct (c_route_in_stream c); cbn [fst snd app run final]; (split; [|reflexivity]);
      rewrite !map_app, !map_map; cbn [snd map]; rewrite !map_id, ?app_nil_r, ?app_assoc, firstn_skipn; reflexivity.
  - (* the answer was handled while the POST was still in flight *)
    rewrite firstn_all2 by (rewrite app_length; simpl; lia).
    rewrite skipn_all2 by (rewrite app_length; simpl; lia).
    rewrite (map_app (fun m : msg => ESse (Some m))). cbn [map app].
    destruct (run_quiet c i _ (SPosting i) Hq (or_introl eq_refl)) as [R1 F1].
    rewrite !run_app, !final_app, !R1, !F1. cbn [run final step s_task s_late fst snd app]. rewrite Ha.
    cbn [run final step s_task s_late post_done post_branches fst snd app]. unfold resolved_out, done.
    destruct (c_route_in_stream c); cbn [fst snd app run final step s_task s_late post_branches];
      change (202 =? 200) with false; change (202 =? 202) with true; cbv iota; cbn [fst snd app run final step s_task s_late];
      (split; [|reflexivity]);
      rewrite !map_app, ?map_map; cbn [snd map]; rewrite ?map_id, ?app_nil_r; reflexivity.
Qed.

Lemma legacy_step_200 : forall c i notifs ans,
  quiet i notifs ->
  map snd (run c sinit (legacy_step_events_200 i notifs ans)) = notifs ++ [ans]
  /\ final c sinit (legacy_step_events_200 i notifs ans) = sinit.
Proof.
  intros c i notifs ans Hq. unfold legacy_step_events_200, sinit.
  cbn [run final step s_task s_late fst snd app]. rewrite unabandon_nil.
  destruct (run_quiet c i _ (SPosting i) Hq (or_introl eq_refl)) as [R1 F1].
  rewrite run_app, final_app, R1, F1. cbn [run final step s_task s_late post_done post_branches done fst snd app].
  change (200 =? 200) with true. cbv iota. cbn [fst snd app].
  split; [|reflexivity].
  rewrite !map_app, map_map. cbn [snd map]. rewrite map_id. reflexivity.
Qed.

Definition cstep_ok (s : cstep) : Prop :=
  quiet (cs_id s) (cs_notifs s) /\ same_key (cs_id s) (cs_ans s) = true /\ kind_terminal (m_kind (cs_ans s)) = true.

Lemma legacy_conversation_order : forall c (l : list cstep),
  Forall cstep_ok l ->
  map snd (run c sinit (lconv_events l)) = lconv_canonical l
  /\ final c sinit (lconv_events l) = sinit.
Proof.
  intros c l H. induction H as [|s l [Hq [Ha Hterm]] _ [IH1 IH2]]; [split; reflexivity|].
  unfold lconv_events, lconv_canonical in *. cbn [flat_map].
  rewrite run_app, final_app, map_app.
  assert (E : map snd (run c sinit (cstep_events s)) = cs_notifs s ++ [cs_ans s]
              /\ final c sinit (cstep_events s) = sinit).
  { unfold cstep_events. destruct (cs_mode s); [apply legacy_step_202|apply legacy_step_200]; assumption. }
  destruct E as [E1 E2]. rewrite E2, IH2. split; [|reflexivity]. f_equal; assumption.
Qed.

(* ------------------------------------------------------------------ *)
(** * The judgement                                                     *)
(* ------------------------------------------------------------------ *)
Lemma transcript_eqb_eq : forall a b, transcript_eqb a b = true <-> a = b.
Proof.
  induction a as [|x a IH]; destruct b as [|y b]; cbn; try (split; [discriminate|discriminate]); [tauto|].
  rewrite andb_true_iff, IH, JsonFacts.json_eqb_eq. split; [intros [-> ->]; reflexivity|intros E; injection E; auto].
Qed.

Lemma agree_ok_spec : forall canon obs, agree_ok canon obs = true <-> Spec_agree canon obs.
Proof.
  intros canon obs. unfold agree_ok, Spec_agree. rewrite forallb_forall, Forall_forall.
  split; intros H t Ht; specialize (H t Ht); [apply transcript_eqb_eq in H; auto|apply transcript_eqb_eq; auto].
Qed.

(* ------------------------------------------------------------------ *)
(** * All carriers at once                                              *)
(* ------------------------------------------------------------------ *)
Lemma forallb_snd : forall (A : Type) (f : str -> bool) (l : list (A * str)),
  forallb f (map snd l) = forallb (fun cm => f (snd cm)) l.
Proof. induction l as [|x l IH]; [reflexivity|]. cbn. rewrite IH. reflexivity. Qed.

Lemma carrier_independent :
  forall (T : Type) (parse : str -> list T) (msgs : list str)
         (ls : list (bool * str)) (lh : list (C11.enc_choice * str)) (ll : list (lchoice * str))
         c base url chunks_stdio chunks_legacy,
  forallb msg_ok msgs = true ->
  map snd ls = msgs -> map snd lh = msgs -> map snd ll = msgs ->
  forallb (fun cm => C11.choice_ok (fst cm)) lh = true ->
  forallb (fun cm => lchoice_ok (fst cm)) ll = true ->
  c_opt_space c = true -> url <> [] ->
  concat chunks_stdio = stdio_frame ls ->
  concat chunks_legacy = legacy_frame ll ->
  rx_stdio T parse chunks_stdio = flat_map parse msgs
  /\ rx_http_sse T parse (http_sse_frame lh) = flat_map parse msgs
  /\ rx_legacy T parse c base (legacy_connected url) chunks_legacy = flat_map parse msgs.
Proof.
  intros T parse msgs ls lh ll c base url cs cl Hok Es Eh El Hch Hcl Hsp Hurl Hcs Hcl'.
  split; [|split].
  - rewrite <- Es. apply stdio_transcript; [|assumption].
    rewrite <- forallb_snd, Es. assumption.
  - rewrite <- Eh. apply http_sse_transcript.
    rewrite <- Eh, forallb_snd in Hok.
    apply forallb_forall. intros cm Hin. unfold C11.event_ok.
    rewrite forallb_forall in Hch, Hok. rewrite (Hch cm Hin). cbn.
    apply msg_ok_c11. apply (Hok cm Hin).
  - rewrite <- El. apply legacy_transcript; try assumption.
    rewrite <- El, forallb_snd in Hok.
    apply forallb_forall. intros cm Hin. rewrite forallb_forall in Hcl, Hok.
    rewrite (Hcl cm Hin), (Hok cm Hin). reflexivity.
Qed.

Lemma http_json_transcript :
  forall (T : Type) (parse : str -> list T) (parse_body : str -> list T) (cv : conv),
  (forall s, In s cv -> parse_body (http_json_body s) = flat_map parse (step_msgs s)) ->
  flat_map (fun s => rx_http_json T parse_body (http_json_body s)) cv = flat_map parse (canonical cv).
Proof.
  intros T parse parse_body cv H. unfold canonical, rx_http_json.
  induction cv as [|s cv IH]; [reflexivity|].
  cbn [flat_map]. rewrite flat_map_app, H by (left; reflexivity).
  rewrite IH by (intros; apply H; right; assumption). reflexivity.
Qed.

(* ------------------------------------------------------------------ *)
(** * The driver's fast stream parser is the model's                     *)
(* ------------------------------------------------------------------ *)
Lemma lines_rest_acc_eq : forall s racc, lines_rest_acc racc s = lines_rest (rev racc) s.
Proof.
  induction s as [|ch s IH]; intros racc; cbn [lines_rest_acc lines_rest]; [reflexivity|].
  destruct (ch =? 10).
  - rewrite (IH []). cbn [rev]. destruct (lines_rest [] s). reflexivity.
  - rewrite IH. reflexivity.
Qed.

Lemma rx_legacy_fast_eq : forall (T : Type) (parse : str -> list T) c base ps chunks,
  SseLegacy.nonl (p_buf ps) ->
  rx_legacy_fast T parse c base ps chunks = rx_legacy T parse c base ps chunks.
Proof.
  intros. unfold rx_legacy_fast, rx_legacy, parse_text_fast.
  rewrite SseLegacy.run_parser_char by assumption. unfold SseLegacy.parse_text.
  rewrite lines_rest_acc_eq. reflexivity.
Qed.

(** Lemmas about Model/Lines.v (C05). *)
From Coq Require Import Lia ZifyBool.
From Verif.Base Require Import Prelude StdioUtf8.
From Verif.Model Require Import Lines.
From Verif.Spec Require Import C05.
From Verif.Proofs Require Import StdioUtf8.
Open Scope Z_scope.

(** ---- the literal splitter is the structural one ------------------------ *)

Lemma split_on_nonempty : forall sep s, split_on sep s <> [].
Proof.
  induction s as [|c s IH]; simpl; [discriminate|].
  destruct (c =? sep); [discriminate|]. destruct (split_on sep s); discriminate.
Qed.

Lemma split_lines_literal : forall s,
  split_lines s = (removelast (split_on 10 s), last (split_on 10 s) []).
Proof.
  induction s as [|c s IH]; [reflexivity|].
  cbn [split_lines split_on]. rewrite IH.
  pose proof (split_on_nonempty 10 s) as NE.
  destruct (split_on 10 s) as [|p ps]; [congruence|].
  destruct (c =? 10); [reflexivity|].
  destruct ps; reflexivity.
Qed.

Lemma feed_split_lines : forall buf c, feed buf c = split_lines (buf ++ c).
Proof. intros. unfold feed. rewrite split_lines_literal. reflexivity. Qed.

(** ---- the key lemma ------------------------------------------------------ *)

Lemma split_lines_app : forall a b,
  split_lines (a ++ b) =
  let (la, ra) := split_lines a in
  let (lb, rb) := split_lines (ra ++ b) in (la ++ lb, rb).
Proof.
  induction a as [|c a IH]; intros b.
  - simpl. destruct (split_lines b); reflexivity.
  - cbn [app split_lines]. rewrite IH. destruct (split_lines a) as [la ra].
    destruct (c =? 10) eqn:E.
    + destruct (split_lines (ra ++ b)) as [lb rb]. reflexivity.
    + destruct la as [|l la'].
      * cbn [app split_lines]. destruct (split_lines (ra ++ b)) as [lb rb].
        rewrite E. cbn [app]. destruct lb; reflexivity.
      * destruct (split_lines (ra ++ b)) as [lb rb]. reflexivity.
Qed.

Lemma split_lines_no_lf : forall t, no_lf t -> split_lines t = ([], t).
Proof.
  induction t as [|c t IH]; intros H; [reflexivity|].
  cbn [split_lines]. rewrite IH by (intro; apply H; right; assumption).
  destruct (c =? 10) eqn:E; [|reflexivity].
  exfalso. apply H. left. lia.
Qed.

Lemma split_lines_rest_no_lf : forall s, no_lf (snd (split_lines s)).
Proof.
  induction s as [|c s IH]; [intros []|].
  cbn [split_lines]. destruct (split_lines s) as [ls r]. simpl in IH.
  destruct (c =? 10) eqn:E; [exact IH|].
  destruct ls; simpl; [|exact IH].
  intros [H | H]; [lia | exact (IH H)].
Qed.

Lemma split_lines_lines_no_lf : forall s, Forall no_lf (fst (split_lines s)).
Proof.
  induction s as [|c s IH]; [constructor|].
  cbn [split_lines]. destruct (split_lines s) as [ls r]. simpl in IH.
  destruct (c =? 10) eqn:E.
  - simpl. constructor; [intros []|exact IH].
  - destruct ls as [|l ls']; simpl; [constructor|].
    inversion IH; subst. constructor; [|assumption].
    intros [H | H]; [lia | contradiction].
Qed.

(** one terminated line in front *)
Lemma split_lines_line : forall l rest,
  no_lf l ->
  split_lines (l ++ 10 :: rest) = let (a, b) := split_lines rest in (l :: a, b).
Proof.
  induction l as [|c l IH]; intros rest H.
  - cbn [app split_lines]. destruct (split_lines rest); reflexivity.
  - cbn [app split_lines]. rewrite IH by (intro; apply H; right; assumption).
    destruct (split_lines rest) as [a b].
    destruct (c =? 10) eqn:E; [|reflexivity].
    exfalso. apply H. left. lia.
Qed.

(** a LF-free prefix glues onto the first piece *)
Lemma split_lines_prefix : forall w t,
  no_lf w ->
  split_lines (w ++ t) =
  let (ls, r) := split_lines t in
  match ls with [] => ([], w ++ r) | l :: ls' => ((w ++ l) :: ls', r) end.
Proof.
  induction w as [|c w IH]; intros t H.
  - simpl. destruct (split_lines t) as [ls r]. destruct ls; reflexivity.
  - cbn [app split_lines]. rewrite IH by (intro; apply H; right; assumption).
    destruct (split_lines t) as [ls r].
    destruct (c =? 10) eqn:E; [exfalso; apply H; left; lia|].
    destruct ls; reflexivity.
Qed.

Lemma terminated_cons : forall l ls, terminated (l :: ls) = l ++ 10 :: terminated ls.
Proof. intros. unfold terminated. simpl. rewrite <- app_assoc. reflexivity. Qed.

Lemma terminated_app : forall a b, terminated (a ++ b) = terminated a ++ terminated b.
Proof. intros. unfold terminated. apply flat_map_app. Qed.

(** The declarative framing determines the splitter's result, and vice versa. *)
Lemma spec_lines_split : forall ls tail stream,
  Spec_lines stream ls tail -> split_lines stream = (ls, tail).
Proof.
  intros ls tail stream (Hs & Hl & Ht). subst stream.
  induction ls as [|l ls IH].
  - simpl. apply split_lines_no_lf; assumption.
  - inversion Hl; subst. rewrite terminated_cons, <- app_assoc. cbn [app].
    rewrite split_lines_line by assumption. rewrite IH by assumption. reflexivity.
Qed.

Lemma split_lines_recompose : forall s,
  s = terminated (fst (split_lines s)) ++ snd (split_lines s).
Proof.
  induction s as [|c s IH]; [reflexivity|].
  cbn [split_lines]. destruct (split_lines s) as [ls r]. simpl in IH.
  destruct (c =? 10) eqn:E.
  - cbn [fst snd]. rewrite terminated_cons. cbn [app]. f_equal; [lia | exact IH].
  - destruct ls as [|l ls']; cbn [fst snd].
    + simpl. f_equal. exact IH.
    + rewrite terminated_cons in *. cbn [app]. f_equal. exact IH.
Qed.

Lemma split_lines_spec : forall s, Spec_lines s (fst (split_lines s)) (snd (split_lines s)).
Proof.
  intros s. split; [apply split_lines_recompose|].
  split; [apply split_lines_lines_no_lf | apply split_lines_rest_no_lf].
Qed.

Lemma spec_lines_iff : forall stream ls tail,
  Spec_lines stream ls tail <-> split_lines stream = (ls, tail).
Proof.
  intros. split; [apply spec_lines_split|].
  intros H. pose proof (split_lines_spec stream) as S. rewrite H in S. exact S.
Qed.

Lemma spec_lines_unique : forall stream ls tail ls' tail',
  Spec_lines stream ls tail -> Spec_lines stream ls' tail' -> ls = ls' /\ tail = tail'.
Proof.
  intros * H1 H2. apply spec_lines_split in H1. apply spec_lines_split in H2.
  rewrite H1 in H2. inversion H2; auto.
Qed.

(** ---- the reader -------------------------------------------------------- *)

Section ReaderFacts.
  Variable msg : Type.
  Variable deliver : bytes -> list msg.

  Lemma reader_split : forall chunks buf,
    reader msg deliver buf chunks =
    (flat_map deliver (fst (split_lines (buf ++ concat chunks))),
     snd (split_lines (buf ++ concat chunks))) \/ ~ no_lf buf.
  Proof.
    induction chunks as [|c cs IH]; intros buf.
    - destruct (in_dec Z.eq_dec 10 buf) as [Hin | Hn]; [right; intro H; exact (H Hin)|].
      left. simpl. rewrite app_nil_r. rewrite split_lines_no_lf by exact Hn. reflexivity.
    - destruct (in_dec Z.eq_dec 10 buf) as [Hin | Hn]; [right; intro H; exact (H Hin)|].
      left. cbn [reader concat]. rewrite feed_split_lines.
      rewrite app_assoc. rewrite (split_lines_app (buf ++ c) (concat cs)).
      pose proof (split_lines_rest_no_lf (buf ++ c)) as R.
      destruct (split_lines (buf ++ c)) as [ls buf']. simpl in R.
      destruct (IH buf') as [E | E]; [|contradiction].
      rewrite E. destruct (split_lines (buf' ++ concat cs)) as [lb rb]. simpl.
      rewrite flat_map_app. reflexivity.
  Qed.

  Lemma reader_is_split : forall chunks,
    reader msg deliver [] chunks =
    (flat_map deliver (fst (split_lines (concat chunks))), snd (split_lines (concat chunks))).
  Proof.
    intros. destruct (reader_split chunks []) as [E | E]; [exact E|].
    exfalso. apply E. intros [].
  Qed.

  (** Full statement: for the (unique) way of reading the stream as
      LF-terminated lines plus a tail, the reader delivers exactly what each
      line yields, in order, and keeps the tail -- whatever the chunking. *)
  Lemma reader_delivers_lines : forall chunks ls tail,
    Spec_lines (concat chunks) ls tail ->
    reader msg deliver [] chunks = (flat_map deliver ls, tail).
  Proof.
    intros chunks ls tail H. rewrite reader_is_split.
    apply spec_lines_split in H. rewrite H. reflexivity.
  Qed.

  Lemma run_spec_delivery : forall chunks,
    Spec_delivery deliver (concat chunks) (run msg deliver chunks).
  Proof.
    intros. exists (fst (split_lines (concat chunks))), (snd (split_lines (concat chunks))).
    split; [apply split_lines_spec|].
    unfold run. rewrite reader_is_split. reflexivity.
  Qed.

  Lemma chunk_independent : forall chunks chunks',
    concat chunks = concat chunks' ->
    reader msg deliver [] chunks = reader msg deliver [] chunks'.
  Proof. intros * H. rewrite !reader_is_split, H. reflexivity. Qed.

  Lemma run_one_chunk : forall chunks, run msg deliver chunks = run msg deliver [concat chunks].
  Proof.
    intros. unfold run. f_equal. apply chunk_independent. simpl. rewrite app_nil_r. reflexivity.
  Qed.

  Lemma bad_line_dropped_alone : forall ls1 l ls2 tail chunks chunks',
    deliver l = [] ->
    Forall no_lf (ls1 ++ l :: ls2) -> no_lf tail ->
    concat chunks = terminated (ls1 ++ l :: ls2) ++ tail ->
    concat chunks' = terminated (ls1 ++ ls2) ++ tail ->
    run msg deliver chunks = run msg deliver chunks'.
  Proof.
    intros * Hd Hl Ht H1 H2. unfold run.
    rewrite (reader_delivers_lines chunks (ls1 ++ l :: ls2) tail) by (split; auto).
    rewrite (reader_delivers_lines chunks' (ls1 ++ ls2) tail).
    - simpl. rewrite !flat_map_app. simpl. rewrite Hd. reflexivity.
    - split; [assumption|]. split; [|assumption].
      apply Forall_app in Hl. destruct Hl as [A B]. inversion B; subst.
      apply Forall_app. split; assumption.
  Qed.

  Lemma good_lines_all_delivered : forall ls tail chunks,
    Forall no_lf ls -> no_lf tail ->
    concat chunks = terminated ls ++ tail ->
    run msg deliver chunks = flat_map deliver ls.
  Proof.
    intros * Hl Ht H. unfold run.
    rewrite (reader_delivers_lines chunks ls tail) by (split; auto). reflexivity.
  Qed.

  (** str chunks: as long as every chunk encodes, only the bytes matter. *)
  Lemma seen_all : forall cs bs,
    map chunk_bytes cs = map Some bs -> seen_chunks cs = bs.
  Proof.
    induction cs as [|c cs IH]; intros [|b bs] H; simpl in *; try discriminate; auto.
    inversion H as [[H1 H2]]. rewrite H1. f_equal. apply IH. assumption.
  Qed.
End ReaderFacts.

(** ---- the per-line pipeline --------------------------------------------- *)

Lemma line_text_cr : forall raw, line_text (raw ++ [13]) = line_text raw.
Proof.
  intros. unfold line_text, utf8_decode. rewrite decode_from_cr.
  destruct (decode_from Idle raw); [|reflexivity]. rewrite strip_cr. reflexivity.
Qed.

Lemma deliver_line_cr : forall msg (parse : str -> list msg) raw,
  deliver_line msg parse (raw ++ [13]) = deliver_line msg parse raw.
Proof. intros. unfold deliver_line. rewrite line_text_cr. reflexivity. Qed.

Lemma terminated_crlf_as_lf : forall ls,
  terminated_crlf ls = terminated (map (fun l => l ++ [13]) ls).
Proof.
  induction ls as [|l ls IH]; [reflexivity|].
  unfold terminated_crlf, terminated in *. simpl. rewrite IH.
  rewrite <- !app_assoc. reflexivity.
Qed.

Lemma crlf_harmless : forall msg (parse : str -> list msg) ls tail chunks chunks',
  Forall no_lf ls -> no_lf tail ->
  concat chunks = terminated_crlf ls ++ tail ->
  concat chunks' = terminated ls ++ tail ->
  run msg (deliver_line msg parse) chunks = run msg (deliver_line msg parse) chunks'.
Proof.
  intros * Hl Ht H1 H2.
  rewrite (good_lines_all_delivered _ _ ls tail chunks') by assumption.
  rewrite terminated_crlf_as_lf in H1.
  rewrite (good_lines_all_delivered _ _ (map (fun l => l ++ [13]) ls) tail chunks); auto.
  - rewrite flat_map_concat_map, map_map, <- flat_map_concat_map.
    apply flat_map_ext. intros. apply deliver_line_cr.
  - apply Forall_forall. intros x Hx. apply in_map_iff in Hx. destruct Hx as (l & <- & Hin).
    rewrite Forall_forall in Hl. intros Hc. apply in_app_or in Hc.
    destruct Hc as [Hc | [Hc | []]]; [exact (Hl l Hin Hc) | lia].
Qed.

(** What the child wrote as text: encoded lines split exactly at the code
    point 10; U+0085, U+2028, U+2029 (and every other non-LF code point)
    never produce a byte 10. *)
Lemma split_lines_utf8 : forall s,
  Forall (fun c => 0 <= c) s ->
  split_lines (utf8_enc s) =
  (map utf8_enc (fst (split_lines s)), utf8_enc (snd (split_lines s))).
Proof.
  induction s as [|c s IH]; intros H; [reflexivity|].
  inversion H; subst. rewrite utf8_enc_cons. cbn [split_lines].
  destruct (split_lines s) as [ls r]. simpl in IH.
  destruct (c =? 10) eqn:E.
  - assert (c = 10) by lia. subst c. change (utf8_cp 10) with [10]. cbn [app split_lines].
    rewrite IH by assumption. reflexivity.
  - rewrite split_lines_prefix by (apply utf8_cp_no_lf; lia).
    rewrite IH by assumption.
    destruct ls as [|l ls']; simpl; rewrite ?utf8_enc_cons; reflexivity.
Qed.

Lemma text_lines_framed : forall texts,
  Forall (fun t => forallb is_scalar t = true /\ ~ In 10 t) texts ->
  Spec_lines (terminated (map utf8_enc texts)) (map utf8_enc texts) [].
Proof.
  intros texts H. split; [rewrite app_nil_r; reflexivity|]. split; [|intros []].
  apply Forall_forall. intros x Hx. apply in_map_iff in Hx. destruct Hx as (t & <- & Hin).
  rewrite Forall_forall in H. destruct (H t Hin) as [Hs Hn].
  intros Hc. apply Hn. apply utf8_enc_ascii with (b := 10); auto; [|lia].
  apply forallb_scalar_nonneg; assumption.
Qed.

Lemma deliver_line_of_text : forall msg (parse : str -> list msg) t,
  forallb is_scalar t = true ->
  deliver_line msg parse (utf8_enc t) =
  match strip t with [] => [] | t' => parse t' end.
Proof.
  intros. unfold deliver_line, line_text. rewrite decode_enc by assumption.
  destruct (strip t); reflexivity.
Qed.

Lemma text_lines_delivered : forall msg (parse : str -> list msg) texts chunks,
  Forall (fun t => forallb is_scalar t = true /\ ~ In 10 t) texts ->
  concat chunks = terminated (map utf8_enc texts) ->
  run msg (deliver_line msg parse) chunks =
  flat_map (fun t => match strip t with [] => [] | t' => parse t' end) texts.
Proof.
  intros * H E. unfold run.
  rewrite (reader_delivers_lines _ _ chunks (map utf8_enc texts) []).
  - simpl. rewrite flat_map_concat_map, map_map, <- flat_map_concat_map.
    clear E. induction texts as [|t ts IH]; [reflexivity|].
    inversion H; subst. simpl. rewrite IH by assumption.
    rewrite deliver_line_of_text by tauto. reflexivity.
  - rewrite E. apply text_lines_framed. assumption.
Qed.

(** ---- routing ----------------------------------------------------------- *)

Lemma subseq_refl : forall A (l : list A), subseq l l.
Proof. induction l; constructor; auto. Qed.

Section RouteFacts.
  Variable msg : Type.
  Variable no_id : msg -> bool.
  Notation rstep := (rstep msg no_id).
  Notation st_t := (rstate msg).

  Lemma main_gets_everything : forall cap evs (st : st_t),
    rs_main msg (fold_left (rstep cap) evs st) = rs_main msg st ++ arrivals msg evs.
  Proof.
    induction evs as [|e evs IH]; intros st; simpl; [rewrite app_nil_r; reflexivity|].
    rewrite IH. destruct e; simpl.
    - rewrite <- app_assoc. reflexivity.
    - destruct (rs_queue msg st); reflexivity.
  Qed.

  (** nothing is lost while the backlog stays within the capacity *)
  Lemma notif_no_loss : forall cap evs (st : st_t),
    (length (rs_queue msg st) + length (filter no_id (arrivals msg evs)) <= cap)%nat ->
    let st' := fold_left (rstep cap) evs st in
    rs_recv msg st' ++ rs_queue msg st' =
    rs_recv msg st ++ rs_queue msg st ++ filter no_id (arrivals msg evs).
  Proof.
    induction evs as [|e evs IH]; intros st H; simpl in *; [rewrite app_nil_r; reflexivity|].
    destruct e as [m|]; simpl in *.
    - destruct (no_id m) eqn:N; simpl in *.
      + rewrite IH; simpl; unfold offer.
        * destruct (length (rs_queue msg st) <? cap)%nat eqn:L; [|lia].
          rewrite <- app_assoc. reflexivity.
        * destruct (length (rs_queue msg st) <? cap)%nat eqn:L; [|lia].
          rewrite app_length. simpl. lia.
      + rewrite IH; simpl; auto.
    - destruct (rs_queue msg st) as [|x q'] eqn:Q.
      + rewrite IH; rewrite Q; auto.
      + rewrite IH; simpl in *; [|lia]. rewrite <- app_assoc. reflexivity.
  Qed.

  (** with no consumer the stream holds the first [cap] notifications *)
  Lemma notif_no_consumer : forall cap ms (st : st_t),
    (length (rs_queue msg st) <= cap)%nat ->
    rs_queue msg (fold_left (rstep cap) (map (Arrive msg) ms) st) =
    firstn cap (rs_queue msg st ++ filter no_id ms).
  Proof.
    induction ms as [|m ms IH]; intros st H; simpl.
    - rewrite app_nil_r. rewrite firstn_all2; auto.
    - destruct (no_id m) eqn:N; simpl.
      + rewrite IH; simpl; unfold offer;
          destruct (length (rs_queue msg st) <? cap)%nat eqn:L.
        * rewrite <- app_assoc. reflexivity.
        * rewrite !firstn_app.
          replace (cap - length (rs_queue msg st))%nat with 0%nat by lia. reflexivity.
        * rewrite app_length. simpl. lia.
        * assumption.
      + rewrite IH; simpl; auto.
  Qed.

  (** in general: what the application receives plus what is still queued is
      an order-preserving subsequence of the notifications that arrived *)
  Lemma notif_in_order : forall cap evs (st : st_t),
    let st' := fold_left (rstep cap) evs st in
    exists d, subseq d (filter no_id (arrivals msg evs)) /\
              rs_recv msg st' ++ rs_queue msg st' = rs_recv msg st ++ rs_queue msg st ++ d.
  Proof.
    induction evs as [|e evs IH]; intros st; simpl.
    - exists []. split; [constructor|]. rewrite app_nil_r. reflexivity.
    - destruct e as [m|]; simpl.
      + destruct (no_id m) eqn:N.
        * unfold offer. destruct (length (rs_queue msg st) <? cap)%nat.
          -- match goal with |- context [fold_left _ evs ?s] => destruct (IH s) as (d & Hd & E) end.
             exists (m :: d). split; [constructor; assumption|].
             rewrite E. simpl. rewrite <- app_assoc. reflexivity.
          -- match goal with |- context [fold_left _ evs ?s] => destruct (IH s) as (d & Hd & E) end.
             exists d. split; [constructor; assumption|]. exact E.
        * match goal with |- context [fold_left _ evs ?s] => destruct (IH s) as (d & Hd & E) end.
          exists d. split; assumption.
      + destruct (rs_queue msg st) as [|x q'] eqn:Q.
        * destruct (IH st) as (d & Hd & E). exists d. split; [assumption|]. rewrite E, Q. reflexivity.
        * match goal with |- context [fold_left _ evs ?s] => destruct (IH s) as (d & Hd & E) end.
          exists d. split; [assumption|]. rewrite E. simpl. rewrite <- app_assoc. reflexivity.
  Qed.
End RouteFacts.

(** ---- reflection of the oracle ------------------------------------------ *)

Lemma list_eqb_Z : forall a b, list_eqb Z.eqb a b = true <-> a = b.
Proof.
  induction a as [|x a IH]; intros [|y b]; simpl; split; intros H; try discriminate; auto.
  - apply andb_true_iff in H. destruct H as [H1 H2]. apply Z.eqb_eq in H1. apply IH in H2. congruence.
  - inversion H; subst. rewrite Z.eqb_refl. simpl. apply IH. reflexivity.
Qed.

Lemma main_ok_spec : forall ls d, main_ok ls d = true <-> Spec_main ls d.
Proof. intros. unfold main_ok, Spec_main. apply list_eqb_Z. Qed.

Lemma notif_ok_spec : forall ls d, notif_ok ls d = true <-> Spec_notif ls d.
Proof. intros. unfold notif_ok, Spec_notif. apply list_eqb_Z. Qed.

(** ---- statements as used by Props/C05.v ---------------------------------- *)

Lemma framing_exists_and_is_unique : forall stream,
  (exists ls tail, Spec_lines stream ls tail) /\
  (forall ls tail ls' tail', Spec_lines stream ls tail -> Spec_lines stream ls' tail' ->
                             ls = ls' /\ tail = tail').
Proof.
  intros. split.
  - exists (fst (split_lines stream)), (snd (split_lines stream)). apply split_lines_spec.
  - apply spec_lines_unique.
Qed.

Lemma text_chunks_run : forall (msg : Type) (deliver : bytes -> list msg) cs bs,
  map chunk_bytes cs = map Some bs ->
  run_chunks msg deliver cs = run msg deliver bs.
Proof. intros. unfold run_chunks. rewrite (seen_all cs bs); auto. Qed.

Lemma route_main : forall (msg : Type) (no_id : msg -> bool) cap evs,
  rs_main msg (route msg no_id cap evs) = arrivals msg evs.
Proof. intros. unfold route. rewrite main_gets_everything. reflexivity. Qed.

Lemma route_no_loss : forall (msg : Type) (no_id : msg -> bool) cap evs,
  (length (filter no_id (arrivals msg evs)) <= cap)%nat ->
  rs_recv msg (route msg no_id cap evs) ++ rs_queue msg (route msg no_id cap evs)
  = filter no_id (arrivals msg evs).
Proof. intros. unfold route. rewrite notif_no_loss; simpl; auto. Qed.

Lemma route_capacity : forall (msg : Type) (no_id : msg -> bool) cap ms,
  rs_queue msg (route msg no_id cap (map (Arrive msg) ms)) = firstn cap (filter no_id ms).
Proof. intros. unfold route. rewrite notif_no_consumer; simpl; auto. apply Nat.le_0_l. Qed.

Lemma route_in_order : forall (msg : Type) (no_id : msg -> bool) cap evs,
  subseq (rs_recv msg (route msg no_id cap evs) ++ rs_queue msg (route msg no_id cap evs))
         (filter no_id (arrivals msg evs)).
Proof.
  intros. unfold route. destruct (notif_in_order msg no_id cap evs (rinit msg)) as (d & Hd & E).
  rewrite E. exact Hd.
Qed.

Lemma oracle_reflects : forall ls d,
  (main_ok ls d = true <-> Spec_main ls d) /\ (notif_ok ls d = true <-> Spec_notif ls d).
Proof. intros. split; [apply main_ok_spec | apply notif_ok_spec]. Qed.

(** C10 lemmas: validating a spec-valid wire object and dumping it by alias preserves every member. *)
From Coq Require Import Lia.
From Verif.Base Require Import Prelude Json ValidSchema.
From Verif.Model Require Import Validate.
From Verif.Spec Require Import C10.
From Verif.Proofs Require Import JsonFacts Validate.
Open Scope Z_scope.

(** * The boolean checker is sound for the specification *)
Lemma preserved_ok_sound : forall fuel a b, preserved_ok fuel a b = true -> preserved a b.
Proof.
  induction fuel as [|f IH]; intros a b H; simpl in H; apply orb_true_iff in H; destruct H as [H|H].
  - apply json_eqb_eq in H. subst. constructor.
  - discriminate.
  - apply json_eqb_eq in H. subst. constructor.
  - destruct a; try discriminate; destruct b; try discriminate.
    + apply P_arr. revert l0 H. induction l as [|x l IHl]; intros [|y l0] H; try discriminate; constructor.
      * apply andb_true_iff in H. destruct H. apply IH. assumption.
      * apply andb_true_iff in H. destruct H. apply IHl. assumption.
    + apply P_obj. intros k v Hin Hnn. rewrite forallb_forall in H. specialize (H _ Hin). simpl in H.
      apply orb_true_iff in H. destruct H as [H|H].
      * destruct v; try discriminate. contradiction.
      * apply existsb_exists in H. destruct H as ([k' v'] & Hin' & H). simpl in H.
        apply andb_true_iff in H. destruct H as [H1 H2]. apply str_eqb_eq in H1. subst.
        exists v'. split; auto.
Qed.

(** * List / lookup lemmas *)
Lemma assoc_in {A} k (m : list (str * A)) v : assoc k m = Some v -> In (k, v) m.
Proof.
  induction m as [|[k' v'] m IH]; simpl; intro H; try discriminate.
  destruct (str_eqb k k') eqn:E.
  - apply str_eqb_eq in E. inversion H; subst. auto.
  - auto.
Qed.

Lemma in_has_key {A} k (v : A) m : In (k, v) m -> has_key k m = true.
Proof.
  unfold has_key. induction m as [|[k' v'] m IH]; simpl; intro H; [contradiction|].
  destruct (str_eqb k k') eqn:E; auto. destruct H as [H|H].
  - inversion H; subst. rewrite str_eqb_refl in E. discriminate.
  - auto.
Qed.

Lemma in_count_pos (fd : field) k (v : json) m :
  In (k, v) m -> key_matches fd k = true -> (1 <= count_matches fd m)%nat.
Proof.
  unfold count_matches. induction m as [|[k' v'] m IH]; simpl; intros H K; [contradiction|].
  destruct H as [H|H].
  - inversion H; subst. rewrite K. simpl. lia.
  - destruct (key_matches fd k'); simpl; [lia | auto].
Qed.

Lemma unique_lookup (fd : field) k v m :
  In (k, v) m -> key_matches fd k = true -> (count_matches fd m <= 1)%nat -> lookup_ref fd m = Some v.
Proof.
  intros Hin K C. rewrite <- (lookup_unique _ _ C). unfold lookup_fb.
  induction m as [|[k' v'] m IH]; simpl; [contradiction|].
  unfold count_matches in C. simpl in C. destruct Hin as [H|H].
  - inversion H; subst. rewrite K in *. simpl in C.
    assert (H0 : count_matches fd m = 0%nat) by (unfold count_matches; lia).
    rewrite (count0_find_last _ _ H0). reflexivity.
  - destruct (key_matches fd k') eqn:E; simpl in C.
    + pose proof (in_count_pos fd k v m H K). unfold count_matches in *. lia.
    + fold (count_matches fd m) in C. specialize (IH H C).
      destruct (find_last (fun kv : str * json => key_matches fd (fst kv)) m); simpl in *; [assumption|discriminate].
Qed.

Lemma distinct_py_inj fds fd fd' :
  distinct_strs (map f_py fds) = true -> In fd fds -> In fd' fds -> f_py fd = f_py fd' -> fd = fd'.
Proof.
  induction fds as [|x fds IH]; simpl; intros D H H' E; [contradiction|].
  apply andb_true_iff in D. destruct D as [D1 D2]. apply negb_true_iff in D1.
  assert (NM : forall y, In y fds -> f_py y <> f_py x).
  { intros y Hy Ey. clear - D1 Hy Ey. induction fds as [|z fds IHf]; simpl in *; [contradiction|].
    apply orb_false_iff in D1. destruct D1 as [D1 D1']. destruct Hy as [->|Hy].
    - rewrite Ey, str_eqb_refl in D1. discriminate.
    - auto. }
  destruct H as [<-|H]; destruct H' as [<-|H']; auto.
  - exfalso. apply (NM fd' H'). auto.
  - exfalso. apply (NM fd H). auto.
Qed.

Lemma find_py_self fds fd :
  distinct_strs (map f_py fds) = true -> In fd fds ->
  find (fun fd' => str_eqb (f_py fd) (f_py fd')) fds = Some fd.
Proof.
  intros D Hin. destruct (find (fun fd' => str_eqb (f_py fd) (f_py fd')) fds) as [fd'|] eqn:F.
  - apply find_some in F. destruct F as [Hin' E]. apply str_eqb_eq in E.
    f_equal. symmetry. eapply distinct_py_inj; eauto.
  - exfalso. apply (find_none _ _ F) in Hin. rewrite str_eqb_refl in Hin. discriminate.
Qed.

Lemma extra_find_none fds k :
  is_extra fds k = true -> find (fun fd' => str_eqb k (f_py fd')) fds = None.
Proof.
  unfold is_extra. intro H. apply negb_true_iff in H.
  induction fds as [|x fds IH]; simpl in *; auto.
  apply orb_false_iff in H. destruct H as [H1 H2]. unfold key_matches in H1.
  apply orb_false_iff in H1. destruct H1 as [_ H1]. rewrite H1. auto.
Qed.

Lemma Forall2_map_r {A B} (R : A -> B -> Prop) (g : A -> B) l :
  (forall x, In x l -> R x (g x)) -> Forall2 R l (map g l).
Proof. induction l; simpl; intro H; constructor; auto. Qed.

(** * A non-null conforming value is not dropped by exclude_none *)
Lemma ref_nonnull SS : forall fuel t j,
  accepts true true SS fuel t j = true -> is_null j = false -> is_vnull (ref_validate SS fuel t j) = false.
Proof.
  induction fuel as [|f IH]; intros t j A N; [discriminate|].
  destruct t; simpl in *; try (destruct j; try discriminate; reflexivity).
  - (* TOpt *) rewrite N in *. simpl in A. auto.
  - (* TUnion *)
    destruct (forallb is_model_ty ts).
    + destruct (find (fun t' => negb (quick_reject SS t' j)) ts); [auto|discriminate].
    + destruct j; try discriminate; reflexivity.
  - (* TModel *)
    destruct (find_schema n SS); try discriminate. destruct j; try discriminate. reflexivity.
Qed.

(** * Losslessness *)
Theorem lossless_gen SS : wf_schemas SS = true ->
  forall fuel t j, wf_ty t = true -> conforms SS fuel t j = true ->
  preserved j (dump SS true (ref_validate SS fuel t j)).
Proof.
  intro WF. unfold conforms. induction fuel as [|f IH]; intros t j Wt C; [discriminate|].
  destruct t; try (simpl; apply P_same).
  - (* TOpt *)
    simpl in *. apply andb_true_iff in Wt. destruct Wt as [Wt _].
    destruct (is_null j) eqn:N; [destruct j; try discriminate; apply P_same|]. simpl in C. auto.
  - (* TUnion *)
    simpl in *. destruct (forallb is_model_ty ts) eqn:M; [|apply P_same].
    destruct (find (fun t' => negb (quick_reject SS t' j)) ts) as [t'|] eqn:F; try discriminate.
    apply IH; auto. apply find_some in F. destruct F as [Hin _].
    rewrite forallb_forall in M. specialize (M _ Hin). destruct t'; try discriminate. reflexivity.
  - (* TList *)
    simpl in *. destruct j; try discriminate. simpl. rewrite map_map. apply P_arr.
    apply Forall2_map_r. intros x Hx. rewrite forallb_forall in C. specialize (C x Hx).
    destruct t; try (apply IH; assumption). rewrite ref_any. apply P_same.
  - (* TDict *)
    simpl in *. destruct j; try discriminate. simpl. rewrite map_map. apply P_obj.
    intros k v Hin Hnn. exists (dump SS true (ref_validate SS f t v)). split.
    + apply in_map_iff. exists (k, v). split; auto.
    + rewrite forallb_forall in C. specialize (C _ Hin). simpl in C.
      destruct t; try (apply IH; assumption). rewrite ref_any. apply P_same.
  - (* TModel *)
    simpl in C. simpl (ref_validate _ _ _ _).
    destruct (find_schema n SS) as [s|] eqn:FS; try discriminate.
    destruct j; try discriminate.
    repeat (apply andb_true_iff in C; destruct C as [C ?]).
    rename H0 into WO. pose proof (wf_find _ _ _ WF FS) as Ws.
    simpl. apply P_obj. intros k v Hin Hnn.
    assert (Nv : is_null v = false) by (destruct v; auto; contradiction).
    destruct (is_extra (s_fields s) k) eqn:X.
    + (* unknown member *)
      exists v. split; [|apply P_same]. apply in_flat_map. exists (k, VJ v). split.
      * apply in_or_app. right. unfold extras. apply in_map_iff. exists (k, v). split; auto.
        apply filter_In. split; auto.
      * assert (is_vnull (VJ v) = false) by (destruct v; auto). rewrite H0.
        unfold out_key. rewrite FS. rewrite (extra_find_none _ _ X). left. reflexivity.
    + (* declared member *)
      unfold is_extra in X. apply negb_false_iff in X. apply existsb_exists in X. destruct X as (fd & Hfd & K).
      rewrite forallb_forall in C. pose proof (C fd Hfd) as FO. unfold field_ok in FO.
      apply andb_true_iff in FO. destruct FO as [FO1 FO2]. apply Nat.leb_le in FO1.
      pose proof (unique_lookup fd k v m Hin K FO1) as L. rewrite L in FO2.
      (* the member is spelled with the wire name *)
      assert (Kw : k = f_wire fd).
      { unfold key_matches in K. apply orb_true_iff in K. destruct K as [K|K]; apply str_eqb_eq in K; auto.
        unfold wire_only in WO. rewrite forallb_forall in WO. specialize (WO fd Hfd).
        apply orb_true_iff in WO. destruct WO as [WO|WO].
        - apply str_eqb_eq in WO. congruence.
        - subst k. rewrite (in_has_key _ _ _ Hin) in WO. discriminate. }
      destruct (wf_field _ _ Ws Hfd) as [W1 _].
      exists (dump SS true (ref_validate SS f (f_ty fd) v)). split; [|apply IH; auto].
      apply in_flat_map. exists (f_py fd, ref_validate SS f (f_ty fd) v). split.
      * apply in_or_app. left. apply in_map_iff. exists fd. split; auto. unfold ref_field. rewrite L. reflexivity.
      * rewrite (ref_nonnull SS f _ _ FO2 Nv). unfold out_key. rewrite FS.
        assert (D : distinct_strs (map f_py (s_fields s)) = true).
        { unfold wf_schema in Ws. repeat (apply andb_true_iff in Ws; destruct Ws as [Ws ?]). assumption. }
        rewrite (find_py_self _ _ D Hfd). left. subst k. reflexivity.
Qed.

(** ... and therefore for the (patched) fallback as well *)
Lemma lossless_fallback SS : wf_schemas SS = true ->
  forall fuel t j, wf_ty t = true -> conforms SS fuel t j = true ->
  exists v, fallback_validate SS fuel t j = Some v /\ preserved j (dump_by_alias SS v).
Proof.
  intros WF fuel t j W C. exists (ref_validate SS fuel t j). split.
  - apply agree_gen; auto.
  - apply lossless_gen; auto.
Qed.

(** * Exact losslessness: under spec-validity (no null at a typed position) nothing at all is dropped, nulls inside
    free-form data included *)
Lemma preserved_exact_ok_sound : forall fuel a b, preserved_exact_ok fuel a b = true -> preserved_exact a b.
Proof.
  induction fuel as [|f IH]; intros a b H; simpl in H; apply orb_true_iff in H; destruct H as [H|H].
  - apply json_eqb_eq in H. subst. constructor.
  - discriminate.
  - apply json_eqb_eq in H. subst. constructor.
  - destruct a; try discriminate; destruct b; try discriminate.
    + apply PE_arr. revert l0 H. induction l as [|x l IHl]; intros [|y l0] H; try discriminate; constructor.
      * apply andb_true_iff in H. destruct H. apply IH. assumption.
      * apply andb_true_iff in H. destruct H. apply IHl. assumption.
    + apply PE_obj. intros k v Hin. rewrite forallb_forall in H. specialize (H _ Hin). simpl in H.
      apply existsb_exists in H. destruct H as ([k' v'] & Hin' & H). simpl in H.
      apply andb_true_iff in H. destruct H as [H1 H2]. apply str_eqb_eq in H1. subst.
      exists v'. split; auto.
Qed.

Lemma preserved_exact_preserved : forall a b, preserved_exact a b -> preserved a b.
Proof.
  fix IH 3. intros a b H. destruct H as [j|l l' F|m m' F].
  - apply P_same.
  - apply P_arr. induction F as [|x y l l' Hxy F IHF]; constructor; auto.
  - apply P_obj. intros k v Hin _. destruct (F k v Hin) as (v' & Hin' & Hp). exists v'. split; auto.
Qed.

Theorem lossless_exact_gen SS : wf_schemas SS = true ->
  forall fuel t j, wf_ty t = true -> conforms SS fuel t j = true ->
  preserved_exact j (dump SS true (ref_validate SS fuel t j)).
Proof.
  intro WF. unfold conforms. induction fuel as [|f IH]; intros t j Wt C; [discriminate|].
  destruct t; try (simpl; apply PE_same).
  - (* TOpt *)
    simpl in *. apply andb_true_iff in Wt. destruct Wt as [Wt _].
    destruct (is_null j) eqn:N; [destruct j; try discriminate; apply PE_same|]. simpl in C. auto.
  - (* TUnion *)
    simpl in *. destruct (forallb is_model_ty ts) eqn:M; [|apply PE_same].
    destruct (find (fun t' => negb (quick_reject SS t' j)) ts) as [t'|] eqn:F; try discriminate.
    apply IH; auto. apply find_some in F. destruct F as [Hin _].
    rewrite forallb_forall in M. specialize (M _ Hin). destruct t'; try discriminate. reflexivity.
  - (* TList *)
    simpl in *. destruct j; try discriminate. simpl. rewrite map_map. apply PE_arr.
    apply Forall2_map_r. intros x Hx. rewrite forallb_forall in C. specialize (C x Hx).
    destruct t; try (apply IH; assumption). rewrite ref_any. apply PE_same.
  - (* TDict *)
    simpl in *. destruct j; try discriminate. simpl. rewrite map_map. apply PE_obj.
    intros k v Hin. exists (dump SS true (ref_validate SS f t v)). split.
    + apply in_map_iff. exists (k, v). split; auto.
    + rewrite forallb_forall in C. specialize (C _ Hin). simpl in C.
      destruct t; try (apply IH; assumption). rewrite ref_any. apply PE_same.
  - (* TModel *)
    simpl in C. simpl (ref_validate _ _ _ _).
    destruct (find_schema n SS) as [s|] eqn:FS; try discriminate.
    destruct j; try discriminate.
    apply andb_true_iff in C. destruct C as [C _].
    apply andb_true_iff in C. destruct C as [C WO].
    apply andb_true_iff in C. destruct C as [C NN].
    pose proof (wf_find _ _ _ WF FS) as Ws.
    simpl. apply PE_obj. intros k v Hin.
    assert (Nv : is_null v = false).
    { rewrite forallb_forall in NN. specialize (NN _ Hin). simpl in NN. apply negb_true_iff in NN. exact NN. }
    destruct (is_extra (s_fields s) k) eqn:X.
    + (* unknown member *)
      exists v. split; [|apply PE_same]. apply in_flat_map. exists (k, VJ v). split.
      * apply in_or_app. right. unfold extras. apply in_map_iff. exists (k, v). split; auto.
        apply filter_In. split; auto.
      * assert (Hvn : is_vnull (VJ v) = false) by (destruct v; auto; discriminate). rewrite Hvn.
        unfold out_key. rewrite FS. rewrite (extra_find_none _ _ X). left. reflexivity.
    + (* declared member *)
      unfold is_extra in X. apply negb_false_iff in X. apply existsb_exists in X. destruct X as (fd & Hfd & K).
      rewrite forallb_forall in C. pose proof (C fd Hfd) as FO. unfold field_ok in FO.
      apply andb_true_iff in FO. destruct FO as [FO1 FO2]. apply Nat.leb_le in FO1.
      pose proof (unique_lookup fd k v m Hin K FO1) as L. rewrite L in FO2.
      assert (Kw : k = f_wire fd).
      { unfold key_matches in K. apply orb_true_iff in K. destruct K as [K|K]; apply str_eqb_eq in K; auto.
        unfold wire_only in WO. rewrite forallb_forall in WO. specialize (WO fd Hfd).
        apply orb_true_iff in WO. destruct WO as [WO|WO].
        - apply str_eqb_eq in WO. congruence.
        - subst k. rewrite (in_has_key _ _ _ Hin) in WO. discriminate. }
      destruct (wf_field _ _ Ws Hfd) as [W1 _].
      exists (dump SS true (ref_validate SS f (f_ty fd) v)). split; [|apply IH; auto].
      apply in_flat_map. exists (f_py fd, ref_validate SS f (f_ty fd) v). split.
      * apply in_or_app. left. apply in_map_iff. exists fd. split; auto. unfold ref_field. rewrite L. reflexivity.
      * rewrite (ref_nonnull SS f _ _ FO2 Nv). unfold out_key. rewrite FS.
        assert (D : distinct_strs (map f_py (s_fields s)) = true).
        { unfold wf_schema in Ws. repeat (apply andb_true_iff in Ws; destruct Ws as [Ws ?]). assumption. }
        rewrite (find_py_self _ _ D Hfd). left. subst k. reflexivity.
Qed.

Lemma lossless_exact_fallback SS : wf_schemas SS = true ->
  forall fuel t j, wf_ty t = true -> conforms SS fuel t j = true ->
  exists v, fallback_validate SS fuel t j = Some v /\ preserved_exact j (dump_by_alias SS v).
Proof.
  intros WF fuel t j W C. exists (ref_validate SS fuel t j). split.
  - apply agree_gen; auto.
  - apply lossless_exact_gen; auto.
Qed.

(** * Every added member is a declared default *)
Theorem added_declared SS : wf_schemas SS = true ->
  forall fuel n s m, find_schema n SS = Some s -> conforms SS (S fuel) (TModel n) (JObj m) = true ->
  forall k x', In (k, x') (match dump SS true (ref_validate SS (S fuel) (TModel n) (JObj m)) with JObj o => o | _ => [] end) ->
    (exists v, In (k, v) m)
    \/ (exists fd dv, In fd (s_fields s) /\ k = f_wire fd /\ f_default fd = Some dv /\ x' = dump SS true dv).
Proof.
  intros WF f n s m FS C k x' Hin. unfold conforms in C. simpl in C, Hin. rewrite FS in *.
  repeat (apply andb_true_iff in C; destruct C as [C ?]).
  rename H0 into WO. pose proof (wf_find _ _ _ WF FS) as Ws.
  apply in_flat_map in Hin. destruct Hin as ([k0 x0] & Hin0 & Hout).
  destruct (is_vnull x0) eqn:VN; [contradiction|]. destruct Hout as [Hout|[]]. inversion Hout; subst; clear Hout.
  apply in_app_or in Hin0. destruct Hin0 as [Hin0|Hin0].
  - apply in_map_iff in Hin0. destruct Hin0 as (fd & E & Hfd). unfold ref_field in E. inversion E; subst; clear E.
    assert (D : distinct_strs (map f_py (s_fields s)) = true).
    { unfold wf_schema in Ws. repeat (apply andb_true_iff in Ws; destruct Ws as [Ws ?]). assumption. }
    unfold out_key. rewrite FS. rewrite (find_py_self _ _ D Hfd).
    unfold lookup_ref in *. destruct (assoc (f_wire fd) m) as [v|] eqn:A1.
    + left. exists v. apply assoc_in. assumption.
    + destruct (assoc (f_py fd) m) as [v|] eqn:A2.
      * (* spelled with the python name: excluded by wire_only unless both names coincide *)
        unfold wire_only in WO. rewrite forallb_forall in WO. specialize (WO fd Hfd).
        apply orb_true_iff in WO. destruct WO as [WO|WO].
        -- apply str_eqb_eq in WO. rewrite WO in A2. congruence.
        -- rewrite (in_has_key _ _ _ (assoc_in _ _ _ A2)) in WO. discriminate.
      * right. destruct (f_default fd) as [dv|] eqn:DF.
        -- exists fd, dv. auto.
        -- simpl in VN. discriminate.
  - unfold extras in Hin0. apply in_map_iff in Hin0. destruct Hin0 as ([k1 v1] & E & Hf). inversion E; subst; clear E.
    apply filter_In in Hf. destruct Hf as [Hm X]. simpl in X.
    unfold out_key. rewrite FS. rewrite (extra_find_none _ _ X). left. exists v1. assumption.
Qed.

(** * The defect class: a dump WITHOUT by_alias emits the Python attribute name *)
Lemma python_name_leaks SS c fs k x :
  In (k, x) fs -> is_vnull x = false ->
  In (k, dump SS false x) (match dump SS false (VModel c fs) with JObj o => o | _ => [] end)
  /\ In (out_key SS true c k, dump SS true x) (match dump SS true (VModel c fs) with JObj o => o | _ => [] end).
Proof.
  intros Hin VN. simpl. split; apply in_flat_map; exists (k, x); (split; [assumption|]); rewrite VN; left; reflexivity.
Qed.

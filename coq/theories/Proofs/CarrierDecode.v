(** C15 — the per-message decoders of the carriers agree on valid JSON-RPC.

    The carriers decode a message text differently in the code:
      stdio           json.loads, then [parse_message]            (unified class first, then field presence)
      legacy SSE      json.loads, then [JSONRPCMessage.model_validate], delivered whatever it is
      Streamable HTTP json.loads, then [JSONRPCMessage.model_validate], then the non-message filter
                      (no method, no result, no error -> dropped)
    Model/Envelope.v (C02, tied to the code there) has both [parse_message] and
    [unified_validate].  Here: on every message that is valid JSON-RPC 2.0
    ([classify = inr k], Spec/C02.v) and whose result - if it is a result - is a
    JSON OBJECT, all three deliver a message with the same view (kind, id with
    its JSON type, method, params, result, error), namely what the wire says.
    For a result that is not an object (null, a number, a string, an array:
    valid JSON-RPC, not MCP) they do NOT agree: the unified class refuses it, so
    only stdio delivers it - refuted below, replayed on the real carriers by
    harness/c15.py (recorded finding). *)
From Coq Require Import Lia.
From Verif.Base Require Import Prelude Json Envelope.
From Verif.Model Require Import Envelope.
From Verif.Spec Require Import C02.
From Verif.Proofs Require Import Envelope.
Open Scope Z_scope.

Definition decode_stdio (fb : bool) (m : obj) : option view :=
  match parse_message fb (JObj m) with Some e => view_of_msg e | None => None end.

Definition decode_legacy (m : obj) : option view :=
  match unified_validate m with Some e => view_of_msg e | None => None end.

Definition is_message (e : msg) : bool :=
  (match m_method e with Some _ => true | None => false end)
  || negb (is_null (m_result e)) || negb (is_null (m_error e)).

Definition decode_http (m : obj) : option view :=
  match unified_validate m with
  | Some e => if is_message e then view_of_msg e else None
  | None => None
  end.

Definition result_is_object (m : obj) : Prop := exists rm, field k_result m = JObj rm.

Lemma unified_valid : forall m k,
  classify (JObj m) = inr k ->
  (k = KRes -> result_is_object m) ->
  exists e, unified_validate m = Some e /\ is_message e = true /\ view_of_msg e = view_of_wire (JObj m).
Proof.
  intros m k Hc Hobj.
  unfold view_of_wire. rewrite Hc.
  apply classify_sound in Hc.
  inversion Hc as [m0 meth i Hver Hmeth Hid Hpar Hres Herr
                  |m0 meth Hver Hmeth Hid Hpar Hres Herr
                  |m0 i r Hver Hmeth Hpar Hid Hres Herr
                  |m0 i em code msg Hver Hmeth Hpar Hi Hid Hres Herr Hcode Hmsg]; subst; unfold version_ok in *.
  - unfold unified_validate, unified_init, field.
    rewrite Hver, Hmeth, Hid, Hres, Herr.
    rewrite val_opt_id_rid, rid_of_json_of_rid. simpl.
    destruct Hpar as [Hp|[p Hp]]; rewrite Hp; simpl; eexists; repeat split; reflexivity.
  - unfold unified_validate, unified_init, field.
    rewrite Hver, Hmeth, Hid, Hres, Herr. simpl.
    destruct Hpar as [Hp|[p Hp]]; rewrite Hp; simpl; eexists; repeat split; reflexivity.
  - destruct (Hobj eq_refl) as (rm & Hrm). unfold field in Hrm. rewrite Hres in Hrm. subst r.
    unfold unified_validate, unified_init, field.
    rewrite Hver, Hmeth, Hid, Hres, Herr, Hpar.
    rewrite val_opt_id_rid, rid_of_json_of_rid. simpl.
    eexists; repeat split; reflexivity.
  - unfold unified_validate, unified_init, field.
    rewrite Hver, Hmeth, Hid, Hres, Herr, Hpar. simpl.
    unfold has_key. rewrite Hcode, Hmsg. simpl.
    destruct Hi as [->|[r ->]].
    + simpl. eexists; repeat split; reflexivity.
    + rewrite val_opt_id_rid, rid_of_json_of_rid. simpl. eexists; repeat split; reflexivity.
Qed.

Lemma decoders_agree : forall fb m k,
  classify (JObj m) = inr k ->
  (k = KRes -> result_is_object m) ->
  decode_stdio fb m = view_of_wire (JObj m)
  /\ decode_legacy m = view_of_wire (JObj m)
  /\ decode_http m = view_of_wire (JObj m)
  /\ view_of_wire (JObj m) <> None.
Proof.
  intros fb m k Hc Hobj.
  destruct (unified_valid m k Hc Hobj) as (e & Hu & Hm & Hv).
  unfold decode_stdio, decode_legacy, decode_http, parse_message.
  rewrite Hu, Hm. repeat split; try assumption.
  unfold view_of_wire. rewrite Hc. discriminate.
Qed.

(** Outside that domain the carriers differ: a response whose result is null. *)
Definition w_null_result : obj :=
  [(k_jsonrpc, JStr v2); (k_id, JInt 1); (k_result, JNull)].
Definition w_scalar_result : obj :=
  [(k_jsonrpc, JStr v2); (k_id, JStr [97]); (k_result, JInt 5)].

Definition decoders_agree_on_every_valid_message : Prop :=
  forall m k, classify (JObj m) = inr k -> decode_stdio false m = decode_http m /\ decode_stdio false m = decode_legacy m.

Lemma decoders_agree_on_every_valid_message_refuted : ~ decoders_agree_on_every_valid_message.
Proof.
  intros H. destruct (H w_null_result KRes eq_refl) as [H1 _]. vm_compute in H1. discriminate.
Qed.

Lemma non_object_results_reach_stdio_only :
  (decode_stdio false w_null_result <> None /\ decode_http w_null_result = None /\ decode_legacy w_null_result = None)
  /\ (decode_stdio false w_scalar_result <> None /\ decode_http w_scalar_result = None /\ decode_legacy w_scalar_result = None).
Proof. vm_compute. repeat split; discriminate. Qed.

(** From the master lemma [loop_explained] to the executable specifications
    of C01 / C07 / C14: every possible result of the model satisfies the
    checkers of Spec/C01.v, Spec/C07.v and Spec/C14.v. *)
From Coq Require Import Lia ZifyBool Sorting.Sorted.
From Verif.Base Require Import Prelude.
From Verif.Model Require Import Await.
From Verif.Spec Require Import C01 C07 C14.
From Verif.Proofs Require Import Await.
Open Scope Z_scope.

Lemma clamp_sorted : forall t0 l,
  StronglySorted le_time l -> StronglySorted le_time (map (clamp t0) l).
Proof.
  induction l as [|x l IH]; intros H; cbn; [constructor|].
  inversion H as [|? ? Hs Hall]; subst. constructor; [now apply IH|].
  apply Forall_forall. intros y Hy. apply in_map_iff in Hy as (z & <- & Hz).
  rewrite Forall_forall in Hall. specialize (Hall z Hz).
  unfold le_time, clamp in *. cbn. lia.
Qed.

Lemma clamp_ge : forall t0 l, Forall (fun x => t0 <= fst x) (map (clamp t0) l).
Proof.
  intros t0 l. apply Forall_forall. intros y Hy.
  apply in_map_iff in Hy as (z & <- & Hz). unfold clamp. cbn. lia.
Qed.


Section Corollaries.
  Variable poll : Z.
  Variable retryable : Z -> bool.
  Variable D : Z.
  Variable me : rid.
  Variable has_cb : bool.
  Variable cancel : option Z.
  Hypothesis poll_pos : 0 < poll.

  Notation classify := (classify me has_cb).
  Notation explains := (explains poll retryable D me has_cb cancel).
  Notation quiet := (quiet me has_cb).
  Notation cbvals := (cbvals me has_cb).

  Lemma answer_classify : forall m,
    is_answer me m = true <->
    (exists tok, classify m = AReturn tok) \/ (exists code, classify m = ARaise code).
  Proof.
    intros m. destruct m as [i tok|i code|i| |[] v|]; cbn;
      try destruct (rid_eqb i me); try destruct has_cb;
      split; intros H; try discriminate; try reflexivity;
      try (destruct H as [[? H]|[? H]]; discriminate); eauto.
  Qed.

  Lemma quiet_not_answer : forall m, quiet m -> is_answer me m = false.
  Proof.
    intros m Hq. destruct (is_answer me m) eqn:Ha; [|reflexivity].
    apply answer_classify in Ha. destruct Hq as [Hs|[v Hv]], Ha as [[? Ha]|[? Ha]]; congruence.
  Qed.

  Lemma classify_return : forall m tok, classify m = AReturn tok ->
    is_answer me m = true /\ out_matches m (Return tok) = true.
  Proof.
    intros m tok H. destruct m as [i tok'|i code|i| |[] v|]; cbn in *;
      try destruct (rid_eqb i me); try destruct has_cb; try discriminate.
    all: injection H as ->; split; [reflexivity|]; apply Z.eqb_refl.
  Qed.

  Lemma classify_raise : forall m code, classify m = ARaise code ->
    is_answer me m = true /\ forall b, out_matches m (RaiseErr b code) = true.
  Proof.
    intros m code H. destruct m as [i tok'|i code'|i| |[] v|]; cbn in *;
      try destruct (rid_eqb i me); try destruct has_cb; try discriminate.
    all: injection H as ->; split; [reflexivity|]; intros b; apply Z.eqb_refl.
  Qed.

  Lemma classify_cb : forall m,
    cb_value has_cb m = match classify m with ACallback v => Some v | _ => None end.
  Proof.
    intros m. destruct m as [i tok|i code|i| |[] v|]; cbn;
      try destruct (rid_eqb i me); try destruct has_cb; reflexivity.
  Qed.

  Lemma first_answer_app_quiet : forall l1 l2,
    Forall (fun x => quiet (snd x)) l1 ->
    first_answer me (l1 ++ l2) = first_answer me l2.
  Proof.
    induction l1 as [|[a m] l1 IH]; intros l2 H; cbn; [reflexivity|].
    inversion H as [|? ? Hq Hrest]; subst. cbn in Hq.
    rewrite (quiet_not_answer m Hq). now apply IH.
  Qed.

  Lemma first_answer_clamp : forall t0 l,
    first_answer me (map (clamp t0) l) =
    match first_answer me l with Some (a, m) => Some (Z.max t0 a, m) | None => None end.
  Proof.
    induction l as [|[a m] l IH]; cbn; [reflexivity|].
    destruct (is_answer me m); [reflexivity|exact IH].
  Qed.

  (** Progress: the recorded invocations are exactly what the history demands. *)
  (** Once the log is exhausted every remaining element is at or after [e]:
      later ones are cut by the [e <? a] test, those at [e] may go either way. *)
  Lemma cb_expected_rest : forall e l2,
    Forall (fun x => e <= fst x) l2 ->
    cb_expected me has_cb e l2 [] = true.
  Proof.
    induction l2 as [|[a m] l2 IH]; intros Hge; cbn; [reflexivity|].
    inversion Hge as [|? ? Ha Hge']; subst. cbn in Ha.
    destruct (e <? a) eqn:Hlt; [reflexivity|].
    assert (a = e) by lia. subst a.
    destruct (is_answer me m) eqn:Hans.
    - now rewrite Z.eqb_refl.
    - destruct (cb_value has_cb m); [now rewrite Z.eqb_refl|].
      now apply IH.
  Qed.

  Lemma cb_expected_split : forall e l1 l2,
    Forall (fun x => quiet (snd x) /\ fst x <= e) l1 ->
    Forall (fun x => e <= fst x) l2 ->
    cb_expected me has_cb e (l1 ++ l2) (cbvals l1) = true.
  Proof.
    induction l1 as [|[a m] l1 IH]; intros l2 H1 H2.
    - cbn. now apply cb_expected_rest.
    - inversion H1 as [|? ? [Hq Ha] H1']; subst. cbn in Hq, Ha.
      cbn [app cb_expected].
      destruct (e <? a) eqn:Hlt; [lia|].
      rewrite (quiet_not_answer m Hq).
      rewrite classify_cb. unfold Await.cbvals. cbn [flat_map snd].
      destruct Hq as [Hs|[v Hv]].
      + rewrite Hs. cbn. now apply IH.
      + rewrite Hv. cbn. rewrite Z.eqb_refl. now apply IH.
  Qed.

  (** * C01 *)
  Lemma explained_c01 : forall t0 arrivals r,
    cancel = None -> t0 <= D ->
    explains (map (clamp t0) arrivals) t0 [] r ->
    c01_ok t0 D me arrivals r = true.
  Proof.
    intros t0 arrivals r Hnone Ht0 (l1 & l2 & Hsplit & Hl1 & Hcb & Hend & Hw & Hlat & Hrest & Hout).
    assert (Hq : Forall (fun x => quiet (snd x)) l1).
    { eapply Forall_impl; [|exact Hl1]. cbn. tauto. }
    pose proof (first_answer_app_quiet l1 l2 Hq) as Hfa.
    rewrite <- Hsplit, first_answer_clamp in Hfa.
    unfold c01_ok. rewrite Hw. cbn [andb].
    destruct (r_out r) as [tok|b code| |] eqn:Ho.
    - destruct Hout as (a & m & l2' & -> & Hc & He & Hn).
      apply classify_return in Hc as [Hans Hm].
      cbn [first_answer] in Hfa. rewrite Hans in Hfa.
      destruct (first_answer me arrivals) as [[a0 m0]|]; [|discriminate].
      injection Hfa as Ha0 ->. cbn [is_timeout].
      rewrite Hm. cbn [orb].
      rewrite Hn. cbn.
      repeat match goal with |- context [if ?b then _ else _] => destruct b eqn:? end; lia.
    - destruct Hout as (a & m & l2' & -> & Hc & Hb & He & Hn).
      apply classify_raise in Hc as [Hans Hm].
      cbn [first_answer] in Hfa. rewrite Hans in Hfa.
      destruct (first_answer me arrivals) as [[a0 m0]|]; [|discriminate].
      injection Hfa as Ha0 ->. cbn [is_timeout].
      rewrite (Hm b). cbn [orb]. rewrite Hn. cbn.
      repeat match goal with |- context [if ?b then _ else _] => destruct b eqn:? end; lia.
    - destruct Hout as (He & Hge & Hn). rewrite Hn. cbn [is_timeout].
      destruct (first_answer me arrivals) as [[a0 m0]|] eqn:Hfa0.
      + (* the first answer sits in l2, hence at or after D *)
        assert (D <= Z.max t0 a0).
        { destruct l2 as [|[a m] l2']; cbn in Hfa; [discriminate|].
          inversion Hge as [|? ? Ha Hge']; subst. cbn in Ha.
          destruct (is_answer me m).
          - injection Hfa as <- _. lia.
          - clear -Hfa Hge'. revert Hfa. induction Hge' as [|[a1 m1] l Ha1 _ IH]; cbn; [discriminate|].
            destruct (is_answer me m1); [intros H; injection H as <- _; cbn in Ha1; lia|exact IH]. }
        cbn. repeat match goal with |- context [if ?b then _ else _] => destruct b eqn:? end; lia.
      + cbn. lia.
    - destruct Hout as (c & Hc & _). congruence.
  Qed.

  (** * C14 *)
  Lemma explained_c14_sent : forall t0 arrivals r,
    poll <= poll_spec -> t0 <= D ->
    (forall c, cancel = Some c -> t0 <= c) ->
    explains (map (clamp t0) arrivals) t0 [] r ->
    c14_ok t0 D me has_cb cancel arrivals r = true.
  Proof.
    intros t0 arrivals r Hpoll Ht0 Hcan (l1 & l2 & Hsplit & Hl1 & Hcb & Hend & Hw & Hlat & Hrest & Hout).
    assert (Hq : Forall (fun x => quiet (snd x)) l1).
    { eapply Forall_impl; [|exact Hl1]. cbn. tauto. }
    pose proof (first_answer_app_quiet l1 l2 Hq) as Hfa.
    rewrite <- Hsplit, first_answer_clamp in Hfa.
    assert (Hprog : cb_expected me has_cb (r_end r) (map (clamp_time t0) arrivals) (r_cb r) = true).
    { change (map (clamp_time t0) arrivals) with (map (clamp t0) arrivals).
      rewrite Hsplit, Hcb. cbn [rev app]. now apply cb_expected_split. }
    unfold c14_ok. rewrite Hw, Hprog.
    assert (Hans : match r_out r with
                   | Return _ | RaiseErr _ _ =>
                       match first_answer me arrivals with
                       | Some (_, m) => out_matches m (r_out r)
                       | None => false
                       end
                   | _ => true
                   end = true).
    { destruct (r_out r) as [tok|b code| |] eqn:Ho; auto.
      - destruct Hout as (a & m & l2' & -> & Hc & _).
        apply classify_return in Hc as [Ha Hm]. cbn [first_answer] in Hfa. rewrite Ha in Hfa.
        destruct (first_answer me arrivals) as [[a0 m0]|]; [|discriminate].
        injection Hfa as _ ->. exact Hm.
      - destruct Hout as (a & m & l2' & -> & Hc & _).
        apply classify_raise in Hc as [Ha Hm]. cbn [first_answer] in Hfa. rewrite Ha in Hfa.
        destruct (first_answer me arrivals) as [[a0 m0]|]; [|discriminate].
        injection Hfa as _ ->. apply Hm. }
    rewrite Hans. rewrite !andb_true_r.
    destruct cancel as [c|] eqn:Hcancel.
    - specialize (Hcan c eq_refl). specialize (Hlat c eq_refl).
      unfold poll_spec in *.
      destruct (r_out r) eqn:Ho; cbn [is_cancelled].
      + destruct Hout as (a & m & l2' & _ & _ & _ & Hn). lia.
      + destruct Hout as (a & m & l2' & _ & _ & _ & _ & Hn). lia.
      + destruct Hout as (_ & _ & Hn). lia.
      + destruct Hout as (c' & Hc' & Hb & Hn & _). injection Hc' as <-. lia.
    - destruct (r_out r) eqn:Ho; cbn [is_cancelled negb].
      + destruct Hout as (a & m & l2' & _ & _ & _ & Hn). lia.
      + destruct Hout as (a & m & l2' & _ & _ & _ & _ & Hn). lia.
      + destruct Hout as (_ & _ & Hn). lia.
      + destruct Hout as (c' & Hc' & _). discriminate.
  Qed.
End Corollaries.

(** * Results of [run] (the whole of send_message) *)
Section Run.
  Variable poll : Z.
  Variable retryable : Z -> bool.
  Hypothesis poll_pos : 0 < poll.

  Theorem run_c01 : forall t0 D me has_cb arrivals r,
    t0 <= D -> StronglySorted le_time arrivals ->
    In r (run poll retryable D me has_cb None t0 arrivals) ->
    c01_ok t0 D me arrivals r = true.
  Proof.
    intros t0 D me has_cb arrivals r Ht0 Hs Hin. cbn [run] in Hin.
    assert (Hcok : cancel_ok poll None t0) by (intros c Hc; discriminate).
    pose proof (loop_explained poll retryable D me has_cb None poll_pos _ _ _ _
                  (clamp_sorted t0 arrivals Hs) (clamp_ge t0 arrivals) Ht0 Hcok Hin) as He.
    eapply explained_c01; eauto.
  Qed.

  Theorem run_c14 : forall t0 D me has_cb cancel arrivals r,
    poll <= poll_spec -> t0 <= D -> StronglySorted le_time arrivals ->
    In r (run poll retryable D me has_cb cancel t0 arrivals) ->
    c14_ok t0 D me has_cb cancel arrivals r = true.
  Proof.
    intros t0 D me has_cb cancel arrivals r Hp Ht0 Hs Hin.
    assert (Hsent : (forall c, cancel = Some c -> t0 <= c) ->
                    In r (loop poll retryable D me has_cb cancel (map (clamp t0) arrivals) t0 []) ->
                    c14_ok t0 D me has_cb cancel arrivals r = true).
    { intros Hc Hl.
      assert (Hcok : cancel_ok poll cancel t0) by (intros c Hc'; specialize (Hc c Hc'); lia).
      pose proof (loop_explained poll retryable D me has_cb cancel poll_pos _ _ _ _
                    (clamp_sorted t0 arrivals Hs) (clamp_ge t0 arrivals) Ht0 Hcok Hl) as He.
      eapply explained_c14_sent; eauto. }
    assert (Hnot : forall c, cancel = Some c -> c <= t0 ->
              c14_ok t0 D me has_cb cancel arrivals
                {| r_out := Cancelled; r_end := t0; r_req_written := false;
                   r_cancel_notifs := 1; r_cb := [] |} = true).
    { intros c -> Hc. unfold c14_ok. cbn. lia. }
    unfold run in Hin. destruct cancel as [c|] eqn:Hcancel.
    - destruct (c <? t0) eqn:Hlt.
      + destruct Hin as [<- | []]. apply (Hnot c); [reflexivity | lia].
      + apply in_app_or in Hin as [Hin | Hin].
        * destruct (c =? t0) eqn:Heq; [|contradiction]. destruct Hin as [<- | []].
          apply (Hnot c); [reflexivity | lia].
        * apply Hsent; auto. intros c' Hc'. injection Hc' as <-. lia.
    - apply Hsent; auto. intros c' Hc'. discriminate.
  Qed.

  (** A matching error response never completes the request normally and is
      raised with the class [retryable] assigns to its code. *)
  Theorem run_error_class : forall t0 D me has_cb cancel arrivals r b code,
    t0 <= D -> StronglySorted le_time arrivals ->
    In r (run poll retryable D me has_cb cancel t0 arrivals) ->
    r_out r = RaiseErr b code -> b = retryable code.
  Proof.
    intros t0 D me has_cb cancel arrivals r b code Ht0 Hs Hin Ho.
    assert (Hl : In r (loop poll retryable D me has_cb cancel (map (clamp t0) arrivals) t0 []) ->
                 b = retryable code).
    { intros Hl. apply loop_explained in Hl; auto.
      - destruct Hl as (l1 & l2 & _ & _ & _ & _ & _ & _ & _ & Hout). rewrite Ho in Hout.
        destruct Hout as (a & m & l2' & _ & _ & Hb & _). exact Hb.
      - now apply clamp_sorted.
      - apply clamp_ge.
      - intros c Hc.
        (* cancel_ok t0 is only needed for the latency clause; supply it when it holds,
           otherwise the run never reaches the loop *)
        unfold run in Hin. rewrite Hc in Hin.
        destruct (c <? t0) eqn:Hlt; [|lia].
        destruct Hin as [<- | []]. cbn in Ho. discriminate. }
    unfold run in Hin. destruct cancel as [c|].
    - destruct (c <? t0); [destruct Hin as [<- | []]; cbn in Ho; discriminate|].
      apply in_app_or in Hin as [Hin | Hin]; [|now apply Hl].
      destruct (c =? t0); [|contradiction]. destruct Hin as [<- | []]. cbn in Ho. discriminate.
    - now apply Hl.
  Qed.
End Run.

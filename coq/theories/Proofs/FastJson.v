(** Lemmas about the fast_json wrapper (C17) under explicit codec contracts. *)
From Coq Require Import Lia ZifyBool.
From Verif.Base Require Import Prelude JsonVal.
From Verif.Model Require Import JsonEnc FastJson.
From Verif.Spec Require Import C17.
From Verif.Proofs Require Import JsonVal JsonEncClean.
Open Scope Z_scope.

(** a text without raw line break characters *)
Definition single_line (s : str) : Prop := ~ In 10 s /\ ~ In 13 s.

Lemma single_line_bytes s : single_line s -> Spec_single_frame (utf8_str s).
Proof.
  intros [H10 H13]. unfold Spec_single_frame, utf8_str. split; intros Hin;
    apply in_flat_map in Hin; destruct Hin as [c [Hc Hb]];
    (apply utf8_low in Hb; [|lia]); destruct Hb as [_ Hb]; subst c; auto.
Qed.

Lemma clean_single_line s : clean s -> single_line s.
Proof.
  intros H. unfold clean in H. rewrite Forall_forall in H.
  split; intros Hin; apply H in Hin; lia.
Qed.

Lemma single_frame_ok_spec bytes : single_frame_ok bytes = true <-> Spec_single_frame bytes.
Proof.
  assert (Hm : forall x l, mem_Z x l = true <-> In x l).
  { intros x l; induction l as [|y l IH]; simpl; [intuition congruence|].
    rewrite orb_true_iff, IH, Z.eqb_eq. intuition. }
  unfold single_frame_ok, Spec_single_frame.
  rewrite andb_true_iff, !negb_true_iff.
  split.
  - intros [H1 H2]. split; intros Hin; apply Hm in Hin; congruence.
  - intros [H1 H2]. split.
    + destruct (mem_Z 10 bytes) eqn:E; [apply Hm in E; contradiction | reflexivity].
    + destruct (mem_Z 13 bytes) eqn:E; [apply Hm in E; contradiction | reflexivity].
Qed.

(** CONTRACTS on the four codecs — each is exercised by the tie ("contract
    checks").  [fparse] is the reference decoder's float reader; [dom] the value
    domain on which the contracts are claimed (lone-surrogate-free strings,
    finite floats, nesting within both backends' recursion limits). *)
Record codec_contracts {F : Type}
    (enc_o : bool -> json F -> option str) (enc_s : kwargs -> json F -> option str)
    (dec_o dec_s : str -> option (json F))
    (fparse : str -> option F) (dom : json F -> Prop) : Prop := {
  (* what an encoder emits, the reference decoder reads back as the value *)
  cc_enc_o_sound : forall i v s, dom v -> enc_o i v = Some s -> ref_parse fparse s = Some v;
  cc_enc_s_sound : forall kw v s, dom v -> enc_s kw v = Some s -> ref_parse fparse s = Some v;
  (* the stdlib encoder accepts every JSON value of the domain *)
  cc_enc_s_total : forall kw v, dom v -> enc_s kw v <> None;
  (* orjson refuses integers outside 64 bits (it may refuse more: deep nesting) *)
  cc_enc_o_unfit : forall i v, fits64 v = false -> enc_o i v = None;
  (* a decoder agrees with the reference decoder; orjson only on 64-bit values *)
  cc_dec_o_agrees : forall s v, ref_parse fparse s = Some v -> dom v -> fits64 v = true -> dec_o s = Some v;
  cc_dec_s_agrees : forall s v, ref_parse fparse s = Some v -> dom v -> dec_s s = Some v;
  (* without indent an encoder's text is a single line *)
  cc_enc_o_single : forall v s, enc_o false v = Some s -> single_line s;
  cc_enc_s_single : forall kw v s, kw_indent kw = None -> enc_s kw v = Some s -> single_line s
}.

Section Contracts.
  Variable F : Type.
  Variable enc_o : bool -> json F -> option str.
  Variable enc_s : kwargs -> json F -> option str.
  Variable dec_o : str -> option (json F).
  Variable dec_s : str -> option (json F).
  Variable fparse : str -> option F.
  Variable dom : json F -> Prop.
  Hypothesis C : codec_contracts enc_o enc_s dec_o dec_s fparse dom.

  Let enc_o_sound := cc_enc_o_sound _ _ _ _ _ _ C.
  Let enc_s_sound := cc_enc_s_sound _ _ _ _ _ _ C.
  Let enc_s_total := cc_enc_s_total _ _ _ _ _ _ C.
  Let enc_o_unfit := cc_enc_o_unfit _ _ _ _ _ _ C.
  Let dec_o_agrees := cc_dec_o_agrees _ _ _ _ _ _ C.
  Let dec_s_agrees := cc_dec_s_agrees _ _ _ _ _ _ C.
  Let enc_o_single := cc_enc_o_single _ _ _ _ _ _ C.
  Let enc_s_single := cc_enc_s_single _ _ _ _ _ _ C.

  Let dumps := dumps enc_o enc_s.
  Let loads := loads dec_o dec_s.

  Lemma dumps_total a kw v : dom v -> exists s, dumps a kw v = Some s.
  Proof.
    intros Hd. unfold dumps, FastJson.dumps. destruct a.
    - destruct (enc_o (indent_truthy kw) v) eqn:E; [eauto|].
      destruct (enc_s kw v) eqn:E2; [eauto | exfalso; eapply enc_s_total; eauto].
    - destruct (enc_s kw v) eqn:E2; [eauto | exfalso; eapply enc_s_total; eauto].
  Qed.

  Lemma dumps_sound a kw v s : dom v -> dumps a kw v = Some s -> ref_parse fparse s = Some v.
  Proof.
    intros Hd. unfold dumps, FastJson.dumps. destruct a.
    - destruct (enc_o (indent_truthy kw) v) eqn:E.
      + intros [= <-]. eapply enc_o_sound; eauto.
      + intros H. eapply enc_s_sound; eauto.
    - intros H. eapply enc_s_sound; eauto.
  Qed.

  Lemma loads_agrees b s v :
    ref_parse fparse s = Some v -> dom v -> fits64 v = true -> loads b s = Some v.
  Proof.
    intros Hp Hd Hf. unfold loads, FastJson.loads. destruct b.
    - rewrite (dec_o_agrees s v Hp Hd Hf). reflexivity.
    - apply dec_s_agrees; assumption.
  Qed.

  (** encode under backend [a], decode under backend [b] *)
  Lemma wrapper_roundtrip a b kw v :
    dom v -> fits64 v = true ->
    exists s, dumps a kw v = Some s /\ Spec_roundtrip v (loads b s).
  Proof.
    intros Hd Hf. destruct (dumps_total a kw v Hd) as [s Hs].
    exists s. split; [assumption|]. unfold Spec_roundtrip.
    apply loads_agrees; [eapply dumps_sound; eauto | assumption | assumption].
  Qed.

  Lemma wrapper_backend_independent kw v :
    dom v -> fits64 v = true ->
    exists so ss, dumps true kw v = Some so /\ dumps false kw v = Some ss /\
      Spec_backend_independent v [loads true so; loads false so; loads true ss; loads false ss].
  Proof.
    intros Hd Hf.
    destruct (dumps_total true kw v Hd) as [so Hso].
    destruct (dumps_total false kw v Hd) as [ss Hss].
    exists so, ss. split; [assumption|]. split; [assumption|].
    pose proof (dumps_sound true kw v so Hd Hso).
    pose proof (dumps_sound false kw v ss Hd Hss).
    unfold Spec_backend_independent.
    repeat constructor; apply loads_agrees; assumption.
  Qed.

  Lemma loads_backend_independent s v :
    ref_parse fparse s = Some v -> dom v -> fits64 v = true ->
    loads true s = loads false s.
  Proof.
    intros. rewrite !(loads_agrees _ s v); auto.
  Qed.

  (** outside the 64-bit window orjson steps aside: both configurations emit
      the stdlib encoder's text *)
  Lemma dumps_unfit_falls_back kw v :
    fits64 v = false -> dumps true kw v = dumps false kw v.
  Proof.
    intros Hf. unfold dumps, FastJson.dumps. rewrite enc_o_unfit; auto.
  Qed.

  Lemma dumps_single_line a kw v s :
    kw_indent kw = None -> dumps a kw v = Some s -> single_line s.
  Proof.
    intros Hk. unfold dumps, FastJson.dumps.
    assert (Hi : indent_truthy kw = false) by (unfold indent_truthy; rewrite Hk; reflexivity).
    rewrite Hi. destruct a.
    - destruct (enc_o false v) eqn:E.
      + intros [= <-]. eapply enc_o_single; eauto.
      + intros H. eapply enc_s_single; eauto.
    - intros H. eapply enc_s_single; eauto.
  Qed.

  Lemma wrapper_single_frame a kw v s :
    kw_indent kw = None -> dumps a kw v = Some s -> Spec_single_frame (utf8_str s).
  Proof.
    intros Hk Hd. apply single_line_bytes. eapply dumps_single_line; eauto.
  Qed.
End Contracts.

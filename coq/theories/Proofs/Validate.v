(** Lemmas about Model/Validate.v (C09, C10). *)
From Coq Require Import Lia.
From Verif.Base Require Import Prelude Json ValidSchema.
From Verif.Model Require Import Validate.
From Verif.Proofs Require Import JsonFacts.
Open Scope Z_scope.

(** * Generic list lemmas *)
Lemma mapM_ext_some {A B} (g : A -> option B) (h : A -> B) (l : list A) :
  (forall x, In x l -> g x = Some (h x)) -> mapM g l = Some (map h l).
Proof.
  induction l as [|x l IH]; simpl; intro H; auto.
  rewrite (H x (or_introl eq_refl)). rewrite IH; auto.
Qed.

Lemma mapM_none {A B} (g : A -> option B) (l : list A) x :
  In x l -> g x = None -> mapM g l = None.
Proof.
  induction l as [|y l IH]; simpl; intros Hin Hx; [contradiction|].
  destruct Hin as [->|Hin].
  - rewrite Hx. reflexivity.
  - destruct (g y); auto. rewrite (IH Hin Hx). reflexivity.
Qed.

Lemma find_some_split {A} (p : A -> bool) (l : list A) x :
  find p l = Some x -> exists l1 l2, l = l1 ++ x :: l2 /\ p x = true /\ forall y, In y l1 -> p y = false.
Proof.
  induction l as [|y l IH]; simpl; intro H; try discriminate.
  destruct (p y) eqn:E.
  - inversion H; subst. exists [], l. repeat split; auto. intros ? [].
  - destruct (IH H) as (l1 & l2 & -> & Hp & Hl1). exists (y :: l1), l2. repeat split; auto.
    intros z [<-|Hz]; auto.
Qed.

Lemma first_some_app {A B} (g : A -> option B) l1 x l2 v :
  (forall y, In y l1 -> g y = None) -> g x = Some v -> first_some g (l1 ++ x :: l2) = Some v.
Proof.
  induction l1 as [|y l1 IH]; simpl; intros H Hx.
  - rewrite Hx. reflexivity.
  - rewrite (H y (or_introl eq_refl)). apply IH; auto.
Qed.

(** * Field lookup: at most one matching member => both back ends read the same member *)
Lemma count0_find_last (fd : field) m :
  count_matches fd m = 0%nat -> find_last (fun kv => key_matches fd (fst kv)) m = None.
Proof.
  unfold count_matches. induction m as [|[k v] m IH]; simpl; intro H; auto.
  destruct (key_matches fd k) eqn:E; simpl in H; try discriminate.
  rewrite (IH H). reflexivity.
Qed.

Lemma count0_assoc (fd : field) (m : list (str * json)) :
  count_matches fd m = 0%nat -> assoc (f_wire fd) m = None /\ assoc (f_py fd) m = None.
Proof.
  unfold count_matches. induction m as [|[k v] m IH]; simpl; intro H; auto.
  destruct (key_matches fd k) eqn:E; simpl in H; try discriminate.
  unfold key_matches in E. apply orb_false_iff in E. destruct E as [E1 E2].
  rewrite str_eqb_sym in E1. rewrite str_eqb_sym in E2. rewrite E1, E2. auto.
Qed.

Lemma lookup_unique (fd : field) m :
  (count_matches fd m <= 1)%nat -> lookup_fb fd m = lookup_ref fd m.
Proof.
  unfold lookup_fb, lookup_ref. induction m as [|[k v] m IH]; simpl; intro H; auto.
  unfold count_matches in H. simpl in H.
  destruct (key_matches fd k) eqn:E; simpl in H.
  - assert (H0 : count_matches fd m = 0%nat) by (unfold count_matches; lia).
    rewrite (count0_find_last _ _ H0). simpl.
    destruct (count0_assoc _ _ H0) as [A1 A2].
    unfold key_matches in E.
    destruct (str_eqb k (f_wire fd)) eqn:E1.
    + rewrite str_eqb_sym, E1. reflexivity.
    + rewrite str_eqb_sym, E1. rewrite A1. simpl in E. rewrite str_eqb_sym, E. reflexivity.
  - fold (count_matches fd m) in H. specialize (IH H).
    unfold key_matches in E. apply orb_false_iff in E. destruct E as [E1 E2].
    rewrite (str_eqb_sym (f_wire fd) k), E1. rewrite (str_eqb_sym (f_py fd) k), E2.
    destruct (find_last (fun kv : str * json => key_matches fd (fst kv)) m) eqn:F; simpl in *; auto.
Qed.

(** * Defaults *)
Lemma default_stable_ok t dv :
  default_stable t dv = true -> fb_default patched t dv = Some dv.
Proof.
  unfold default_stable, fb_default. destruct dv as [dj| | |]; auto.
  destruct (is_null dj) eqn:N.
  - destruct dj; try discriminate. destruct t; intro; try discriminate; reflexivity.
  - destruct (strip_opt t); destruct dj; simpl; intro H; try discriminate; try reflexivity;
      try (rewrite H; reflexivity).
Qed.

(** * Schema table *)
Lemma find_schema_in n SS s : find_schema n SS = Some s -> In s SS.
Proof.
  induction SS as [|x SS IH]; simpl; intro H; try discriminate.
  destruct (str_eqb n (s_name x)); [inversion H; auto | auto].
Qed.

Lemma wf_find SS n s : wf_schemas SS = true -> find_schema n SS = Some s -> wf_schema s = true.
Proof.
  unfold wf_schemas. intros H F. apply andb_true_iff in H. destruct H as [H _].
  rewrite forallb_forall in H. apply H. eapply find_schema_in; eauto.
Qed.

Lemma wf_field s fd : wf_schema s = true -> In fd (s_fields s) ->
  wf_ty (f_ty fd) = true
  /\ (forall dv, f_default fd = Some dv -> default_stable (f_ty fd) dv = true).
Proof.
  unfold wf_schema. intros H Hin.
  repeat (apply andb_true_iff in H; destruct H as [H ?]).
  rewrite forallb_forall in H. specialize (H fd Hin).
  repeat (apply andb_true_iff in H; destruct H as [H ?]).
  split; auto. intros dv E. rewrite E in *. assumption.
Qed.

(** * The variant rule: a ruled-out member cannot be constructed by the fallback *)
Lemma field_rejects_fb SS f m fd :
  field_rejects fd m = true -> fb_field patched (fb patched SS f) m fd = None.
Proof.
  unfold field_rejects, fb_field. destruct (lookup_fb fd m) as [v|].
  - destruct (f_ty fd) eqn:T; try discriminate. intro H.
    destruct f as [|f]; simpl; auto.
    destruct (is_null v); auto. simpl.
    apply negb_true_iff in H. rewrite H. reflexivity.
  - destruct (f_default fd); [discriminate | reflexivity].
Qed.

Lemma quick_reject_fb SS f t j :
  is_model_ty t = true -> quick_reject SS t j = true -> fb patched SS f t j = None.
Proof.
  destruct t; try discriminate. intros _ H.
  destruct f as [|f]; simpl; auto.
  destruct (is_null j) eqn:N; auto.
  unfold quick_reject in H.
  destruct j; try (destruct (find_schema n SS); reflexivity).
  destruct (find_schema n SS) as [s|]; auto.
  apply existsb_exists in H. destruct H as (fd & Hin & Hr).
  rewrite (mapM_none _ _ fd Hin (field_rejects_fb SS f m fd Hr)). reflexivity.
Qed.

Lemma models_no_exact ts j : forallb is_model_ty ts = true -> existsb (fun t' => exact_prim t' j) ts = false.
Proof.
  induction ts as [|t ts IH]; simpl; intro H; auto.
  apply andb_true_iff in H. destruct H as [H1 H2]. rewrite (IH H2).
  destruct t; try discriminate. reflexivity.
Qed.

Lemma ref_any SS f x : ref_validate SS f TAny x = VJ x.
Proof. destruct f; reflexivity. Qed.

Lemma lits_str j vs : forallb is_jstr vs = true -> mem_json j vs = true -> is_jstr j = true.
Proof.
  induction vs as [|v vs IH]; simpl; intros H M; try discriminate.
  apply andb_true_iff in H. destruct H as [H1 H2].
  apply orb_true_iff in M. destruct M as [M|M]; auto.
  apply json_eqb_eq in M. subst. assumption.
Qed.

Lemma lits_nonnull j vs : forallb (fun v => negb (is_null v)) vs = true -> mem_json j vs = true -> is_null j = false.
Proof.
  induction vs as [|v vs IH]; simpl; intros H M; try discriminate.
  apply andb_true_iff in H. destruct H as [H1 H2].
  apply orb_true_iff in M. destruct M as [M|M]; auto.
  apply json_eqb_eq in M. subst. apply negb_true_iff. assumption.
Qed.

Lemma prim_union_exact SS f ts j :
  forallb is_model_ty ts = false ->
  wf_ty (TUnion ts) = true ->
  existsb (fun t' => accepts true true SS f t' j) ts = true ->
  is_null j = false /\ existsb (fun t' => exact_prim t' j) ts = true.
Proof.
  intros NM W E. simpl in W. rewrite NM in W. simpl in W.
  apply existsb_exists in E. destruct E as (t' & Hin & A).
  rewrite forallb_forall in W. specialize (W t' Hin).
  destruct f as [|f]; [discriminate|].
  destruct t'; try discriminate; simpl in A.
  - destruct j; try discriminate. split; auto. apply existsb_exists. exists TStr. auto.
  - destruct j; try discriminate. split; auto. apply existsb_exists. exists TInt. auto.
  - destruct j; try discriminate. split; auto. apply existsb_exists. exists TBool. auto.
  - apply andb_true_iff in W. destruct W as [W1 W2].
    pose proof (lits_str _ _ W1 A) as HS. destruct j; try discriminate. split; [reflexivity|].
    apply existsb_exists in W2. destruct W2 as (u & Hu & Eu). destruct u; try discriminate.
    apply existsb_exists. exists TStr. auto.
Qed.

Lemma fb_S px SS f t j :
  fb px SS (S f) t j =
  if is_null j then (match t with TOpt _ => Some (VJ JNull) | _ => None end)
  else match t with
       | TOpt t' =>
            match t', px_opt_union px with
            | TUnion (a :: rest), false =>
                match a, j with
                | TInt, JStr s =>
                    if is_int_str_union (a :: rest) then
                      match int_of_digit_string s with
                      | Some z => Some (VJ (JInt z))
                      | None => Some (VJ j)
                      end
                    else fb px SS f a j
                | _, _ => fb px SS f a j
                end
            | _, _ => fb px SS f t' j
            end
       | TUnion ts =>
            if px_exact_first px && existsb (fun t' => exact_prim t' j) ts then Some (VJ j)
            else first_some (fun t' => fb px SS f t' j) ts
       | TList t' =>
            match j with
            | JArr l => option_map VArr (mapM (fb_item (fb px SS f) t') l)
            | _ => None
            end
       | TDict t' =>
            match j with
            | JObj m => option_map VMap
                          (mapM (fun kv => option_map (pair (fst kv)) (fb_item (fb px SS f) t' (snd kv))) m)
            | _ => None
            end
       | TModel n =>
            match find_schema n SS, j with
            | Some s, JObj m =>
                match mapM (fb_field px (fb px SS f) m) (s_fields s) with
                | Some ents =>
                    if hook_ok (s_hook s) ents
                    then Some (VModel n (ents ++ extras (s_fields s) m))
                    else None
                | None => None
                end
            | _, _ => None
            end
       | _ => fb_prim px t j
       end.
Proof. reflexivity. Qed.

Lemma fb_opt_patched SS f t' j :
  match t', px_opt_union patched with
  | TUnion (a :: rest), false =>
      match a, j with
      | TInt, JStr s =>
          if is_int_str_union (a :: rest) then
            match int_of_digit_string s with
            | Some z => Some (VJ (JInt z))
            | None => Some (VJ j)
            end
          else fb patched SS f a j
      | _, _ => fb patched SS f a j
      end
  | _, _ => fb patched SS f t' j
  end = fb patched SS f t' j.
Proof. destruct t'; try reflexivity. destruct ts; reflexivity. Qed.

Lemma item_agree SS f t' x
  (IH : forall t j, wf_ty t = true -> accepts true true SS f t j = true ->
                    fb patched SS f t j = Some (ref_validate SS f t j)) :
  wf_ty t' = true -> acc_item (accepts true true SS f) t' x = true ->
  fb_item (fb patched SS f) t' x = Some (ref_validate SS f t' x).
Proof.
  intros W A. destruct t'; try (apply IH; assumption).
  simpl. rewrite ref_any. reflexivity.
Qed.

Lemma field_agree SS f m fd
  (IH : forall t j, wf_ty t = true -> accepts true true SS f t j = true ->
                    fb patched SS f t j = Some (ref_validate SS f t j)) :
  wf_ty (f_ty fd) = true ->
  (forall dv, f_default fd = Some dv -> default_stable (f_ty fd) dv = true) ->
  field_ok (accepts true true SS f) m fd = true ->
  fb_field patched (fb patched SS f) m fd = Some (ref_field (ref_validate SS f) m fd).
Proof.
  intros W D F. unfold field_ok in F. apply andb_true_iff in F. destruct F as [F1 F2].
  apply Nat.leb_le in F1. unfold fb_field, ref_field. rewrite (lookup_unique _ _ F1).
  destruct (lookup_ref fd m) as [v|].
  - rewrite (IH _ _ W F2). reflexivity.
  - destruct (f_default fd) as [dv|]; try discriminate.
    rewrite (default_stable_ok _ _ (D dv eq_refl)). reflexivity.
Qed.

Theorem agree_gen SS : wf_schemas SS = true ->
  forall fuel t j, wf_ty t = true -> conforms SS fuel t j = true ->
  fb patched SS fuel t j = Some (ref_validate SS fuel t j).
Proof.
  intro WF. unfold conforms. induction fuel as [|f IH]; intros t j Wt C; [discriminate|].
  rewrite fb_S. destruct t.
  - (* TStr *) simpl in C. destruct j; try discriminate. reflexivity.
  - (* TInt *) simpl in C. destruct j; try discriminate. reflexivity.
  - (* TFloat *) simpl in C. destruct j; try discriminate; reflexivity.
  - (* TBool *) simpl in C. destruct j; try discriminate. reflexivity.
  - (* TAny *) simpl in C. apply negb_true_iff in C. rewrite C. reflexivity.
  - (* TFloatRange *) simpl in C. destruct j; try discriminate; reflexivity.
  - (* TOpt *)
    simpl in C. simpl in Wt. apply andb_true_iff in Wt. destruct Wt as [Wt _].
    destruct (is_null j) eqn:N.
    + destruct j; try discriminate. reflexivity.
    + simpl in C. rewrite fb_opt_patched. simpl. rewrite N. apply IH; assumption.
  - (* TUnion *)
    simpl in C. simpl (ref_validate _ _ _ _).
    destruct (forallb is_model_ty ts) eqn:M.
    + destruct (find (fun t' => negb (quick_reject SS t' j)) ts) as [t'|] eqn:F; try discriminate.
      destruct (find_some_split _ _ _ F) as (l1 & l2 & E & Hq & Hl1).
      assert (Hin : In t' ts) by (rewrite E; apply in_or_app; right; left; reflexivity).
      rewrite forallb_forall in M.
      assert (N : is_null j = false).
      { pose proof (M _ Hin) as Mt. destruct t'; try discriminate. apply negb_true_iff in Hq.
        destruct j; try reflexivity. simpl in Hq. discriminate. }
      rewrite N. rewrite models_no_exact by (apply forallb_forall; exact M).
      rewrite andb_false_r. rewrite E. apply first_some_app.
      * intros y Hy. apply quick_reject_fb.
        -- apply M. rewrite E. apply in_or_app. left. exact Hy.
        -- specialize (Hl1 y Hy). apply negb_false_iff in Hl1. exact Hl1.
      * apply IH; auto. pose proof (M _ Hin) as Mt. destruct t'; try discriminate. reflexivity.
    + destruct (prim_union_exact SS f ts j M Wt C) as [N X]. rewrite N, X. reflexivity.
  - (* TList *)
    simpl in C. simpl in Wt. destruct j; try discriminate. simpl.
    rewrite (mapM_ext_some _ (ref_validate SS f t)); [reflexivity|].
    intros x Hx. rewrite forallb_forall in C. apply item_agree; auto.
  - (* TDict *)
    simpl in C. simpl in Wt. destruct j; try discriminate. simpl.
    rewrite (mapM_ext_some _ (fun kv => (fst kv, ref_validate SS f t (snd kv)))); [reflexivity|].
    intros kv Hkv. rewrite forallb_forall in C. rewrite (item_agree SS f t (snd kv) IH Wt (C kv Hkv)). reflexivity.
  - (* TLit *)
    simpl in C. simpl in Wt. rewrite (lits_nonnull _ _ Wt C). simpl. rewrite C. reflexivity.
  - (* TModel *)
    simpl in C. simpl (ref_validate _ _ _ _).
    destruct (find_schema n SS) as [s|] eqn:FS; try discriminate.
    destruct j; try discriminate. simpl (is_null _).
    repeat (apply andb_true_iff in C; destruct C as [C ?]).
    pose proof (wf_find _ _ _ WF FS) as Ws.
    rewrite (mapM_ext_some _ (ref_field (ref_validate SS f) m)).
    + assert (HR : hook_runs true s = true) by (unfold hook_runs; destruct (s_hook_kind s); reflexivity).
      rewrite HR in *. match goal with H : hook_ok _ _ = true |- _ => rewrite H end. reflexivity.
    + intros fd Hfd. rewrite forallb_forall in C. destruct (wf_field _ _ Ws Hfd) as [W1 W2].
      apply field_agree; auto.
Qed.

(** * Corollaries for C09 *)
Lemma agree_dump SS : wf_schemas SS = true ->
  forall fuel t j, wf_ty t = true -> conforms SS fuel t j = true ->
  fallback_validate SS fuel t j = Some (ref_validate SS fuel t j)
  /\ option_map (dump_by_alias SS) (fallback_validate SS fuel t j) = Some (dump_by_alias SS (ref_validate SS fuel t j)).
Proof.
  intros WF fuel t j W C. unfold fallback_validate. rewrite (agree_gen SS WF fuel t j W C). auto.
Qed.

Definition t_id : ty := TUnion [TInt; TStr].

Lemma id_kept SS : wf_schemas SS = true ->
  forall fuel j, conforms SS fuel t_id j = true \/ conforms SS fuel (TOpt t_id) j = true ->
  (fallback_validate SS fuel t_id j = Some (VJ j) \/ fallback_validate SS fuel (TOpt t_id) j = Some (VJ j)).
Proof.
  intros WF fuel j [C|C].
  - left. unfold fallback_validate. rewrite (agree_gen SS WF fuel t_id j eq_refl C).
    destruct fuel; reflexivity.
  - right. unfold fallback_validate. rewrite (agree_gen SS WF fuel (TOpt t_id) j eq_refl C).
    destruct fuel as [|[|f]]; try reflexivity; simpl; destruct j; reflexivity.
Qed.

Lemma id_type_preserved SS : wf_schemas SS = true ->
  forall fuel j, conforms SS fuel t_id j = true ->
  fallback_validate SS fuel t_id j = Some (VJ j)
  /\ ref_validate SS fuel t_id j = VJ j
  /\ dump_by_alias SS (VJ j) = j
  /\ ((exists z, j = JInt z) \/ (exists s, j = JStr s)).
Proof.
  intros WF fuel j C.
  destruct fuel as [|f]; [discriminate|].
  assert (R : ref_validate SS (S f) t_id j = VJ j) by reflexivity.
  pose proof (agree_gen SS WF (S f) t_id j eq_refl C) as A. rewrite R in A.
  unfold conforms in C. simpl in C. destruct f as [|f]; [discriminate|]. simpl in C.
  repeat split; auto.
  destruct j; try discriminate; eauto.
Qed.

Lemma variant_preserved SS : wf_schemas SS = true ->
  forall fuel ts j, forallb is_model_ty ts = true -> conforms SS fuel (TUnion ts) j = true ->
  exists n fs, find (fun t' => negb (quick_reject SS t' j)) ts = Some (TModel n)
               /\ fallback_validate SS fuel (TUnion ts) j = Some (VModel n fs)
               /\ ref_validate SS fuel (TUnion ts) j = VModel n fs.
Proof.
  intros WF fuel ts j M C.
  assert (W : wf_ty (TUnion ts) = true) by (simpl; rewrite M; reflexivity).
  pose proof (agree_gen SS WF fuel (TUnion ts) j W C) as A.
  unfold fallback_validate. rewrite A. clear A.
  destruct fuel as [|f]; [discriminate|].
  unfold conforms in C. simpl in C. simpl. rewrite M in *.
  destruct (find (fun t' => negb (quick_reject SS t' j)) ts) as [t'|] eqn:F; try discriminate.
  destruct (find_some_split _ _ _ F) as (l1 & l2 & E & _ & _).
  rewrite forallb_forall in M.
  assert (Mt : is_model_ty t' = true) by (apply M; rewrite E; apply in_or_app; right; left; reflexivity).
  destruct t'; try discriminate.
  destruct f as [|f]; [discriminate|]. simpl in C. simpl.
  destruct (find_schema n SS) as [s|]; try discriminate. destruct j; try discriminate.
  eexists. eexists. repeat split.
Qed.

(** * Invariants: which back end enforces what *)
Fixpoint has_range (t : ty) : bool :=
  match t with
  | TFloatRange _ _ => true
  | TOpt t' | TList t' | TDict t' => has_range t'
  | TUnion ts => existsb has_range ts
  | _ => false
  end.

Definition invariants_symmetric (SS : list schema) : bool :=
  forallb (fun s => (match s_hook s with HNone => true | _ => match s_hook_kind s with KModelPostInit => true | KPostInit => false end end)
                    && negb (existsb (fun fd => has_range (f_ty fd)) (s_fields s))) SS.

Lemma model_post_init_both s pi : s_hook_kind s = KModelPostInit -> hook_runs pi s = true.
Proof. unfold hook_runs. intros ->. reflexivity. Qed.

(** Reference codec round trip, part 4: values.

    [pval n (render p v ++ rest) = Some (v, rest)] for every well-formed value,
    every policy, every fuel [n >= size v] and every continuation [rest] that
    does not start with a number character; the top-level entry point
    [ref_parse] supplies [S (length text)] which is enough; and the byte-level
    statement [ref_decode (ref_encode p v) = Some v]. *)
From Coq Require Import Lia ZifyBool.
From Verif.Base Require Import Prelude JsonVal.
From Verif.Model Require Import JsonEnc.
From Verif.Proofs Require Import JsonVal JsonEncRoundUtf8 JsonEncRoundInt JsonEncRoundStr.
Open Scope Z_scope.

(** a character a rendered value can start with *)
Definition is_val_start (c : Z) : bool :=
  (c =? 110) || (c =? 116) || (c =? 102) || (c =? 34) || (c =? 91) || (c =? 123) || is_num_char c.

Lemma num_char_val_start c : is_num_char c = true -> is_val_start c = true.
Proof. intros H. unfold is_val_start. rewrite H. repeat rewrite orb_true_r. reflexivity. Qed.

Lemma val_start_not_ws c : is_val_start c = true -> is_ws c = false.
Proof. unfold is_val_start, is_num_char, is_digit, is_ws. lia. Qed.

Lemma val_start_not_close c : is_val_start c = true -> c <> 93 /\ c <> 125.
Proof. unfold is_val_start, is_num_char, is_digit. lia. Qed.

(** number of fuel units the list part of a container needs *)
Definition sumS {F} (l : list (json F)) : nat := fold_right (fun x acc => S (size x) + acc)%nat O l.
Definition sumM {F} (m : list (str * json F)) : nat :=
  fold_right (fun kv acc => S (size (snd kv)) + acc)%nat O m.

Lemma size_arr {F} (l : list (json F)) : size (JArr l) = S (sumS l).
Proof. reflexivity. Qed.
Lemma size_obj {F} (m : list (str * json F)) : size (JObj m) = S (sumM m).
Proof. reflexivity. Qed.

Section Round.
  Variable F : Type.
  Variable ftext : F -> str.
  Variable fparse : str -> option F.
  Variable p : policy.

  Notation render := (render ftext p).
  Notation pval := (pval fparse).
  Notation parr := (parr fparse).
  Notation pobj := (pobj fparse).
  Notation wf := (wf_value ftext fparse).
  Notation rstr := (render_string (pol_ascii p)).

  Definition item (x : json F) : str := item_sep p ++ render x.
  Definition member (kv : str * json F) : str :=
    item_sep p ++ rstr (fst kv) ++ key_sep p ++ render (snd kv).

  Lemma render_arr_cons v0 l :
    render (JArr (v0 :: l)) = 91 :: render v0 ++ flat_map item l ++ [93].
  Proof. reflexivity. Qed.

  Lemma render_obj_cons k0 v0 m :
    render (JObj ((k0, v0) :: m)) =
    123 :: rstr k0 ++ key_sep p ++ render v0 ++ flat_map member m ++ [125].
  Proof. reflexivity. Qed.

  Lemma wf_arr_cons v0 l : wf (JArr (v0 :: l)) <-> wf v0 /\ wf (JArr l).
  Proof. reflexivity. Qed.

  Lemma wf_obj_cons k0 v0 m :
    wf (JObj ((k0, v0) :: m)) <-> (wf_str k0 /\ wf v0) /\ wf (JObj m).
  Proof. reflexivity. Qed.

  (** ** one-step unfoldings of the parser *)

  Lemma pval_ws n s : pval n (32 :: s) = pval n s.
  Proof. destruct n; reflexivity. Qed.

  Lemma pval_num n c r : is_num_char c = true -> pval (S n) (c :: r) = pnumber fparse (c :: r).
  Proof.
    intros H. cbn [JsonEnc.pval skip_ws].
    replace (is_ws c) with false by (unfold is_ws, is_num_char, is_digit in *; lia).
    replace (c =? 110) with false by (unfold is_num_char, is_digit in *; lia).
    replace (c =? 116) with false by (unfold is_num_char, is_digit in *; lia).
    replace (c =? 102) with false by (unfold is_num_char, is_digit in *; lia).
    replace (c =? 34) with false by (unfold is_num_char, is_digit in *; lia).
    replace (c =? 91) with false by (unfold is_num_char, is_digit in *; lia).
    replace (c =? 123) with false by (unfold is_num_char, is_digit in *; lia).
    rewrite H. reflexivity.
  Qed.

  Lemma pval_str n r :
    pval (S n) (34 :: r) =
    match pstr None r with Some (x, r') => Some (JStr x, r') | None => None end.
  Proof. reflexivity. Qed.

  Lemma pval_arr n c t :
    is_val_start c = true ->
    pval (S n) (91 :: c :: t) =
    match pval n (c :: t) with
    | Some (v, r1) => match parr n r1 with
                      | Some (l, r2) => Some (JArr (v :: l), r2)
                      | None => None
                      end
    | None => None
    end.
  Proof.
    intros H. pose proof (val_start_not_ws c H) as Hw.
    destruct (val_start_not_close c H) as [H93 _].
    cbn [JsonEnc.pval skip_ws]. change (is_ws 91) with false. cbv iota.
    change (91 =? 110) with false. change (91 =? 116) with false. change (91 =? 102) with false.
    change (91 =? 34) with false. change (91 =? 91) with true. cbv iota.
    cbn [skip_ws]. rewrite Hw. replace (c =? 93) with false by lia. reflexivity.
  Qed.

  Lemma pval_obj n t :
    pval (S n) (123 :: 34 :: t) =
    match pkey (34 :: t) with
    | Some (k, r1) =>
        match pval n r1 with
        | Some (v, r2) => match pobj n r2 with
                          | Some (m, r3) => Some (JObj ((k, v) :: m), r3)
                          | None => None
                          end
        | None => None
        end
    | None => None
    end.
  Proof. reflexivity. Qed.

  Lemma parr_sep n s :
    parr (S n) (item_sep p ++ s) =
    match pval n s with
    | Some (v, r1) => match parr n r1 with
                      | Some (l, r2) => Some (v :: l, r2)
                      | None => None
                      end
    | None => None
    end.
  Proof.
    unfold item_sep. destruct (pol_spaced p).
    - cbn [app]. rewrite <- (pval_ws n s). reflexivity.
    - reflexivity.
  Qed.

  Lemma pobj_sep n s :
    pobj (S n) (item_sep p ++ s) =
    match pkey s with
    | Some (k, r1) =>
        match pval n r1 with
        | Some (v, r2) => match pobj n r2 with
                          | Some (m, r3) => Some ((k, v) :: m, r3)
                          | None => None
                          end
        | None => None
        end
    | None => None
    end.
  Proof. unfold item_sep. destruct (pol_spaced p); reflexivity. Qed.

  (** a rendered key and its separator: [pkey] returns the key and a text that
      [pval] reads like what follows the separator *)
  Lemma pkey_render k s :
    wf_str k ->
    exists s', pkey (rstr k ++ key_sep p ++ s) = Some (k, s') /\ forall n, pval n s' = pval n s.
  Proof.
    intros Hk.
    destruct (pstr_render_string (pol_ascii p) k (key_sep p ++ s) Hk) as [body [Hb Hp]].
    rewrite Hb. unfold pkey. cbn [skip_ws]. change (is_ws 34) with false. cbv iota.
    change (34 =? 34) with true. cbv iota. rewrite Hp.
    unfold key_sep. destruct (pol_spaced p).
    - exists (32 :: s). split; [reflexivity | intros n; apply pval_ws].
    - exists s. split; [reflexivity | reflexivity].
  Qed.

  (** ** what a rendered value starts with *)

  Lemma render_head v : wf v -> exists c t, render v = c :: t /\ is_val_start c = true.
  Proof.
    destruct v as [|b|z|f|s|l|m]; intros Hwf.
    - eexists _, _. split; reflexivity.
    - destruct b; eexists _, _; split; reflexivity.
    - destruct (int_chars_head z) as [c [t [Hc Hn]]]. exists c, t.
      split; [exact Hc | apply num_char_val_start; assumption].
    - destruct Hwf as [Hok _]. destruct (float_text_head _ Hok) as [c [t [Hc Hn]]]. exists c, t.
      split; [exact Hc | apply num_char_val_start; assumption].
    - eexists _, _. split; reflexivity.
    - destruct l; eexists _, _; split; reflexivity.
    - destruct m as [|[k0 v0] m]; eexists _, _; split; reflexivity.
  Qed.

  Lemma no_num_head_items l rest : no_num_head (flat_map item l ++ 93 :: rest).
  Proof.
    destruct l as [|x l]; [reflexivity|]. cbn [flat_map]. unfold item at 1, item_sep.
    destruct (pol_spaced p); reflexivity.
  Qed.

  Lemma no_num_head_members m rest : no_num_head (flat_map member m ++ 125 :: rest).
  Proof.
    destruct m as [|x m]; [reflexivity|]. cbn [flat_map]. unfold member at 1, item_sep.
    destruct (pol_spaced p); reflexivity.
  Qed.

  (** ** the round trip, continuation-passing, with explicit fuel *)

  Definition RT (v : json F) : Prop :=
    wf v -> forall n rest, (size v <= n)%nat -> no_num_head rest ->
    pval n (render v ++ rest) = Some (v, rest).

  Lemma parr_items l : Forall RT l -> wf (JArr l) -> forall n rest,
    (S (sumS l) <= n)%nat ->
    parr n (flat_map item l ++ 93 :: rest) = Some (l, rest).
  Proof.
    induction 1 as [|x l Hx Hl IH]; intros Hwf n rest Hn.
    - destruct n; [lia|]. reflexivity.
    - apply wf_arr_cons in Hwf. destruct Hwf as [Hwx Hwl].
      destruct n as [|n]; [lia|]. unfold sumS in Hn. cbn [fold_right] in Hn. fold (sumS l) in Hn.
      cbn [flat_map]. unfold item at 1. rewrite <- !app_assoc. rewrite parr_sep.
      rewrite (Hx Hwx n _ ltac:(lia) (no_num_head_items l rest)).
      rewrite (IH Hwl n rest ltac:(lia)). reflexivity.
  Qed.

  Lemma pobj_members m : Forall (fun kv => RT (snd kv)) m -> wf (JObj m) -> forall n rest,
    (S (sumM m) <= n)%nat ->
    pobj n (flat_map member m ++ 125 :: rest) = Some (m, rest).
  Proof.
    induction 1 as [|[k x] m Hx Hm IH]; intros Hwf n rest Hn.
    - destruct n; [lia|]. reflexivity.
    - apply wf_obj_cons in Hwf. destruct Hwf as [[Hwk Hwx] Hwm]. cbn [snd] in Hx.
      destruct n as [|n]; [lia|]. unfold sumM in Hn. cbn [fold_right snd] in Hn. fold (sumM m) in Hn.
      cbn [flat_map]. unfold member at 1. cbn [fst snd]. rewrite <- !app_assoc. rewrite pobj_sep.
      destruct (pkey_render k (render x ++ flat_map member m ++ 125 :: rest) Hwk) as [s' [Hk Hs']].
      rewrite Hk, Hs'.
      rewrite (Hx Hwx n _ ltac:(lia) (no_num_head_members m rest)).
      rewrite (IH Hwm n rest ltac:(lia)). reflexivity.
  Qed.

  Theorem pval_render : forall v, RT v.
  Proof.
    induction v using json_ind'; intros Hwf n rest Hn Hrest.
    - destruct n; [simpl in Hn; lia|]. reflexivity.
    - destruct n; [simpl in Hn; lia|]. destruct b; reflexivity.
    - destruct n; [simpl in Hn; lia|]. cbn [JsonEnc.render].
      destruct (int_chars_head z) as [c [t [Hc Hnc]]].
      pose proof (int_of_tok_int_chars z) as Hi. pose proof (int_chars_num_chars z) as Ha.
      rewrite Hc in *. cbn [app]. rewrite pval_num by assumption.
      unfold pnumber. change (c :: t ++ rest) with ((c :: t) ++ rest).
      rewrite span_num_app by assumption. rewrite Hi. reflexivity.
    - destruct n; [simpl in Hn; lia|]. cbn [JsonEnc.render].
      destruct Hwf as [Hok Hfp].
      destruct (float_text_head _ Hok) as [c [t [Hc Hnc]]].
      pose proof (int_of_tok_float _ Hok) as Hi.
      assert (Ha : forallb is_num_char (ftext f) = true)
        by (unfold float_text_ok in Hok; apply andb_true_iff in Hok; tauto).
      rewrite Hc in *. cbn [app]. rewrite pval_num by assumption.
      unfold pnumber. change (c :: t ++ rest) with ((c :: t) ++ rest).
      rewrite span_num_app by assumption. rewrite Hi, Hok, Hfp. reflexivity.
    - destruct n; [simpl in Hn; lia|]. cbn [JsonEnc.render].
      destruct (pstr_render_string (pol_ascii p) s rest Hwf) as [body [Hb Hp]].
      rewrite Hb, pval_str, Hp. reflexivity.
    - destruct l as [|v0 l].
      + destruct n; [simpl in Hn; lia|]. reflexivity.
      + rewrite size_arr in Hn. unfold sumS in Hn. cbn [fold_right] in Hn. fold (sumS l) in Hn.
        destruct n as [|n]; [lia|].
        apply wf_arr_cons in Hwf. destruct Hwf as [Hw0 Hwl].
        inversion H as [|? ? H0 Hl]; subst.
        rewrite render_arr_cons. cbn [app]. rewrite <- !app_assoc. cbn [app].
        destruct (render_head v0 Hw0) as [c [t [Hc Hs]]].
        pose proof (H0 Hw0 n (flat_map item l ++ 93 :: rest) ltac:(lia) (no_num_head_items l rest)) as E0.
        rewrite Hc in *. cbn [app] in *. rewrite pval_arr by assumption. rewrite E0.
        rewrite (parr_items l Hl Hwl n rest ltac:(lia)). reflexivity.
    - destruct m as [|[k0 v0] m].
      + destruct n; [simpl in Hn; lia|]. reflexivity.
      + rewrite size_obj in Hn. unfold sumM in Hn. cbn [fold_right snd] in Hn. fold (sumM m) in Hn.
        destruct n as [|n]; [lia|].
        apply wf_obj_cons in Hwf. destruct Hwf as [[Hwk Hw0] Hwm].
        inversion H as [|? ? H0 Hm]; subst. cbn [snd] in H0.
        rewrite render_obj_cons. cbn [app]. rewrite <- !app_assoc. cbn [app].
        destruct (pkey_render k0 (render v0 ++ flat_map member m ++ 125 :: rest) Hwk) as [s' [Hk Hs']].
        destruct (pstr_render_string (pol_ascii p) k0
                    (key_sep p ++ render v0 ++ flat_map member m ++ 125 :: rest) Hwk) as [body [Hb _]].
        rewrite Hb in *. rewrite pval_obj, Hk, Hs'.
        rewrite (H0 Hw0 n _ ltac:(lia) (no_num_head_members m rest)).
        rewrite (pobj_members m Hm Hwm n rest ltac:(lia)). reflexivity.
  Qed.

  (** ** the top-level entry point supplies enough fuel *)

  Lemma length_items l : Forall (fun v => wf v -> (size v <= length (render v))%nat) l ->
    wf (JArr l) -> (sumS l <= length (flat_map item l))%nat.
  Proof.
    induction 1 as [|x l Hx Hl IH]; intros Hwf; [simpl; lia|].
    apply wf_arr_cons in Hwf. destruct Hwf as [Hwx Hwl].
    unfold sumS. cbn [fold_right flat_map]. fold (sumS l).
    specialize (Hx Hwx). specialize (IH Hwl).
    unfold item at 1. rewrite !app_length.
    assert (1 <= length (item_sep p))%nat by (unfold item_sep; destruct (pol_spaced p); simpl; lia).
    lia.
  Qed.

  Lemma length_members m :
    Forall (fun kv => wf (snd kv) -> (size (snd kv) <= length (render (snd kv)))%nat) m ->
    wf (JObj m) -> (sumM m <= length (flat_map member m))%nat.
  Proof.
    induction 1 as [|[k x] m Hx Hm IH]; intros Hwf; [simpl; lia|].
    apply wf_obj_cons in Hwf. destruct Hwf as [[Hwk Hwx] Hwm]. cbn [snd] in Hx.
    unfold sumM. cbn [fold_right flat_map snd]. fold (sumM m).
    specialize (Hx Hwx). specialize (IH Hwm).
    unfold member at 1. cbn [fst snd]. rewrite !app_length.
    assert (1 <= length (item_sep p))%nat by (unfold item_sep; destruct (pol_spaced p); simpl; lia).
    lia.
  Qed.

  Theorem size_le_length : forall v, wf v -> (size v <= length (render v))%nat.
  Proof.
    induction v using json_ind'; intros Hwf.
    - simpl; lia.
    - destruct b; simpl; lia.
    - cbn [JsonEnc.render size]. destruct (int_chars_head z) as [c [t [Hc _]]]. rewrite Hc. simpl; lia.
    - cbn [JsonEnc.render size]. destruct Hwf as [Hok _].
      destruct (float_text_head _ Hok) as [c [t [Hc _]]]. rewrite Hc. simpl; lia.
    - cbn [JsonEnc.render size]. unfold render_string. simpl; lia.
    - destruct l as [|v0 l]; [simpl; lia|].
      rewrite size_arr. unfold sumS. cbn [fold_right]. fold (sumS l).
      apply wf_arr_cons in Hwf. destruct Hwf as [Hw0 Hwl].
      inversion H as [|? ? H0 Hl]; subst.
      rewrite render_arr_cons. cbn [length]. rewrite !app_length. cbn [length].
      specialize (H0 Hw0). pose proof (length_items l Hl Hwl). lia.
    - destruct m as [|[k0 v0] m]; [simpl; lia|].
      rewrite size_obj. unfold sumM. cbn [fold_right snd]. fold (sumM m).
      apply wf_obj_cons in Hwf. destruct Hwf as [[Hwk Hw0] Hwm].
      inversion H as [|? ? H0 Hm]; subst. cbn [snd] in H0.
      rewrite render_obj_cons. cbn [length]. rewrite !app_length. cbn [length].
      specialize (H0 Hw0). pose proof (length_members m Hm Hwm).
      assert (1 <= length (rstr k0))%nat by (unfold render_string; simpl; lia).
      lia.
  Qed.

  (** (R) text level *)
  Theorem ref_parse_render v : wf v -> ref_parse fparse (render v) = Some v.
  Proof.
    intros Hwf. unfold ref_parse.
    pose proof (pval_render v Hwf (S (length (render v))) []
                  ltac:(pose proof (size_le_length v Hwf); lia) I) as H.
    rewrite app_nil_r in H. rewrite H. reflexivity.
  Qed.

  (** ** every character of the text is a Unicode scalar value *)

  Notation scalars := (Forall (fun c => is_scalar c = true)).

  Lemma num_chars_scalar t : forallb is_num_char t = true -> scalars t.
  Proof.
    induction t as [|c t IH]; [constructor|]. cbn [forallb]. intros H.
    apply andb_true_iff in H. destruct H as [H1 H2]. constructor; [|auto].
    unfold is_num_char, is_digit in H1. unfold is_scalar, is_surrogate. lia.
  Qed.

  Lemma item_sep_scalar : scalars (item_sep p).
  Proof. unfold item_sep. destruct (pol_spaced p); repeat constructor. Qed.

  Lemma key_sep_scalar : scalars (key_sep p).
  Proof. unfold key_sep. destruct (pol_spaced p); repeat constructor. Qed.

  Lemma scalars_flat_map {A} (g : A -> str) (l : list A) :
    Forall (fun x => scalars (g x)) l -> scalars (flat_map g l).
  Proof. induction 1; cbn [flat_map]; [constructor|]. apply Forall_app. split; assumption. Qed.

  Theorem render_scalar : forall v, wf v -> scalars (render v).
  Proof.
    induction v using json_ind'; intros Hwf.
    - repeat constructor.
    - destruct b; repeat constructor.
    - apply num_chars_scalar, int_chars_num_chars.
    - destruct Hwf as [Hok _]. apply num_chars_scalar.
      unfold float_text_ok in Hok. apply andb_true_iff in Hok. tauto.
    - apply render_string_scalar. exact Hwf.
    - destruct l as [|v0 l]; [repeat constructor|].
      apply wf_arr_cons in Hwf. destruct Hwf as [Hw0 Hwl].
      inversion H as [|? ? H0 Hl]; subst. rewrite render_arr_cons.
      constructor; [reflexivity|]. apply Forall_app. split; [auto|].
      apply Forall_app. split; [|repeat constructor].
      apply scalars_flat_map. clear H H0 Hw0 v0.
      induction Hl as [|x l Hx Hl IH]; [constructor|].
      apply wf_arr_cons in Hwl. destruct Hwl as [Hwx Hwl].
      constructor; [|auto]. unfold item. apply Forall_app. split; [apply item_sep_scalar | auto].
    - destruct m as [|[k0 v0] m]; [repeat constructor|].
      apply wf_obj_cons in Hwf. destruct Hwf as [[Hwk Hw0] Hwm].
      inversion H as [|? ? H0 Hm]; subst. cbn [snd] in H0. rewrite render_obj_cons.
      constructor; [reflexivity|].
      apply Forall_app. split; [apply render_string_scalar; exact Hwk|].
      apply Forall_app. split; [apply key_sep_scalar|].
      apply Forall_app. split; [auto|].
      apply Forall_app. split; [|repeat constructor].
      apply scalars_flat_map. clear H H0 Hw0 Hwk v0 k0.
      induction Hm as [|[k x] m Hx Hm IH]; [constructor|].
      apply wf_obj_cons in Hwm. destruct Hwm as [[Hwk Hwx] Hwm]. cbn [snd] in Hx.
      constructor; [|auto]. unfold member. cbn [fst snd].
      apply Forall_app. split; [apply item_sep_scalar|].
      apply Forall_app. split; [apply render_string_scalar; exact Hwk|].
      apply Forall_app. split; [apply key_sep_scalar | auto].
  Qed.

  (** (B) byte level *)
  Theorem ref_decode_encode v : wf v -> ref_decode fparse (ref_encode ftext p v) = Some v.
  Proof.
    intros Hwf. unfold ref_decode, ref_encode.
    rewrite utf8_roundtrip by (apply render_scalar; assumption).
    apply ref_parse_render. assumption.
  Qed.
End Round.
